#!/bin/bash
set -u
# usage: seed_eval.sh <ID> [<seed dir> [<name under /verif/seeded>]]
#   re-evaluation of a stored change: seed_eval.sh C19 /verif/seeded/C19-b C19-b
ID=$1
SRC=${2:-/tmp/wt_$ID/seed}
NAME=${3:-$ID}
CHECKS=$ID
DST=/verif/seeded/$NAME
mkdir -p $DST
if [ "$(readlink -f $SRC)" != "$(readlink -f $DST)" ]; then
  cp $SRC/patch.diff $DST/patch.diff
  cp $SRC/meta.json $DST/meta.json
  rm -rf $DST/demonstration; cp -r $SRC/demo $DST/demonstration
fi
cd /repo
git checkout -q -- . 
if ! git apply --check $DST/patch.diff; then echo "PATCH DOES NOT APPLY" > $DST/eval.txt; exit 1; fi
git apply $DST/patch.diff
{
echo "== cargo test --workspace --offline (patched tree)"
CARGO_NET_OFFLINE=true cargo test --workspace --offline 2>&1 | grep -E "^test result|FAILED|^error" | sort | uniq -c
for c in $CHECKS; do
  echo "== ./check $c --tier quick (patched tree)"
  (cd /verif && ./check $c --tier quick 2>&1 | grep -E "VIOLATION|KNOWN-FINDING|tier=" | head -8
   python3 -c "
import json
e=json.load(open('/verif/evidence/$c.json'))
print('failing check ids (id: cases):', e['coverage'].get('disagreeing_check_ids'))")
done
} > $DST/eval.txt 2>&1
git checkout -q -- .
git status --short | head -3 >> $DST/eval.txt
echo "== done $ID" >> $DST/eval.txt
