#!/bin/bash
# usage: seed_recheck.sh <ID> <name under /verif/seeded>
# re-runs the registered check on the patched tree only (the suite result is in eval.txt) and
# writes the verdict to seeded/<name>/recheck.txt
set -u
ID=$1
NAME=$2
DST=/verif/seeded/$NAME
cd /repo
git checkout -q -- .
if ! git apply --check $DST/patch.diff; then echo "PATCH DOES NOT APPLY" > $DST/recheck.txt; exit 1; fi
git apply $DST/patch.diff
{
  echo "== ./check $ID --tier quick (patched tree, /repo at $(git rev-parse --short HEAD))"
  (cd /verif && ./check $ID --tier quick 2>&1 | grep -E "VIOLATION|KNOWN-FINDING|tier=" | cut -c1-200 | head -8
   python3 -c "
import json
e=json.load(open('/verif/evidence/$ID.json'))
print('failing check ids (id: cases):', e['coverage'].get('disagreeing_check_ids'))")
} > $DST/recheck.txt 2>&1
git checkout -q -- .
git status --short | head -3 >> $DST/recheck.txt
