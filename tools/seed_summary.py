#!/usr/bin/env python3
"""seeded/SUMMARY.md from the eval.txt files written by tools/seed_eval.sh"""
import glob, json, os, re
rows = []
for d in sorted(glob.glob('/verif/seeded/C*')):
    pid = os.path.basename(d)
    if not os.path.isdir(d):
        continue
    meta = json.load(open(os.path.join(d, 'meta.json'))) if os.path.exists(os.path.join(d, 'meta.json')) else {}
    ev = open(os.path.join(d, 'eval.txt')).read() if os.path.exists(os.path.join(d, 'eval.txt')) else ''
    suite_fail = [l.strip() for l in ev.split('\n') if 'FAILED' in l and 'test result' not in l]
    flaky = all('composite_contains_some' in l for l in suite_fail)
    suite = 'passes' if not suite_fail else ('passes (only the repository\'s flaky proptest composite_contains_some_* failed in this run)' if flaky else 'FAILS: ' + '; '.join(suite_fail))
    checks = re.findall(r'== ./check (C\d+) --tier quick \(patched tree\)\n((?:(?!==).*\n)*)', ev)
    verdicts = []
    for c, body in checks:
        v = 'VIOLATION' if 'VIOLATION' in body else 'no alarm'
        if 'no-failing-input-found' in body:
            v += ' (tie/obligation broken, no failing input found)'
        m = re.search(r'disagreements=(\d+)', body)
        verdicts.append('%s: %s%s' % (c, v, (' (%s disagreeing cases)' % m.group(1)) if m else ''))
    extra = [l for l in ev.split('\n') if l.startswith('== after')]
    rows.append((pid, meta.get('summary', ''), meta.get('failing_input', ''), suite, '; '.join(verdicts), ' '.join(extra)))
with open('/verif/seeded/SUMMARY.md', 'w') as f:
    f.write('# Seeded changes and the checks that catch them\n\n')
    f.write('Each change was produced by a sub-agent that saw only the property text and a scratch worktree; it compiles, the unedited suite passes, and its demonstration fails on the changed tree only. `eval.txt` in each directory holds the suite result and the verdict of the registered check(s) on the patched tree.\n\n')
    f.write('| property | change | failing input | suite on the patched tree | check verdict | note |\n|---|---|---|---|---|---|\n')
    for r in rows:
        f.write('| ' + ' | '.join(x.replace('|', '/').replace('\n', ' ') for x in r) + ' |\n')
print(open('/verif/seeded/SUMMARY.md').read()[:3000])
