#!/bin/bash
# usage: seed_demo.sh <ID>  - runs the sub-agent's demonstration in its worktree /tmp/wt_<ID> with the
# change applied and with it reverted; writes /tmp/wt_<ID>/seed/demo_confirm.txt
ID=$1; WT=/tmp/wt_$ID; D=$WT/seed/demo
cd $D || exit 2
CMD="cargo test --offline"
[ -f $D/src/main.rs ] && [ ! -d $D/tests ] && CMD="cargo run --offline"
{
echo "== with the change ($CMD)"
(cd $WT && git diff --stat -- crates | tail -1)
CARGO_NET_OFFLINE=true timeout 1200 $CMD 2>&1 | grep -E "^test |test result|panicked|left|right|OK|FAIL|HOLDS|VIOLAT|error" | head -20; echo "exit=${PIPESTATUS[0]}"
(cd $WT && git apply -R seed/patch.diff) || echo "REVERT FAILED"
echo "== without the change"
CARGO_NET_OFFLINE=true timeout 1200 $CMD 2>&1 | grep -E "^test |test result|panicked|left|right|OK|FAIL|HOLDS|VIOLAT|error" | head -20; echo "exit=${PIPESTATUS[0]}"
(cd $WT && git apply seed/patch.diff)
} > $WT/seed/demo_confirm.txt 2>&1
