//! C15 — multi-asset algebra: run CanonicalAssets (and reduce on asset expressions)
//! on generated construction paths and print cases for coq/C15_check.v.
use crate::gal;
use crate::rng::Rng;
use crate::Ctx;
use std::collections::BTreeMap;
use tx3_tir::model::assets::{AssetClass, CanonicalAssets};
use tx3_tir::model::v1beta0::{AssetExpr, BuiltInOp, Expression};

#[derive(Clone, Debug)]
pub enum AC {
    None,
    Bytes(Vec<u8>),
    Str(Vec<u8>),
}

#[derive(Clone, Debug)]
pub enum Val {
    Empty,
    Naked(i128),
    Named(Vec<u8>, i128),
    Defined(Vec<u8>, Vec<u8>, i128),
    ClassAmt(AssetClass, i128),
    Asset(Option<Vec<u8>>, Option<Vec<u8>>, i128),
    OfExprs(Vec<(AC, AC, i128)>),
    Add(Box<Val>, Box<Val>),
    Sub(Box<Val>, Box<Val>),
    Neg(Box<Val>),
}

fn ac_expr(c: &AC) -> Expression {
    match c {
        AC::None => Expression::None,
        AC::Bytes(b) => Expression::Bytes(b.clone()),
        AC::Str(b) => Expression::String(String::from_utf8(b.clone()).unwrap()),
    }
}

impl Val {
    pub fn eval(&self) -> CanonicalAssets {
        match self {
            Val::Empty => CanonicalAssets::empty(),
            Val::Naked(z) => CanonicalAssets::from_naked_amount(*z),
            Val::Named(n, z) => CanonicalAssets::from_named_asset(n, *z),
            Val::Defined(p, n, z) => CanonicalAssets::from_defined_asset(p, n, *z),
            Val::ClassAmt(c, z) => CanonicalAssets::from_class_and_amount(c.clone(), *z),
            Val::Asset(p, n, z) => CanonicalAssets::from_asset(p.as_deref(), n.as_deref(), *z),
            Val::OfExprs(l) => {
                let v: Vec<AssetExpr> = l
                    .iter()
                    .map(|(p, n, z)| AssetExpr {
                        policy: ac_expr(p),
                        asset_name: ac_expr(n),
                        amount: Expression::Number(*z),
                    })
                    .collect();
                CanonicalAssets::from(v)
            }
            Val::Add(a, b) => a.eval() + b.eval(),
            Val::Sub(a, b) => a.eval() - b.eval(),
            Val::Neg(a) => -a.eval(),
        }
    }

    pub fn gal(&self) -> String {
        match self {
            Val::Empty => "VEmpty".into(),
            Val::Naked(z) => format!("(VNaked {})", gal::z(*z)),
            Val::Named(n, z) => format!("(VNamed {} {})", gal::bytes(n), gal::z(*z)),
            Val::Defined(p, n, z) => {
                format!("(VDefined {} {} {})", gal::bytes(p), gal::bytes(n), gal::z(*z))
            }
            Val::ClassAmt(c, z) => format!("(VClassAmt {} {})", class_gal(c), gal::z(*z)),
            Val::Asset(p, n, z) => format!(
                "(VAsset {} {} {})",
                gal::opt(p.as_ref().map(|x| gal::bytes(x))),
                gal::opt(n.as_ref().map(|x| gal::bytes(x))),
                gal::z(*z)
            ),
            Val::OfExprs(l) => {
                let items: Vec<String> = l
                    .iter()
                    .map(|(p, n, z)| {
                        format!("({}, {}, ANumber {})", ac_gal(p), ac_gal(n), gal::z(*z))
                    })
                    .collect();
                format!("(VOfExprs {})", gal::list(&items))
            }
            Val::Add(a, b) => format!("(VAdd {} {})", a.gal(), b.gal()),
            Val::Sub(a, b) => format!("(VSub {} {})", a.gal(), b.gal()),
            Val::Neg(a) => format!("(VNeg {})", a.gal()),
        }
    }
}

fn ac_gal(c: &AC) -> String {
    match c {
        AC::None => "ANone".into(),
        AC::Bytes(b) => format!("(ABytes {})", gal::bytes(b)),
        AC::Str(b) => format!("(AString {})", gal::bytes(b)),
    }
}

pub fn class_gal(c: &AssetClass) -> String {
    match c {
        AssetClass::Naked => "Naked".into(),
        AssetClass::Named(n) => format!("(Named {})", gal::bytes(n)),
        AssetClass::Defined(p, n) => format!("(Defined {} {})", gal::bytes(p), gal::bytes(n)),
    }
}

pub fn entries(a: &CanonicalAssets) -> Vec<(AssetClass, i128)> {
    let mut v: Vec<(AssetClass, i128)> = a.iter().map(|(k, v)| (k.clone(), *v)).collect();
    v.sort();
    v
}

pub fn entries_gal(v: &[(AssetClass, i128)]) -> String {
    let items: Vec<String> = v
        .iter()
        .map(|(c, z)| format!("({}, {})", class_gal(c), gal::z(*z)))
        .collect();
    gal::list(&items)
}

/// read an expression list back as entries, in list order, without going through CanonicalAssets
fn exprs_entries(v: &[AssetExpr]) -> Option<Vec<(AssetClass, i128)>> {
    let mut out = vec![];
    for e in v {
        let amount = match &e.amount {
            Expression::Number(z) => *z,
            _ => return None,
        };
        let class = match (&e.policy, &e.asset_name) {
            (Expression::None, Expression::None) => AssetClass::Naked,
            (Expression::None, Expression::Bytes(n)) => AssetClass::Named(n.clone()),
            (Expression::Bytes(p), Expression::Bytes(n)) => AssetClass::Defined(p.clone(), n.clone()),
            _ => return None,
        };
        out.push((class, amount));
    }
    Some(out)
}

fn reduce_entries(op: BuiltInOp) -> Option<Vec<(AssetClass, i128)>> {
    let e: Expression = op.into();
    match tx3_tir::reduce::reduce(e) {
        Ok(Expression::Assets(v)) => exprs_entries(&v),
        _ => None,
    }
}

const TOK_A: (&[u8], &[u8]) = (&[0xAA], &[1]);
const TOK_B: (&[u8], &[u8]) = (&[0xBB, 0xBB], &[]);

fn small_domain() -> Vec<Val> {
    let mut v = vec![Val::Empty];
    let amts = [-2i128, -1, 0, 1, 2];
    for &z in &amts {
        v.push(Val::Naked(z));
        v.push(Val::ClassAmt(AssetClass::Naked, z));
        v.push(Val::ClassAmt(AssetClass::Named(vec![]), z));
        v.push(Val::ClassAmt(AssetClass::Defined(vec![], TOK_A.1.to_vec()), z));
        v.push(Val::ClassAmt(AssetClass::Defined(vec![], vec![]), z));
        v.push(Val::Asset(None, None, z));
        v.push(Val::Named(vec![], z));
        v.push(Val::Defined(vec![], vec![], z));
        for t in [TOK_A, TOK_B] {
            v.push(Val::Defined(t.0.to_vec(), t.1.to_vec(), z));
            v.push(Val::ClassAmt(AssetClass::Defined(t.0.to_vec(), t.1.to_vec()), z));
            v.push(Val::Asset(Some(t.0.to_vec()), Some(t.1.to_vec()), z));
        }
        v.push(Val::Asset(Some(TOK_B.0.to_vec()), None, z));
        v.push(Val::Neg(Box::new(Val::Naked(z))));
    }
    for &x in &amts {
        for &y in &amts {
            for &w in &amts {
                let sum = Val::Add(
                    Box::new(Val::Add(
                        Box::new(Val::Naked(x)),
                        Box::new(Val::Defined(TOK_A.0.to_vec(), TOK_A.1.to_vec(), y)),
                    )),
                    Box::new(Val::Defined(TOK_B.0.to_vec(), TOK_B.1.to_vec(), w)),
                );
                v.push(sum.clone());
                v.push(Val::OfExprs(vec![
                    (AC::None, AC::None, x),
                    (AC::Bytes(TOK_A.0.to_vec()), AC::Bytes(TOK_A.1.to_vec()), y),
                    (AC::Bytes(TOK_B.0.to_vec()), AC::None, w),
                ]));
                if (x + y + w) % 2 == 0 {
                    v.push(Val::Neg(Box::new(sum.clone())));
                    v.push(Val::Sub(
                        Box::new(Val::Naked(x)),
                        Box::new(Val::Add(
                            Box::new(Val::Defined(TOK_A.0.to_vec(), TOK_A.1.to_vec(), y)),
                            Box::new(Val::Defined(TOK_B.0.to_vec(), TOK_B.1.to_vec(), w)),
                        )),
                    ));
                }
            }
        }
    }
    v
}

fn rand_bytes(r: &mut Rng) -> Vec<u8> {
    let len = match r.below(6) {
        0 => 0,
        1 => 1,
        2 => 28,
        3 => 32,
        _ => r.below(41) as usize,
    };
    // few distinct values so that classes collide
    let tag = r.below(3) as u8;
    (0..len).map(|i| tag.wrapping_add(i as u8)).collect()
}

fn rand_amt(r: &mut Rng) -> i128 {
    match r.below(8) {
        0 => 0,
        1 => r.range(-3, 3) as i128,
        _ => r.i128_bits(120),
    }
}

fn rand_val(r: &mut Rng, depth: u32) -> Val {
    let k = if depth == 0 { r.below(7) } else { r.below(12) };
    match k {
        0 => Val::Empty,
        1 => Val::Naked(rand_amt(r)),
        2 => Val::Named(rand_bytes(r), rand_amt(r)),
        3 => Val::Defined(rand_bytes(r), rand_bytes(r), rand_amt(r)),
        4 => {
            let c = match r.below(3) {
                0 => AssetClass::Naked,
                // hand-made classes, with the empty policies and names the other constructors
                // normalise away
                1 => AssetClass::Named(if r.chance(1, 4) { vec![] } else { rand_bytes(r) }),
                _ => AssetClass::Defined(if r.chance(1, 4) { vec![] } else { rand_bytes(r) }, rand_bytes(r)),
            };
            Val::ClassAmt(c, rand_amt(r))
        }
        5 => Val::Asset(
            if r.chance(1, 2) { Some(rand_bytes(r)) } else { None },
            if r.chance(1, 2) { Some(rand_bytes(r)) } else { None },
            rand_amt(r),
        ),
        6 => {
            let n = r.below(5) as usize;
            let l = (0..n)
                .map(|_| {
                    let p = if r.chance(1, 2) { AC::Bytes(rand_bytes(r)) } else { AC::None };
                    let nm = match r.below(3) {
                        0 => AC::None,
                        1 => AC::Bytes(rand_bytes(r)),
                        _ => AC::Str(b"tok".to_vec()),
                    };
                    (p, nm, rand_amt(r))
                })
                .collect();
            Val::OfExprs(l)
        }
        7 | 8 => Val::Add(Box::new(rand_val(r, depth - 1)), Box::new(rand_val(r, depth - 1))),
        9 | 10 => Val::Sub(Box::new(rand_val(r, depth - 1)), Box::new(rand_val(r, depth - 1))),
        _ => Val::Neg(Box::new(rand_val(r, depth - 1))),
    }
}

fn to_exprs(a: &CanonicalAssets) -> Vec<AssetExpr> {
    a.clone().into()
}

fn one_case(a: &Val, b: &Val, c: &Val) -> (String, serde_json::Value, bool) {
    let va = a.eval();
    let vb = b.eval();
    let vc = c.eval();
    // the clamped sum / difference of the selection (saturating_add / saturating_sub): on the values
    // as they are, and - when every amount is small - on the values scaled by 2^125, whose sums
    // leave the i128 range
    let small = |x: &CanonicalAssets| x.iter().all(|(_, z)| z.abs() <= 2);
    let boosted = small(&va) && small(&vb);
    let boost = |x: &CanonicalAssets| -> CanonicalAssets {
        if !boosted {
            return x.clone();
        }
        x.iter().fold(CanonicalAssets::empty(), |acc, (k, z)| acc + CanonicalAssets::from_class_and_amount(k.clone(), z * (1i128 << 125)))
    };
    let sat_add = boost(&va).saturating_add(boost(&vb));
    let sat_sub = boost(&va).saturating_sub(boost(&vb));
    let add_ab = va.clone() + vb.clone();
    let add_ba = vb.clone() + va.clone();
    let sub_ab = va.clone() - vb.clone();
    let neg_a = -va.clone();
    let add_ab_c = add_ab.clone() + vc.clone();
    let add_a_bc = va.clone() + (vb.clone() + vc.clone());
    let subadd = sub_ab.clone() + vb.clone();
    let add_a_negb = va.clone() + (-vb.clone());
    let xa = to_exprs(&va);
    let xb = to_exprs(&vb);
    let ord_a = exprs_entries(&xa).unwrap_or_default();
    let ord_b = exprs_entries(&xb).unwrap_or_default();
    let rt_a = CanonicalAssets::from(xa.clone());
    let red_add = reduce_entries(BuiltInOp::Add(
        Expression::Assets(xa.clone()),
        Expression::Assets(xb.clone()),
    ));
    let red_sub = reduce_entries(BuiltInOp::Sub(
        Expression::Assets(xa.clone()),
        Expression::Assets(xb.clone()),
    ));
    let red_neg = reduce_entries(BuiltInOp::Negate(Expression::Assets(xa.clone())));
    // a value must equal itself with zero entries dropped (a + empty drops them)
    let stripped = va.clone() + CanonicalAssets::empty();
    let srt = |mut v: Vec<(AssetClass, i128)>| {
        v.sort();
        v
    };
    let e = |x: &CanonicalAssets| entries_gal(&entries(x));
    let oe = |x: &Option<Vec<(AssetClass, i128)>>| gal::opt(x.clone().map(|v| entries_gal(&srt(v))));
    let obs = format!(
        "{{| o_a := {}; o_b := {}; o_c := {}; o_add_ab := {}; o_add_ba := {}; o_sub_ab := {}; o_neg_a := {}; \
         o_add_ab_c := {}; o_add_a_bc := {}; o_subadd := {}; o_add_a_negb := {}; \
         o_ct_ab := {}; o_cs_ab := {}; o_emp_a := {}; o_eon_a := {}; o_naked_a := {}; \
         o_eq_ab := {}; o_eq_subadd_a := {}; o_eq_a_stripped := {}; o_ord_a := {}; o_ord_b := {}; o_rt_a := {}; \
         o_red_add := {}; o_red_sub := {}; o_red_neg := {}; o_boosted := {}; o_sat_add := {}; o_sat_sub := {} |}}",
        e(&va), e(&vb), e(&vc), e(&add_ab), e(&add_ba), e(&sub_ab), e(&neg_a),
        e(&add_ab_c), e(&add_a_bc), e(&subadd), e(&add_a_negb),
        gal::b(va.contains_total(&vb)), gal::b(va.contains_some(&vb)), gal::b(va.is_empty()),
        gal::b(va.is_empty_or_negative()), gal::b(va.is_only_naked()),
        gal::b(va == vb), gal::b(subadd == va), gal::b(va == stripped),
        entries_gal(&ord_a), entries_gal(&ord_b), e(&rt_a),
        oe(&red_add), oe(&red_sub), oe(&red_neg), gal::b(boosted), e(&sat_add), e(&sat_sub)
    );
    let text = format!("{{| c_a := {}; c_b := {}; c_c := {}; c_obs := {} |}}", a.gal(), b.gal(), c.gal(), obs);
    let nontrivial = va.len() + vb.len() >= 2 && !(va.is_empty() && vb.is_empty());
    let sample = serde_json::json!({
        "a": a.gal(), "b": b.gal(), "c": c.gal(),
        "impl": { "a": format!("{}", va), "a_plus_b": format!("{}", add_ab), "a_eq_b": va == vb,
                  "contains_total": va.contains_total(&vb) }
    });
    (text, sample, nontrivial)
}

pub fn run(ctx: &mut Ctx) {
    let thorough = ctx.thorough;
    let mut r = Rng::new(ctx.seed ^ 0xC15);
    let dom = small_domain();
    let mut cases: Vec<(Val, Val, Val)> = vec![];
    let mut hist: BTreeMap<String, u64> = BTreeMap::new();
    // corpus first: the replayed finding F15-1 and neighbours
    cases.push((Val::Naked(0), Val::Empty, Val::Empty));
    cases.push((Val::Neg(Box::new(Val::Naked(0))), Val::Empty, Val::Naked(0)));
    cases.push((Val::ClassAmt(AssetClass::Named(vec![]), 1), Val::Naked(1), Val::Empty));
    let n_small = if thorough { 120_000 } else { 5_000 };
    let n_rand = if thorough { 20_000 } else { 1_500 };
    if thorough {
        // every ordered pair of the small domain, third operand sampled
        for a in &dom {
            for b in &dom {
                if r.chance(1, 4) {
                    cases.push((a.clone(), b.clone(), r.pick(&dom).clone()));
                }
            }
        }
        *hist.entry("small_pairs".into()).or_default() += cases.len() as u64;
    }
    for _ in 0..n_small {
        cases.push((r.pick(&dom).clone(), r.pick(&dom).clone(), r.pick(&dom).clone()));
    }
    *hist.entry("small_triples_sampled".into()).or_default() += n_small as u64;
    for _ in 0..n_rand {
        cases.push((rand_val(&mut r, 2), rand_val(&mut r, 2), rand_val(&mut r, 1)));
    }
    *hist.entry("random_wide".into()).or_default() += n_rand as u64;

    let mut distinct = std::collections::HashSet::new();
    let mut nontrivial = 0u64;
    let mut samples = vec![];
    let mut texts = vec![];
    for (i, (a, b, c)) in cases.iter().enumerate() {
        let (text, sample, nt) = one_case(a, b, c);
        if nt && distinct.insert(text.clone()) {
            nontrivial += 1;
        }
        if i < 3 || i % (cases.len() / 5 + 1) == 0 {
            samples.push(sample);
        }
        texts.push(text);
    }
    ctx.write_cases("C15", "From Tx3 Require Import Base Assets C15_check.", "case", "run", &texts, 400);
    ctx.meta.insert("evaluations".into(), serde_json::json!(cases.len()));
    ctx.meta.insert("distinct_nontrivial".into(), serde_json::json!(nontrivial));
    ctx.meta.insert("small_domain_size".into(), serde_json::json!(dom.len()));
    ctx.meta.insert("distribution".into(), serde_json::json!(hist));
    ctx.meta.insert("samples".into(), serde_json::json!(samples));
    ctx.meta.insert(
        "rule".into(),
        serde_json::json!("triples (a,b,c) of construction paths over 3 classes x amounts -2..2 (every constructor - from_class_and_amount also with hand-made classes whose policy or name is empty -, sums of singletons, expression lists, neg/sub results) sampled from the seed (thorough: a quarter of all ordered pairs too), plus random values with amounts up to 2^120 and names/policies of length 0..40; non-trivial = a and b hold at least two entries together and are not both empty; distinct = distinct printed case"),
    );
}
