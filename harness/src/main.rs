mod c01;
mod c03;
mod c05;
mod c06;
mod c09;
mod c11;
mod c12;
mod c15;
mod c16;
mod cbackend;
mod cfront;
mod srcgen;
mod ctx_compile;
mod tirgen;
mod gal;
mod rng;

use std::collections::BTreeMap;
use std::io::Write;
use std::path::PathBuf;

thread_local! {
    pub static LAST_PANIC: std::cell::RefCell<String> = std::cell::RefCell::new(String::new());
}
pub fn last_panic() -> String {
    LAST_PANIC.with(|p| p.borrow().clone())
}

pub struct Ctx {
    pub seed: u64,
    pub thorough: bool,
    pub out: PathBuf,
    pub meta: BTreeMap<String, serde_json::Value>,
    pub shards: Vec<serde_json::Value>,
    pub replay: Option<PathBuf>,
}

impl Ctx {
    /// Write `texts` (Gallina terms of type `ty`) into shard files
    /// `<out>/cases_<id>_<k>.v`; each evaluates `<runner> cases` by vm_compute.
    pub fn write_cases(&mut self, id: &str, header: &str, ty: &str, runner: &str, texts: &[String], per_shard: usize) {
        let mut k = 0;
        for (si, chunk) in texts.chunks(per_shard.max(1)).enumerate() {
            let name = format!("cases_{}_{}", id, si);
            let path = self.out.join(format!("{}.v", name));
            let mut f = std::io::BufWriter::new(std::fs::File::create(&path).unwrap());
            writeln!(f, "{}", header).unwrap();
            write!(f, "{}", gal::interned_defs()).unwrap();
            writeln!(f, "Definition cases : list {} := [", ty).unwrap();
            for (i, t) in chunk.iter().enumerate() {
                writeln!(f, "  {}{}", t, if i + 1 < chunk.len() { ";" } else { "" }).unwrap();
            }
            writeln!(f, "].").unwrap();
            writeln!(f, "Definition result := Eval vm_compute in ({} cases).", runner).unwrap();
            writeln!(f, "Set Printing Width 100000. Set Printing Depth 100000.").unwrap();
            writeln!(f, "Print result.").unwrap();
            self.shards.push(serde_json::json!({"file": path.to_string_lossy(), "base": k, "count": chunk.len()}));
            k += chunk.len();
        }
    }
}

fn main() {
    let args: Vec<String> = std::env::args().collect();
    if args.len() < 3 {
        eprintln!("usage: tx3v run <ID> [--tier quick|thorough] [--seed N] [--out DIR] [--replay FILE]");
        std::process::exit(2);
    }
    // panics of the implementation are caught per case; keep the default hook quiet
    std::panic::set_hook(Box::new(|info| {
        let loc = info.location().map(|l| format!("{}:{}", l.file(), l.line())).unwrap_or_default();
        let msg = if let Some(s) = info.payload().downcast_ref::<&str>() {
            s.to_string()
        } else if let Some(s) = info.payload().downcast_ref::<String>() {
            s.clone()
        } else {
            String::new()
        };
        if std::env::var("TX3V_TRACE").is_ok() {
            eprintln!("panic: {} @ {}", msg, loc);
        }
        LAST_PANIC.with(|p| *p.borrow_mut() = format!("{} @ {}", msg, loc));
    }));
    let cmd = args[1].as_str();
    let id = args[2].clone();
    let mut ctx = Ctx {
        seed: std::env::var("VERIF_SEED").ok().and_then(|s| s.parse().ok()).unwrap_or(1),
        thorough: false,
        out: PathBuf::from("."),
        meta: BTreeMap::new(),
        shards: vec![],
        replay: None,
    };
    let mut i = 3;
    while i < args.len() {
        match args[i].as_str() {
            "--tier" => {
                ctx.thorough = args[i + 1] == "thorough";
                i += 2;
            }
            "--seed" => {
                ctx.seed = args[i + 1].parse().unwrap_or(1);
                i += 2;
            }
            "--out" => {
                ctx.out = PathBuf::from(&args[i + 1]);
                i += 2;
            }
            "--replay" => {
                ctx.replay = Some(PathBuf::from(&args[i + 1]));
                i += 2;
            }
            _ => i += 1,
        }
    }
    std::fs::create_dir_all(&ctx.out).unwrap();
    match (cmd, id.as_str()) {
        ("run", "C15") => c15::run(&mut ctx),
        ("run", "C03") => c03::run(&mut ctx, false),
        ("run", "C04") => c03::run(&mut ctx, true),
        ("run", "C05") => c05::run_c05(&mut ctx),
        ("run", "C20") => c05::run_c20(&mut ctx),
        ("run", "C06") => c06::run(&mut ctx, false),
        ("run", "C07") => c06::run(&mut ctx, true),
        ("run", "C09") => c09::run(&mut ctx),
        ("run", "C16") => c16::run(&mut ctx),
        ("run", "C11") => c11::run(&mut ctx),
        ("run", "C02") => cbackend::run(&mut ctx, cbackend::Focus::C02),
        ("run", "C08") => cbackend::run(&mut ctx, cbackend::Focus::C08),
        ("run", "C10") => cbackend::run(&mut ctx, cbackend::Focus::C10),
        ("run", "C14") => cbackend::run(&mut ctx, cbackend::Focus::C14),
        ("run", "C01") => c01::run(&mut ctx),
        ("run", "C12") => c12::run(&mut ctx, "C12"),
        ("run", "C19") => c12::run(&mut ctx, "C19"),
        ("run", "C13") => cfront::run(&mut ctx, cfront::Focus::C13),
        ("run", "C17") => cfront::run(&mut ctx, cfront::Focus::C17),
        ("run", "C18") => cfront::run(&mut ctx, cfront::Focus::C18),
        ("c12probe", path) => {
            c12::probe_cmd(path);
            return;
        }
        ("c11bomb", kind) => {
            c11::bomb_cmd(kind, args[3].parse().unwrap_or(1));
            return;
        }
        ("lowerbytes", path) => {
            cfront::lowerbytes_cmd(path, &args[3]);
            return;
        }
        ("lower", path) => {
            // debugging aid: parse, analyse and lower every tx of a source file
            let src = std::fs::read_to_string(path).unwrap();
            let r = std::panic::catch_unwind(|| {
                let mut program = match tx3_lang::parsing::parse_string(&src) {
                    Ok(p) => p,
                    Err(e) => {
                        println!("parse error: {:?}", e);
                        return;
                    }
                };
                let report = tx3_lang::analyzing::analyze(&mut program);
                println!("analysis errors: {}", report.errors.len());
                for e in &report.errors {
                    println!("  {}", e);
                }
                let names: Vec<String> = program.txs.iter().map(|t| t.name.value.clone()).collect();
                for n in names {
                    let r = std::panic::catch_unwind(std::panic::AssertUnwindSafe(|| tx3_lang::lowering::lower(&program, &n)));
                    match r {
                        Ok(Ok(t)) => println!("tx {}: Ok\n{}", n, tirgen::tx_gal(&t)),
                        Ok(Err(e)) => println!("tx {}: Err {}", n, e),
                        Err(_) => println!("tx {}: PANIC {}", n, last_panic()),
                    }
                }
            });
            if r.is_err() {
                println!("PANIC {}", last_panic());
            }
            return;
        }
        ("extract", _) => {
            // translators: the grammar file -> coq/gen/Grammar.v
            if let Err(e) = c12::extract(&ctx.out) {
                eprintln!("extract failed: {}", e);
                std::process::exit(1);
            }
            return;
        }
        _ => {
            eprintln!("unknown command {} {}", cmd, id);
            std::process::exit(2);
        }
    }
    ctx.meta.insert("shards".into(), serde_json::json!(ctx.shards));
    ctx.meta.insert("seed".into(), serde_json::json!(ctx.seed));
    let meta_path = ctx.out.join(format!("meta_{}.json", id));
    std::fs::write(&meta_path, serde_json::to_string_pretty(&ctx.meta).unwrap()).unwrap();
}
