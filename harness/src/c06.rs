//! C06 / C07 — discovery, substitution and staged application: run the implementation's
//! apply_args / apply_inputs / apply_fees / compiler-op visitor / reduce on generated
//! templates under several stage schedules and print cases for coq/C06_check.v.
use crate::c03::MemStore;
use crate::gal;
use crate::rng::Rng;
use crate::tirgen::*;
use crate::Ctx;
use std::collections::{BTreeMap, HashMap, HashSet};
use tx3_tir::encoding::AnyTir;
use tx3_tir::model::core::{Type, Utxo};
use tx3_tir::model::v1beta0 as tir;
use tx3_tir::reduce::{self, Apply as _, ArgValue};
use tx3_tir::Node as _;

pub fn test_pparams(coins_per_byte: u64, mainnet: bool) -> tx3_cardano::PParams {
    tx3_cardano::PParams {
        network: if mainnet { tx3_cardano::Network::Mainnet } else { tx3_cardano::Network::Testnet },
        min_fee_coefficient: 44,
        min_fee_constant: 155381,
        coins_per_utxo_byte: coins_per_byte,
        cost_models: HashMap::from([(0u8, vec![1i64; 166]), (1u8, vec![1i64; 175]), (2u8, vec![1i64; 251])]),
    }
}

pub fn new_compiler(coins_per_byte: u64, mainnet: bool, slot: u64, time: u128) -> tx3_cardano::Compiler {
    tx3_cardano::Compiler::new(
        test_pparams(coins_per_byte, mainnet),
        tx3_cardano::Config { extra_fees: None },
        tx3_cardano::ChainPoint { slot, hash: vec![], timestamp: time },
    )
}

#[derive(Clone, Copy, PartialEq, Debug)]
pub enum Stage {
    A,
    I,
    F,
    C,
    R,
}

impl Stage {
    fn gal(&self) -> &'static str {
        match self {
            Stage::A => "SA",
            Stage::I => "SI",
            Stage::F => "SF",
            Stage::C => "SC",
            Stage::R => "SR",
        }
    }
}

pub struct Env {
    pub args: BTreeMap<String, ArgValue>,
    pub ins: BTreeMap<String, HashSet<Utxo>>,
    pub fee: u64,
    pub mainnet: bool,
    pub slot: u64,
    pub time: u128,
    pub coins: u64,
}

/// returns (kind, final) — kind 0 ok, 1 err, 2 panic
pub fn run_schedule(tx: &tir::Tx, env: &Env, sched: &[Stage]) -> (u8, Option<tir::Tx>, bool) {
    let mut idem = true;
    let res = std::panic::catch_unwind(std::panic::AssertUnwindSafe(|| -> Result<tir::Tx, String> {
        let mut t = tx.clone();
        let mut compiler = new_compiler(env.coins, env.mainnet, env.slot, env.time);
        for s in sched {
            // every stage through the versioned envelope, the way the resolver calls them
            let any = tx3_tir::encoding::AnyTir::V1Beta0(t);
            let unwrap = |a: tx3_tir::encoding::AnyTir| match a {
                tx3_tir::encoding::AnyTir::V1Beta0(x) => x,
            };
            t = match s {
                Stage::A => unwrap(reduce::apply_args(any, &env.args).map_err(|e| e.to_string())?),
                Stage::I => unwrap(reduce::apply_inputs(any, &env.ins).map_err(|e| e.to_string())?),
                Stage::F => unwrap(reduce::apply_fees(any, env.fee).map_err(|e| e.to_string())?),
                Stage::C => unwrap(any.apply(&mut compiler).map_err(|e| e.to_string())?),
                Stage::R => {
                    let once = unwrap(reduce::reduce(any).map_err(|e| e.to_string())?);
                    // reducing an already reduced template changes nothing
                    if let Ok(twice) = reduce::reduce(once.clone()) {
                        if tx_gal(&twice) != tx_gal(&once) {
                            idem = false;
                        }
                    } else {
                        idem = false;
                    }
                    once
                }
            };
        }
        Ok(t)
    }));
    if std::env::var("TX3V_DEBUG").is_ok() {
        match &res {
            Err(_) => eprintln!("PANIC {:?}: {}", sched, crate::last_panic()),
            Ok(Err(e)) => eprintln!("ERR {:?}: {}", sched, &e[..e.len().min(160)]),
            _ => {}
        }
    }
    match res {
        Err(_) => (2, None, idem),
        Ok(Err(_)) => (1, None, idem),
        Ok(Ok(t)) => (0, Some(t), idem),
    }
}

fn sched_gal(s: &[Stage]) -> String {
    gal::list(&s.iter().map(|x| x.gal().to_string()).collect::<Vec<_>>())
}

/// a random full schedule: a permutation of A I F C with R interleaved at a random subset of
/// positions, always ending with R
fn random_schedule(r: &mut Rng) -> Vec<Stage> {
    let mut base = vec![Stage::A, Stage::I, Stage::F, Stage::C];
    for i in (1..base.len()).rev() {
        let j = r.below(i as u64 + 1) as usize;
        base.swap(i, j);
    }
    let mut out = vec![];
    if r.chance(1, 3) {
        out.push(Stage::R);
    }
    for s in base {
        out.push(s);
        if r.chance(1, 2) {
            out.push(Stage::R);
        }
    }
    if *out.last().unwrap() != Stage::R {
        out.push(Stage::R);
    }
    out
}

pub fn all_schedules() -> Vec<Vec<Stage>> {
    // 24 orders x 2^5 reduce placements, final reduce forced
    let stages = [Stage::A, Stage::I, Stage::F, Stage::C];
    let mut perms = vec![];
    fn permute(cur: &mut Vec<Stage>, rest: &[Stage], out: &mut Vec<Vec<Stage>>) {
        if rest.is_empty() {
            out.push(cur.clone());
            return;
        }
        for i in 0..rest.len() {
            let mut r2 = rest.to_vec();
            let s = r2.remove(i);
            cur.push(s);
            permute(cur, &r2, out);
            cur.pop();
        }
    }
    permute(&mut vec![], &stages, &mut perms);
    let mut out = vec![];
    for p in perms {
        for mask in 0..16u32 {
            let mut s = vec![];
            if mask & 1 != 0 {
                s.push(Stage::R);
            }
            for (i, st) in p.iter().enumerate() {
                s.push(*st);
                if i < 3 && mask & (2 << i) != 0 {
                    s.push(Stage::R);
                }
            }
            s.push(Stage::R);
            out.push(s);
        }
    }
    out
}

pub fn make_env(r: &mut Rng, tx: &tir::Tx, params: &BTreeMap<String, Type>) -> Env {
    let mut args = BTreeMap::new();
    for (k, ty) in params {
        args.insert(k.clone(), arg_for(r, ty));
    }
    let mut ins = BTreeMap::new();
    for (i, (name, _)) in reduce::find_queries(tx).into_iter().enumerate() {
        let n = 1 + r.below(2);
        let with_datum = r.chance(2, 3);
        let first = utxo_for(r, (i as u64) * 10, with_datum);
        let mut set = HashSet::new();
        for j in 1..n {
            let mut u = utxo_for(r, (i as u64) * 10 + j, with_datum);
            // one datum per set, so that the result does not depend on which element is picked
            u.datum = first.datum.clone();
            set.insert(u);
        }
        set.insert(first);
        ins.insert(name, set);
    }
    Env {
        args,
        ins,
        fee: *r.pick(&[0u64, 1, 170_000, 361_189, 4_000_000_000]),
        mainnet: r.chance(1, 2),
        slot: 101_674_141,
        time: 1_757_611_408_000,
        coins: *r.pick(&[1u64, 4310]),
    }
}

pub fn run(ctx: &mut Ctx, c07: bool) {
    let id = if c07 { "C07" } else { "C06" };
    let mut r = Rng::new(ctx.seed ^ if c07 { 0xC07 } else { 0xC06 });
    let n_cases = match (ctx.thorough, c07) {
        (false, false) => 500,
        (false, true) => 400,
        (true, false) => 6000,
        (true, true) => 3000,
    };
    let n_sched = match (ctx.thorough, c07) {
        (false, false) => 3,
        (false, true) => 8,
        (true, false) => 4,
        (true, true) => 24,
    };
    let every = all_schedules();
    let mut texts = vec![];
    let mut hist: BTreeMap<String, u64> = BTreeMap::new();
    let mut samples = vec![];
    let mut distinct = HashSet::new();
    let mut nontrivial = 0u64;
    let mut schedules_run = 0u64;
    for ci in 0..n_cases {
        let mut gr = r.fork();
        let wild = ci % 7 == 6;
        let depth = 1 + gr.below(5) as u32;
        let tx = {
            let mut g = Gen::new(&mut gr);
            g.wild = wild;
            g.template(depth)
        };
        let params = reduce::find_params(&tx);
        let queries = reduce::find_queries(&tx);
        let env = make_env(&mut gr, &tx, &params);
        // schedules: the resolver's order, the test helper's order, then random full ones
        let mut scheds: Vec<Vec<Stage>> = vec![
            vec![Stage::A, Stage::F, Stage::R, Stage::C, Stage::R, Stage::I, Stage::R],
            vec![Stage::A, Stage::F, Stage::R, Stage::C, Stage::I, Stage::R],
        ];
        if c07 && ctx.thorough && ci % 50 == 0 {
            scheds = every.clone();
        } else {
            for _ in 0..n_sched {
                scheds.push(if c07 { gr.pick(&every).clone() } else { random_schedule(&mut gr) });
            }
            // partial schedules too (tie only)
            scheds.push(vec![Stage::A, Stage::R]);
            scheds.push(vec![Stage::C, Stage::R]);
        }
        let mut runs = vec![];
        let mut idem_all = true;
        let mut any_ok = false;
        for s in &scheds {
            let (k, fin, idem) = run_schedule(&tx, &env, s);
            schedules_run += 1;
            idem_all &= idem;
            *hist.entry(format!("run_kind_{}", k)).or_default() += 1;
            if k == 0 {
                any_ok = true;
            }
            runs.push(format!("(mk_run {} {} {})", sched_gal(s), gal::n(k), gal::opt(fin.as_ref().map(tx_gal))));
        }
        // missing-argument refusal through the resolver's public entry point
        let mut missing = vec![];
        for p in params.keys() {
            let mut a2 = env.args.clone();
            a2.remove(p);
            let mut compiler = new_compiler(env.coins, env.mainnet, env.slot, env.time);
            let store = MemStore { utxos: vec![] };
            let res = std::panic::catch_unwind(std::panic::AssertUnwindSafe(|| {
                pollster::block_on(tx3_resolver::resolve_tx(AnyTir::V1Beta0(tx.clone()), &a2, &mut compiler, &store, 3))
            }));
            let named = match res {
                Ok(Err(tx3_resolver::Error::MissingTxArg { key, .. })) => key,
                _ => String::new(),
            };
            missing.push(format!("({}, {})", gal::s(p), gal::s(&named)));
        }
        *hist.entry(format!("params_{}", params.len().min(6))).or_default() += 1;
        *hist.entry(format!("depth_{}", depth)).or_default() += 1;
        if wild {
            *hist.entry("wild".into()).or_default() += 1;
        }
        let text = format!(
            "(mk_case {} {} {} {} {} {} {} {} {} {} {} {} {} {})",
            tx_gal(&tx),
            args_gal(&env.args),
            inputs_gal(&env.ins),
            gal::z(env.fee as i128),
            gal::b(env.mainnet),
            gal::z(env.slot as i128),
            gal::z(env.time as i128),
            gal::z(197 * env.coins as i128),
            gal::list(&params.iter().map(|(k, t)| format!("({}, {})", gal::s(k), ty_gal(t))).collect::<Vec<_>>()),
            gal::list(&queries.keys().map(|k| gal::s(k)).collect::<Vec<_>>()),
            gal::b(tx.is_constant()),
            gal::list(&runs),
            gal::list(&missing),
            gal::b(idem_all)
        );
        if any_ok && !params.is_empty() && distinct.insert(text.len() as u64 ^ (ci as u64) << 32) {
            nontrivial += 1;
        }
        if ci < 2 || ci % (n_cases / 3 + 1) == 0 {
            samples.push(serde_json::json!({
                "template_json": serde_json::to_value(&tx).unwrap_or(serde_json::Value::Null),
                "params": params.iter().map(|(k, t)| format!("{}:{:?}", k, t)).collect::<Vec<_>>(),
                "queries": queries.keys().collect::<Vec<_>>(),
                "schedules": scheds.iter().take(4).map(|s| format!("{:?}", s)).collect::<Vec<_>>() }));
        }
        texts.push(text);
    }
    ctx.write_cases(id, "From Tx3 Require Import Base Assets Select Tir Reduce Walk C06_check.", "case", "run", &texts, 25);
    ctx.meta.insert("evaluations".into(), serde_json::json!(schedules_run));
    ctx.meta.insert("templates".into(), serde_json::json!(n_cases));
    ctx.meta.insert("distinct_nontrivial".into(), serde_json::json!(nontrivial));
    ctx.meta.insert("distribution".into(), serde_json::json!(hist));
    ctx.meta.insert("samples".into(), serde_json::json!(samples));
    ctx.meta.insert(
        "rule".into(),
        serde_json::json!("generated templates (1-2 inputs with queries, 1-3 outputs, optional validity, mint, burn, withdrawal/publish directive, collateral, signers, metadata, references; typed expression trees of depth 1..5 over ints, bytes, strings, assets, data, addresses with parameters, fees, input references, compiler ops; every 7th template from the untyped stream) x full argument/input assignments x stage schedules (the resolver's order, the test helper's order, random permutations of args/inputs/fees/compiler with reduce interleaved; thorough C07: all 384 schedules for one template in 50); evaluations = schedules executed; non-trivial = template with at least one parameter and at least one schedule ending Ok"),
    );
}
