//! SplitMix64: every random choice of the harness is drawn from one state
//! derived from VERIF_SEED, so a disagreement replays exactly.
#[derive(Clone)]
pub struct Rng(pub u64);

impl Rng {
    pub fn new(seed: u64) -> Self {
        Rng(seed ^ 0x9E3779B97F4A7C15)
    }
    pub fn next(&mut self) -> u64 {
        self.0 = self.0.wrapping_add(0x9E3779B97F4A7C15);
        let mut z = self.0;
        z = (z ^ (z >> 30)).wrapping_mul(0xBF58476D1CE4E5B9);
        z = (z ^ (z >> 27)).wrapping_mul(0x94D049BB133111EB);
        z ^ (z >> 31)
    }
    pub fn below(&mut self, n: u64) -> u64 {
        if n == 0 {
            0
        } else {
            self.next() % n
        }
    }
    pub fn range(&mut self, lo: i64, hi: i64) -> i64 {
        lo + self.below((hi - lo + 1) as u64) as i64
    }
    pub fn chance(&mut self, num: u64, den: u64) -> bool {
        self.below(den) < num
    }
    pub fn pick<'a, T>(&mut self, xs: &'a [T]) -> &'a T {
        &xs[self.below(xs.len() as u64) as usize]
    }
    pub fn bytes(&mut self, len: usize) -> Vec<u8> {
        (0..len).map(|_| self.below(256) as u8).collect()
    }
    pub fn i128_any(&mut self) -> i128 {
        let hi = self.next() as u128;
        let lo = self.next() as u128;
        ((hi << 64) | lo) as i128
    }
    /// boundary-heavy i128 within +-2^bits
    pub fn i128_bits(&mut self, bits: u32) -> i128 {
        let b = self.below(bits as u64 + 1) as u32;
        let mag = if b == 0 { 0 } else { (self.i128_any() as u128 >> (128 - b)) as i128 };
        if self.chance(1, 2) {
            mag
        } else {
            -mag
        }
    }
    pub fn fork(&mut self) -> Rng {
        Rng::new(self.next())
    }
}
