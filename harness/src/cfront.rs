//! Front end (parse, analyse, lower, encode, TII): C13, C17, C18 and the layout clause of C01.
//! Generated programs (srcgen.rs) are printed as source text and as the Gallina `sprogram`;
//! the implementation's verdicts and IR are printed next to it (coq/Front_check.v).
use crate::gal;
use crate::rng::Rng;
use crate::srcgen::{self, Dir, Mode, Prog, Tx, Ty, X};
use crate::tirgen;
use crate::Ctx;
use tx3_tir::model::v1beta0 as tir;

#[derive(Clone, Copy, PartialEq, Debug)]
pub enum Focus {
    C13,
    C17,
    C18,
}

pub struct TxObs {
    pub name: String,
    pub kind: u8,
    pub tir: Option<tir::Tx>,
    pub bytes: Option<Vec<u8>>,
    pub err: String,
}

pub struct FrontObs {
    pub parse_ok: bool,
    pub accepted: bool,
    pub analysis_panic: bool,
    pub n_errors: usize,
    pub txs: Vec<TxObs>,
}

/// parse, analyse and (when accepted) lower every transaction of a source text
pub fn front(src: &str) -> FrontObs {
    let mut obs = FrontObs { parse_ok: false, accepted: false, analysis_panic: false, n_errors: 0, txs: vec![] };
    let parsed = std::panic::catch_unwind(|| tx3_lang::parsing::parse_string(src));
    let mut program = match parsed {
        Ok(Ok(p)) => p,
        _ => return obs,
    };
    obs.parse_ok = true;
    let analysed = std::panic::catch_unwind(std::panic::AssertUnwindSafe(|| tx3_lang::analyzing::analyze(&mut program)));
    let report = match analysed {
        Ok(r) => r,
        Err(_) => {
            obs.analysis_panic = true;
            return obs;
        }
    };
    obs.n_errors = report.errors.len();
    obs.accepted = report.errors.is_empty();
    let names: Vec<String> = program.txs.iter().map(|t| t.name.value.clone()).collect();
    for n in names {
        if !obs.accepted {
            obs.txs.push(TxObs { name: n, kind: 9, tir: None, bytes: None, err: String::new() });
            continue;
        }
        let r = std::panic::catch_unwind(std::panic::AssertUnwindSafe(|| tx3_lang::lowering::lower(&program, &n)));
        match r {
            Ok(Ok(t)) => {
                let (b, _) = tx3_tir::encoding::to_bytes(&t);
                obs.txs.push(TxObs { name: n, kind: 0, tir: Some(t), bytes: Some(b), err: String::new() })
            }
            Ok(Err(e)) => obs.txs.push(TxObs { name: n, kind: 1, tir: None, bytes: None, err: e.to_string() }),
            Err(_) => obs.txs.push(TxObs { name: n, kind: 2, tir: None, bytes: None, err: crate::last_panic() }),
        }
    }
    obs
}

/// A program around policy definitions in constructor form: any subset of the three fields, each a
/// literal, an environment value, another policy (itself a literal, or defined through names) or an
/// undefined name; the policy is used as a minting policy, as an address, or not at all.
/// A program around named types in declaration positions: parameters and environment values typed by
/// a record, a variant, an alias, or a chain of aliases (ending in a primitive, a record, a list, or
/// in nothing), used in amounts, datums and property accesses.
/// Names that meet: a spread source spelled like a field of the constructed case, an asset whose
/// definition is an expression over environment values, parties or policies.
pub fn name_meeting_probe(r: &mut Rng) -> String {
    match r.below(4) {
        0 => "party Owner;\ntype State {\n    owner: Bytes,\n    state: Int,\n}\ntx t() {\n    input state {\n        from: Owner,\n        datum_is: State,\n        min_amount: Ada(1),\n    }\n    output {\n        to: Owner,\n        amount: Ada(1),\n        datum: State { owner: 0x00, ...state },\n    }\n}\n".to_string(),
        1 => "party Owner;\ntype Link {\n    next: Int,\n    prev: Int,\n}\ntx relink(prev: Link) {\n    input src {\n        from: Owner,\n        min_amount: Ada(1),\n    }\n    output {\n        to: Owner,\n        amount: Ada(1),\n        datum: Link { next: 7, ...prev },\n    }\n}\n".to_string(),
        _ => {
            let pol = *r.pick(&["concat(0xAB, pol)", "(0xAB + pol)", "pol", "Pp", "concat(Pp, 0x01)", "concat(0xAB, Owner)"]);
            let name = *r.pick(&["0xCD", "\"TK\"", "concat(0x01, pol)"]);
            format!("party Owner;\nenv {{\n    pol: Bytes,\n}}\npolicy Pp = 0xABCDEF;\nasset T = {}.{};\ntx t() {{\n    input src {{\n        from: Owner,\n        min_amount: T(1),\n    }}\n    output {{\n        to: Owner,\n        amount: T(1),\n    }}\n}}\n", pol, name)
        }
    }
}

pub fn type_position_probe(r: &mut Rng) -> String {
    let mut s = String::from("party Alice;\n");
    s.push_str("type Settings {\n    fee: Int,\n    tag: Bytes,\n}\n");
    s.push_str("type Choice {\n    Left { n: Int, },\n    Right,\n}\n");
    let chain = r.below(4) as usize;
    let end = *r.pick(&["Int", "Bytes", "Settings", "List<Int>", "Choice", "Nowhere"]);
    // type A0 = A1; ... type A<chain> = <end>;
    for k in 0..chain {
        s.push_str(&format!("type A{} = A{};\n", k, k + 1));
    }
    s.push_str(&format!("type A{} = {};\n", chain, end));
    let pty = *r.pick(&["A0", "A0", "Settings", "Choice", "Int"]);
    let ety = *r.pick(&["A0", "Settings", "Int", "Choice"]);
    if r.chance(2, 3) {
        s.push_str(&format!("env {{\n    config: {},\n}}\n", ety));
    } else {
        s.push_str("env {\n    config: Int,\n}\n");
    }
    s.push_str(&format!("\ntx pay(quantity: {}, extra: Int) {{\n    input src {{\n        from: Alice,\n        min_amount: Ada(extra),\n    }}\n", pty));
    let amount = *r.pick(&["Ada(quantity)", "Ada(extra)", "Ada(quantity.fee)", "Ada(config)", "Ada(config.fee)"]);
    let datum = *r.pick(&["", "        datum: config,\n", "        datum: quantity,\n", "        datum: Settings { fee: extra, tag: 0xAB, },\n", "        datum: Settings { fee: quantity, ...config },\n"]);
    s.push_str(&format!("    output {{\n        to: Alice,\n        amount: {},\n{}    }}\n}}\n", amount, datum));
    s
}

pub fn policy_probe(r: &mut Rng) -> String {
    let mut s = String::from("party A;\nenv {\n    h: Bytes,\n    s: Bytes,\n    u: UtxoRef,\n}\n");
    let hash_lit = format!("0x{}", "ab".repeat(28));
    match r.below(4) {
        0 => s.push_str(&format!("policy Other = {};\n", hash_lit)),
        1 => s.push_str("policy Other {\n    hash: h,\n}\n"),
        2 => s.push_str("policy Other {\n    hash: Third,\n}\npolicy Third {\n    hash: h,\n}\n"),
        _ => s.push_str("policy Other {\n    script: s,\n}\n"),
    }
    let mut fields = vec![];
    if r.chance(3, 4) {
        fields.push(format!("hash: {}", *r.pick(&[hash_lit.as_str(), "h", "Other", "nope", "A", "0xabc"])));
    }
    if r.chance(1, 2) {
        fields.push(format!("script: {}", *r.pick(&["0x4e4d01000033222220051200120011", "s", "nope", "Other"])));
    }
    if r.chance(1, 2) {
        let lit = format!("0x{}#0", "cd".repeat(32));
        fields.push(format!("ref: {}", *r.pick(&[lit.as_str(), "u", "nope"])));
    }
    if r.chance(1, 2) {
        fields.reverse();
    }
    s.push_str("policy P {\n");
    for f in &fields {
        s.push_str(&format!("    {},\n", f));
    }
    s.push_str("}\n\ntx t(q: Int) {\n    input src {\n        from: A,\n        min_amount: Ada(q),\n    }\n");
    let who = *r.pick(&["P", "P", "Other"]);
    match r.below(5) {
        0 => s.push_str(&format!("    mint {{\n        amount: AnyAsset({}, \"x\", 1),\n        redeemer: (),\n    }}\n    output {{\n        to: A,\n        amount: Ada(q),\n    }}\n", who)),
        1 => s.push_str(&format!("    output {{\n        to: {},\n        amount: Ada(q),\n    }}\n", who)),
        2 => s.push_str(&format!("    burn {{\n        amount: AnyAsset({}, \"x\", 1),\n        redeemer: (),\n    }}\n    output {{\n        to: A,\n        amount: Ada(q),\n    }}\n", who)),
        3 => s.push_str(&format!("    input locked {{\n        from: {},\n        min_amount: Ada(q),\n        redeemer: (),\n    }}\n    output {{\n        to: A,\n        amount: Ada(q),\n    }}\n", who)),
        _ => s.push_str("    output {\n        to: A,\n        amount: Ada(q),\n    }\n"),
    }
    s.push_str("}\n");
    s
}

pub fn facade(src: &str) -> u8 {
    let r = std::panic::catch_unwind(|| {
        let mut ws = tx3_lang::Workspace::from_string(src.to_string());
        ws.parse().map_err(|_| ())?;
        ws.analyze().map_err(|_| ())?;
        ws.lower().map_err(|_| ())
    });
    match r {
        Ok(Ok(())) => 0,
        Ok(Err(())) => 1,
        Err(_) => 2,
    }
}

// ---------------------------------------------------------------------------------------------
// semantic mutations (C13)

fn walk(x: &mut X, f: &mut dyn FnMut(&mut X)) {
    f(x);
    match x {
        X::Add(a, b) | X::Sub(a, b) | X::Concat(a, b) | X::Index(a, b) => {
            walk(a, f);
            walk(b, f);
        }
        X::Neg(a) | X::Prop(a, _) => walk(a, f),
        X::Struct { fields, spread, .. } => {
            for (_, v) in fields.iter_mut() {
                walk(v, f);
            }
            if let Some(s) = spread {
                walk(s, f);
            }
        }
        X::List(xs) | X::Call(_, xs) => xs.iter_mut().for_each(|x| walk(x, f)),
        X::Map(kvs) => kvs.iter_mut().for_each(|(k, v)| {
            walk(k, f);
            walk(v, f)
        }),
        X::AnyAsset(a, b, c) => {
            walk(a, f);
            walk(b, f);
            walk(c, f);
        }
        _ => {}
    }
}

fn walk_opt(x: &mut Option<X>, f: &mut dyn FnMut(&mut X)) {
    if let Some(x) = x {
        walk(x, f);
    }
}

pub fn walk_tx(t: &mut Tx, f: &mut dyn FnMut(&mut X)) {
    for (_, x) in t.locals.iter_mut() {
        walk(x, f);
    }
    for (_, x) in t.refs.iter_mut() {
        walk(x, f);
    }
    for i in t.inputs.iter_mut() {
        walk_opt(&mut i.from, f);
        walk_opt(&mut i.min, f);
        walk_opt(&mut i.r#ref, f);
        walk_opt(&mut i.redeemer, f);
    }
    for o in t.outputs.iter_mut() {
        walk_opt(&mut o.to, f);
        walk_opt(&mut o.amount, f);
        walk_opt(&mut o.datum, f);
    }
    for m in t.mints.iter_mut().chain(t.burns.iter_mut()) {
        walk_opt(&mut m.amount, f);
        walk_opt(&mut m.redeemer, f);
    }
    if let Some((a, b)) = &mut t.validity {
        walk_opt(a, f);
        walk_opt(b, f);
    }
    if let Some(ss) = &mut t.signers {
        ss.iter_mut().for_each(|x| walk(x, f));
    }
    if let Some(md) = &mut t.metadata {
        md.iter_mut().for_each(|(_, v)| walk(v, f));
    }
    for d in t.dirs.iter_mut() {
        match d {
            Dir::Withdrawal { from, amount, redeemer } => {
                walk_opt(from, f);
                walk_opt(amount, f);
                walk_opt(redeemer, f);
            }
            Dir::PlutusWitness { version, script } => {
                walk_opt(version, f);
                walk_opt(script, f);
            }
            Dir::NativeWitness { script } => walk_opt(script, f),
            Dir::Donation(c) => walk(c, f),
            Dir::Publish { to, amount, datum, version, script } => {
                walk_opt(to, f);
                walk_opt(amount, f);
                walk_opt(datum, f);
                walk_opt(version, f);
                walk_opt(script, f);
            }
            Dir::VoteDelegation(a, b) => {
                walk(a, f);
                walk(b, f);
            }
        }
    }
}

/// names of every kind visible in the program / transaction
fn names_of_kinds(p: &Prog, t: &Tx) -> Vec<String> {
    let mut v: Vec<String> = vec!["min_utxo".into(), "Ada".into(), "fees".into(), "nowhere_defined".into()];
    v.extend(p.types.iter().map(|td| td.name.clone()));
    v.extend(p.assets.iter().map(|a| a.0.clone()));
    v.extend(p.policies.iter().map(|a| a.0.clone()));
    v.extend(p.parties.iter().cloned());
    v.extend(p.env.iter().map(|a| a.0.clone()));
    v.extend(t.params.iter().map(|a| a.0.clone()));
    v.extend(t.locals.iter().map(|a| a.0.clone()));
    v.extend(t.inputs.iter().map(|a| a.name.clone()));
    v.extend(t.outputs.iter().filter_map(|a| a.name.clone()));
    v.extend(p.types.iter().flat_map(|td| td.cases.iter().flat_map(|c| c.1.iter().map(|f| f.0.clone()))));
    v
}

/// one semantic mutation; returns its name
pub fn mutate(r: &mut Rng, p: &mut Prog) -> String {
    let ti = r.below(p.txs.len() as u64) as usize;
    let names = names_of_kinds(p, &p.txs[ti]);
    let kind = r.below(18);
    match kind {
        16 | 17 => {
            // a type with two cases, or a case with two fields, of one name
            let variants: Vec<usize> = p.types.iter().enumerate().filter(|(_, td)| !td.cases.is_empty()).map(|(i, _)| i).collect();
            if variants.is_empty() {
                return "none".into();
            }
            let td = &mut p.types[*r.pick(&variants)];
            let ci = r.below(td.cases.len() as u64) as usize;
            if kind == 16 && !td.record {
                let mut copy = td.cases[ci].clone();
                if r.chance(1, 2) {
                    copy.1.push(("extra".into(), srcgen::Ty::Int));
                }
                td.cases.push(copy);
                return "case_name_collision".into();
            }
            if let Some(f) = td.cases[ci].1.first().cloned() {
                td.cases[ci].1.push((f.0, if r.chance(1, 2) { f.1 } else { srcgen::Ty::Bytes }));
                return "field_name_collision".into();
            }
            return "none".into();
        }
        14 | 15 => {
            // a second input block whose name is that of an existing one, up to case
            let t = &mut p.txs[ti];
            if let Some(first) = t.inputs.first().cloned() {
                let mut copy = first.clone();
                copy.name = match r.below(4) {
                    // the query name of the collateral block (reserved once the transaction has one)
                    3 => {
                        if t.collateral.is_empty() {
                            t.collateral.push((first.from.clone(), None, None));
                        }
                        if r.chance(1, 2) { "collateral".to_string() } else { "Collateral".to_string() }
                    }
                    0 => first.name.clone(),
                    1 => first.name.to_uppercase(),
                    _ => {
                        let mut cs: Vec<char> = first.name.chars().collect();
                        cs[0] = cs[0].to_ascii_uppercase();
                        cs.into_iter().collect()
                    }
                };
                t.inputs.push(copy);
                return "input_name_collision".into();
            }
            return "none".into();
        }
        12 | 13 => {
            // an asset whose name is that of a built-in function: the analyzer and lowering must
            // agree on what a call of that name is
            let b = *r.pick(&["tip_slot", "min_utxo", "slot_to_time", "time_to_slot"]);
            if p.assets.is_empty() || r.chance(1, 2) {
                p.assets.push((b.to_string(), X::Hex(srcgen::policy_hash(9)), X::Str("TIP".into())));
            } else {
                let old = p.assets[0].0.clone();
                p.assets[0].0 = b.to_string();
                for t in p.txs.iter_mut() {
                    walk_tx(t, &mut |x| {
                        if let X::Call(n, _) = x {
                            if *n == old {
                                *n = b.to_string();
                            }
                        }
                    });
                }
            }
            let party = p.parties[0].clone();
            let n_args = r.below(3) as usize;
            let t = &mut p.txs[ti];
            t.outputs.push(srcgen::Output { to: Some(X::Id(party)), amount: Some(X::Call(b.to_string(), (0..n_args).map(|k| X::Num(5 + k as i64)).collect())), ..Default::default() });
            return format!("asset_named_{}_{}args", b, n_args);
        }
        0 => {
            // lengthen a chain of locals and use its head in an output
            let n = 6 + r.below(7) as usize;
            let t = &mut p.txs[ti];
            for k in 0..n {
                let v = if k + 1 < n { X::Id(format!("chain{}", k + 1)) } else { X::Num(5) };
                t.locals.push((format!("chain{}", k), v));
            }
            if r.chance(1, 2) {
                // the last local reads a parameter
                let pn = t.params[0].0.clone();
                t.locals.last_mut().unwrap().1 = X::Id(pn);
            }
            t.outputs.push(srcgen::Output { to: Some(X::Id(p.parties[0].clone())), amount: Some(X::Call("Ada".into(), vec![X::Id("chain0".into())])), ..Default::default() });
            return format!("local_chain_{}", n);
        }
        1 => {
            let t = &mut p.txs[ti];
            let from = if r.chance(1, 2) { None } else { Some(X::Id(p.parties[0].clone())) };
            let amount = if from.is_some() || r.chance(1, 2) { None } else { Some(X::Num(7)) };
            t.dirs.push(Dir::Withdrawal { from, amount, redeemer: Some(X::Num(1)) });
            return "withdrawal_missing_field".into();
        }
        2 => {
            // property access on a value the analyzer gives no static type
            let t = &mut p.txs[ti];
            let base = if !t.locals.is_empty() && r.chance(1, 2) { X::Id(t.locals[0].0.clone()) } else { X::Id(p.parties[0].clone()) };
            let f = r.pick(&names).clone();
            t.outputs.push(srcgen::Output {
                to: Some(X::Id(p.parties[0].clone())),
                amount: Some(X::Call("Ada".into(), vec![X::Prop(Box::new(base), f)])),
                ..Default::default()
            });
            return "property_without_type".into();
        }
        _ => {}
    }
    // node-level mutations: pick one of the nodes that admit the mutation
    let admits = |kind: u64, x: &X| -> bool {
        match (kind, x) {
            (3, X::Struct { fields, .. }) | (4, X::Struct { fields, .. }) | (5, X::Struct { fields, .. }) => !fields.is_empty(),
            (6, X::Struct { .. }) | (7, X::Call(..)) | (8, X::Call(..)) | (9, X::Id(_)) | (10, X::Hex(_)) | (11, X::Num(_)) | (11, X::Id(_)) => true,
            _ => false,
        }
    };
    let mut cands: Vec<usize> = vec![];
    let mut count = 0usize;
    walk_tx(&mut p.txs[ti], &mut |x| {
        if admits(kind, x) {
            cands.push(count);
        }
        count += 1;
    });
    if cands.is_empty() {
        return "none".into();
    }
    let start = *r.pick(&cands);
    let mut r2 = r.fork();
    let mut done: Option<String> = None;
    let mut idx = 0usize;
    let t = &mut p.txs[ti];
    walk_tx(t, &mut |x| {
        let i = idx;
        idx += 1;
        if done.is_some() || i < start {
            return;
        }
        match (kind, &mut *x) {
            (3, X::Struct { fields, spread, .. }) if !fields.is_empty() => {
                let k = r2.below(fields.len() as u64) as usize;
                fields.remove(k);
                if r2.chance(1, 2) {
                    *spread = None;
                }
                done = Some("struct_drop_field".into());
            }
            (4, X::Struct { fields, .. }) if !fields.is_empty() => {
                let k = r2.below(fields.len() as u64) as usize;
                fields[k].0 = r2.pick(&names).clone();
                done = Some("struct_rename_field".into());
            }
            (5, X::Struct { fields, .. }) if !fields.is_empty() => {
                let k = r2.below(fields.len() as u64) as usize;
                let f = fields[k].clone();
                fields.push(f);
                done = Some("struct_duplicate_field".into());
            }
            (6, X::Struct { case, ty, .. }) => {
                if r2.chance(1, 2) {
                    *case = Some(["Buy", "Sell", "Cancel", "Default", "Nope"][r2.below(5) as usize].to_string());
                    done = Some("struct_change_case".into());
                } else {
                    *ty = r2.pick(&names).clone();
                    done = Some("struct_change_type".into());
                }
            }
            (7, X::Call(_, args)) => {
                if args.is_empty() || r2.chance(1, 2) {
                    args.push(X::Num(1));
                } else {
                    args.clear();
                }
                done = Some("call_arity".into());
            }
            (8, X::Call(f, _)) => {
                *f = r2.pick(&names).clone();
                done = Some("call_callee".into());
            }
            (9, X::Id(n)) => {
                *n = r2.pick(&names).clone();
                done = Some("identifier_kind".into());
            }
            (10, X::Hex(b)) => {
                let mut s = hex::encode(&*b);
                s.push('a');
                *x = X::HexOdd(s);
                done = Some("hex_odd".into());
            }
            (11, X::Num(_)) | (11, X::Id(_)) => {
                let inner = x.clone();
                *x = X::Prop(Box::new(inner), r2.pick(&names).clone());
                done = Some("property_on_anything".into());
            }
            _ => {}
        }
    });
    done.unwrap_or_else(|| "none".into())
}

// ---------------------------------------------------------------------------------------------

fn tx3c_bin() -> std::path::PathBuf {
    if let Ok(p) = std::env::var("TX3C_BIN") {
        return p.into();
    }
    let exe = std::env::current_exe().unwrap();
    // <harness>/target/release/tx3v -> <harness>/target_tx3c/release/tx3c
    exe.parent().unwrap().parent().unwrap().parent().unwrap().join("target_tx3c/release/tx3c")
}

pub struct Tii {
    pub bytes: Vec<u8>,
    pub json: serde_json::Value,
}

pub fn emit_tii(dir: &std::path::Path, tag: &str, src: &str) -> Option<Tii> {
    emit_tii_over(dir, tag, src, None)
}

/// `stale`: what an earlier build left at the output path (a rebuild must replace it entirely)
pub fn emit_tii_over(dir: &std::path::Path, tag: &str, src: &str, stale: Option<&[u8]>) -> Option<Tii> {
    let src_path = dir.join(format!("{}.tx3", tag));
    let out_path = dir.join(format!("{}.tii", tag));
    std::fs::write(&src_path, src).ok()?;
    let _ = std::fs::remove_file(&out_path);
    if let Some(old) = stale {
        std::fs::write(&out_path, old).ok()?;
    }
    let st = std::process::Command::new(tx3c_bin())
        .arg("build")
        .arg(&src_path)
        .arg("--emit")
        .arg("tii")
        .arg("-o")
        .arg(&out_path)
        .stdout(std::process::Stdio::null())
        .stderr(std::process::Stdio::null())
        .status()
        .ok()?;
    if !st.success() {
        return None;
    }
    let bytes = std::fs::read(&out_path).ok()?;
    let json = serde_json::from_slice(&bytes).ok()?;
    Some(Tii { bytes, json })
}

fn keys_of(v: &serde_json::Value) -> Vec<String> {
    v.as_object().map(|o| o.keys().cloned().collect()).unwrap_or_default()
}

fn strs_gal(v: &[String]) -> String {
    gal::list(&v.iter().map(|s| gal::s(s)).collect::<Vec<_>>())
}

/// lowering + encoding in a fresh process: `tx3v lowerbytes <file> <tx>` prints hex
pub fn lowerbytes_cmd(path: &str, name: &str) {
    let src = std::fs::read_to_string(path).unwrap();
    let o = front(&src);
    for t in o.txs {
        if t.name == name {
            println!("{}", t.bytes.map(|b| hex::encode(b)).unwrap_or_default());
        }
    }
}

fn fresh_process_bytes(path: &std::path::Path, name: &str) -> Option<Vec<u8>> {
    let out = std::process::Command::new(std::env::current_exe().unwrap()).arg("lowerbytes").arg(path).arg(name).output().ok()?;
    hex::decode(String::from_utf8_lossy(&out.stdout).trim()).ok()
}

pub fn run(ctx: &mut Ctx, focus: Focus) {
    let n_cases = match (focus, ctx.thorough) {
        (Focus::C13, false) => 400,
        (Focus::C13, true) => 6000,
        (Focus::C17, false) => 60,
        (Focus::C17, true) => 600,
        (Focus::C18, false) => 60,
        (Focus::C18, true) => 500,
    };
    let mut r = Rng::new(ctx.seed.wrapping_mul(0x9E37).wrapping_add(focus as u64));
    let mut texts = vec![];
    let mut mutation_hist: std::collections::BTreeMap<String, usize> = Default::default();
    let mut accepted_n = 0usize;
    let mut lowered_ok = 0usize;
    let mut lowered_fail = 0usize;
    let mut analysis_panics = 0usize;
    let mut tii_emitted = 0usize;
    let scratch = ctx.out.join("src");
    std::fs::create_dir_all(&scratch).unwrap();
    // example programs first (C18 quantifies over them too)
    let mut sources: Vec<(Option<Prog>, String, String)> = vec![];
    for ci in 0..n_cases {
        let mut rr = r.fork();
        let mut g = srcgen::Gen::new(&mut rr, Mode::Broad);
        g.collide = focus == Focus::C17;
        let n_txs = if focus == Focus::C13 { 1 } else { 1 + (ci % 3) };
        let mut p = g.gen_program(n_txs);
        let mut mname = String::from("valid");
        if focus == Focus::C13 && ci % 8 != 0 {
            mname = mutate(&mut r, &mut p);
            if r.chance(1, 4) {
                let m2 = mutate(&mut r, &mut p);
                mname = format!("{}+{}", mname, m2);
            }
        }
        *mutation_hist.entry(mname.clone()).or_default() += 1;
        let text = srcgen::prog_text(&p, None);
        sources.push((Some(p), text, mname));
    }
    for (ci, (p, text, _mname)) in sources.iter().enumerate() {
        let p = p.as_ref().unwrap();
        let obs = front(text);
        if obs.analysis_panic {
            analysis_panics += 1;
        }
        if obs.accepted {
            accepted_n += 1;
        }
        let fac = if obs.parse_ok && !obs.analysis_panic { facade(text) } else { 1 };
        // the same program in another layout
        let mut lr = r.fork();
        let text2 = srcgen::prog_text(p, Some(&mut lr));
        let obs2 = front(&text2);
        // C17 / C18: the emitted interface
        let want_tii = focus != Focus::C13 && obs.accepted && obs.txs.iter().all(|t| t.kind == 0);
        let mut tii: Option<Tii> = None;
        let mut tii_same = true;
        if want_tii {
            tii = emit_tii(&scratch, &format!("p{}", ci), text);
            if let Some(t) = &tii {
                tii_emitted += 1;
                let reps = if focus == Focus::C18 { 2 } else { 0 };
                for k in 0..reps {
                    // the second repetition builds over the (longer) output of an earlier build
                    let mut old = t.bytes.clone();
                    old.extend(std::iter::repeat(b' ').take(64));
                    old.extend(t.bytes.iter().take(700));
                    let stale = if k == 1 { Some(old.as_slice()) } else { None };
                    match emit_tii_over(&scratch, &format!("p{}_{}", ci, k), text, stale) {
                        Some(t2) => tii_same &= t2.bytes == t.bytes,
                        None => tii_same = false,
                    }
                }
            }
        }
        let src_path = scratch.join(format!("p{}.tx3", ci));
        if focus == Focus::C18 {
            std::fs::write(&src_path, text).unwrap();
        }
        let mut tx_gals = vec![];
        for (k, t) in obs.txs.iter().enumerate() {
            if t.kind == 0 {
                lowered_ok += 1;
            } else if t.kind != 9 {
                lowered_fail += 1;
                if std::env::var("TX3V_DEBUG").is_ok() {
                    eprintln!("case {} tx {}: kind {} {}", ci, t.name, t.kind, t.err);
                }
            }
            let layout_same = match obs2.txs.get(k) {
                Some(t2) => obs2.parse_ok && obs2.accepted == obs.accepted && t2.kind == t.kind && t2.bytes == t.bytes,
                None => false,
            } || !obs.parse_ok;
            let mut repeat_same = true;
            if focus == Focus::C18 && t.kind == 0 {
                for _ in 0..20 {
                    let o = front(text);
                    repeat_same &= o.txs.get(k).map(|x| x.bytes == t.bytes).unwrap_or(false);
                }
                for _ in 0..3 {
                    repeat_same &= fresh_process_bytes(&src_path, &t.name) == t.bytes;
                }
            }
            let (tii_params, tii_tir_same, impl_params) = match (&tii, &t.tir) {
                (Some(tii), Some(tirtx)) => {
                    let entry = &tii.json["transactions"][&t.name];
                    let params = keys_of(&entry["params"]["properties"]);
                    let content = entry["tir"]["content"].as_str().unwrap_or("");
                    let decoded = hex::decode(content)
                        .ok()
                        .and_then(|b| tx3_tir::encoding::from_bytes(&b, tx3_tir::encoding::TirVersion::V1Beta0).ok());
                    let same = decoded
                        .as_ref()
                        .map(|any| match any {
                            tx3_tir::encoding::AnyTir::V1Beta0(x) => tirgen::tx_gal(x) == tirgen::tx_gal(tirtx),
                        })
                        .unwrap_or(false);
                    // what the server will ask the client for: the implementation's find_params of the shipped IR
                    let reported: Vec<String> = decoded
                        .map(|any| match any {
                            tx3_tir::encoding::AnyTir::V1Beta0(x) => tx3_tir::reduce::find_params(&x).keys().cloned().collect(),
                        })
                        .unwrap_or_default();
                    (params, same, reported)
                }
                _ => (vec![], true, vec![]),
            };
            tx_gals.push(format!(
                "(mk_tx_obs {} {} {} {} {} {} {} {})",
                gal::s(&t.name),
                gal::n(t.kind),
                gal::opt(t.tir.as_ref().map(tirgen::tx_gal)),
                gal::b(layout_same),
                gal::b(repeat_same),
                strs_gal(&tii_params),
                gal::b(tii_tir_same),
                strs_gal(&impl_params)
            ));
        }
        let (parties, env) = match &tii {
            Some(t) => (keys_of(&t.json["parties"]), keys_of(&t.json["environment"]["properties"])),
            None => (vec![], vec![]),
        };
        texts.push(format!(
            "(mk_case {} {} {} {} {} {} {} {} {} {})",
            srcgen::prog_gal(p),
            gal::b(obs.parse_ok),
            gal::b(obs.accepted),
            gal::b(obs.analysis_panic),
            gal::n(fac),
            gal::b(tii.is_some()),
            strs_gal(&parties),
            strs_gal(&env),
            gal::b(tii_same),
            gal::list(&tx_gals)
        ));
        if ctx.thorough && ci % 500 == 0 {
            eprintln!("{}/{}", ci, n_cases);
        }
    }
    // C18 also quantifies over the example programs of the repository (no Gallina tree for
    // those: the repetition clause is evaluated by the harness itself)
    let mut impl_violations = vec![];
    // C13: policy definitions in constructor form are outside the modelled core; on them the
    // property is evaluated on the implementation directly (accepted => every tx lowers, no panic)
    if focus == Focus::C13 {
        let n_probes = if ctx.thorough { 2000 } else { 200 };
        let mut probe_hist: std::collections::BTreeMap<String, usize> = Default::default();
        for _ in 0..n_probes {
            // one probe in twenty: policies naming policies through more levels than the analyzer resolves (recorded finding F13-5)
            let chain = r.chance(1, 20);
            let text = if chain {
                let depth = 5 + r.below(3) as usize;
                let mut s = String::from("party Alice;\n");
                for k in 0..depth - 1 {
                    s.push_str(&format!("policy P{} {{\n    hash: P{},\n}}\n", k, k + 1));
                }
                s.push_str(&format!("policy P{} = 0xABCDEF;\ntx t() {{\n    output {{\n        to: P0,\n        amount: Ada(1),\n    }}\n}}\n", depth - 1));
                s
            } else { match r.below(3) { 0 => policy_probe(&mut r), 1 => type_position_probe(&mut r), _ => name_meeting_probe(&mut r) } };
            let obs = front(&text);
            let fac = if obs.parse_ok && !obs.analysis_panic { facade(&text) } else { 1 };
            let bad_tx = obs.txs.iter().find(|t| t.kind != 0 && t.kind != 9);
            let verdict = if !obs.parse_ok { "unparsed" } else if obs.analysis_panic { "analysis_panic" } else if !obs.accepted { "rejected" } else if bad_tx.is_some() { "accepted_not_lowered" } else { "accepted_lowered" };
            *probe_hist.entry(verdict.to_string()).or_default() += 1;
            if obs.analysis_panic || fac == 2 || (obs.accepted && bad_tx.is_some()) {
                if impl_violations.len() < 20 {
                    impl_violations.push(serde_json::json!({"index": -1, "ids": [if chain { 142 } else { 141 }], "what": "a text program outside the modelled core (policy definitions in constructor form; parameters and environment values typed by records, variants and alias chains) is accepted (or panics) and does not lower",
                        "source": text, "lowering": bad_tx.map(|t| t.err.clone()), "facade": fac, "analysis_panic": obs.analysis_panic}));
                }
            }
        }
        ctx.meta.insert("policy_probes".into(), serde_json::json!(probe_hist));
    }
    let mut examples_n = 0usize;
    if focus == Focus::C18 {
        let dir = std::path::Path::new("/repo/examples");
        let mut files: Vec<_> = std::fs::read_dir(dir).map(|d| d.filter_map(|e| e.ok()).map(|e| e.path()).collect()).unwrap_or_default();
        files.sort();
        for f in files.iter().filter(|f| f.extension().map(|e| e == "tx3").unwrap_or(false)) {
            let text = match std::fs::read_to_string(f) {
                Ok(t) => t,
                Err(_) => continue,
            };
            let obs = front(&text);
            if !obs.accepted {
                continue;
            }
            examples_n += 1;
            for (k, t) in obs.txs.iter().enumerate() {
                if t.kind != 0 {
                    continue;
                }
                let mut same = true;
                for _ in 0..20 {
                    let o = front(&text);
                    same &= o.txs.get(k).map(|x| x.bytes == t.bytes).unwrap_or(false);
                }
                for _ in 0..3 {
                    same &= fresh_process_bytes(f, &t.name) == t.bytes;
                }
                if !same {
                    impl_violations.push(serde_json::json!({"index": -1, "ids": [181], "what": "repeated lowering + encoding gives different bytes", "file": f.to_string_lossy(), "tx": t.name}));
                }
            }
            if obs.txs.iter().all(|t| t.kind == 0) {
                let tag = format!("ex_{}", f.file_stem().unwrap().to_string_lossy());
                let a = emit_tii(&scratch, &tag, &text);
                let b = emit_tii(&scratch, &format!("{}_b", tag), &text);
                let c = emit_tii(&scratch, &format!("{}_c", tag), &text);
                match (a, b, c) {
                    (Some(a), Some(b), Some(c)) if a.bytes == b.bytes && b.bytes == c.bytes => {}
                    _ => impl_violations.push(serde_json::json!({"index": -1, "ids": [182], "what": "the TII file differs between processes (or is not emitted)", "file": f.to_string_lossy()})),
                }
            }
        }
    }
    if focus == Focus::C17 {
        for (k, n_terms) in [4usize, 12, 16, 24, 40].into_iter().enumerate() {
            let params: Vec<String> = (0..n_terms).map(|i| format!("p{}: Int", i)).collect();
            let sum: Vec<String> = (0..n_terms).map(|i| format!("p{}", i)).collect();
            let text = format!(
                "party Payer;\nparty Payee;\ntx payroll({}) {{\n    locals {{\n        total: {},\n    }}\n    input source {{\n        from: Payer,\n        min_amount: Ada(total),\n    }}\n    output {{\n        to: Payee,\n        amount: Ada(total),\n    }}\n    output {{\n        to: Payer,\n        amount: source - Ada(total) - fees,\n    }}\n}}\n",
                params.join(", "), sum.join(" + "));
            let obs = front(&text);
            let lowered = obs.txs.first().and_then(|t| t.bytes.clone());
            let shipped = emit_tii(&scratch, &format!("deep{}", k), &text).and_then(|t| {
                let content = t.json["transactions"]["payroll"]["tir"]["content"].as_str().unwrap_or("").to_string();
                hex::decode(content).ok()
            });
            let decodes = shipped.as_ref().map(|b| tx3_tir::encoding::from_bytes(b, tx3_tir::encoding::TirVersion::V1Beta0).is_ok()).unwrap_or(false);
            let reported: Vec<String> = shipped.as_ref().and_then(|b| tx3_tir::encoding::from_bytes(b, tx3_tir::encoding::TirVersion::V1Beta0).ok())
                .map(|any| match any { tx3_tir::encoding::AnyTir::V1Beta0(x) => tx3_tir::reduce::find_params(&x).keys().cloned().collect() }).unwrap_or_default();
            let ok = obs.accepted && lowered.is_some() && shipped == lowered && decodes && (0..n_terms).all(|i| reported.contains(&format!("p{}", i)));
            if !ok {
                impl_violations.push(serde_json::json!({"index": -1, "ids": [176], "what": "the IR shipped for a sum of many parameters does not decode to what lowering produced (or does not report every parameter)",
                    "terms": n_terms, "accepted": obs.accepted, "shipped_equals_lowered": shipped == lowered, "decodes": decodes, "source": text}));
            }
        }
    }
    ctx.meta.insert("impl_violations".into(), serde_json::json!(impl_violations));
    ctx.meta.insert("example_programs".into(), serde_json::json!(examples_n));
    let _ = std::fs::remove_dir_all(&scratch);
    let id = format!("{:?}", focus);
    // keep the sources for replay
    let src_dump: Vec<serde_json::Value> = sources.iter().map(|(_, t, m)| serde_json::json!({"mutation": m, "source": t})).collect();
    std::fs::write(ctx.out.join(format!("sources_{}.json", id)), serde_json::to_string(&src_dump).unwrap()).unwrap();
    ctx.write_cases(&id, "From Tx3 Require Import Base Assets Select Tir Surface Lower Analyze Front_check.\nOpen Scope string_scope.", "case", "run", &texts, 25);
    ctx.meta.insert("evaluations".into(), serde_json::json!(n_cases));
    ctx.meta.insert("programs".into(), serde_json::json!(n_cases));
    let distinct: std::collections::BTreeSet<&String> = sources.iter().map(|s| &s.1).collect();
    ctx.meta.insert("distinct_nontrivial".into(), serde_json::json!(distinct.len()));
    ctx.meta.insert("samples".into(), serde_json::json!(sources.iter().take(3).map(|s| s.1.chars().take(400).collect::<String>()).collect::<Vec<_>>()));
    ctx.meta.insert(
        "rule".into(),
        serde_json::json!("programs of the core fragment from srcgen.rs (typed generation over env/parties/policies/assets/records/variants; C13: one or two semantic mutations per program, among them repeated case / field / input names, plus 200 (thorough 2000) text programs around policy definitions in constructor form, id 141; C17: transaction names that collide exactly or up to letter case; up to six reference blocks per transaction), printed in two layouts; every random choice from VERIF_SEED"),
    );
    ctx.meta.insert(
        "distribution".into(),
        serde_json::json!({
            "programs": n_cases, "accepted_by_analyzer": accepted_n, "analysis_panics": analysis_panics,
            "transactions_lowered": lowered_ok, "lowering_failures_on_accepted": lowered_fail,
            "tii_emitted": tii_emitted, "mutations": mutation_hist,
        }),
    );
}
