//! C05 / C20 — the resolve loop: run tx3_resolver::resolve_tx through a recording wrapper
//! around the real compiler (every pass: fee in, payload length, fee out, fee in the body),
//! on fresh and on reused compiler instances, and print cases for coq/C05_check.v.
use crate::c03::MemStore;
use crate::gal;
use crate::rng::Rng;
use crate::tirgen::addr_bytes;
use crate::Ctx;
use std::collections::{BTreeMap, HashMap, HashSet};
use tx3_cardano::pallas::codec::minicbor;
use tx3_cardano::pallas::ledger::primitives::conway;
use tx3_tir::compile::{CompiledTx, Compiler as CompilerTrait, Error as CompileError};
use tx3_tir::encoding::AnyTir;
use tx3_tir::model::assets::CanonicalAssets;
use tx3_tir::model::core::{Utxo, UtxoRef};
use tx3_tir::model::v1beta0 as tir;
use tx3_tir::reduce::ArgValue;

#[derive(Clone, Debug)]
pub struct PassRec {
    pub fee_in: i128,
    pub len: usize,
    pub pid: u64, // identity of the payload bytes
    pub fee_out: u64,
    pub body_fee: i128,
    pub n_outputs: usize,
    pub ok: bool,
}

pub struct Rec {
    pub inner: tx3_cardano::Compiler,
    pub log: Vec<PassRec>,
    pub payload_ids: HashMap<Vec<u8>, u64>,
    /// UTxOs that two input blocks of one pass both hold (pass number, reference)
    pub overlaps: Vec<(usize, String)>,
}

fn block_overlaps(t: &AnyTir) -> Vec<String> {
    let AnyTir::V1Beta0(tx) = t;
    let mut seen: HashMap<(Vec<u8>, u32), String> = HashMap::new();
    let mut out = vec![];
    for input in tx.inputs.iter() {
        let refs: Vec<(Vec<u8>, u32)> = match &input.utxos {
            tir::Expression::UtxoSet(set) => set.iter().map(|u| (u.r#ref.txid.clone(), u.r#ref.index)).collect(),
            tir::Expression::UtxoRefs(v) => v.iter().map(|r| (r.txid.clone(), r.index)).collect(),
            _ => vec![],
        };
        for rf in refs {
            if let Some(other) = seen.get(&rf) {
                if other != &input.name {
                    out.push(format!("{}#{} in blocks {} and {}", hex::encode(&rf.0), rf.1, other, input.name));
                }
            } else {
                seen.insert(rf, input.name.clone());
            }
        }
    }
    out
}

fn fee_in_of(t: &AnyTir) -> i128 {
    let AnyTir::V1Beta0(tx) = t;
    fn num(e: &tir::Expression) -> i128 {
        match e {
            tir::Expression::Number(n) => *n,
            tir::Expression::Assets(v) if v.len() == 1 => num(&v[0].amount),
            _ => -1,
        }
    }
    num(&tx.fees)
}

impl CompilerTrait for Rec {
    type CompilerOp = tir::CompilerOp;
    type Expression = tir::Expression;

    fn compile(&mut self, t: &AnyTir) -> Result<CompiledTx, CompileError> {
        let fee_in = fee_in_of(t);
        let pass = self.log.len();
        self.overlaps.extend(block_overlaps(t).into_iter().map(|x| (pass, x)));
        // through the trait, as resolve_tx reaches the compiler (an inherent method of the same name would hide the trait's)
        let r = <tx3_cardano::Compiler as CompilerTrait>::compile(&mut self.inner, t);
        match &r {
            Ok(c) => {
                let n = self.payload_ids.len() as u64;
                let pid = *self.payload_ids.entry(c.payload.clone()).or_insert(n);
                let decoded: Result<conway::Tx, _> = minicbor::decode(&c.payload);
                let (body_fee, n_outputs) = match &decoded {
                    Ok(tx) => (tx.transaction_body.fee as i128, tx.transaction_body.outputs.len()),
                    Err(_) => (-1, 0),
                };
                self.log.push(PassRec { fee_in, len: c.payload.len(), pid, fee_out: c.fee, body_fee, n_outputs, ok: true });
            }
            Err(_) => self.log.push(PassRec { fee_in, len: 0, pid: 0, fee_out: 0, body_fee: -1, n_outputs: 0, ok: false }),
        }
        r
    }

    fn reduce_op(&self, op: Self::CompilerOp) -> Result<Self::Expression, tx3_tir::reduce::Error> {
        <tx3_cardano::Compiler as CompilerTrait>::reduce_op(&self.inner, op)
    }

    fn reset(&mut self) {
        <tx3_cardano::Compiler as CompilerTrait>::reset(&mut self.inner)
    }
}

#[derive(Clone, Debug)]
pub struct PP {
    pub coef: u64,
    pub constant: u64,
    pub extra: Option<u64>,
    pub coins: u64,
    pub mainnet: bool,
}

pub fn new_rec(pp: &PP) -> Rec {
    let mut pparams = crate::c06::test_pparams(pp.coins, pp.mainnet);
    pparams.min_fee_coefficient = pp.coef;
    pparams.min_fee_constant = pp.constant;
    Rec {
        inner: tx3_cardano::Compiler::new(
            pparams,
            tx3_cardano::Config { extra_fees: pp.extra },
            tx3_cardano::ChainPoint { slot: 101_674_141, hash: vec![], timestamp: 1_757_611_408_000 },
        ),
        log: vec![],
        payload_ids: HashMap::new(),
        overlaps: vec![],
    }
}

pub fn lower_src(src: &str, name: &str) -> Option<tir::Tx> {
    std::panic::catch_unwind(|| {
        let mut program = tx3_lang::parsing::parse_string(src).ok()?;
        let report = tx3_lang::analyzing::analyze(&mut program);
        if !report.errors.is_empty() {
            return None;
        }
        tx3_lang::lowering::lower(&program, name).ok()
    })
    .ok()
    .flatten()
}

/// templates using `fees` in outputs and/or min_amount, with and without min_utxo; `k` extra outputs
pub fn template_src(kind: u64, extra_outputs: usize) -> String {
    let mut s = String::from("party Sender;\nparty Receiver;\n\ntype Blob {\n    data: Bytes,\n}\n\ntx t(quantity: Int) {\n");
    match kind {
        0 => {
            s.push_str("    input source {\n        from: Sender,\n        min_amount: Ada(quantity) + fees,\n    }\n");
            s.push_str("    output {\n        to: Receiver,\n        amount: Ada(quantity),\n    }\n");
            s.push_str("    output {\n        to: Sender,\n        amount: source - Ada(quantity) - fees,\n    }\n");
        }
        1 => {
            s.push_str("    input source {\n        from: Sender,\n        min_amount: Ada(quantity) + fees,\n    }\n");
            s.push_str("    output target {\n        to: Receiver,\n        amount: min_utxo(target),\n    }\n");
            s.push_str("    output {\n        to: Sender,\n        amount: source - min_utxo(target) - fees,\n    }\n");
        }
        2 => {
            s.push_str("    input source {\n        from: Sender,\n        min_amount: fees,\n    }\n");
            s.push_str("    output {\n        to: Sender,\n        amount: source - fees,\n    }\n");
        }
        3 => {
            // fees only in the threshold: the change does not depend on them
            s.push_str("    input source {\n        from: Sender,\n        min_amount: Ada(quantity) + fees,\n    }\n");
            s.push_str("    output {\n        to: Receiver,\n        amount: Ada(quantity),\n    }\n");
        }
        6 => {
            // the threshold itself reads min_utxo: the first pass asks the store for an amount
            // sized from whatever body the instance holds
            s.push_str("    input source {\n        from: Sender,\n        min_amount: fees + min_utxo(target) + min_utxo(change),\n    }\n");
            s.push_str("    output target {\n        to: Receiver,\n        amount: min_utxo(target),\n    }\n");
            s.push_str("    output change {\n        to: Sender,\n        amount: source - min_utxo(target) - fees,\n    }\n");
        }
        7 => {
            // a first output that is large on the wire (a datum of 3000 bytes)
            s.push_str("    input source {\n        from: Sender,\n        min_amount: Ada(quantity) + fees,\n    }\n");
            s.push_str(&format!("    output {{\n        to: Receiver,\n        amount: Ada(quantity),\n        datum: Blob {{ data: 0x{}, }},\n    }}\n", "5a".repeat(3000)));
            s.push_str("    output {\n        to: Sender,\n        amount: source - Ada(quantity) - fees,\n    }\n");
        }
        5 => {
            // min_utxo of the second output: an index that a one-output body does not have
            s.push_str("    input source {\n        from: Sender,\n        min_amount: Ada(quantity) + fees,\n    }\n");
            s.push_str("    output {\n        to: Receiver,\n        amount: Ada(quantity),\n    }\n");
            s.push_str("    output second {\n        to: Receiver,\n        amount: min_utxo(second),\n    }\n");
            s.push_str("    output {\n        to: Sender,\n        amount: source - Ada(quantity) - min_utxo(second) - fees,\n    }\n");
        }
        _ => {
            s.push_str("    input source {\n        from: Sender,\n        min_amount: Ada(quantity) + fees,\n    }\n");
            s.push_str("    output first {\n        to: Receiver,\n        amount: Ada(quantity) + min_utxo(first),\n    }\n");
            s.push_str("    output {\n        to: Sender,\n        amount: source - Ada(quantity) - min_utxo(first) - fees,\n    }\n");
        }
    }
    for _ in 0..extra_outputs {
        s.push_str("    output {\n        to: Receiver,\n        amount: Ada(1000000),\n    }\n");
    }
    s.push_str("}\n");
    s
}

pub fn sender_store(r: &mut Rng, amounts: &[i128]) -> MemStore {
    let mut utxos = vec![];
    for (i, a) in amounts.iter().enumerate() {
        let mut t = vec![0u8; 24];
        t.extend((i as u64 + 1).to_be_bytes());
        utxos.push(Utxo {
            r#ref: UtxoRef { txid: t, index: r.below(2) as u32 },
            address: addr_bytes(0xA1),
            assets: CanonicalAssets::from_naked_amount(*a),
            datum: None,
            script: None,
        });
    }
    MemStore { utxos }
}

pub fn std_args(q: i128) -> BTreeMap<String, ArgValue> {
    BTreeMap::from([
        ("sender".to_string(), ArgValue::Address(addr_bytes(0xA1))),
        ("receiver".to_string(), ArgValue::Address(addr_bytes(0xB2))),
        ("quantity".to_string(), ArgValue::Int(q)),
    ])
}

pub struct Outcome {
    pub kind: u8, // 0 ok 1 err 2 panic
    pub payload: Vec<u8>,
    pub hash: Vec<u8>,
    pub fee: u64,
    pub err: String,
}

pub fn resolve_with(rec: &mut Rec, tx: &tir::Tx, args: &BTreeMap<String, ArgValue>, store: &MemStore, max_rounds: usize) -> Outcome {
    let res = std::panic::catch_unwind(std::panic::AssertUnwindSafe(|| {
        pollster::block_on(tx3_resolver::resolve_tx(AnyTir::V1Beta0(tx.clone()), args, rec, store, max_rounds))
    }));
    match res {
        Err(_) => Outcome { kind: 2, payload: vec![], hash: vec![], fee: 0, err: crate::last_panic() },
        Ok(Err(e)) => {
            // the kind of error: its variant name
            let s = format!("{:?}", e);
            let variant = s.split(|c: char| !c.is_alphanumeric()).next().unwrap_or("").to_string();
            Outcome { kind: 1, payload: vec![], hash: vec![], fee: 0, err: variant }
        }
        Ok(Ok(c)) => Outcome { kind: 0, payload: c.payload, hash: c.hash, fee: c.fee, err: String::new() },
    }
}

fn pass_gal(p: &PassRec) -> String {
    format!(
        "(mk_pass {} {} {} {} {} {})",
        gal::z(p.fee_in),
        gal::n(p.len),
        gal::n(p.pid),
        gal::n(p.fee_out),
        gal::z(p.body_fee),
        gal::b(p.ok)
    )
}

pub fn random_pp(r: &mut Rng) -> PP {
    PP {
        // one set in eight is extreme: the fee of a real payload then does not fit 64 bits
        coef: match r.below(16) { 0 => *r.pick(&[u64::MAX, u64::MAX / 100, 1u64 << 60]), 1..=4 => 0, 5..=8 => 44, 9..=12 => r.below(1001), _ => *r.pick(&[1u64, 2, 1000]) },
        constant: match r.below(24) { 0 => *r.pick(&[u64::MAX, u64::MAX - 1000]), 1..=8 => 0, 9..=16 => 155381, _ => r.below(1_000_001) },
        extra: match r.below(24) { 0 => Some(u64::MAX), 1..=8 => None, 9..=16 => Some(0), _ => Some(r.below(500_000)) },
        coins: *r.pick(&[1u64, 4310, u64::MAX]),
        mainnet: r.chance(1, 2),
    }
}

pub fn run_c05(ctx: &mut Ctx) {
    let mut r = Rng::new(ctx.seed ^ 0xC05);
    let n_cases = if ctx.thorough { 60_000 } else { 3_000 };
    let templates: Vec<Option<tir::Tx>> = (0..6).map(|k| lower_src(&template_src(k, 0), "t")).collect();
    let mut texts = vec![];
    let mut hist: BTreeMap<String, u64> = BTreeMap::new();
    let mut samples = vec![];
    let mut distinct = HashSet::new();
    // corpus: the replayed finding F05-1 first
    let mut plans: Vec<(u64, PP, i128, Vec<i128>, usize)> = vec![(
        0,
        PP { coef: 44, constant: 155381, extra: None, coins: 4310, mainnet: false },
        1_000_000,
        vec![1_426_725],
        3,
    )];
    for _ in 0..n_cases {
        let kind = r.below(6);
        let pp = random_pp(&mut r);
        let q: i128 = *r.pick(&[1_000_000i128, 2_000_000, 10_000_000, 23, 24, 255, 256, 65_535, 65_536]);
        // change amounts straddling CBOR width steps: 23/24, 2^8, 2^16, 2^32
        let boundary: i128 = *r.pick(&[24i128, 256, 65_536, 4_294_967_296]);
        let base = q + 361_000 + boundary;
        let amt = match r.below(4) {
            0 => base + r.range(-12_000, 12_000) as i128,
            1 => q + boundary + (pp.coef as i128) * 300 + pp.constant as i128 + pp.extra.unwrap_or(200_000) as i128 + r.range(-3000, 3000) as i128,
            2 => 5_000_000 + r.below(100_000_000) as i128,
            _ => q + r.below(3_000_000) as i128,
        };
        let mut amounts = vec![amt.max(1)];
        if r.chance(1, 5) {
            amounts.push(1 + r.below(10_000_000) as i128);
        }
        let max_rounds = *r.pick(&[0usize, 3, 3, 10]);
        plans.push((kind, pp, q, amounts, max_rounds));
    }
    let mut cap_exits = 0u64;
    for (i, (kind, pp, q, amounts, max_rounds)) in plans.iter().enumerate() {
        let Some(tx) = &templates[*kind as usize] else { continue };
        let store = sender_store(&mut r, amounts);
        let mut rec = new_rec(pp);
        let out = resolve_with(&mut rec, tx, &std_args(*q), &store, *max_rounds);
        let margin = pp.extra.unwrap_or(200_000);
        *hist.entry(format!("template_{}", kind)).or_default() += 1;
        *hist.entry(format!("kind_{}", out.kind)).or_default() += 1;
        *hist.entry(format!("passes_{}", rec.log.len().min(13))).or_default() += 1;
        let allowed = (*max_rounds).max(3) + 2;
        if out.kind == 0 && rec.log.len() == allowed {
            cap_exits += 1;
        }
        // result as the implementation reports it
        let (res_pid, res_len, res_body_fee) = if out.kind == 0 {
            let pid = rec.payload_ids.get(&out.payload).copied().unwrap_or(u64::MAX);
            let body_fee = minicbor::decode::<conway::Tx>(&out.payload).map(|t| t.transaction_body.fee as i128).unwrap_or(-1);
            (pid, out.payload.len(), body_fee)
        } else {
            (0, 0, -1)
        };
        let text = format!(
            "(mk_case {} {} {} {} {} {} {} {} {} {})",
            gal::n(pp.coef),
            gal::n(pp.constant),
            gal::n(margin),
            gal::n(*max_rounds),
            gal::list(&rec.log.iter().map(pass_gal).collect::<Vec<_>>()),
            gal::n(out.kind),
            gal::n(res_pid),
            gal::n(res_len),
            gal::n(out.fee),
            gal::z(res_body_fee)
        );
        distinct.insert(text.clone());
        if i < 2 || i % (plans.len() / 4 + 1) == 0 {
            samples.push(serde_json::json!({"template": template_src(*kind, 0), "pparams": format!("{:?}", pp), "quantity": q.to_string(),
                "utxo_lovelace": amounts.iter().map(|a| a.to_string()).collect::<Vec<_>>(), "max_rounds": max_rounds,
                "passes": rec.log.iter().map(|p| format!("fee_in={} len={} fee_out={} body_fee={}", p.fee_in, p.len, p.fee_out, p.body_fee)).collect::<Vec<_>>(),
                "outcome": out.kind, "reported_fee": out.fee, "error": out.err}));
        }
        texts.push(text);
    }
    ctx.write_cases("C05", "From Tx3 Require Import Base Loop C05_check.", "case", "run", &texts, 400);
    ctx.meta.insert("evaluations".into(), serde_json::json!(texts.len()));
    ctx.meta.insert("distinct_nontrivial".into(), serde_json::json!(distinct.len()));
    ctx.meta.insert("round_cap_exits".into(), serde_json::json!(cap_exits));
    ctx.meta.insert("distribution".into(), serde_json::json!(hist));
    ctx.meta.insert("samples".into(), serde_json::json!(samples));
    ctx.meta.insert(
        "rule".into(),
        serde_json::json!("resolve_tx through a recording Compiler wrapper on 5 templates (fees in outputs and/or min_amount, with and without min_utxo) x pparams (coefficient in {0, 44, 0..1000}, constant in {0, 155381, 0..10^6}, extra_fees in {None, 0, n}; about one set in eight has a coefficient, constant or margin near 2^64) x UTxO amounts directed at CBOR width steps of the change (23/24, 2^8, 2^16, 2^32, within +-12000) and random x max_rounds in {0, 3, 10}; distinct = distinct printed case (pass trace + result)"),
    );
}

pub fn run_c20(ctx: &mut Ctx) {
    let mut r = Rng::new(ctx.seed ^ 0xC20);
    let n_cases = if ctx.thorough { 6_000 } else { 500 };
    let mut texts = vec![];
    let mut hist: BTreeMap<String, u64> = BTreeMap::new();
    let mut samples = vec![];
    let mut distinct = HashSet::new();
    // template pool: kinds x extra outputs (0..5 outputs overall)
    let mut pool: Vec<(u64, usize, tir::Tx)> = vec![];
    for kind in 0..8u64 {
        for extra in 0..4usize {
            if let Some(t) = lower_src(&template_src(kind, extra), "t") {
                pool.push((kind, extra, t));
            }
        }
    }
    for i in 0..n_cases {
        let pp = PP {
            coef: *r.pick(&[44u64, 1, 0, 500]),
            constant: *r.pick(&[155381u64, 2, 0]),
            extra: *r.pick(&[None, Some(0), Some(1234)]),
            coins: *r.pick(&[1u64, 4310, 4310]),
            mainnet: false,
        };
        let hlen = r.below(5) as usize;
        let mut history = vec![];
        for _ in 0..hlen {
            let (k, e, t) = r.pick(&pool).clone();
            // succeeding or failing: a store that may hold too little
            // ... or just too little for the fee: the first pass (fee 0) compiles, a later one fails
            let hq = *r.pick(&[1_000_000i128, 2_000_000]);
            let amt = match r.below(8) { 0 | 1 => 1000, 2 | 3 => hq + r.below(150_000) as i128, _ => 5_000_000 + r.below(50_000_000) as i128 };
            history.push((k, e, t, amt, hq));
        }
        // targets are biased towards min_utxo templates
        let (tk, te, target) = loop {
            let c = r.pick(&pool).clone();
            if matches!(c.0, 1 | 4 | 5 | 6) || r.chance(1, 3) {
                break c;
            }
        };
        let q = *r.pick(&[1_000_000i128, 2_000_000, 65_536]);
        let tamt = if r.chance(1, 8) { 1000 } else { q + 2_000_000 + r.below(5_000_000) as i128 + *r.pick(&[0i128, 65_536, 4_294_967_296]) };
        // a wallet that just covers a threshold sized from a small body (and not one sized from a large one)
        let tamt = if tk == 6 && r.chance(1, 2) { 2_500_000 + r.below(1_500_000) as i128 } else { tamt };
        let tstore = sender_store(&mut r, &[tamt]);
        // fresh instance
        let mut fresh = new_rec(&pp);
        let f = resolve_with(&mut fresh, &target, &std_args(q), &tstore, 3);
        // reused instance
        let mut used = new_rec(&pp);
        let mut hist_outs = vec![];
        for (_, _, t, amt, hq) in &history {
            let st = sender_store(&mut r, &[*amt]);
            let o = resolve_with(&mut used, t, &std_args(*hq), &st, 3);
            hist_outs.push(o.kind);
        }
        let prior_outputs = used.log.iter().rev().find(|p| p.ok).map(|p| p.n_outputs as i64).unwrap_or(-1);
        let before = used.log.len();
        let u = resolve_with(&mut used, &target, &std_args(q), &tstore, 3);
        let passes_used = used.log.len() - before;
        let same = f.kind == u.kind && f.payload == u.payload && f.hash == u.hash && f.fee == u.fee && (f.kind != 1 || f.err == u.err);
        let uses_min_utxo = matches!(tk, 1 | 4 | 5 | 6);
        *hist.entry(format!("history_len_{}", hlen)).or_default() += 1;
        *hist.entry(format!("target_min_utxo_{}", uses_min_utxo)).or_default() += 1;
        *hist.entry(format!("fresh_kind_{}", f.kind)).or_default() += 1;
        if !same {
            *hist.entry("differs".into()).or_default() += 1;
        }
        let text = format!(
            "(mk_hcase {} {} {} {} {} {} {} {} {})",
            gal::n(hlen),
            gal::b(uses_min_utxo),
            gal::z(prior_outputs as i128),
            gal::n(f.kind),
            gal::n(u.kind),
            gal::b(same),
            gal::n(fresh.log.len()),
            gal::n(passes_used),
            gal::b(f.kind == 2 || u.kind == 2)
        );
        distinct.insert((hlen, tk, te, f.kind, u.kind, same, history.iter().map(|h| (h.0, h.1)).collect::<Vec<_>>()));
        if i < 2 || i % (n_cases / 4 + 1) == 0 || !same {
            if samples.len() < 12 {
                samples.push(serde_json::json!({"history": history.iter().map(|h| format!("template {} +{} outputs, utxo {} lovelace", h.0, h.1, h.3)).collect::<Vec<_>>(),
                    "history_outcomes": hist_outs, "target": format!("template {} +{} outputs", tk, te), "pparams": format!("{:?}", pp),
                    "quantity": q.to_string(), "utxo": tamt.to_string(),
                    "fresh": {"kind": f.kind, "fee": f.fee, "hash": hex::encode(&f.hash), "err": f.err},
                    "reused": {"kind": u.kind, "fee": u.fee, "hash": hex::encode(&u.hash), "err": u.err}, "same": same}));
            }
        }
        texts.push(text);
    }
    ctx.write_cases("C20", "From Tx3 Require Import Base Loop C05_check.", "hcase", "hrun", &texts, 1000);
    ctx.meta.insert("evaluations".into(), serde_json::json!(texts.len()));
    ctx.meta.insert("distinct_nontrivial".into(), serde_json::json!(distinct.len()));
    ctx.meta.insert("distribution".into(), serde_json::json!(hist));
    ctx.meta.insert("samples".into(), serde_json::json!(samples));
    ctx.meta.insert(
        "rule".into(),
        serde_json::json!("histories of 0..4 earlier resolutions (8 template kinds - among them a threshold that reads min_utxo and a first output with a 3000-byte datum - x 0..3 extra outputs, succeeding or failing for lack of funds; tight wallets for the threshold template) on one compiler instance, then a target template (biased to ones using min_utxo); outcome (payload bytes, hash, fee, or error variant / panic) compared with a fresh identically configured instance; distinct = distinct (history shape, target, outcomes)"),
    );
}

/// C04 through the whole of resolve_tx: templates with two or three input blocks on one wallet, some
/// thresholds depending on the fee and some not, resolved over several fee passes; in every pass
/// the blocks handed to the compiler must hold disjoint UTxOs.
pub fn c04_loop_probe(r: &mut Rng, n: usize) -> (Vec<serde_json::Value>, BTreeMap<String, u64>) {
    let mut out = vec![];
    let mut hist: BTreeMap<String, u64> = BTreeMap::new();
    let blocks = |k: u64| -> String {
        let head = "party Sender;\nparty Receiver;\n\ntx t(quantity: Int) {\n";
        let body = match k {
            0 => "    input a {\n        from: Sender,\n        min_amount: Ada(3000000),\n    }\n    input b {\n        from: Sender,\n        min_amount: Ada(quantity) + fees,\n    }\n    output {\n        to: Receiver,\n        amount: a + b - fees,\n    }\n",
            1 => "    input a {\n        from: Sender,\n        min_amount: Ada(quantity) + fees,\n    }\n    input b {\n        from: Sender,\n        min_amount: Ada(3000000),\n    }\n    output {\n        to: Receiver,\n        amount: a + b - fees,\n    }\n",
            2 => "    input a {\n        from: Sender,\n        min_amount: Ada(3000000),\n    }\n    input* b {\n        from: Sender,\n        min_amount: Ada(quantity) + fees,\n    }\n    input c {\n        from: Sender,\n        min_amount: Ada(1000000),\n    }\n    output {\n        to: Receiver,\n        amount: a + b + c - fees,\n    }\n",
            _ => "    input a {\n        from: Sender,\n    }\n    input b {\n        from: Sender,\n        min_amount: fees,\n    }\n    output {\n        to: Receiver,\n        amount: a + b - fees,\n    }\n",
        };
        format!("{}{}}}\n", head, body)
    };
    let templates: Vec<Option<tir::Tx>> = (0..4).map(|k| lower_src(&blocks(k), "t")).collect();
    for _ in 0..n {
        let k = r.below(4) as usize;
        let Some(tx) = &templates[k] else { continue };
        let pp = PP { coef: *r.pick(&[44u64, 1, 500]), constant: *r.pick(&[155381u64, 2]), extra: *r.pick(&[None, Some(0)]), coins: 4310, mainnet: false };
        let n_utxos = 2 + r.below(4);
        let amounts: Vec<i128> = (0..n_utxos).map(|_| 2_000_000 + r.below(9_000_000) as i128).collect();
        let store = sender_store(r, &amounts);
        let mut rec = new_rec(&pp);
        let q = *r.pick(&[1_000_000i128, 2_000_000, 4_000_000]);
        let o = resolve_with(&mut rec, tx, &std_args(q), &store, *r.pick(&[0usize, 3, 10]));
        *hist.entry(format!("loop_kind_{}_passes_{}", o.kind, rec.log.len().min(6))).or_default() += 1;
        if !rec.overlaps.is_empty() && out.len() < 10 {
            out.push(serde_json::json!({"index": -1, "ids": [108], "what": "two input blocks of one resolve_tx pass hold the same UTxO",
                "template": blocks(k as u64), "quantity": q.to_string(), "utxo_lovelace": amounts.iter().map(|a| a.to_string()).collect::<Vec<_>>(),
                "overlaps": rec.overlaps.iter().map(|(p, x)| format!("pass {}: {}", p, x)).collect::<Vec<_>>()}));
        }
    }
    (out, hist)
}
