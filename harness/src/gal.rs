//! Printers of Gallina terms.
pub fn z(x: i128) -> String {
    if x < 0 {
        format!("({})%Z", x)
    } else {
        format!("{}%Z", x)
    }
}
pub fn n<T: std::fmt::Display>(x: T) -> String {
    format!("{}%N", x)
}
pub fn bytes(b: &[u8]) -> String {
    if b.is_empty() {
        return "[]".into();
    }
    let items: Vec<String> = b.iter().map(|x| format!("{}", x)).collect();
    format!("[{}]%N", items.join(";"))
}
pub fn list(items: &[String]) -> String {
    format!("[{}]", items.join("; "))
}
pub fn opt(x: Option<String>) -> String {
    match x {
        Some(s) => format!("(Some {})", s),
        None => "None".into(),
    }
}
pub fn b(x: bool) -> String {
    if x { "true".into() } else { "false".into() }
}
/// Coq string literal (ASCII only; non-ASCII and quotes are escaped by the caller's choice of input)
pub fn s(x: &str) -> String {
    let mut out = String::from("\"");
    for c in x.chars() {
        if c == '"' {
            out.push_str("\"\"");
        } else {
            out.push(c);
        }
    }
    out.push_str("\"%string");
    out
}
pub fn pair(a: String, b: String) -> String {
    format!("({}, {})", a, b)
}
