//! Printers of Gallina terms.
pub fn z(x: i128) -> String {
    if x < 0 {
        format!("({})%Z", x)
    } else {
        format!("{}%Z", x)
    }
}
pub fn n<T: std::fmt::Display>(x: T) -> String {
    format!("{}%N", x)
}
thread_local! {
    static INTERN: std::cell::RefCell<std::collections::BTreeMap<Vec<u8>, usize>> = std::cell::RefCell::new(Default::default());
}
/// definitions of the interned byte strings (long literals are slow to type-check when repeated)
pub fn interned_defs() -> String {
    INTERN.with(|m| {
        let mut v: Vec<(usize, Vec<u8>)> = m.borrow().iter().map(|(k, v)| (*v, k.clone())).collect();
        v.sort();
        v.iter()
            .map(|(i, b)| format!("Definition bs{} : list N := {}.\n", i, bytes_lit(b)))
            .collect()
    })
}
pub fn bytes(b: &[u8]) -> String {
    if b.len() < 6 {
        return bytes_lit(b);
    }
    INTERN.with(|m| {
        let mut m = m.borrow_mut();
        let n = m.len();
        let i = *m.entry(b.to_vec()).or_insert(n);
        format!("bs{}", i)
    })
}
pub fn bytes_lit(b: &[u8]) -> String {
    if b.is_empty() {
        return "[]".into();
    }
    let items: Vec<String> = b.iter().map(|x| format!("{}", x)).collect();
    format!("[{}]%N", items.join(";"))
}
pub fn list(items: &[String]) -> String {
    format!("[{}]", items.join("; "))
}
pub fn opt(x: Option<String>) -> String {
    match x {
        Some(s) => format!("(Some {})", s),
        None => "None".into(),
    }
}
pub fn b(x: bool) -> String {
    if x { "true".into() } else { "false".into() }
}
/// Coq string literal (ASCII only; non-ASCII and quotes are escaped by the caller's choice of input)
pub fn s(x: &str) -> String {
    let mut out = String::from("\"");
    for c in x.chars() {
        if c == '"' {
            out.push_str("\"\"");
        } else {
            out.push(c);
        }
    }
    out.push_str("\"%string");
    out
}
pub fn pair(a: String, b: String) -> String {
    format!("({}, {})", a, b)
}
