//! C11 — the TIR wire format: encode generated and lowered IRs with tx3_tir::encoding, print
//! the bytes and the IR (in serialization order) for coq/C11_check.v, decode them back, and
//! feed the decoder a malformed stream.
use crate::gal;
use crate::rng::Rng;
use crate::tirgen::*;
use crate::Ctx;
use std::collections::{BTreeMap, HashSet};
use tx3_tir::encoding::{from_bytes, to_bytes, AnyTir, TirVersion};
use tx3_tir::model::v1beta0 as tir;
use tx3_tir::reduce::{self, Apply as _};

pub fn example_txs() -> Vec<(String, tir::Tx)> {
    let mut out = vec![];
    let dir = "/repo/examples";
    let mut names: Vec<_> = std::fs::read_dir(dir).map(|d| d.filter_map(|e| e.ok()).map(|e| e.path()).collect()).unwrap_or_else(|_| vec![]);
    names.sort();
    for p in names {
        if p.extension().map(|e| e == "tx3").unwrap_or(false) {
            let src = match std::fs::read_to_string(&p) { Ok(s) => s, Err(_) => continue };
            let res = std::panic::catch_unwind(|| {
                let mut program = tx3_lang::parsing::parse_string(&src).ok()?;
                let report = tx3_lang::analyzing::analyze(&mut program);
                if !report.errors.is_empty() {
                    return None;
                }
                let mut v = vec![];
                for t in &program.txs {
                    if let Ok(x) = tx3_lang::lowering::lower(&program, &t.name.value) {
                        v.push((t.name.value.clone(), x));
                    }
                }
                Some(v)
            });
            if let Ok(Some(v)) = res {
                for (n, t) in v {
                    out.push((format!("{}::{}", p.file_stem().unwrap().to_string_lossy(), n), t));
                }
            }
        }
    }
    out
}

fn canon(tx: &tir::Tx) -> String {
    canon_tx_gal(tx)
}

/// bytes of a template whose `fees` expression is `List` nested `depth` deep (a well-shaped
/// nesting bomb: every level is what the typed decoder expects), built by splicing
pub fn shaped_bomb(depth: usize) -> Vec<u8> {
    let mut tx = tir::Tx {
        fees: tir::Expression::String("@@".into()),
        references: vec![],
        inputs: vec![],
        outputs: vec![],
        validity: None,
        mints: vec![],
        burns: vec![],
        adhoc: vec![],
        collateral: vec![],
        signers: None,
        metadata: vec![],
    };
    let (bytes, _) = to_bytes(&tx);
    tx.fees = tir::Expression::None;
    let marker: Vec<u8> = [&[0xa1u8, 0x66][..], b"String", &[0x62], b"@@"].concat();
    let pos = bytes.windows(marker.len()).position(|w| w == &marker[..]);
    let Some(pos) = pos else { return bytes };
    let mut out = bytes[..pos].to_vec();
    for _ in 0..depth {
        out.extend([0xa1, 0x64]);
        out.extend(b"List");
        out.push(0x81);
    }
    out.push(0x64);
    out.extend(b"None");
    out.extend(&bytes[pos + marker.len()..]);
    out
}

/// child process: decode one nesting bomb on the main thread (default stack)
pub fn bomb_cmd(kind: &str, depth: usize) {
    let bytes = match kind {
        "array" => vec![0x81; depth],
        "map" => (0..depth).flat_map(|_| [0xa1u8, 0x60]).collect(),
        "tag" => vec![0xc1; depth],
        _ => shaped_bomb(depth),
    };
    let r = tx3_tir::encoding::from_bytes(&bytes, tx3_tir::encoding::TirVersion::V1Beta0);
    println!("{}", if r.is_ok() { "ok" } else { "err" });
}

pub fn run(ctx: &mut Ctx) {
    let mut r = Rng::new(ctx.seed ^ 0xC11);
    let n = if ctx.thorough { 4000 } else { 300 };
    let mut items: Vec<(String, tir::Tx)> = example_txs();
    let n_examples = items.len();
    for i in 0..n {
        let mut gr = r.fork();
        let depth = 1 + gr.below(6) as u32;
        let tx = {
            let mut g = Gen::new(&mut gr);
            g.wild = i % 3 == 2;
            g.long_bytes = true;
            g.template(depth)
        };
        // half of them after application, so that Param::Set, UTxO sets and asset maps occur
        if i % 2 == 0 {
            let params = reduce::find_params(&tx);
            let env = crate::c06::make_env(&mut gr, &tx, &params);
            let applied = reduce::apply_args(tx.clone(), &env.args).and_then(|t| reduce::apply_inputs(t, &env.ins)).and_then(|t| reduce::apply_fees(t, env.fee));
            if let Ok(t) = applied {
                items.push((format!("gen{}_applied", i), t));
                continue;
            }
        }
        items.push((format!("gen{}", i), tx));
    }
    let mut texts = vec![];
    let mut hist: BTreeMap<String, u64> = BTreeMap::new();
    let mut samples = vec![];
    let mut distinct = HashSet::new();
    for (i, (name, tx)) in items.iter().enumerate() {
        let (bytes, version) = to_bytes(tx);
        ITER_ORDER.with(|f| f.set(true));
        let printed = tx_gal(tx);
        ITER_ORDER.with(|f| f.set(false));
        // decode with the declared version
        let dec = std::panic::catch_unwind(|| from_bytes(&bytes, version.clone()));
        let (rt_kind, same, same_params, same_after) = match dec {
            Err(_) => (2, false, false, false),
            Ok(Err(_)) => (1, false, false, false),
            Ok(Ok(AnyTir::V1Beta0(t2))) => {
                let same = canon(&t2) == canon(tx);
                let sp = format!("{:?}", reduce::find_params(&t2)) == format!("{:?}", reduce::find_params(tx))
                    && reduce::find_queries(&t2).keys().collect::<Vec<_>>() == reduce::find_queries(tx).keys().collect::<Vec<_>>();
                // identical application gives the same transaction
                let params = reduce::find_params(tx);
                let mut gr = Rng::new(i as u64 + 77);
                let env = crate::c06::make_env(&mut gr, tx, &params);
                let run = |t: tir::Tx| {
                    reduce::apply_args(t, &env.args)
                        .and_then(|t| reduce::apply_fees(t, env.fee))
                        .and_then(|t| reduce::apply_inputs(t, &env.ins))
                        .and_then(reduce::reduce)
                        .map(|t| canon(&t))
                        .map_err(|e| e.to_string().chars().take(40).collect::<String>())
                };
                let a = std::panic::catch_unwind(std::panic::AssertUnwindSafe(|| run(tx.clone())));
                let b = std::panic::catch_unwind(std::panic::AssertUnwindSafe(|| run(t2)));
                if std::env::var("TX3V_DEBUG").is_ok() {
                    if let (Ok(x), Ok(y)) = (&a, &b) {
                        if x != y {
                            eprintln!("C11 same_after differs (case {}):\n  original: {:?}\n  decoded:  {:?}", i, x, y);
                        }
                    }
                }
                // two failures count as the same outcome: which of several errors is met first
                // depends on the iteration order of the directive's hash map
                let sa = match (a, b) {
                    (Ok(Ok(x)), Ok(Ok(y))) => x == y,
                    (Ok(Err(_)), Ok(Err(_))) => true,
                    (Err(_), Err(_)) => true,
                    _ => false,
                };
                (0, same, sp, sa)
            }
        };
        *hist.entry(if i < n_examples { "lowered_example".into() } else if name.ends_with("applied") { "generated_applied".into() } else { "generated".to_string() }).or_default() += 1;
        let text = format!(
            "(mk_case {} {} {} {} {} {})",
            printed,
            gal::bytes_lit(&bytes),
            gal::n(rt_kind),
            gal::b(same),
            gal::b(same_params),
            gal::b(same_after)
        );
        distinct.insert(text.len() as u64 * 31 + i as u64);
        if i < 2 || i % (items.len() / 4 + 1) == 0 {
            samples.push(serde_json::json!({"name": name, "bytes": bytes.len(), "hex_prefix": hex::encode(&bytes[..bytes.len().min(48)]), "roundtrip_same": same}));
        }
        texts.push(text);
    }
    ctx.write_cases("C11", "From Tx3 Require Import Base Tir PlutusData Serde C11_check.", "case", "run", &texts, 25);

    // ---- malformed stream: the decoder answers Ok or Err, never panics or aborts
    let mut g_texts = vec![];
    let n_garbage: usize = if ctx.thorough { 60_000 } else { 4_000 };
    // valid encodings from across the whole list (examples first, applied templates with UTxO sets later)
    let step = (items.len() / 120).max(1);
    let mut valid: Vec<Vec<u8>> = items.iter().step_by(step).take(160).map(|(_, t)| to_bytes(t).0).collect();
    // ... and the first dozen that hold a resolved UTxO set
    valid.extend(items.iter().map(|(_, t)| to_bytes(t).0).filter(|b| b.windows(7).any(|w| w == b"UtxoSet")).take(12));
    ctx.meta.insert("valid_encodings_with_utxo_set".into(), serde_json::json!(valid.iter().filter(|b| b.windows(7).any(|w| w == b"UtxoSet")).count()));
    let mut kinds: BTreeMap<String, (u64, u64, u64)> = BTreeMap::new();
    let handle = std::thread::Builder::new().stack_size(256 << 20).spawn({
        let seed = ctx.seed;
        move || {
            let mut r = Rng::new(seed ^ 0xBAD);
            let mut out: Vec<(String, u8)> = vec![];
            // every list / map header of the encodings that hold a UTxO set, one at a time (up to 12 encodings)
            let has_set = |b: &Vec<u8>| b.windows(7).any(|w| w == b"UtxoSet");
            for base in valid.iter().filter(|b| has_set(b)).take(12) {
                for k in 0..base.len() {
                    if !((0x80..=0x97).contains(&base[k]) || (0xa0..=0xb7).contains(&base[k])) {
                        continue;
                    }
                    let mut b = base.clone();
                    b[k] = if b[k] < 0xa0 { 0x9b } else { 0xbb };
                    for (j, x) in [0x80u8, 1, 2, 3, 4, 5, 6, 7].into_iter().enumerate() {
                        b.insert(k + 1 + j, x);
                    }
                    let res = std::panic::catch_unwind(|| from_bytes(&b, TirVersion::V1Beta0).map(|_| ()).map_err(|e| e.to_string()));
                    out.push(("length_lie_sweep".to_string(), match res { Err(_) => 2, Ok(Err(_)) => 1, Ok(Ok(())) => 0 }));
                }
            }
            let n_garbage = n_garbage.saturating_sub(out.len());
            for i in 0..n_garbage {
                let base = r.pick(&valid).clone();
                let (tag, bytes, version): (&str, Vec<u8>, &str) = match r.below(11) {
                    9 | 10 => {
                        // a list or map header of a valid encoding replaced by one that declares an
                        // enormous length (8-byte count with the top bit set): the content that follows is intact
                        let mut b = base.clone();
                        let heads: Vec<usize> = (0..b.len()).filter(|&k| (0x80..=0x97).contains(&b[k]) || (0xa0..=0xb7).contains(&b[k])).collect();
                        if !heads.is_empty() {
                            let k = *r.pick(&heads);
                            b[k] = if b[k] < 0xa0 { 0x9b } else { 0xbb };
                            let mut count = r.bytes(8);
                            count[0] |= 0x80;
                            for (j, x) in count.into_iter().enumerate() {
                                b.insert(k + 1 + j, x);
                            }
                        }
                        ("length_lie", b, "v1beta0")
                    }
                    0 => { let l = r.below(64) as usize; ("random", r.bytes(l), "v1beta0") }
                    1 => { let mut b = base.clone(); if !b.is_empty() { let k = r.below(b.len() as u64) as usize; b[k] ^= 1 << r.below(8); } ("bit_flip", b, "v1beta0") }
                    2 => { let mut b = base.clone(); let k = r.below(b.len() as u64 + 1) as usize; b.truncate(k); ("truncated", b, "v1beta0") }
                    3 => { let d = 100 + r.below(20_000) as usize; ("array_bomb", vec![0x81; d], "v1beta0") }
                    4 => { let d = 100 + r.below(20_000) as usize; let mut b = vec![]; for _ in 0..d { b.extend([0xa1, 0x60]); } ("map_bomb", b, "v1beta0") }
                    5 => { let d = 100 + r.below(20_000) as usize; ("tag_bomb", vec![0xc1; d], "v1beta0") }
                    6 => ("huge_length", vec![*r.pick(&[0x5bu8, 0x7b, 0x9b, 0xbb]), 0xff, 0xff, 0xff, 0xff, 0xff, 0xff, 0xff, 0xff, 0], "v1beta0"),
                    7 => ("retired_version", base.clone(), "v1alpha8"),
                    _ => ("unknown_version", base.clone(), *r.pick(&["", "v9", "V1BETA0", "v1beta1", "v1alpha9"])),
                };
                let res = std::panic::catch_unwind(|| match TirVersion::try_from(version) {
                    Ok(v) => from_bytes(&bytes, v).map(|_| ()).map_err(|e| e.to_string()),
                    Err(e) => Err(e.to_string()),
                });
                let kind = match res { Err(_) => 2, Ok(Err(_)) => 1, Ok(Ok(())) => 0 };
                out.push((tag.to_string(), kind));
                let _ = i;
            }
            out
        }
    });
    let garbage = handle.ok().and_then(|h| h.join().ok()).unwrap_or_default();
    for (tag, kind) in &garbage {
        let e = kinds.entry(tag.clone()).or_default();
        match kind { 0 => e.0 += 1, 1 => e.1 += 1, _ => e.2 += 1 }
        let must_fail = tag == "retired_version" || tag == "unknown_version";
        g_texts.push(format!("(mk_gcase {} {})", gal::n(*kind), gal::b(must_fail)));
    }
    let completed = garbage.len() >= n_garbage;
    if !completed {
        // the decoder thread died (abort / stack exhaustion): report as a failing case
        g_texts.push("(mk_gcase 2%N false)".to_string());
    }
    // nesting bombs on a default-size stack, one process each: the decoder must answer
    let mut impl_violations = vec![];
    let mut bombs_run = 0usize;
    for (kind, depth) in [("shaped", 3usize), ("shaped", 100), ("shaped", 2_000), ("shaped", 30_000), ("shaped", 300_000), ("array", 200_000), ("map", 200_000), ("tag", 200_000)] {
        let out = std::process::Command::new(std::env::current_exe().unwrap()).arg("c11bomb").arg(kind).arg(depth.to_string()).output();
        bombs_run += 1;
        match out {
            Ok(o) if o.status.success() => {
                if kind == "shaped" && depth == 3 && String::from_utf8_lossy(&o.stdout).trim() != "ok" {
                    impl_violations.push(serde_json::json!({"index": -1, "ids": [132], "what": "the depth-3 control of the shaped nesting input does not decode (harness)", "kind": kind, "depth": depth}));
                }
            }
            Ok(o) => impl_violations.push(serde_json::json!({"index": -1, "ids": [131], "what": "decoding a nested input kills the process instead of returning an error", "kind": kind, "depth": depth, "status": format!("{:?}", o.status)})),
            Err(e) => impl_violations.push(serde_json::json!({"index": -1, "ids": [132], "what": format!("could not run the child process: {}", e)})),
        }
    }
    ctx.meta.insert("impl_violations".into(), serde_json::json!(impl_violations));
    ctx.meta.insert("nesting_bombs_in_child_processes".into(), serde_json::json!(bombs_run));
    ctx.write_cases("C11g", "From Tx3 Require Import Base Tir PlutusData Serde C11_check.", "gcase", "grun", &g_texts, 5000);
    ctx.meta.insert("evaluations".into(), serde_json::json!(texts.len() + g_texts.len()));
    ctx.meta.insert("roundtrip_cases".into(), serde_json::json!(texts.len()));
    ctx.meta.insert("malformed_cases".into(), serde_json::json!(g_texts.len()));
    ctx.meta.insert("malformed_outcomes".into(), serde_json::json!(kinds.iter().map(|(k, v)| (k.clone(), serde_json::json!({"ok": v.0, "err": v.1, "panic": v.2}))).collect::<BTreeMap<_, _>>()));
    ctx.meta.insert("distinct_nontrivial".into(), serde_json::json!(distinct.len()));
    ctx.meta.insert("distribution".into(), serde_json::json!(hist));
    ctx.meta.insert("samples".into(), serde_json::json!(samples));
    ctx.meta.insert(
        "rule".into(),
        serde_json::json!("every transaction lowered from /repo/examples/*.tx3 plus generated templates (typed trees of depth 1..6 and the untyped stream, every expression and block variant), half of them after apply_args/apply_inputs/apply_fees so that Param::Set, UTxO sets and asset maps occur; malformed stream: random bytes, bit flips and truncations of valid encodings, list / map headers of valid encodings replaced by ones declaring an enormous length, array / map / tag nesting bombs up to depth 20000, huge length heads, retired and unknown version strings"),
    );
}
