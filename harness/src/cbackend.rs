//! C02 / C08 / C10 / C14 — the back end on constant (or closed, arithmetic-bearing) IR
//! transactions: compile with tx3_cardano, decode the payload, print cases for
//! coq/Compile_check.v. The four properties differ in what the generator emphasises.
use crate::ctx_compile::*;
use crate::gal;
use crate::rng::Rng;
use crate::tirgen::*;
use crate::Ctx;
use std::collections::{BTreeMap, HashMap, HashSet};
use tx3_cardano::pallas::codec::minicbor;
use tx3_cardano::pallas::ledger::primitives::conway;
use tx3_tir::model::assets::CanonicalAssets;
use tx3_tir::model::core::{Utxo, UtxoRef};
use tx3_tir::model::v1beta0 as tir;
use tx3_tir::model::v1beta0::Expression as E;

#[derive(Clone, Copy, PartialEq)]
pub enum Focus {
    C02,
    C08,
    C10,
    C14,
}

fn selection_src(kind: u64) -> String {
    let head = "party Sender;\nparty Receiver;\n\ntype D { n: Int, }\n\ntx t(quantity: Int) {\n";
    let body = match kind {
        6 => "    input* source {\n        from: Sender,\n        min_amount: Ada(quantity),\n    }\n    output {\n        to: Receiver,\n        amount: source - fees,\n    }\n",
        7 => "    input* payment {\n        from: Sender,\n        min_amount: Ada(quantity),\n    }\n    input* rest {\n        from: Sender,\n    }\n    output {\n        to: Receiver,\n        amount: payment + rest - fees,\n    }\n",
        8 => "    input a {\n        from: Sender,\n        datum_is: D,\n        min_amount: Ada(quantity),\n    }\n    input b {\n        from: Sender,\n        min_amount: Ada(a.n),\n    }\n    output {\n        to: Receiver,\n        amount: a + b - fees,\n    }\n",
        9 => "    input source {\n        from: Sender,\n    }\n    output {\n        to: Receiver,\n        amount: source - fees,\n    }\n",
        _ => "    input* source {\n        from: Sender,\n    }\n    collateral {\n        from: Sender,\n        min_amount: Ada(quantity),\n    }\n    output {\n        to: Receiver,\n        amount: source - fees,\n    }\n",
    };
    format!("{}{}}}\n", head, body)
}

fn boundary(r: &mut Rng) -> i128 {
    *r.pick(&[
        0i128, 1, -1, 2, 23, 24, 255, 256, 65_535, 65_536, 1_000_000, 2_000_000, (1 << 31) - 1, 1 << 31, -(1 << 31),
        (1 << 32) - 1, 1 << 32, (1 << 63) - 1, 1 << 63, -(1 << 63), (1 << 64) - 1, 1 << 64, -(1 << 64), i128::MAX, i128::MIN,
    ])
}

fn amount(r: &mut Rng, focus: Focus) -> i128 {
    match focus {
        Focus::C02 | Focus::C14 => {
            if r.chance(1, 2) {
                boundary(r)
            } else {
                1 + r.below(50_000_000) as i128
            }
        }
        _ => 1 + r.below(50_000_000) as i128,
    }
}

/// a closed integer expression and nothing else: literals, +, -, unary -
fn int_expr(r: &mut Rng, focus: Focus, d: u32) -> E {
    if d == 0 || r.chance(1, 2) {
        return E::Number(amount(r, focus));
    }
    match r.below(4) {
        0 | 1 => tir::BuiltInOp::Add(int_expr(r, focus, d - 1), int_expr(r, focus, d - 1)).into(),
        2 => tir::BuiltInOp::Sub(int_expr(r, focus, d - 1), int_expr(r, focus, d - 1)).into(),
        _ => tir::BuiltInOp::Negate(int_expr(r, focus, d - 1)).into(),
    }
}

pub fn txid_pool(i: u64) -> Vec<u8> {
    // few distinct leading bytes so that the (txid, index) order is exercised
    let mut v = vec![(i % 3) as u8; 8];
    v.extend(vec![0u8; 16]);
    v.extend(((i * 2654435761) % 97).to_be_bytes());
    v
}

fn stake_addr(tag: u8) -> Vec<u8> {
    let mut v = vec![0xE0];
    v.extend(std::iter::repeat(tag).take(28));
    v
}
fn base_addr(tag: u8) -> Vec<u8> {
    let mut v = vec![0x00];
    v.extend(std::iter::repeat(tag).take(28));
    v.extend(std::iter::repeat(tag ^ 0xFF).take(28));
    v
}

fn address(r: &mut Rng, focus: Focus) -> E {
    match r.below(if focus == Focus::C14 { 9 } else { 6 }) {
        0 | 1 | 2 => E::Address(addr_bytes(*r.pick(&[0xA1u8, 0xB2, 0xC3]))),
        3 => E::Address(base_addr(0x44)),
        4 => E::Hash(policy_bytes(0x55)),
        5 => E::Bytes(addr_bytes(0xD4)),
        6 => E::Hash(vec![1; *r.pick(&[0usize, 27, 29, 32])]),
        7 => E::Address(vec![0x60; *r.pick(&[0usize, 1, 28, 30])]),
        _ => E::String(if r.chance(1, 2) { "addr_test1vz".to_string() } else { "アドレス".repeat(12 + r.below(20) as usize) }),
    }
}

fn asset_list(r: &mut Rng, focus: Focus, depth: u32) -> Vec<tir::AssetExpr> {
    let mut v = vec![tir::AssetExpr { policy: E::None, asset_name: E::None, amount: int_expr(r, focus, depth) }];
    if focus != Focus::C02 {
        // keep lovelace comfortable unless the property is about it
        v[0].amount = E::Number(1_000_000 + r.below(9_000_000) as i128);
    }
    let n_tok = r.below(3);
    for _ in 0..n_tok {
        let p = policy_bytes(*r.pick(&[0x11u8, 0x22, 0x33]));
        let name = if r.chance(1, 2) { E::Bytes(b"t1".to_vec()) } else { E::String("t2".into()) };
        let policy = if focus == Focus::C14 && r.chance(1, 8) { E::Bytes(vec![7; 27]) } else { E::Bytes(p) };
        v.push(tir::AssetExpr { policy, asset_name: name, amount: int_expr(r, focus, depth.min(1)) });
    }
    if focus == Focus::C02 && r.chance(1, 10) {
        // the same token three times, each just below 2^63: the sum leaves the u64 field
        for _ in 0..3 {
            v.push(tir::AssetExpr { policy: E::Bytes(policy_bytes(0x22)), asset_name: E::Bytes(b"t1".to_vec()), amount: E::Number((1i128 << 63) - 1 - r.below(3) as i128) });
        }
    }
    if focus == Focus::C02 && r.chance(1, 4) {
        // a second lovelace entry: aggregate_values sums them
        v.push(tir::AssetExpr { policy: E::None, asset_name: E::None, amount: E::Number(amount(r, focus)) });
    }
    v
}

/// an output amount: a plain asset list, or (C02, C14) arithmetic over asset lists whose
/// entries sit at the ends of the i128 range, or (C14) what only a decoded IR can hold: an
/// amount that is a constant but not a number, an IntoScript coercion
fn amount_expr(r: &mut Rng, focus: Focus, depth: u32) -> E {
    let plain = E::Assets(asset_list(r, focus, depth));
    if !(focus == Focus::C02 || focus == Focus::C14) || r.chance(3, 4) {
        return plain;
    }
    let other = |r: &mut Rng| {
        let mut v = asset_list(r, focus, 0);
        if r.chance(1, 2) {
            v[0].amount = E::Number(*r.pick(&[i128::MAX, i128::MIN, i128::MAX - 5_000_000, 1i128 << 126, 2_000_000, -1_000_000]));
        }
        if r.chance(1, 3) {
            // the same class twice within one list: the list itself is summed
            let again = v[0].clone();
            v.push(again);
        }
        E::Assets(v)
    };
    match r.below(if focus == Focus::C14 { 6 } else { 3 }) {
        0 => tir::BuiltInOp::Add(plain, other(r)).into(),
        1 => tir::BuiltInOp::Sub(plain, other(r)).into(),
        2 => tir::BuiltInOp::Add(plain, tir::BuiltInOp::Negate(other(r)).into()).into(),
        3 => {
            let mut v = asset_list(r, focus, 0);
            let k = r.below(v.len() as u64) as usize;
            v[k].amount = match r.below(3) { 0 => E::Bytes(vec![1, 2]), 1 => E::String("7".into()), _ => E::Bool(true) };
            if r.chance(1, 2) { tir::BuiltInOp::Add(plain, E::Assets(v)).into() } else { tir::BuiltInOp::Negate(E::Assets(v)).into() }
        }
        4 => tir::Coerce::IntoAssets(tir::Coerce::IntoScript(plain).into()).into(),
        _ => tir::BuiltInOp::Add(plain, tir::Coerce::IntoScript(E::Bytes(vec![0x4d, 1, 0, 0])).into()).into(),
    }
}

fn const_data(r: &mut Rng, d: u32) -> E {
    match r.below(if d == 0 { 3 } else { 6 }) {
        0 => E::Number(match r.below(4) {
            // datum and redeemer integers across the CBOR int / bignum boundary
            0 => boundary(r),
            1 => *r.pick(&[(1i128 << 64) + 1, -(1i128 << 64) - 1, -(1i128 << 64) - 2, 1i128 << 100, -(1i128 << 100), i128::MIN + 1, i128::MAX - 1]),
            _ => r.range(-5, 1000) as i128,
        }),
        1 => E::Bytes(vec![r.below(4) as u8; r.below(4) as usize]),
        2 => E::Struct(tir::StructExpr { constructor: r.below(3) as usize, fields: vec![] }),
        3 => E::Struct(tir::StructExpr { constructor: r.below(9) as usize, fields: (0..r.below(3)).map(|_| const_data(r, d - 1)).collect() }),
        4 => E::List((0..r.below(3)).map(|_| const_data(r, d - 1)).collect()),
        _ => E::Bool(r.chance(1, 2)),
    }
}

const NATIVE_SCRIPT: [u8; 2] = [0x82, 0x00]; // + 581c + 28 bytes

fn native_script_bytes(tag: u8) -> Vec<u8> {
    let mut v = NATIVE_SCRIPT.to_vec();
    v.extend([0x58, 0x1c]);
    v.extend(std::iter::repeat(tag).take(28));
    v
}

pub fn gen_tx(r: &mut Rng, focus: Focus) -> tir::Tx {
    let depth = if focus == Focus::C02 { r.below(3) as u32 } else { 0 };
    // inputs
    let n_in = match focus {
        Focus::C08 => 1 + r.below(4) as usize,
        _ => 1 + r.below(2) as usize,
    };
    let mut used = HashSet::new();
    let mut inputs = vec![];
    for i in 0..n_in {
        let mut mk_ref = |r: &mut Rng| loop {
            // C08: outputs of one transaction whose indices differ in the number of digits (the
            // ledger compares them as numbers)
            let index = if focus == Focus::C08 { *r.pick(&[0u32, 1, 2, 2, 9, 10, 10, 11, 100, 255, 256, 65_536]) } else { r.below(3) as u32 };
            let rf = UtxoRef { txid: txid_pool(r.below(if focus == Focus::C08 { 3 } else { 6 })), index };
            if used.insert((rf.txid.clone(), rf.index)) {
                return rf;
            }
        };
        let many = r.chance(1, if focus == Focus::C08 { 5 } else { 8 });
        let utxos = if many {
            let set: HashSet<Utxo> = (0..2)
                .map(|_| Utxo { r#ref: mk_ref(r), address: addr_bytes(0xA1), assets: CanonicalAssets::from_naked_amount(5_000_000), datum: None, script: None })
                .collect();
            E::UtxoSet(set)
        } else if focus == Focus::C14 && r.chance(1, 12) {
            E::String(r.pick(&["00#1", "zz#1", "0011", "00#x"]).to_string())
        } else if focus == Focus::C14 && r.chance(1, 12) {
            E::UtxoRefs(vec![UtxoRef { txid: vec![1; 31], index: 0 }])
        } else {
            E::UtxoRefs(vec![mk_ref(r)])
        };
        let with_red = match focus {
            Focus::C08 => r.chance(3, 4),
            _ => r.chance(1, 4),
        };
        inputs.push(tir::Input { name: format!("in{}", i), utxos, redeemer: if with_red { const_data(r, 2) } else { E::None } });
    }
    // C10: one template in twelve binds a second block to the UTxO of the first (recorded finding F10-5)
    if focus == Focus::C10 && r.chance(1, 12) {
        if let E::UtxoRefs(v) = &inputs[0].utxos {
            let copy = v.clone();
            inputs.push(tir::Input { name: "again".into(), utxos: E::UtxoRefs(copy), redeemer: E::None });
        }
    }
    // outputs
    let n_out = 1 + r.below(3) as usize;
    let outputs = (0..n_out)
        .map(|_| tir::Output {
            address: address(r, focus),
            datum: if r.chance(1, 3) { const_data(r, 2) } else { E::None },
            amount: amount_expr(r, focus, depth),
            optional: (focus == Focus::C10 && r.chance(1, 3)) || (focus == Focus::C02 && r.chance(1, 6)),
        })
        .collect::<Vec<_>>();
    let mut outputs = outputs;
    if focus == Focus::C02 {
        for o in outputs.iter_mut().filter(|o| o.optional) {
            // optional outputs that hold nothing, lovelace only, or tokens only
            match r.below(3) {
                0 => o.amount = E::Assets(vec![tir::AssetExpr { policy: E::None, asset_name: E::None, amount: E::Number(0) }]),
                1 => o.amount = E::Assets(vec![tir::AssetExpr { policy: E::Bytes(policy_bytes(0x11)), asset_name: E::Bytes(b"t1".to_vec()), amount: E::Number(1 + r.below(50) as i128) }]),
                _ => {}
            }
        }
    }
    // mint / burn
    let mk_mint = |r: &mut Rng, pol: u8| tir::Mint {
        amount: E::Assets(vec![tir::AssetExpr {
            policy: E::Bytes(policy_bytes(pol)),
            asset_name: if r.chance(1, 2) { E::Bytes(b"t1".to_vec()) } else { E::Bytes(b"zz".to_vec()) },
            amount: if focus == Focus::C10 { E::Number(*r.pick(&[5i128, 5, 7])) } else { int_expr(r, focus, depth.min(1)) },
        }]),
        redeemer: if r.chance(2, 3) { const_data(r, 1) } else { E::None },
    };
    let pols = [0x11u8, 0x22, 0x33];
    let n_mint = match focus { Focus::C08 => r.below(3), Focus::C10 => r.below(2), Focus::C02 => r.below(3), _ => r.below(2) } as usize;
    let n_burn = match focus { Focus::C08 => r.below(2), Focus::C10 => r.below(2), _ => if r.chance(1, 4) { 1 } else { 0 } } as usize;
    let mints: Vec<_> = (0..n_mint).map(|_| { let p = *r.pick(&pols); mk_mint(r, p) }).collect();
    let mut burns: Vec<_> = (0..n_burn).map(|_| { let p = if focus == Focus::C10 { 0x11 } else { *r.pick(&pols) }; mk_mint(r, p) }).collect();
    let mut mints = mints;
    if focus == Focus::C02 && r.chance(1, 8) {
        // the same asset minted by two blocks, each near the top of the i64 range: the sum leaves the field
        let big = *r.pick(&[i64::MAX as i128, (i64::MAX as i128) - 5, 1i128 << 62]);
        let one = |amount: i128| tir::Mint {
            amount: E::Assets(vec![tir::AssetExpr { policy: E::Bytes(policy_bytes(0x11)), asset_name: E::Bytes(b"t1".to_vec()), amount: E::Number(amount) }]),
            redeemer: E::None,
        };
        mints = vec![one(big), one(big)];
    }
    if (focus == Focus::C10 || focus == Focus::C08) && !mints.is_empty() && r.chance(1, if focus == Focus::C08 { 6 } else { 3 }) {
        // burn exactly what is minted: the mint field cancels to nothing
        burns = mints.iter().map(|m| tir::Mint { amount: m.amount.clone(), redeemer: m.redeemer.clone() }).collect();
    }
    // directives
    let mut adhoc = vec![];
    let n_w = match focus { Focus::C08 => r.below(4), Focus::C14 => if r.chance(1, 3) { 1 + r.below(3) } else { 0 }, _ => if r.chance(1, 5) { 1 } else { 0 } } as usize;
    for i in 0..n_w {
        // C08: key and script credentials side by side (the ledger ranks script credentials first,
        // the bytes of the account rank them last)
        let mut account = stake_addr(0x70 + (3 - i as u8));
        if focus == Focus::C08 && r.chance(1, 2) {
            account[0] = 0xF0;
        }
        adhoc.push(tir::AdHocDirective {
            name: "withdrawal".into(),
            data: HashMap::from([
                // C14: credentials that are not stake addresses (a payment address without a delegation part
                // gives an empty reward account, a base address a bare hash, a hash or a string go through
                // expr_into_address)
                ("credential".to_string(), if focus == Focus::C14 && r.chance(1, 2) { address(r, focus) } else { E::Address(account) }),
                ("amount".to_string(), if focus == Focus::C02 { int_expr(r, focus, 1) } else { E::Number(r.below(1_000_000) as i128) }),
                ("redeemer".to_string(), if r.chance(2, 3) { const_data(r, 1) } else { E::None }),
            ]),
        });
    }
    if focus == Focus::C02 && r.chance(1, 10) {
        // two withdrawals from one reward account, two treasury donations: each states an amount
        for amt in [700_000i128, 900_000] {
            adhoc.push(tir::AdHocDirective {
                name: "withdrawal".into(),
                data: HashMap::from([("credential".to_string(), E::Address(stake_addr(0x75))), ("amount".to_string(), E::Number(amt)), ("redeemer".to_string(), E::None)]),
            });
        }
    }
    if focus == Focus::C02 && r.chance(1, 10) {
        for coin in [1_000i128, 2_500] {
            adhoc.push(tir::AdHocDirective { name: "treasury_donation".into(), data: HashMap::from([("coin".to_string(), E::Number(coin))]) });
        }
    }
    if r.chance(1, 6) {
        adhoc.push(tir::AdHocDirective {
            name: "plutus_witness".into(),
            data: HashMap::from([("version".to_string(), E::Number(*r.pick(&[1i128, 2, 3, 3]))), ("script".to_string(), E::Bytes(vec![0x4d, 1, 0, 0]))]),
        });
    }
    if r.chance(1, 8) {
        adhoc.push(tir::AdHocDirective {
            name: "native_witness".into(),
            data: HashMap::from([("script".to_string(), E::Bytes(if focus == Focus::C14 && r.chance(1, 3) { vec![0xff, 0x00] } else { native_script_bytes(0x66) }))]),
        });
    }
    if r.chance(1, 8) {
        let mut data = HashMap::from([
            ("to".to_string(), address(r, focus)),
            ("amount".to_string(), E::Assets(asset_list(r, if focus == Focus::C02 { Focus::C10 } else { focus }, 0))),
        ]);
        if r.chance(1, 2) {
            let v = *r.pick(&[0i128, 1, 2, 3, 3, if focus == Focus::C14 { 4 } else { 3 }]);
            data.insert("version".to_string(), E::Number(v));
            data.insert("script".to_string(), E::Bytes(if v == 0 && !(focus == Focus::C14 && r.chance(1, 2)) { native_script_bytes(0x67) } else { vec![0x4d, 1, 0, 0] }));
        }
        adhoc.push(tir::AdHocDirective { name: "cardano_publish".into(), data });
    }
    if r.chance(1, 10) {
        adhoc.push(tir::AdHocDirective {
            name: "treasury_donation".into(),
            data: HashMap::from([("coin".to_string(), if focus == Focus::C02 { E::Number(boundary(r)) } else { E::Number(1 + r.below(1000) as i128) })]),
        });
    }
    let validity = if r.chance(1, 3) {
        Some(tir::Validity {
            since: if r.chance(1, 2) { int_expr(r, if focus == Focus::C02 { focus } else { Focus::C10 }, depth.min(1)) } else { E::None },
            until: if r.chance(1, 2) { int_expr(r, if focus == Focus::C02 { focus } else { Focus::C10 }, depth.min(1)) } else { E::None },
        })
    } else {
        None
    };
    let metadata = if r.chance(1, 3) {
        (0..1 + r.below(2))
            .map(|_| tir::Metadata {
                key: E::Number(if focus == Focus::C02 && r.chance(1, 3) { boundary(r) } else { r.below(5) as i128 }),
                value: match r.below(if focus == Focus::C14 { 5 } else { 3 }) {
                    3 => E::List(vec![E::String("こんにちは世界、これは長いメモです。".repeat(1 + r.below(4) as usize))]),
                    4 => E::String("żółć ".repeat(30)),
                    0 => E::String("note".into()),
                    1 => E::Bytes(vec![1, 2, 3]),
                    _ => int_expr(r, if focus == Focus::C02 { focus } else { Focus::C10 }, depth.min(1)),
                },
            })
            .collect()
    } else {
        vec![]
    };
    tir::Tx {
        fees: if focus == Focus::C02 { int_expr(r, focus, depth.min(1)) } else { E::Number(170_000 + r.below(300_000) as i128) },
        // 0-4 reference blocks, each with one or two references (distinct txids; some repeated across blocks)
        references: if r.chance(1, 3) {
            (0..1 + r.below(4))
                .map(|k| {
                    let n = 1 + r.below(2);
                    E::UtxoRefs((0..n).map(|j| UtxoRef { txid: txid_pool(50 + (k * 2 + j) % 5), index: (k + j) as u32 % 3 }).collect())
                })
                .collect()
        } else {
            vec![]
        },
        inputs,
        outputs,
        validity,
        mints,
        burns,
        adhoc,
        // set fields: C10 also gives a member twice (two collateral blocks on one UTxO, one signer as key hash and as address)
        collateral: if r.chance(1, 4) {
            let dup = focus == Focus::C10 && r.chance(1, 3);
            (0..1 + r.below(2) + dup as u64).map(|k| { let k = if dup { k / 2 } else { k }; tir::Collateral { utxos: E::UtxoRefs(vec![UtxoRef { txid: txid_pool(60 + k), index: k as u32 }]) } }).collect()
        } else {
            vec![]
        },
        signers: if r.chance(1, 5) {
            let one = if r.chance(1, 2) { E::Bytes(vec![9; if focus == Focus::C14 && r.chance(1, 3) { 20 } else { 28 }]) } else { E::Address(addr_bytes(0xA1)) };
            let mut v = vec![one.clone()];
            if focus == Focus::C10 && r.chance(1, 2) {
                v.push(if r.chance(1, 2) { one } else { E::Bytes(vec![7; 28]) });
                if r.chance(1, 2) { v.push(E::Bytes(vec![9; 28])); }
                // one key in two spellings: an address and its bare key hash
                if r.chance(1, 2) { v.push(E::Address(addr_bytes(0xA1))); v.push(E::Bytes(vec![0xA1; 28])); }
            }
            Some(tir::Signers { signers: v })
        } else {
            None
        },
        metadata,
    }
}

// shape 0: the lengths in use today; 1: longer ones (as after a protocol update); 2: short ones; the
// values differ by position, so that a truncated or reordered view has another digest
fn cost_models(which: &[u8], shape: u8) -> HashMap<u8, Vec<i64>> {
    which
        .iter()
        .map(|v| {
            let len = match (shape, v) {
                (1, 0) => 170,
                (1, 1) => 185,
                (1, _) => 297,
                (2, _) => 10,
                (_, 0) => 166,
                (_, 1) => 175,
                _ => 251,
            };
            (*v, (0..len).map(|k| if shape == 0 { 1i64 } else { 1 + k as i64 * 7 }).collect())
        })
        .collect()
}

pub fn run(ctx: &mut Ctx, focus: Focus) {
    let id = match focus {
        Focus::C02 => "C02",
        Focus::C08 => "C08",
        Focus::C10 => "C10",
        Focus::C14 => "C14",
    };
    let mut r = Rng::new(ctx.seed ^ match focus { Focus::C02 => 0xC02, Focus::C08 => 0xC08, Focus::C10 => 0xC10, Focus::C14 => 0xC14 });
    let n = if ctx.thorough { 20_000 } else { 1_200 };
    let mut texts = vec![];
    let mut hist: BTreeMap<String, u64> = BTreeMap::new();
    let mut samples = vec![];
    let mut distinct = HashSet::new();
    let mut panics: BTreeMap<String, u64> = BTreeMap::new();
    for i in 0..n {
        let tx = gen_tx(&mut r, focus);
        let mainnet = r.chance(1, 2);
        let models: Vec<u8> = if focus == Focus::C14 || focus == Focus::C10 {
            match r.below(4) {
                0 => vec![],
                1 => vec![0, 1],
                _ => vec![0, 1, 2],
            }
        } else {
            vec![0, 1, 2]
        };
        let shape: u8 = if focus == Focus::C10 && r.chance(1, 3) { 1 + r.below(2) as u8 } else { 0 };
        *hist.entry(format!("cost_model_shape_{}", shape)).or_default() += 1;
        let mk_pp = || {
            let mut pp = crate::c06::test_pparams(4310, mainnet);
            pp.cost_models = cost_models(&models, shape);
            pp
        };
        // slots holding arithmetic are reduced first, like the resolver does
        let needs_reduce = focus == Focus::C02;
        let compiled_in = if needs_reduce {
            match std::panic::catch_unwind(|| tx3_tir::reduce::reduce(tx.clone())) {
                Ok(Ok(t)) => Ok(t),
                Ok(Err(_)) => Err(1u8),
                Err(_) => Err(2u8),
            }
        } else {
            Ok(tx.clone())
        };
        let (out, twice_same) = match &compiled_in {
            Ok(t) => {
                let a = compile_const(t, mk_pp());
                let b = compile_const(t, mk_pp());
                let same = a.kind == b.kind && a.payload == b.payload && a.hash == b.hash;
                (a, same)
            }
            Err(k) => (CompileOut { kind: *k, payload: vec![], hash: vec![], err: if *k == 2 { crate::last_panic() } else { "reduce".into() } }, true),
        };
        *hist.entry(format!("kind_{}", out.kind)).or_default() += 1;
        if out.kind == 2 {
            let site = out.err.split('@').last().unwrap_or("").trim().to_string();
            *panics.entry(site.chars().rev().take(60).collect::<String>().chars().rev().collect()).or_default() += 1;
        }
        let decoded = if out.kind == 0 { atx_of_payload(&out.payload) } else { None };
        let mut byte_checks: Vec<(u32, bool)> = vec![];
        if out.kind == 0 {
            byte_checks.push((311, decoded.is_some()));
            // the reported hash is the Blake2b-256 digest of the body bytes inside the payload
            let body_ok = minicbor::decode::<conway::Tx>(&out.payload)
                .map(|t| {
                    use tx3_cardano::pallas::ledger::traverse::ComputeHash;
                    t.transaction_body.compute_hash().to_vec() == out.hash
                })
                .unwrap_or(false);
            byte_checks.push((312, body_ok));
            byte_checks.push((313, decoded.as_ref().map(|d| d.aux_hash_ok).unwrap_or(false)));
            byte_checks.push((314, twice_same));
            // script data hash equals the digest of what the payload carries
            let sdh_ok = minicbor::decode::<conway::Tx>(&out.payload)
                .map(|t| {
                    let ws = &t.transaction_witness_set;
                    let version = if ws.plutus_v1_script.is_some() { 0u8 } else if ws.plutus_v2_script.is_some() { 1 } else { 2 };
                    let expected = match cost_models(&models, shape).get(&version) {
                        Some(cm) => conway::ScriptData::build_for(ws, &Some(conway::LanguageView(version, cm.clone()))).map(|x| x.hash().to_vec()),
                        None => None,
                    };
                    let got = t.transaction_body.script_data_hash.map(|h| h.to_vec());
                    got == expected || (ws.redeemer.is_none() && got.is_none())
                })
                .unwrap_or(false);
            byte_checks.push((316, sdh_ok));
        }
        let text = format!(
            "(mk_case {} {} {} {} {} {} {} {})",
            tx_gal(&tx),
            gal::b(needs_reduce),
            gal::b(mainnet),
            oracles_gal(&tx, mainnet),
            gal::list(&models.iter().map(|m| gal::n(*m)).collect::<Vec<_>>()),
            gal::n(out.kind),
            gal::opt(decoded.as_ref().map(|d| d.gal.clone())),
            gal::list(&byte_checks.iter().map(|(k, b)| format!("({}, {})", gal::n(*k), gal::b(*b))).collect::<Vec<_>>())
        );
        distinct.insert(text.len() as u64 * 1_000_003 + i as u64 % 7);
        if i % (n / 5 + 1) == 0 {
            samples.push(serde_json::json!({"tx": serde_json::to_value(&tx).unwrap_or_default(), "kind": out.kind, "error": out.err,
                "payload_hex": hex::encode(&out.payload).chars().take(400).collect::<String>()}));
        }
        texts.push(text);
    }
    // C14 also covers the stages before compile: apply, the compiler ops and reduce on generated
    // templates (parameters, queries, clock ops, min_utxo) with boundary-heavy arguments. A panic
    // needs no model to be recognised: it is reported directly (id 147).
    let mut impl_violations = vec![];
    let mut stage_runs = 0u64;
    if focus == Focus::C14 {
        use crate::c06::{make_env, run_schedule, Stage};
        let n_stage = if ctx.thorough { 6000 } else { 600 };
        for i in 0..n_stage {
            let mut gr = r.fork();
            let depth = 1 + gr.below(4) as u32;
            let tx = {
                let mut g = Gen::new(&mut gr);
                g.wild = i % 5 == 4;
                g.template(depth)
            };
            let params = tx3_tir::reduce::find_params(&tx);
            let mut env = make_env(&mut gr, &tx, &params);
            for (k, ty) in &params {
                if *ty == tx3_tir::model::core::Type::Int && gr.chance(1, 2) {
                    env.args.insert(k.clone(), tx3_tir::reduce::ArgValue::Int(boundary(&mut gr)));
                }
            }
            for sched in [
                vec![Stage::A, Stage::F, Stage::R, Stage::C, Stage::R, Stage::I, Stage::R],
                vec![Stage::A, Stage::I, Stage::F, Stage::C, Stage::R],
            ] {
                let (k, _, _) = run_schedule(&tx, &env, &sched);
                stage_runs += 1;
                *hist.entry(format!("stage_run_kind_{}", k)).or_default() += 1;
                if k == 2 {
                    let site = crate::last_panic();
                    *panics.entry(site.clone()).or_default() += 1;
                    if impl_violations.len() < 20 {
                        impl_violations.push(serde_json::json!({"index": -1, "ids": [147], "what": "a stage before compile panicked", "site": site,
                            "schedule": format!("{:?}", sched), "template": tx_gal(&tx), "args": args_gal(&env.args)}));
                    }
                }
            }
        }
        // ... and the whole of resolve_tx (input selection, the fee loop, compile) on the resolver's
        // templates, with quantities from the boundary list and protocol parameters near 2^64
        // kinds 6..: selection shapes of their own (several UTxOs per block, two blocks on one
        // wallet, no threshold at all, a threshold read from another input's datum)
        let src_of = |k: u64| if k < 6 { crate::c05::template_src(k, 0) } else { selection_src(k) };
        let templates: Vec<Option<tir::Tx>> = (0..11).map(|k| crate::c05::lower_src(&src_of(k), "t")).collect();
        let n_res = if ctx.thorough { 3000 } else { 300 };
        for _ in 0..n_res {
            let mut gr = r.fork();
            let kind = gr.below(11) as usize;
            let Some(tx) = &templates[kind] else { continue };
            let pp = crate::c05::random_pp(&mut gr);
            let q = if gr.chance(1, 2) { boundary(&mut gr) } else { 1_000_000 + gr.below(5_000_000) as i128 };
            // stores from empty to three UTxOs; a quarter of the amounts at the ends of 64 bits and of the i128 range
            let n_utxos = if kind >= 6 { gr.below(4) } else { 1 + gr.below(2) };
            let amounts: Vec<i128> = (0..n_utxos).map(|_| if gr.chance(1, 4) { *gr.pick(&[1i128, u64::MAX as i128, (u64::MAX as i128) + 1, i64::MAX as i128, i128::MAX, i128::MAX - 5, -1, i128::MIN]) } else { 1 + gr.below(100_000_000) as i128 }).collect();
            // a third of the selection shapes: everything at the ends of the range at once
            let (q, amounts) = if kind >= 6 && gr.chance(1, 3) {
                (*gr.pick(&[i128::MAX, i128::MIN, i128::MAX - 5]), (0..gr.below(4)).map(|_| *gr.pick(&[i128::MAX, i128::MAX - 5, i128::MIN])).collect())
            } else {
                (q, amounts)
            };
            let store = crate::c05::sender_store(&mut gr, &amounts);
            let mut rec = crate::c05::new_rec(&pp);
            let out = crate::c05::resolve_with(&mut rec, tx, &crate::c05::std_args(q), &store, *gr.pick(&[0usize, 3, 10]));
            stage_runs += 1;
            *hist.entry(format!("resolve_kind_{}", out.kind)).or_default() += 1;
            if out.kind == 2 {
                let site = crate::last_panic();
                *panics.entry(site.clone()).or_default() += 1;
                if impl_violations.len() < 20 {
                    impl_violations.push(serde_json::json!({"index": -1, "ids": [147], "what": "resolve_tx panicked", "site": site,
                        "template": src_of(kind as u64), "pparams": format!("{:?}", pp), "quantity": q.to_string(),
                        "utxo_lovelace": amounts.iter().map(|a| a.to_string()).collect::<Vec<_>>()}));
                }
            }
        }
        // ... and ad-hoc directives the model does not cover, compiled with every subset of their fields
        for mask in 0..16u32 {
            let mut data = std::collections::HashMap::new();
            if mask & 1 != 0 { data.insert("stake".to_string(), if mask & 4 != 0 { tir::Expression::Bytes(vec![7u8; 28]) } else { tir::Expression::Number(1) }); }
            if mask & 2 != 0 { data.insert("drep".to_string(), if mask & 8 != 0 { tir::Expression::Bytes(vec![9u8; 28]) } else { tir::Expression::Bytes(vec![9u8; 5]) }); }
            let tx = tir::Tx { fees: tir::Expression::Number(0), references: vec![], inputs: vec![], outputs: vec![], validity: None, mints: vec![], burns: vec![],
                adhoc: vec![tir::AdHocDirective { name: "vote_delegation_certificate".to_string(), data }], collateral: vec![], signers: None, metadata: vec![] };
            let out = compile_const(&tx, crate::c06::test_pparams(4310, false));
            stage_runs += 1;
            *hist.entry(format!("vote_delegation_kind_{}", out.kind)).or_default() += 1;
            if out.kind == 2 {
                let site = crate::last_panic();
                *panics.entry(site.clone()).or_default() += 1;
                impl_violations.push(serde_json::json!({"index": -1, "ids": [147], "what": "compile panicked on a vote_delegation_certificate directive", "site": site, "fields_mask": mask}));
            }
        }
        ctx.meta.insert("stage_runs".into(), serde_json::json!(stage_runs));
    }
    if focus == Focus::C10 {
        // certificates are a set field the model does not cover: the same directive twice must be listed once
        for n_same in [1usize, 2, 3] {
            let cert = || tir::AdHocDirective {
                name: "vote_delegation_certificate".to_string(),
                data: HashMap::from([("stake".to_string(), tir::Expression::Address(stake_addr(0x71))), ("drep".to_string(), tir::Expression::Bytes(vec![9u8; 28]))]),
            };
            let tx = tir::Tx { fees: tir::Expression::Number(170000), references: vec![], inputs: vec![], outputs: vec![], validity: None, mints: vec![], burns: vec![],
                adhoc: (0..n_same).map(|_| cert()).collect(), collateral: vec![], signers: None, metadata: vec![] };
            let out = compile_const(&tx, crate::c06::test_pparams(4310, false));
            *hist.entry(format!("certificates_probe_kind_{}", out.kind)).or_default() += 1;
            if out.kind == 0 {
                let listed = minicbor::decode::<conway::Tx>(&out.payload).ok().and_then(|t| t.transaction_body.certificates.as_ref().map(|c| c.len())).unwrap_or(0);
                if listed != 1 {
                    impl_violations.push(serde_json::json!({"index": -1, "ids": [308], "what": "the certificates field lists one certificate more than once",
                        "directives": n_same, "listed": listed, "payload_hex": hex::encode(&out.payload)}));
                }
            }
        }
    }
    ctx.meta.insert("impl_violations".into(), serde_json::json!(impl_violations));
    ctx.write_cases(id, "From Tx3 Require Import Base Assets Tir Reduce PlutusData Compile Compile_check.", "case", "run", &texts, 60);
    ctx.meta.insert("evaluations".into(), serde_json::json!(texts.len()));
    ctx.meta.insert("programs".into(), serde_json::json!(texts.len()));
    ctx.meta.insert("distinct_nontrivial".into(), serde_json::json!(distinct.len()));
    ctx.meta.insert("distribution".into(), serde_json::json!(hist));
    ctx.meta.insert("panic_sites".into(), serde_json::json!(panics));
    ctx.meta.insert("samples".into(), serde_json::json!(samples));
    ctx.meta.insert(
        "rule".into(),
        serde_json::json!("closed IR transactions (1-4 inputs as reference lists or UTxO sets with optional redeemers and permuted txids, 1-3 outputs with lovelace/native amounts, optional datum, 0-3 mints/burns over 3 policies, withdrawal / plutus_witness / native_witness / cardano_publish / treasury_donation directives, validity, metadata, references, collateral, signers); C02: amounts, fee, slots, keys are closed integer expressions over boundary values (0, +-1, 23/24, 2^8, 2^16, 2^31, 2^32, 2^63, 2^64, i128 extremes) and are reduced first; C08: up to 4 script inputs, equal and distinct policies, up to 2 withdrawals; C10: optional outputs, cancelling mint/burn, missing cost models, compile twice; C02: the same asset minted by two blocks near the i64 ends, the same token three times in one output near 2^63, two withdrawals from one account, two treasury donations; C02, C14: a quarter of the output amounts are sums / differences / negations of asset lists with entries at the ends of the i128 range and repeated classes; C14: wrong-length hashes and txids, string references, malformed scripts and addresses, missing cost models, asset amounts that are not numbers, IntoScript coercions; plus 600 (thorough 6000) generated templates with parameters, queries and compiler ops run through apply / compiler ops / reduce in two stage orders with integer arguments from the boundary list, and 300 (thorough 3000) runs of resolve_tx on the resolver's templates and on five selection shapes (input*, two input* blocks on one wallet, a block without threshold, a threshold read from another input's datum, a collateral block) with boundary quantities, stores from empty to three UTxOs, UTxO amounts at the ends of 64 bits and of the i128 range, and protocol parameters near 2^64; the 16 field subsets of a vote_delegation_certificate directive are compiled (panics reported directly, id 147); C10: one template in three is compiled with longer (170/185/297) or shorter (10) cost models of position-dependent values, set fields repeat members (a reference in two blocks, two collateral blocks on one UTxO, a signer twice), one template in twelve binds a second input block to the UTxO of the first (class 321)"),
    );
}
