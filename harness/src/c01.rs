//! C01: the whole pipeline on generated programs of the core fragment. Source text is parsed,
//! analysed and lowered by tx3_lang; arguments, UTxOs and the fee are applied, the template is
//! reduced and compiled by the real crates; the payload is decoded with pallas and printed as
//! the abstract transaction of coq/Compile.v next to the program's Gallina tree
//! (coq/C01_check.v compares it with the model pipeline and with the denotation of the source).
use crate::c06::{run_schedule, test_pparams, Env, Stage};
use crate::cfront::front;
use crate::ctx_compile::{atx_of_payload, compile_const, oracles_gal};
use crate::gal;
use crate::rng::Rng;
use crate::srcgen::{self, Mode, Prog, Ty};
use crate::tirgen::{addr_bytes, args_gal, inputs_gal, tx_gal};
use crate::Ctx;
use std::collections::{BTreeMap, HashMap, HashSet};
use tx3_tir::model::assets::CanonicalAssets;
use tx3_tir::model::core::{Type, Utxo, UtxoRef};
use tx3_tir::model::v1beta0 as tir;
use tx3_tir::reduce::{self, ArgValue};

fn arg_for(r: &mut Rng, ty: &Type) -> ArgValue {
    match ty {
        Type::Int => ArgValue::Int(match r.below(6) {
            0 => 0,
            1 => r.range(1, 10) as i128,
            2 => -(r.range(1, 1000) as i128),
            3 | 4 if r.chance(2, 3) => *r.pick(&[(1i128 << 64) + 5, -(1i128 << 64) - 6, -(1i128 << 64), (1i128 << 64) - 1, 1i128 << 100, -(1i128 << 100), i128::MAX, i128::MIN + 1]),
            _ => r.range(1_000_000, 9_000_000) as i128,
        }),
        Type::Bool => ArgValue::Bool(r.chance(1, 2)),
        Type::Bytes => ArgValue::Bytes(r.bytes(1 + r.clone().below(8) as usize)),
        Type::Address => ArgValue::Address(addr_bytes(10 + r.below(5) as u8)),
        Type::UtxoRef => ArgValue::UtxoRef(UtxoRef { txid: crate::cbackend::txid_pool(20 + r.below(4)), index: r.below(3) as u32 }),
        _ => ArgValue::Int(1),
    }
}

fn datum_for(r: &mut Rng, p: &Prog, ty: &Ty) -> tir::Expression {
    match ty {
        Ty::Int => tir::Expression::Number(r.range(0, 1000) as i128),
        Ty::Bytes => tir::Expression::Bytes(r.bytes(3)),
        Ty::Bool => tir::Expression::Bool(r.chance(1, 2)),
        Ty::List(inner) => tir::Expression::List((0..r.below(3)).map(|_| datum_for(r, p, inner)).collect()),
        Ty::Custom(n) => match p.types.iter().find(|td| &td.name == n) {
            Some(td) => {
                let ci = r.below(td.cases.len() as u64) as usize;
                tir::Expression::Struct(tir::StructExpr { constructor: ci, fields: td.cases[ci].1.iter().map(|(_, ft)| datum_for(r, p, ft)).collect() })
            }
            None => tir::Expression::None,
        },
        _ => tir::Expression::Number(0),
    }
}

pub fn make_env(r: &mut Rng, p: &Prog, txdef: &srcgen::Tx, tx: &tir::Tx) -> Env {
    let mut args = BTreeMap::new();
    for (k, ty) in reduce::find_params(tx) {
        args.insert(k, arg_for(r, &ty));
    }
    let mut ins = BTreeMap::new();
    for (qi, (name, _)) in reduce::find_queries(tx).into_iter().enumerate() {
        let decl = txdef.inputs.iter().find(|i| i.name.to_lowercase() == name);
        let n = if decl.map(|d| d.many).unwrap_or(false) { 1 + r.below(2) } else { 1 };
        let datum = decl.and_then(|d| d.datum_is.as_ref()).map(|ty| datum_for(r, p, ty));
        let mut set = HashSet::new();
        for j in 0..n {
            let mut assets = CanonicalAssets::from_naked_amount(r.range(2_000_000, 60_000_000) as i128);
            if name != "collateral" {
                for (ai, (_, pol, aname)) in p.assets.iter().enumerate() {
                    if r.chance(1, 2) {
                        if let (srcgen::X::Hex(pb), n) = (pol, aname) {
                            let nb = match n {
                                srcgen::X::Str(s) => s.as_bytes().to_vec(),
                                srcgen::X::Hex(b) => b.clone(),
                                _ => vec![],
                            };
                            assets = assets + CanonicalAssets::from_defined_asset(pb, &nb, r.range(1, 500) as i128 + ai as i128);
                        }
                    }
                }
            }
            set.insert(Utxo {
                r#ref: UtxoRef { txid: crate::cbackend::txid_pool(qi as u64 * 3 + j), index: (qi as u32 + j as u32) % 3 },
                address: addr_bytes(30 + qi as u8),
                datum: datum.clone(),
                assets,
                script: None,
            });
        }
        ins.insert(name, set);
    }
    Env {
        args,
        ins,
        fee: *r.pick(&[0u64, 1, 170_000, 361_189, 2_000_000]),
        mainnet: r.chance(1, 2),
        slot: 101_674_141,
        time: 1_757_611_408_000,
        coins: 4310,
    }
}

const SCHEDULE: [Stage; 7] = [Stage::A, Stage::F, Stage::R, Stage::C, Stage::R, Stage::I, Stage::R];

/// (kind, payload, reduced template)
fn pipeline(tx: &tir::Tx, env: &Env) -> (u8, Vec<u8>, Option<tir::Tx>, String) {
    let (k, reduced, _) = run_schedule(tx, env, &SCHEDULE);
    let Some(reduced) = reduced else {
        return (k, vec![], None, String::new());
    };
    let out = compile_const(&reduced, test_pparams(env.coins, env.mainnet));
    (out.kind, out.payload, Some(reduced), out.err)
}

pub fn run(ctx: &mut Ctx) {
    let n_cases = if ctx.thorough { 4000 } else { 240 };
    let mut r = Rng::new(ctx.seed.wrapping_mul(0xC01).wrapping_add(17));
    let mut texts = vec![];
    let mut hist: BTreeMap<String, usize> = BTreeMap::new();
    let mut samples: Vec<String> = vec![];
    let mut distinct: HashSet<String> = HashSet::new();
    for ci in 0..n_cases {
        let mut rr = r.fork();
        let mut g = srcgen::Gen::new(&mut rr, Mode::Full);
        let p = g.gen_program(1);
        let txdef = &p.txs[0];
        let text = srcgen::prog_text(&p, None);
        distinct.insert(text.clone());
        if samples.len() < 3 {
            samples.push(text.chars().take(600).collect());
        }
        let obs = front(&text);
        let t0 = obs.txs.first();
        let lower_kind = t0.map(|t| t.kind).unwrap_or(9);
        let tir0 = t0.and_then(|t| t.tir.clone());
        let mut kind = 9u8;
        let mut atx_gal: Option<String> = None;
        let mut env: Option<Env> = None;
        let mut layout_same = true;
        let mut oracle_tx: Option<tir::Tx> = None;
        if let Some(tx) = &tir0 {
            let e = make_env(&mut r, &p, txdef, tx);
            let (k, payload, reduced, err) = pipeline(tx, &e);
            kind = k;
            if std::env::var("TX3V_DEBUG").is_ok() && k != 0 {
                eprintln!("case {}: kind {} {}", ci, k, &err[..err.len().min(200)]);
            }
            if k == 0 {
                atx_gal = atx_of_payload(&payload).map(|d| d.gal);
            }
            // the same program in another layout, same arguments
            let mut lr = r.fork();
            let text2 = srcgen::prog_text(&p, Some(&mut lr));
            let obs2 = front(&text2);
            layout_same = match obs2.txs.first().and_then(|t| t.tir.as_ref()) {
                Some(tx2) => {
                    let (k2, payload2, _, _) = pipeline(tx2, &e);
                    k2 == k && payload2 == payload
                }
                None => false,
            };
            oracle_tx = reduced.or_else(|| reduce::apply_args(tx.clone(), &e.args).ok());
            env = Some(e);
        }
        *hist.entry(format!("accepted={} lower={} pipeline={}", obs.accepted, lower_kind, kind)).or_default() += 1;
        let e = env.unwrap_or(Env { args: BTreeMap::new(), ins: BTreeMap::new(), fee: 0, mainnet: false, slot: 0, time: 0, coins: 4310 });
        let oracles = match &oracle_tx {
            Some(t) => oracles_gal(t, e.mainnet),
            None => "(mk_oracles_c [] [] [] [] [])".to_string(),
        };
        texts.push(format!(
            "(mk_case {} {} {} {} {} {} {} {} {} [0%N; 1%N; 2%N] {} {} {} {} {} {})",
            srcgen::prog_gal(&p),
            gal::s(&txdef.name),
            args_gal(&e.args),
            inputs_gal(&e.ins),
            gal::z(e.fee as i128),
            gal::b(e.mainnet),
            gal::z(e.slot as i128),
            gal::z(e.time as i128),
            oracles,
            gal::b(obs.accepted),
            gal::n(lower_kind),
            gal::opt(tir0.as_ref().map(tx_gal)),
            gal::n(kind),
            gal::opt(atx_gal),
            gal::b(layout_same)
        ));
    }
    let _: HashMap<u8, u8> = HashMap::new();
    ctx.write_cases(
        "C01",
        "From Tx3 Require Import Base Assets Select Tir Reduce PlutusData Compile Compile_check Surface Lower Analyze Denote.\nFrom Tx3 Require Import C01_check.\nOpen Scope string_scope.",
        "C01_check.case",
        "C01_check.run",
        &texts,
        20,
    );
    ctx.meta.insert("evaluations".into(), serde_json::json!(n_cases));
    ctx.meta.insert("programs".into(), serde_json::json!(n_cases));
    ctx.meta.insert("distinct_nontrivial".into(), serde_json::json!(distinct.len()));
    ctx.meta.insert("distribution".into(), serde_json::json!(hist));
    ctx.meta.insert("samples".into(), serde_json::json!(samples));
    ctx.meta.insert(
        "rule".into(),
        serde_json::json!("programs of the core fragment (srcgen.rs, Mode::Full: parameters of the types an argument map can carry), one transaction each, printed in two layouts; arguments by declared type, 1-2 UTxOs per input block (with a datum of the declared type), fee from {0, 1, 170000, 361189, 2000000}, testnet/mainnet; one pass apply_args, apply_fees, reduce, compiler ops, reduce, apply_inputs, reduce, compile"),
    );
}
