//! C03 / C04 — input selection: run tx3_resolver::inputs::resolve on generated
//! stores and input blocks, record the traced iteration orders, and print cases
//! for coq/C03_check.v.
use crate::c15::{class_gal, entries, entries_gal};
use crate::gal;
use crate::rng::Rng;
use crate::Ctx;
use std::collections::{BTreeMap, HashSet};
use tx3_resolver::verif::Event;
use tx3_resolver::{Error, UtxoPattern, UtxoStore};
use tx3_tir::encoding::AnyTir;
use tx3_tir::model::assets::{AssetClass, CanonicalAssets};
use tx3_tir::model::core::{Utxo, UtxoRef, UtxoSet};
use tx3_tir::model::v1beta0 as tir;

pub struct MemStore {
    pub utxos: Vec<Utxo>,
}

impl UtxoStore for MemStore {
    async fn narrow_refs(&self, pattern: UtxoPattern<'_>) -> Result<HashSet<UtxoRef>, Error> {
        let out = self
            .utxos
            .iter()
            .filter(|u| match &pattern {
                UtxoPattern::ByAddress(a) => u.address.as_slice() == *a,
                UtxoPattern::ByAssetPolicy(p) => u
                    .assets
                    .iter()
                    .any(|(c, v)| *v > 0 && c.policy() == Some(*p)),
                UtxoPattern::ByAsset(p, n) => {
                    u.assets
                        .asset_amount(&AssetClass::Defined(p.to_vec(), n.to_vec()))
                        .unwrap_or(0)
                        > 0
                }
            })
            .map(|u| u.r#ref.clone())
            .collect();
        Ok(out)
    }

    async fn fetch_utxos(&self, refs: HashSet<UtxoRef>) -> Result<UtxoSet, Error> {
        Ok(self
            .utxos
            .iter()
            .filter(|u| refs.contains(&u.r#ref))
            .cloned()
            .collect())
    }
}

pub fn addr(tag: u8) -> Vec<u8> {
    let mut v = vec![0x60];
    v.extend(std::iter::repeat(tag).take(28));
    v
}
pub fn tok(tag: u8) -> (Vec<u8>, Vec<u8>) {
    (vec![tag; 28], vec![b't', tag])
}
pub fn txid(n: u64) -> Vec<u8> {
    let mut v = vec![0u8; 24];
    v.extend(n.to_be_bytes());
    v
}

pub fn ref_gal(r: &UtxoRef) -> String {
    format!("(mk_ref {} {})", gal::bytes(&r.txid), gal::n(r.index))
}
pub fn refs_gal(rs: &[UtxoRef]) -> String {
    gal::list(&rs.iter().map(ref_gal).collect::<Vec<_>>())
}
pub fn assets_gal(a: &CanonicalAssets) -> String {
    format!("(of_entries_z {})", entries_gal(&entries(a)))
}
pub fn utxo_gal(u: &Utxo) -> String {
    format!(
        "(mk_utxo {} {} {})",
        ref_gal(&u.r#ref),
        gal::bytes(&u.address),
        assets_gal(&u.assets)
    )
}

#[derive(Clone, Debug)]
pub struct Q {
    pub address: Option<Vec<u8>>,
    pub min: Option<Vec<(AssetClass, i128)>>,
    pub refs: Vec<UtxoRef>,
    pub many: bool,
    pub coll: bool,
}

impl Q {
    pub fn to_tir(&self) -> tir::InputQuery {
        tir::InputQuery {
            address: self
                .address
                .clone()
                .map(tir::Expression::Address)
                .unwrap_or(tir::Expression::None),
            min_amount: match &self.min {
                None => tir::Expression::None,
                Some(v) => tir::Expression::Assets(
                    v.iter()
                        .map(|(c, z)| tir::AssetExpr {
                            policy: c
                                .policy()
                                .map(|p| tir::Expression::Bytes(p.to_vec()))
                                .unwrap_or(tir::Expression::None),
                            asset_name: c
                                .name()
                                .map(|p| tir::Expression::Bytes(p.to_vec()))
                                .unwrap_or(tir::Expression::None),
                            amount: tir::Expression::Number(*z),
                        })
                        .collect(),
                ),
            },
            r#ref: if self.refs.is_empty() {
                tir::Expression::None
            } else {
                tir::Expression::UtxoRefs(self.refs.clone())
            },
            many: self.many,
            collateral: self.coll,
        }
    }
    /// the canonical min_amount as the implementation computes it
    pub fn canonical_min(&self) -> Option<CanonicalAssets> {
        self.min.as_ref().map(|v| {
            v.iter()
                .map(|(c, z)| CanonicalAssets::from_class_and_amount(c.clone(), *z))
                .fold(CanonicalAssets::empty(), |a, b| a + b)
        })
    }
    pub fn gal(&self) -> String {
        let mut refs: Vec<UtxoRef> = vec![];
        for r in &self.refs {
            if !refs.contains(r) {
                refs.push(r.clone());
            }
        }
        format!(
            "(mk_query {} {} {} {} {})",
            gal::opt(self.address.as_ref().map(|a| gal::bytes(a))),
            gal::opt(self.canonical_min().map(|m| assets_gal(&m))),
            refs_gal(&refs),
            gal::b(self.many),
            gal::b(self.coll)
        )
    }
}

pub fn build_tx(blocks: &[(String, Q)]) -> AnyTir {
    let mut inputs = vec![];
    let mut collateral = vec![];
    for (name, q) in blocks {
        let e: tir::Expression = tir::Param::ExpectInput(name.clone(), q.to_tir()).into();
        if q.coll {
            collateral.push(tir::Collateral { utxos: e });
        } else {
            inputs.push(tir::Input {
                name: name.clone(),
                utxos: e,
                redeemer: tir::Expression::None,
            });
        }
    }
    AnyTir::V1Beta0(tir::Tx {
        fees: tir::Expression::None,
        references: vec![],
        inputs,
        outputs: vec![],
        validity: None,
        mints: vec![],
        burns: vec![],
        adhoc: vec![],
        collateral,
        signers: None,
        metadata: vec![],
    })
}

#[derive(Default, Clone)]
pub struct Seg {
    pub fill: Option<Vec<UtxoRef>>,
    pub sorted: Option<Vec<UtxoRef>>,
    pub scans: Vec<Vec<UtxoRef>>,
}

pub fn segment(events: Vec<Event>) -> Vec<Seg> {
    let mut out = vec![];
    let mut cur = Seg::default();
    let mut any = false;
    for ev in events {
        match ev {
            Event::Fill(v) => {
                if cur.fill.is_some() || cur.sorted.is_some() {
                    out.push(std::mem::take(&mut cur));
                }
                cur.fill = Some(v);
                any = true;
            }
            Event::Sorted(v) => {
                if cur.sorted.is_some() {
                    out.push(std::mem::take(&mut cur));
                }
                cur.sorted = Some(v);
                any = true;
            }
            Event::PruneScan(v) => {
                cur.scans.push(v);
                any = true;
            }
        }
    }
    if any {
        out.push(cur);
    }
    out
}

pub struct Outcome {
    pub kind: u8, // 0 ok 1 not resolved 2 too broad 3 other 4 panic
    pub err_name: String,
    pub sels: BTreeMap<String, Vec<UtxoRef>>,
    pub segs: Vec<Seg>,
    pub detail: String,
}

fn utxo_set_of(e: &tir::Expression) -> Option<Vec<UtxoRef>> {
    match e {
        tir::Expression::EvalParam(p) => match p.as_ref() {
            tir::Param::Set(tir::Expression::UtxoSet(s)) => {
                let mut v: Vec<UtxoRef> = s.iter().map(|u| u.r#ref.clone()).collect();
                v.sort_by(|a, b| (a.txid.clone(), a.index).cmp(&(b.txid.clone(), b.index)));
                Some(v)
            }
            _ => None,
        },
        _ => None,
    }
}

pub fn run_resolve(store: &MemStore, blocks: &[(String, Q)]) -> Outcome {
    let tx = build_tx(blocks);
    let _ = tx3_resolver::verif::take();
    let res = std::panic::catch_unwind(std::panic::AssertUnwindSafe(|| {
        pollster::block_on(tx3_resolver::inputs::resolve(tx, store))
    }));
    let segs = segment(tx3_resolver::verif::take());
    let mut out = Outcome { kind: 0, err_name: String::new(), sels: BTreeMap::new(), segs, detail: String::new() };
    match res {
        Err(_) => out.kind = 4,
        Ok(Err(Error::InputNotResolved(name, _, _))) => {
            out.kind = 1;
            out.err_name = name;
        }
        Ok(Err(Error::InputQueryTooBroad)) => out.kind = 2,
        Ok(Err(e)) => {
            out.kind = 3;
            out.detail = format!("{}", e);
        }
        Ok(Ok(AnyTir::V1Beta0(tx))) => {
            let mut ci = 0;
            for (name, q) in blocks {
                if q.coll {
                    if let Some(v) = tx.collateral.get(ci).and_then(|c| utxo_set_of(&c.utxos)) {
                        out.sels.insert(name.clone(), v);
                    }
                    ci += 1;
                } else if let Some(i) = tx.inputs.iter().find(|i| &i.name == name) {
                    if let Some(v) = utxo_set_of(&i.utxos) {
                        out.sels.insert(name.clone(), v);
                    }
                }
            }
        }
    }
    out
}

pub fn case_gal(store: &MemStore, blocks: &[(String, Q)], o: &Outcome) -> String {
    // blocks in BTreeMap (name) order, as inputs::resolve visits them
    let mut sorted: Vec<&(String, Q)> = blocks.iter().collect();
    sorted.sort_by(|a, b| a.0.cmp(&b.0));
    let mut bl = vec![];
    for (i, (name, q)) in sorted.iter().enumerate() {
        let seg = o.segs.get(i).cloned().unwrap_or_default();
        let oracles = format!(
            "(mk_oracles {} {} {})",
            refs_gal(&seg.fill.unwrap_or_default()),
            refs_gal(&seg.sorted.unwrap_or_default()),
            gal::list(&seg.scans.iter().map(|s| refs_gal(s)).collect::<Vec<_>>())
        );
        bl.push(format!(
            "(mk_blk {} {} {} {})",
            gal::s(name),
            q.gal(),
            oracles,
            gal::opt(o.sels.get(name).map(|v| refs_gal(v)))
        ));
    }
    format!(
        "(mk_case {} {} {} {})",
        gal::list(&store.utxos.iter().map(utxo_gal).collect::<Vec<_>>()),
        gal::list(&bl),
        gal::n(o.kind),
        gal::s(&o.err_name)
    )
}

fn small_assets(r: &mut Rng) -> CanonicalAssets {
    let (p1, n1) = tok(0x11);
    let (p2, n2) = tok(0x22);
    let mut a = CanonicalAssets::from_naked_amount(*r.pick(&[1i128, 2, 5]));
    let x = *r.pick(&[0i128, 0, 1, 2]);
    if x > 0 {
        a = a + CanonicalAssets::from_defined_asset(&p1, &n1, x);
    }
    let y = *r.pick(&[0i128, 0, 2]);
    if y > 0 {
        a = a + CanonicalAssets::from_defined_asset(&p2, &n2, y);
    }
    a
}

fn big_assets(r: &mut Rng) -> CanonicalAssets {
    let (p1, n1) = tok(0x11);
    let (p2, n2) = tok(0x22);
    let mut a = CanonicalAssets::from_naked_amount(1 + (r.i128_bits(62).abs()));
    if r.chance(1, 3) {
        a = a + CanonicalAssets::from_defined_asset(&p1, &n1, 1 + r.i128_bits(62).abs());
    }
    if r.chance(1, 4) {
        a = a + CanonicalAssets::from_defined_asset(&p2, &n2, 1 + r.i128_bits(40).abs());
    }
    a
}

pub fn gen_store(r: &mut Rng, n: usize, big: bool) -> MemStore {
    let mut utxos = vec![];
    for i in 0..n {
        let a = *r.pick(&[0xA1u8, 0xA1, 0xB2, 0xC3]);
        let assets = if big { big_assets(r) } else { small_assets(r) };
        // indices and txids collide partially so that (txid, index) ordering matters
        let t = r.below(3 + n as u64 / 2);
        let mut rf = UtxoRef { txid: txid(t), index: r.below(3) as u32 };
        while utxos.iter().any(|u: &Utxo| u.r#ref == rf) {
            rf = UtxoRef { txid: txid(t), index: rf.index + 1 };
        }
        let _ = i;
        utxos.push(Utxo { r#ref: rf, address: addr(a), assets, datum: None, script: None });
    }
    MemStore { utxos }
}

pub fn gen_query(r: &mut Rng, store: &MemStore, big: bool, allow_coll: bool) -> Q {
    let (p1, n1) = tok(0x11);
    let (p2, n2) = tok(0x22);
    let address = match r.below(4) {
        0 => None,
        1 | 2 => Some(addr(0xA1)),
        _ => Some(addr(0xB2)),
    };
    let refs = match r.below(6) {
        0 | 1 | 2 => vec![],
        3 | 4 => {
            // own or foreign: any UTxO of the store
            if store.utxos.is_empty() {
                vec![]
            } else {
                vec![r.pick(&store.utxos).r#ref.clone()]
            }
        }
        _ => vec![UtxoRef { txid: txid(999), index: 7 }], // dangling
    };
    let refs = if !refs.is_empty() && r.chance(1, 8) && store.utxos.len() > 1 {
        // hand-built multi-ref (soundness only)
        let mut v = refs;
        v.push(r.pick(&store.utxos).r#ref.clone());
        v
    } else {
        refs
    };
    let min = if r.chance(1, 8) {
        None
    } else {
        let mut v = vec![];
        if big {
            if r.chance(3, 4) {
                v.push((AssetClass::Naked, r.i128_bits(63).abs()));
            }
            if r.chance(1, 3) {
                v.push((AssetClass::Defined(p1.clone(), n1.clone()), r.i128_bits(63).abs()));
            }
            if r.chance(1, 5) {
                v.push((AssetClass::Defined(p2.clone(), n2.clone()), r.i128_bits(40).abs()));
            }
        } else {
            if r.chance(3, 4) {
                v.push((AssetClass::Naked, *r.pick(&[0i128, 1, 3, 6, 9])));
            }
            if r.chance(1, 2) {
                v.push((AssetClass::Defined(p1.clone(), n1.clone()), *r.pick(&[0i128, 1, 2, 3])));
            }
            if r.chance(1, 4) {
                v.push((AssetClass::Defined(p2.clone(), n2.clone()), *r.pick(&[2i128, 4])));
            }
        }
        Some(v)
    };
    let mut q = Q { address, min, refs, many: r.chance(1, 2), coll: allow_coll && r.chance(1, 6) };
    // mostly-satisfiable stream: aim the query at UTxOs that exist
    if !store.utxos.is_empty() && r.chance(3, 5) {
        let first = r.pick(&store.utxos).clone();
        let mut sum = first.assets.clone();
        if q.many && r.chance(2, 3) {
            for u in store.utxos.iter().filter(|u| u.address == first.address && u.r#ref != first.r#ref).take(r.below(3) as usize) {
                sum = sum + u.assets.clone();
            }
        }
        if q.address.is_some() || r.chance(1, 2) {
            q.address = Some(first.address.clone());
        }
        if q.coll {
            sum = CanonicalAssets::from_naked_amount(sum.naked_amount().unwrap_or(0));
        }
        let mut v: Vec<(AssetClass, i128)> = entries(&sum);
        // sometimes ask for a little less, sometimes exactly, rarely one more
        for e in v.iter_mut() {
            match r.below(6) {
                0 | 1 => e.1 = (e.1 - 1).max(0),
                2 => e.1 = e.1 / 2,
                3 if r.chance(1, 4) => e.1 += 1,
                _ => {}
            }
        }
        if r.chance(1, 3) {
            v.retain(|e| !matches!(e.0, AssetClass::Defined(_, _)) || r.chance(1, 2));
        }
        q.min = Some(v);
        if !q.refs.is_empty() && q.refs.len() == 1 && r.chance(1, 2) {
            q.refs = vec![first.r#ref.clone()];
        }
    }
    q
}

fn witness_cases() -> Vec<(MemStore, Vec<(String, Q)>)> {
    // the replayed finding F03-1 (repaired): from A + ref must not select another UTxO at A
    let mk = |i: u64, a: u8, l: i128| Utxo {
        r#ref: UtxoRef { txid: txid(i), index: 0 },
        address: addr(a),
        assets: CanonicalAssets::from_naked_amount(l),
        datum: None,
        script: None,
    };
    let store = || MemStore { utxos: vec![mk(1, 0xA1, 5_000_000), mk(2, 0xA1, 100_000_000), mk(3, 0xB2, 7_000_000)] };
    let q = |r: u64| Q {
        address: Some(addr(0xA1)),
        min: Some(vec![(AssetClass::Naked, 4_000_000)]),
        refs: vec![UtxoRef { txid: txid(r), index: 0 }],
        many: false,
        coll: false,
    };
    vec![
        (store(), vec![("a".to_string(), q(3))]),
        (store(), vec![("a".to_string(), q(1))]),
        (store(), vec![("a".to_string(), Q { address: None, ..q(3) })]),
    ]
}

pub fn run(ctx: &mut Ctx, multi: bool) {
    let id = if multi { "C04" } else { "C03" };
    let mut r = Rng::new(ctx.seed ^ if multi { 0xC04 } else { 0xC03 });
    let n_cases = match (ctx.thorough, multi) {
        (false, false) => 2600,
        (false, true) => 2000,
        (true, false) => 40000,
        (true, true) => 30000,
    };
    let mut texts = vec![];
    let mut hist: BTreeMap<String, u64> = BTreeMap::new();
    let mut samples = vec![];
    let mut distinct = HashSet::new();
    let mut nontrivial = 0u64;
    let mut impl_violations = vec![];
    let mut all: Vec<(MemStore, Vec<(String, Q)>)> = witness_cases();
    for _ in 0..n_cases {
        let big = r.chance(1, 5);
        let n = if big {
            r.below(51) as usize
        } else {
            match r.below(10) {
                0 => 0,
                1 | 2 => 1,
                3 | 4 | 5 => 2,
                6 | 7 => 3,
                8 => 4,
                _ => 5 + r.below(4) as usize,
            }
        };
        let mut near_miss: Option<i128> = None;
        let wide = r.chance(1, 15);
        let n_store = if wide { 55 + r.below(60) as usize } else { n };
        let mut store = gen_store(&mut r, n_store, big);
        if wide {
            // more matching UTxOs at one address than the selection window holds
            for u in store.utxos.iter_mut() {
                if r.chance(9, 10) {
                    u.address = addr(0xA1);
                }
            }
            *hist.entry("wide_wallet".into()).or_default() += 1;
        }
        if !wide && !store.utxos.is_empty() && r.chance(1, 12) {
            // large amounts that differ in the last digits: a UTxO a few lovelace short of what will
            // be asked for, and one that covers it
            let base = *r.pick(&[1_000_000_000i128, 1_000_000_000_000, 4_000_000_000_000_000]);
            let n_u = store.utxos.len();
            store.utxos[0].assets = CanonicalAssets::from_naked_amount(base - 1 - r.below(1000) as i128);
            if n_u > 1 && r.chance(1, 2) {
                store.utxos[n_u - 1].assets = CanonicalAssets::from_naked_amount(base * 2);
            }
            near_miss = Some(base);
            *hist.entry("near_miss_at_scale".into()).or_default() += 1;
        }
        let k = if multi { 1 + r.below(4) as usize } else if r.chance(1, 10) { 2 } else { 1 };
        let names = ["a", "b", "c", "d"];
        let mut blocks = vec![];
        let mut have_coll = false;
        let shared = gen_query(&mut r, &store, big, false);
        for i in 0..k {
            let mut q = if multi && r.chance(1, 2) { shared.clone() } else { gen_query(&mut r, &store, big, !have_coll) };
            if multi && r.chance(1, 3) {
                q.many = !q.many;
            }
            if let Some(base) = near_miss {
                // ask for the round amount, at the address of the UTxO that is a few lovelace short
                q.address = Some(store.utxos[0].address.clone());
                q.min = Some(vec![(AssetClass::Naked, base)]);
                q.refs = vec![];
                q.coll = false;
                q.many = r.chance(1, 4);
            }
            let name = if q.coll {
                have_coll = true;
                "collateral".to_string()
            } else {
                names[i].to_string()
            };
            blocks.push((name, q));
        }
        all.push((store, blocks));
    }
    for (i, (store, blocks)) in all.iter().enumerate() {
        let o = run_resolve(store, blocks);
        *hist.entry(format!("kind_{}", o.kind)).or_default() += 1;
        *hist.entry(format!("store_size_{}", if store.utxos.len() > 8 { "9+".to_string() } else { store.utxos.len().to_string() })).or_default() += 1;
        *hist.entry(format!("blocks_{}", blocks.len())).or_default() += 1;
        for (_, q) in blocks {
            *hist
                .entry(format!(
                    "q_addr{}_ref{}_{}{}",
                    q.address.is_some() as u8,
                    q.refs.len().min(2),
                    if q.many { "many" } else { "single" },
                    if q.coll { "_coll" } else { "" }
                ))
                .or_default() += 1;
        }
        let text = case_gal(store, blocks, &o);
        if !store.utxos.is_empty() && distinct.insert(text.clone()) && (o.kind == 0 || o.kind == 1) {
            nontrivial += 1;
        }
        if multi && o.kind == 0 {
            // C04 body leg: the flattened input list holds every selected UTxO exactly once
            let total: usize = blocks.iter().filter(|(_, q)| !q.coll).map(|(n, _)| o.sels.get(n).map(|v| v.len()).unwrap_or(0)).sum();
            let mut flat: Vec<UtxoRef> = blocks.iter().filter(|(_, q)| !q.coll).flat_map(|(n, _)| o.sels.get(n).cloned().unwrap_or_default()).collect();
            flat.sort_by(|a, b| (a.txid.clone(), a.index).cmp(&(b.txid.clone(), b.index)));
            flat.dedup();
            if flat.len() != total {
                impl_violations.push(serde_json::json!({"index": i, "ids": [106], "what": "a UTxO is bound to two input blocks", "case": text}));
            }
        }
        if i < 3 || i % (all.len() / 4 + 1) == 0 {
            samples.push(serde_json::json!({"store": store.utxos.iter().map(|u| format!("{}@{}:{}", u.r#ref, hex::encode(&u.address[..2]), u.assets)).collect::<Vec<_>>(),
                "blocks": blocks.iter().map(|(n, q)| format!("{} {:?}", n, q.to_tir())).collect::<Vec<_>>(),
                "impl_kind": o.kind, "selected": o.sels.iter().map(|(k, v)| (k.clone(), v.iter().map(|r| format!("{}", r)).collect::<Vec<_>>())).collect::<BTreeMap<_, _>>() }));
        }
        texts.push(text);
    }
    ctx.write_cases(id, "From Tx3 Require Import Base Assets Select C03_check.\nDefinition of_entries_z (l : list (asset_class * Z)) : assets := list_to_map l.", "case", "run", &texts, 200);
    ctx.meta.insert("evaluations".into(), serde_json::json!(all.len()));
    ctx.meta.insert("distinct_nontrivial".into(), serde_json::json!(nontrivial));
    ctx.meta.insert("distribution".into(), serde_json::json!(hist));
    ctx.meta.insert("samples".into(), serde_json::json!(samples));
    if multi {
        // blocks whose names meet after lower-casing (in every order, with names that sort between
        // them, and against the collateral block's own query name): an accepted program must give
        // every block a query of its own
        let mut arrangements: Vec<Vec<&str>> = vec![];
        for trio in [["Source", "gas", "source"], ["source", "SOURCE", "locked"], ["a", "Zed", "A"], ["Gas", "gas", "x"], ["Collateral", "source", "gas"], ["collateral", "Gas", "locked"], ["one", "two", "three"]] {
            for perm in [[0usize, 1, 2], [0, 2, 1], [1, 0, 2], [1, 2, 0], [2, 0, 1], [2, 1, 0]] {
                arrangements.push(perm.iter().map(|&i| trio[i]).collect());
            }
        }
        let mut name_hist: BTreeMap<String, u64> = BTreeMap::new();
        for names in &arrangements {
            for with_collateral in [false, true] {
                let mut src = String::from("party Alice;\ntx t() {\n");
                for n in names {
                    src.push_str(&format!("    input {} {{\n        from: Alice,\n        min_amount: Ada(2000000),\n    }}\n", n));
                }
                if with_collateral {
                    src.push_str("    collateral {\n        from: Alice,\n        min_amount: Ada(2000000),\n    }\n");
                }
                src.push_str(&format!("    output {{\n        to: Alice,\n        amount: {} - fees,\n    }}\n}}\n", names.join(" + ")));
                let lowered = crate::c05::lower_src(&src, "t");
                let wanted = names.len() + with_collateral as usize;
                match &lowered {
                    None => *name_hist.entry("rejected".into()).or_default() += 1,
                    Some(tx) => {
                        let got = tx3_tir::reduce::find_queries(tx).len();
                        *name_hist.entry(if got == wanted { "accepted_distinct_queries".into() } else { "accepted_shared_query".to_string() }).or_default() += 1;
                        if got != wanted && impl_violations.len() < 12 {
                            impl_violations.push(serde_json::json!({"index": -1, "ids": [109], "what": "an accepted program gives two of its blocks one query: they are bound to the same UTxOs",
                                "blocks": names, "collateral_block": with_collateral, "queries": got, "source": src}));
                        }
                    }
                }
            }
        }
        ctx.meta.insert("block_name_arrangements".into(), serde_json::json!(name_hist));
        let (more, loop_hist) = crate::c05::c04_loop_probe(&mut r, if ctx.thorough { 3000 } else { 300 });
        impl_violations.extend(more);
        ctx.meta.insert("fee_loop_runs".into(), serde_json::json!(loop_hist));
    }
    ctx.meta.insert("impl_violations".into(), serde_json::json!(impl_violations));
    ctx.meta.insert(
        "rule".into(),
        serde_json::json!("stores of 0..8 UTxOs over 3 addresses x 2 token classes on the small value grid (lovelace {1,2,5}, token A {0,1,2}, token B {0,2}) and, one case in five, random stores of up to 50 UTxOs with amounts up to 2^62; queries: address in {none, A, B} x ref in {none, a UTxO of the store (own or foreign), dangling, hand-built pair} x min_amount over lovelace and two tokens incl. 0 and absent x {single, many} x {input, collateral}; 1..4 blocks per template; non-trivial = non-empty store and the run ended Ok or InputNotResolved; distinct = distinct printed case"),
    );
}
