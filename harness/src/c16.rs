//! C16 — JSON argument coercion and request parsing: run tx3_resolver::interop::from_json and
//! trp::parse_resolve_request on generated values / documents; print cases for coq/C16_check.v.
use crate::c03::ref_gal;
use crate::gal;
use crate::rng::Rng;
use crate::tirgen::{addr_bytes, arg_gal, ty_gal};
use crate::Ctx;
use serde_json::{json, Value};
use std::collections::{BTreeMap, HashSet};
use tx3_resolver::interop::{self, ArgValue};
use tx3_tir::model::core::{Type, UtxoRef};

/// Coq string: a literal when printable ASCII, else built from byte codes
pub fn str_gal(s: &str) -> String {
    if s.bytes().all(|b| (32..127).contains(&b)) {
        gal::s(s)
    } else {
        format!("(str_of {})", gal::bytes_lit(s.as_bytes()))
    }
}

pub fn json_gal(v: &Value) -> String {
    match v {
        Value::Null => "JNull".into(),
        Value::Bool(b) => format!("(JBool {})", gal::b(*b)),
        Value::Number(n) => {
            if let Some(i) = n.as_i64() {
                format!("(JNum {})", gal::z(i as i128))
            } else if let Some(u) = n.as_u64() {
                format!("(JNum {})", gal::z(u as i128))
            } else {
                "JFloat".into()
            }
        }
        Value::String(s) => format!("(JStr {})", str_gal(s)),
        Value::Array(a) => format!("(JArr {})", gal::list(&a.iter().map(json_gal).collect::<Vec<_>>())),
        Value::Object(o) => format!(
            "(JObj {})",
            gal::list(&o.iter().map(|(k, v)| format!("({}, {})", str_gal(k), json_gal(v))).collect::<Vec<_>>())
        ),
    }
}

fn strings_in(v: &Value, out: &mut Vec<String>) {
    match v {
        Value::String(s) => out.push(s.clone()),
        Value::Array(a) => a.iter().for_each(|x| strings_in(x, out)),
        Value::Object(o) => o.values().for_each(|x| strings_in(x, out)),
        _ => {}
    }
}

fn oracle_gal(strings: &[String], f: impl Fn(&str) -> Option<Vec<u8>>) -> String {
    gal::list(
        &strings
            .iter()
            .map(|s| format!("({}, {})", str_gal(s), gal::opt(f(s).map(|b| gal::bytes_lit(&b)))))
            .collect::<Vec<_>>(),
    )
}

struct Case {
    json: Value,
    ty: Type,
    expect: Option<ArgValue>,
    illformed: bool,
    tag: &'static str,
}

fn dec_variants(r: &mut Rng, z: i128) -> Vec<String> {
    let mut v = vec![z.to_string()];
    if z >= 0 && r.chance(1, 3) {
        v.push(format!("+{}", z));
    }
    if r.chance(1, 4) {
        v.push(if z < 0 { format!("-00{}", z.unsigned_abs()) } else { format!("00{}", z) });
    }
    v
}

fn gen_cases(r: &mut Rng, n: usize) -> Vec<Case> {
    let mut out = vec![];
    let push = |out: &mut Vec<Case>, json: Value, ty: Type, expect: Option<ArgValue>, ill: bool, tag: &'static str| {
        out.push(Case { json, ty, expect, illformed: ill, tag })
    };
    // ---- integers: boundaries first
    let mut ints: Vec<i128> = vec![0, 1, -1, 23, 24, 255, 256, i64::MAX as i128, i64::MIN as i128, u64::MAX as i128, u64::MAX as i128 + 1,
        i128::MAX, i128::MIN, i128::MAX - 1, i128::MIN + 1, 1 << 64, -(1 << 64), (1i128 << 126)];
    for _ in 0..n {
        ints.push(r.i128_bits(127));
    }
    for z in ints {
        for s in dec_variants(r, z) {
            push(&mut out, json!(s), Type::Int, Some(ArgValue::Int(z)), false, "int_dec_string");
        }
        if z >= i64::MIN as i128 && z <= u64::MAX as i128 {
            let v = if z < 0 { json!(z as i64) } else { json!(z as u64) };
            push(&mut out, v, Type::Int, Some(ArgValue::Int(z)), false, "int_number");
        }
        let hex = format!("0x{}", hex::encode(z.to_be_bytes()));
        push(&mut out, json!(hex), Type::Int, Some(ArgValue::Int(z)), false, "int_hex16");
        if r.chance(1, 6) {
            push(&mut out, json!(format!("0x{}", hex::encode(z.to_be_bytes()).to_uppercase())), Type::Int, Some(ArgValue::Int(z)), false, "int_hex16_upper");
        }
    }
    // ill-formed integers
    for s in ["", "-", "+", "--5", "5 ", " 5", "5.0", "1e3", "0x", "0x12", "0x0x00000000000000000000000000000001", "abc",
              "170141183460469231731687303715884105728", "-170141183460469231731687303715884105729",
              "0x000000000000000000000000000000", "0x0000000000000000000000000000000000", "0x0000000000000000000000000000000g",
              "0x000000000000000000000000000000001", "１２", "5_000"] {
        push(&mut out, json!(s), Type::Int, None, true, "int_illformed");
    }
    push(&mut out, json!(1.5), Type::Int, None, true, "int_illformed");
    push(&mut out, json!(1e30), Type::Int, None, true, "int_illformed");
    push(&mut out, Value::Null, Type::Int, None, true, "int_illformed");
    push(&mut out, json!(true), Type::Int, None, true, "int_illformed");
    push(&mut out, json!([1]), Type::Int, None, true, "int_illformed");
    push(&mut out, json!({"a": 1}), Type::Int, None, true, "int_illformed");
    // ---- booleans
    for (v, b) in [(json!(true), true), (json!(false), false), (json!(0), false), (json!(1), true), (json!("true"), true), (json!("false"), false)] {
        push(&mut out, v, Type::Bool, Some(ArgValue::Bool(b)), false, "bool");
    }
    for v in [json!(2), json!("TRUE"), json!("1"), json!(1.0), Value::Null, json!([]), json!(-1), json!("yes")] {
        push(&mut out, v, Type::Bool, None, true, "bool_illformed");
    }
    // ---- bytes: every length 0..64, hex with and without prefix, envelopes
    for len in 0..=64usize {
        let b: Vec<u8> = (0..len).map(|i| (i as u8).wrapping_mul(37).wrapping_add(r.below(256) as u8)).collect();
        let h = hex::encode(&b);
        push(&mut out, json!(h), Type::Bytes, Some(ArgValue::Bytes(b.clone())), false, "bytes_hex");
        push(&mut out, json!(format!("0x{}", h)), Type::Bytes, Some(ArgValue::Bytes(b.clone())), false, "bytes_hex_prefixed");
        push(&mut out, json!({"content": h, "contentType": "hex"}), Type::Bytes, Some(ArgValue::Bytes(b.clone())), false, "bytes_env_hex");
        use base64_compat::encode as b64;
        push(&mut out, json!({"content": b64(&b), "contentType": "base64"}), Type::Bytes, Some(ArgValue::Bytes(b.clone())), false, "bytes_env_base64");
        if len % 8 == 0 {
            push(&mut out, json!({"payload": h, "encoding": "hex"}), Type::Bytes, Some(ArgValue::Bytes(b.clone())), false, "bytes_env_alias");
            push(&mut out, json!({"bytecode": b64(&b), "contentType": "base64", "extra": 1}), Type::Bytes, Some(ArgValue::Bytes(b.clone())), false, "bytes_env_alias");
        }
    }
    for v in [json!("abc"), json!("zz"), json!("0x0x12"), json!("0xabc"), json!(12), Value::Null, json!([1, 2]),
              json!({"content": "00"}), json!({"contentType": "hex"}), json!({"content": "00", "contentType": "Hex"}),
              json!({"content": "00", "payload": "00", "contentType": "hex"}), json!({"content": 5, "contentType": "hex"}),
              json!({"content": "zz", "contentType": "hex"}), json!({"content": "!!!!", "contentType": "base64"}),
              json!({"content": "QQ", "contentType": "base64"}), json!({"content": "00", "contentType": "hex", "encoding": "hex"})] {
        push(&mut out, v, Type::Bytes, None, true, "bytes_illformed");
    }
    // ---- addresses: bech32 (both networks) and hex
    for tag in [0xA1u8, 0xB2, 0xC3] {
        for header in [0x60u8, 0x61, 0x70, 0x71] {
            let mut bytes = vec![header];
            bytes.extend(std::iter::repeat(tag).take(28));
            if let Ok(a) = tx3_cardano::pallas::ledger::addresses::Address::from_bytes(&bytes) {
                if let Ok(b32) = a.to_bech32() {
                    push(&mut out, json!(b32), Type::Address, Some(ArgValue::Address(bytes.clone())), false, "address_bech32");
                    // corrupt the checksum: falls through to hex and fails
                    let mut c = b32.clone();
                    let last = c.pop().unwrap();
                    c.push(if last == 'q' { 'p' } else { 'q' });
                    push(&mut out, json!(c), Type::Address, None, true, "address_bad_checksum");
                }
            }
            push(&mut out, json!(hex::encode(&bytes)), Type::Address, Some(ArgValue::Address(bytes.clone())), false, "address_hex");
            push(&mut out, json!(format!("0x{}", hex::encode(&bytes))), Type::Address, Some(ArgValue::Address(bytes.clone())), false, "address_hex_prefixed");
        }
    }
    for v in [json!(5), Value::Null, json!("xyz"), json!(["a"])] {
        push(&mut out, v, Type::Address, None, true, "address_illformed");
    }
    // ---- utxo refs
    for i in 0..(n / 4 + 8) {
        let tl = *r.pick(&[0usize, 1, 32, 32, 32]);
        let txid = r.bytes(tl);
        let idx: u32 = match i % 5 { 0 => 0, 1 => u32::MAX, 2 => r.below(1000) as u32, 3 => 1 << 16, _ => r.next() as u32 };
        push(&mut out, json!(format!("{}#{}", hex::encode(&txid), idx)), Type::UtxoRef,
             Some(ArgValue::UtxoRef(UtxoRef { txid: txid.clone(), index: idx })), false, "utxo_ref");
    }
    for s in ["", "abcd", "abcd#", "#1", "abc#1", "abcd#-1", "abcd#4294967296", "abcd#1#2", "0xabcd#1", "abcd#1.0", "abcd# 1", "zz#1"] {
        // "#1" is a reference with an empty txid: accepted by the implementation, not ill-formed per se
        let ill = s != "#1";
        push(&mut out, json!(s), Type::UtxoRef, None, ill, "utxo_ref_illformed");
    }
    push(&mut out, json!("abcd#+7"), Type::UtxoRef, None, false, "utxo_ref_plus");
    push(&mut out, json!(7), Type::UtxoRef, None, true, "utxo_ref_illformed");
    // ---- undefined and unsupported targets
    for v in [json!(true), json!(5), json!(-5), json!("text"), json!("héllo"), json!(1.5), Value::Null, json!([1]), json!({})] {
        push(&mut out, v.clone(), Type::Undefined, None, false, "undefined");
        push(&mut out, v, if r.chance(1, 2) { Type::List } else { Type::Custom("T".into()) }, None, true, "unsupported_type");
    }
    // ---- random JSON x every type
    let types = [Type::Int, Type::Bool, Type::Bytes, Type::Address, Type::UtxoRef, Type::Undefined, Type::Map, Type::Unit, Type::AnyAsset, Type::Utxo];
    for _ in 0..n {
        let v = rand_json(r, 2);
        push(&mut out, v, r.pick(&types).clone(), None, false, "random_json");
    }
    out
}

mod base64_compat {
    // minimal standard base64 (with padding), to avoid a direct dependency
    const T: &[u8; 64] = b"ABCDEFGHIJKLMNOPQRSTUVWXYZabcdefghijklmnopqrstuvwxyz0123456789+/";
    pub fn encode(b: &[u8]) -> String {
        let mut out = String::new();
        for c in b.chunks(3) {
            let n = (c[0] as u32) << 16 | (*c.get(1).unwrap_or(&0) as u32) << 8 | *c.get(2).unwrap_or(&0) as u32;
            out.push(T[(n >> 18) as usize & 63] as char);
            out.push(T[(n >> 12) as usize & 63] as char);
            out.push(if c.len() > 1 { T[(n >> 6) as usize & 63] as char } else { '=' });
            out.push(if c.len() > 2 { T[n as usize & 63] as char } else { '=' });
        }
        out
    }
}

fn rand_json(r: &mut Rng, d: u32) -> Value {
    match r.below(if d == 0 { 7 } else { 9 }) {
        0 => Value::Null,
        1 => json!(r.chance(1, 2)),
        2 => json!(r.range(-3, 3)),
        3 => json!(r.next()),
        4 => json!(r.below(1000) as f64 / 7.0),
        5 => json!(*r.pick(&["", "0", "1", "true", "0x00", "ff", "#", "a#1", "-5", "0x", "addr1", "AAAA"])),
        6 => {
            let l = r.below(5) as usize;
            json!(hex::encode(r.bytes(l)))
        }
        7 => Value::Array((0..r.below(3)).map(|_| rand_json(r, d - 1)).collect()),
        _ => {
            let keys = ["content", "contentType", "encoding", "payload", "x"];
            let mut m = serde_json::Map::new();
            for _ in 0..r.below(4) {
                m.insert(r.pick(&keys).to_string(), if r.chance(1, 2) { json!(*r.pick(&["hex", "base64", "00", "QUJD"])) } else { rand_json(r, d - 1) });
            }
            Value::Object(m)
        }
    }
}

fn argv_opt_gal(a: &Option<ArgValue>) -> String {
    gal::opt(a.as_ref().map(arg_gal))
}

pub fn run(ctx: &mut Ctx) {
    let mut r = Rng::new(ctx.seed ^ 0xC16);
    let n = if ctx.thorough { 3000 } else { 250 };
    let cases = gen_cases(&mut r, n);
    let mut texts = vec![];
    let mut hist: BTreeMap<String, u64> = BTreeMap::new();
    let mut samples = vec![];
    let mut distinct = HashSet::new();
    for (i, c) in cases.iter().enumerate() {
        *hist.entry(c.tag.to_string()).or_default() += 1;
        let res = std::panic::catch_unwind(|| interop::from_json(c.json.clone(), &c.ty));
        let (kind, value) = match res {
            Err(_) => (2, None),
            Ok(Err(_)) => (1, None),
            Ok(Ok(v)) => (0, Some(v)),
        };
        *hist.entry(format!("kind_{}", kind)).or_default() += 1;
        let mut strings = vec![];
        strings_in(&c.json, &mut strings);
        strings.sort();
        strings.dedup();
        let text = format!(
            "(mk_case {} {} {} {} {} {} {} {})",
            json_gal(&c.json),
            ty_gal(&c.ty),
            oracle_gal(&strings, |s| interop::base64_to_bytes(s).ok()),
            oracle_gal(&strings, |s| interop::bech32_to_bytes(s).ok()),
            gal::n(kind),
            argv_opt_gal(&value),
            argv_opt_gal(&c.expect),
            gal::b(c.illformed)
        );
        distinct.insert(text.clone());
        if i % (cases.len() / 6 + 1) == 0 {
            samples.push(json!({"tag": c.tag, "json": c.json, "type": format!("{:?}", c.ty), "outcome_kind": kind, "value": value.as_ref().map(|v| format!("{:?}", v))}));
        }
        texts.push(text);
    }
    ctx.write_cases("C16", "From Tx3 Require Import Base Tir Interop C16_check.", "case", "run", &texts, 300);

    // ---- requests
    let mut rtexts = vec![];
    let n_req = if ctx.thorough { 3000 } else { 300 };
    let src = "party Sender;\nparty Receiver;\nenv {\n    fee_cap: Int,\n    tag: Bytes,\n}\n\ntx t(quantity: Int, flag: Bool, note: Bytes) {\n    input source {\n        from: Sender,\n        min_amount: Ada(quantity) + Ada(fee_cap),\n    }\n    output {\n        to: Receiver,\n        amount: Ada(quantity),\n        datum: Wrapper { f: flag, n: note, t: tag, },\n    }\n}\n\ntype Wrapper {\n    f: Bool,\n    n: Bytes,\n    t: Bytes,\n}\n";
    let tx = crate::c05::lower_src(src, "t");
    if let Some(tx) = tx {
        let any = tx3_tir::encoding::AnyTir::V1Beta0(tx.clone());
        let params = tx3_tir::reduce::find_params(&tx);
        let (bytes, version) = tx3_tir::encoding::to_bytes(&tx);
        let values: BTreeMap<&str, Value> = BTreeMap::from([
            ("quantity", json!("1000000")), ("flag", json!(true)), ("note", json!("0xabcd")), ("fee_cap", json!(5)),
            ("tag", json!({"content": "00ff", "contentType": "hex"})), ("sender", json!(hex::encode(addr_bytes(0xA1)))),
            ("receiver", json!(hex::encode(addr_bytes(0xB2)))), ("undeclared", json!(1)), ("quantity2", json!("x")),
        ]);
        for i in 0..n_req {
            let mut args = serde_json::Map::new();
            let mut env = serde_json::Map::new();
            for (k, v) in &values {
                match r.below(5) {
                    0 => {}
                    1 | 2 => {
                        args.insert(k.to_string(), v.clone());
                    }
                    3 => {
                        env.insert(k.to_string(), v.clone());
                    }
                    _ => {
                        // both, with different values: args wins
                        args.insert(k.to_string(), v.clone());
                        env.insert(k.to_string(), if *k == "quantity" { json!("7") } else { v.clone() });
                    }
                }
            }
            if r.chance(1, 10) {
                args.insert("quantity".into(), json!("not a number"));
            }
            let corrupt = r.below(8);
            let (content, encoding, ver, envelope_ok) = match corrupt {
                0 => ("zz".to_string(), "hex", version.to_string(), false),
                1 => (hex::encode(&bytes[..bytes.len() / 2]), "hex", version.to_string(), false),
                2 => (hex::encode(&bytes), "hex", "v9".to_string(), false),
                3 => (hex::encode(&bytes), "hex", "v1alpha8".to_string(), false),
                4 => ("!!".to_string(), "base64", version.to_string(), false),
                5 => (base64_compat::encode(&bytes), "base64", version.to_string(), true),
                _ => (hex::encode(&bytes), "hex", version.to_string(), true),
            };
            let with_env = r.chance(4, 5);
            let mut doc = json!({"args": Value::Object(args.clone()), "tir": {"content": content, "encoding": encoding, "version": ver}});
            if with_env {
                doc["env"] = Value::Object(env.clone());
            }
            let res = std::panic::catch_unwind(|| {
                let req: tx3_resolver::trp::ResolveParams = serde_json::from_value(doc.clone()).map_err(|e| e.to_string())?;
                tx3_resolver::trp::parse_resolve_request(req).map_err(|e| e.to_string())
            });
            let (kind, map) = match res {
                Err(_) => (2, BTreeMap::new()),
                Ok(Err(_)) => (1, BTreeMap::new()),
                Ok(Ok((_, m))) => (0, m),
            };
            *hist.entry(format!("request_kind_{}", kind)).or_default() += 1;
            let kv = |m: &serde_json::Map<String, Value>| {
                gal::list(&m.iter().map(|(k, v)| format!("({}, {})", str_gal(k), json_gal(v))).collect::<Vec<_>>())
            };
            let env_gal = if with_env { kv(&env) } else { "[]".to_string() };
            let text = format!(
                "(mk_rcase {} {} {} {} {} {})",
                gal::list(&params.iter().map(|(k, t)| format!("({}, {})", gal::s(k), ty_gal(t))).collect::<Vec<_>>()),
                kv(&args),
                env_gal,
                gal::b(envelope_ok),
                gal::n(kind),
                gal::list(&map.iter().map(|(k, v)| format!("({}, {})", gal::s(k), arg_gal(v))).collect::<Vec<_>>())
            );
            distinct.insert(text.clone());
            if i < 2 {
                samples.push(json!({"request": doc, "outcome_kind": kind, "args": map.iter().map(|(k, v)| format!("{}={:?}", k, v)).collect::<Vec<_>>()}));
            }
            rtexts.push(text);
        }
        let _ = any;
        let _ = ref_gal;
    }
    let n_from_json = texts.len();
    ctx.write_cases("C16r", "From Tx3 Require Import Base Tir Interop C16_check.", "rcase", "rrun", &rtexts, 300);
    ctx.meta.insert("evaluations".into(), serde_json::json!(n_from_json + rtexts.len()));
    ctx.meta.insert("requests".into(), serde_json::json!(rtexts.len()));
    ctx.meta.insert("distinct_nontrivial".into(), serde_json::json!(distinct.len()));
    ctx.meta.insert("distribution".into(), serde_json::json!(hist));
    ctx.meta.insert("samples".into(), serde_json::json!(samples));
    ctx.meta.insert(
        "rule".into(),
        serde_json::json!("from_json on (value, type): every admissible encoding of generated values (i128 boundaries and random: decimal strings incl. sign/leading zeros, JSON numbers, 0x 16-byte hex; 4 bool forms; byte strings of every length 0..64 as hex, 0x-hex, hex/base64 envelopes and their aliases; bech32 and hex addresses; txid#index) plus an ill-formed stream per type and random JSON x every type; resolve requests: parameters split at random between args and env, undeclared extras, conflicting values, envelopes intact or corrupted (content, truncation, version, encoding); distinct = distinct printed case"),
    );
}
