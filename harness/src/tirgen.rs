//! Random transaction IR (templates and bare expression trees), their arguments and input
//! sets, and printers of all of them as Gallina terms of coq/Tir.v.
use crate::c03::ref_gal;
use crate::c15::{entries, entries_gal};
use crate::gal;
use crate::rng::Rng;
use std::collections::{BTreeMap, HashMap, HashSet};
use tx3_tir::model::assets::CanonicalAssets;
use tx3_tir::model::core::{Type, Utxo, UtxoRef};
use tx3_tir::model::v1beta0 as tir;
use tx3_tir::model::v1beta0::Expression as E;
use tx3_tir::reduce::ArgValue;

// ---------------------------------------------------------------- printers

pub fn ty_gal(t: &Type) -> String {
    match t {
        Type::Undefined => "TUndefined".into(),
        Type::Unit => "TUnit".into(),
        Type::Int => "TInt".into(),
        Type::Bool => "TBool".into(),
        Type::Bytes => "TBytes".into(),
        Type::Address => "TAddress".into(),
        Type::Utxo => "TUtxo".into(),
        Type::UtxoRef => "TUtxoRef".into(),
        Type::AnyAsset => "TAnyAsset".into(),
        Type::List => "TList".into(),
        Type::Map => "TMap".into(),
        Type::Custom(n) => format!("(TCustom {})", gal::s(n)),
    }
}

thread_local! {
    /// print hash sets / asset maps in iteration order (the order serialization follows) instead of sorted
    pub static ITER_ORDER: std::cell::Cell<bool> = std::cell::Cell::new(false);
}

pub fn utxo_x_gal(u: &Utxo) -> String {
    let ents = if ITER_ORDER.with(|f| f.get()) {
        u.assets.iter().map(|(k, v)| (k.clone(), *v)).collect::<Vec<_>>()
    } else {
        entries(&u.assets)
    };
    format!(
        "({}, {}, {}, {}, {})",
        ref_gal(&u.r#ref),
        gal::bytes(&u.address),
        entries_gal(&ents),
        gal::opt(u.datum.as_ref().map(expr_gal)),
        gal::opt(u.script.as_ref().map(expr_gal))
    )
}

pub fn sorted_utxos(s: &HashSet<Utxo>) -> Vec<&Utxo> {
    let mut v: Vec<&Utxo> = s.iter().collect();
    v.sort_by(|a, b| (a.r#ref.txid.clone(), a.r#ref.index).cmp(&(b.r#ref.txid.clone(), b.r#ref.index)));
    v
}

pub fn utxo_set_gal(s: &HashSet<Utxo>) -> String {
    if ITER_ORDER.with(|f| f.get()) {
        return gal::list(&s.iter().map(utxo_x_gal).collect::<Vec<_>>());
    }
    gal::list(&sorted_utxos(s).iter().map(|u| utxo_x_gal(u)).collect::<Vec<_>>())
}

pub fn expr_gal(e: &E) -> String {
    match e {
        E::None => "ENone".into(),
        E::List(xs) => format!("(EList {})", gal::list(&xs.iter().map(expr_gal).collect::<Vec<_>>())),
        E::Map(kvs) => format!(
            "(EMap {})",
            gal::list(&kvs.iter().map(|(k, v)| format!("({}, {})", expr_gal(k), expr_gal(v))).collect::<Vec<_>>())
        ),
        E::Tuple(t) => format!("(ETuple {} {})", expr_gal(&t.0), expr_gal(&t.1)),
        E::Struct(s) => format!(
            "(EStruct {} {})",
            gal::n(s.constructor),
            gal::list(&s.fields.iter().map(expr_gal).collect::<Vec<_>>())
        ),
        E::Bytes(b) => format!("(EBytes {})", gal::bytes(b)),
        E::Number(z) => format!("(ENumber {})", gal::z(*z)),
        E::Bool(b) => format!("(EBool {})", gal::b(*b)),
        E::String(s) => format!("(EString {})", gal::bytes(s.as_bytes())),
        E::Address(b) => format!("(EAddress {})", gal::bytes(b)),
        E::Hash(b) => format!("(EHash {})", gal::bytes(b)),
        E::UtxoRefs(rs) => format!("(EUtxoRefs {})", gal::list(&rs.iter().map(ref_gal).collect::<Vec<_>>())),
        E::UtxoSet(s) => format!("(EUtxoSet {})", utxo_set_gal(s)),
        E::Assets(xs) => format!(
            "(EAssets {})",
            gal::list(
                &xs.iter()
                    .map(|a| format!("({}, {}, {})", expr_gal(&a.policy), expr_gal(&a.asset_name), expr_gal(&a.amount)))
                    .collect::<Vec<_>>()
            )
        ),
        E::EvalParam(p) => match p.as_ref() {
            tir::Param::Set(x) => format!("(EParamSet {})", expr_gal(x)),
            tir::Param::ExpectValue(n, t) => format!("(EExpectValue {} {})", gal::s(n), ty_gal(t)),
            tir::Param::ExpectInput(n, q) => format!(
                "(EExpectInput {} {} {} {} {} {})",
                gal::s(n),
                expr_gal(&q.address),
                expr_gal(&q.min_amount),
                expr_gal(&q.r#ref),
                gal::b(q.many),
                gal::b(q.collateral)
            ),
            tir::Param::ExpectFees => "EExpectFees".into(),
        },
        E::EvalBuiltIn(op) => match op.as_ref() {
            tir::BuiltInOp::NoOp(x) => format!("(EBNoOp {})", expr_gal(x)),
            tir::BuiltInOp::Add(a, b) => format!("(EAdd {} {})", expr_gal(a), expr_gal(b)),
            tir::BuiltInOp::Sub(a, b) => format!("(ESub {} {})", expr_gal(a), expr_gal(b)),
            tir::BuiltInOp::Concat(a, b) => format!("(EConcat {} {})", expr_gal(a), expr_gal(b)),
            tir::BuiltInOp::Negate(a) => format!("(ENegate {})", expr_gal(a)),
            tir::BuiltInOp::Property(a, b) => format!("(EProperty {} {})", expr_gal(a), expr_gal(b)),
        },
        E::EvalCompiler(op) => match op.as_ref() {
            tir::CompilerOp::BuildScriptAddress(x) => format!("(EScriptAddr {})", expr_gal(x)),
            tir::CompilerOp::ComputeMinUtxo(x) => format!("(EMinUtxo {})", expr_gal(x)),
            tir::CompilerOp::ComputeTipSlot => "ETipSlot".into(),
            tir::CompilerOp::ComputeSlotToTime(x) => format!("(ESlotToTime {})", expr_gal(x)),
            tir::CompilerOp::ComputeTimeToSlot(x) => format!("(ETimeToSlot {})", expr_gal(x)),
        },
        E::EvalCoerce(c) => match c.as_ref() {
            tir::Coerce::NoOp(x) => format!("(ECNoOp {})", expr_gal(x)),
            tir::Coerce::IntoAssets(x) => format!("(EIntoAssets {})", expr_gal(x)),
            tir::Coerce::IntoDatum(x) => format!("(EIntoDatum {})", expr_gal(x)),
            tir::Coerce::IntoScript(x) => format!("(EIntoScript {})", expr_gal(x)),
        },
        E::AdHocDirective(d) => format!("(EAdHoc {} {})", gal::s(&d.name), data_gal(&d.data)),
    }
}

pub fn data_gal(d: &HashMap<String, E>) -> String {
    let mut v: Vec<(&String, &E)> = d.iter().collect();
    v.sort_by(|a, b| a.0.cmp(b.0));
    gal::list(&v.iter().map(|(k, v)| format!("({}, {})", gal::s(k), expr_gal(v))).collect::<Vec<_>>())
}

pub fn tx_gal(t: &tir::Tx) -> String {
    let l = |v: Vec<String>| gal::list(&v);
    format!(
        "(mk_tx {} {} {} {} {} {} {} {} {} {} {})",
        expr_gal(&t.fees),
        l(t.references.iter().map(expr_gal).collect()),
        l(t.inputs.iter().map(|i| format!("(mk_input {} {} {})", gal::s(&i.name), expr_gal(&i.utxos), expr_gal(&i.redeemer))).collect()),
        l(t.outputs
            .iter()
            .map(|o| format!("(mk_output {} {} {} {})", expr_gal(&o.address), expr_gal(&o.datum), expr_gal(&o.amount), gal::b(o.optional)))
            .collect()),
        gal::opt(t.validity.as_ref().map(|v| format!("(mk_validity {} {})", expr_gal(&v.since), expr_gal(&v.until)))),
        l(t.mints.iter().map(|m| format!("(mk_mint {} {})", expr_gal(&m.amount), expr_gal(&m.redeemer))).collect()),
        l(t.burns.iter().map(|m| format!("(mk_mint {} {})", expr_gal(&m.amount), expr_gal(&m.redeemer))).collect()),
        l(t.adhoc.iter().map(|a| format!("(mk_adhoc {} {})", gal::s(&a.name), data_gal(&a.data))).collect()),
        l(t.collateral.iter().map(|c| expr_gal(&c.utxos)).collect()),
        gal::opt(t.signers.as_ref().map(|s| l(s.signers.iter().map(expr_gal).collect()))),
        l(t.metadata.iter().map(|m| format!("(mk_metadata {} {})", expr_gal(&m.key), expr_gal(&m.value))).collect())
    )
}

pub fn arg_gal(a: &ArgValue) -> String {
    match a {
        ArgValue::Int(z) => format!("(ArgInt {})", gal::z(*z)),
        ArgValue::Bool(b) => format!("(ArgBool {})", gal::b(*b)),
        ArgValue::String(s) => format!("(ArgString {})", gal::bytes(s.as_bytes())),
        ArgValue::Bytes(b) => format!("(ArgBytes {})", gal::bytes(b)),
        ArgValue::Address(b) => format!("(ArgAddress {})", gal::bytes(b)),
        ArgValue::UtxoSet(s) => format!("(ArgUtxoSet {})", utxo_set_gal(s)),
        ArgValue::UtxoRef(r) => format!("(ArgUtxoRef {})", ref_gal(r)),
    }
}

pub fn args_gal(m: &BTreeMap<String, ArgValue>) -> String {
    gal::list(&m.iter().map(|(k, v)| format!("({}, {})", gal::s(k), arg_gal(v))).collect::<Vec<_>>())
}

pub fn inputs_gal(m: &BTreeMap<String, HashSet<Utxo>>) -> String {
    gal::list(&m.iter().map(|(k, v)| format!("({}, {})", gal::s(k), utxo_set_gal(v))).collect::<Vec<_>>())
}

// ---------------------------------------------------------------- generator

pub struct Gen<'a> {
    pub r: &'a mut Rng,
    /// parameters the generator has used so far: name -> type
    pub params: BTreeMap<String, Type>,
    /// input names usable in expressions
    pub inputs: Vec<String>,
    pub allow_params: bool,
    pub allow_compiler: bool,
    pub allow_inputs: bool,
    pub wild: bool,
    pub long_bytes: bool,
}

pub fn addr_bytes(tag: u8) -> Vec<u8> {
    let mut v = vec![0x60];
    v.extend(std::iter::repeat(tag).take(28));
    v
}
pub fn policy_bytes(tag: u8) -> Vec<u8> {
    vec![tag; 28]
}

fn bx<T: Into<E>>(x: T) -> E {
    x.into()
}

impl<'a> Gen<'a> {
    pub fn new(r: &'a mut Rng) -> Self {
        Gen { r, params: BTreeMap::new(), inputs: vec![], allow_params: true, allow_compiler: true, allow_inputs: true, wild: false, long_bytes: false }
    }

    fn param(&mut self, prefix: &str, ty: Type) -> E {
        // an IR from another producer need not spell its parameters in lower case
        let n = match self.r.below(6) {
            0 => format!("{}{}", prefix.to_uppercase(), self.r.below(3)),
            1 => { let mut cs: Vec<char> = prefix.chars().collect(); cs[0] = cs[0].to_ascii_uppercase(); format!("{}{}", cs.into_iter().collect::<String>(), self.r.below(3)) }
            _ => format!("{}{}", prefix, self.r.below(3)),
        };
        // one type per name
        let ty = self.params.entry(n.clone()).or_insert(ty).clone();
        bx(tir::Param::ExpectValue(n, ty))
    }

    pub fn small_int(&mut self) -> i128 {
        match self.r.below(10) {
            0 => 0,
            1 => 1,
            2 => -1,
            3 => self.r.range(2, 9) as i128,
            4 => 1_000_000 + self.r.below(5_000_000) as i128,
            5 => self.r.i128_bits(70),
            // the ends of the i128 range: sums and negations of these leave it
            6 if self.r.chance(1, 3) => *self.r.pick(&[i128::MAX, i128::MIN, i128::MAX - 1, i128::MIN + 1, 1i128 << 126, -(1i128 << 126)]),
            _ => self.r.range(0, 2000) as i128,
        }
    }

    pub fn int(&mut self, d: u32) -> E {
        let k = if d == 0 { self.r.below(3) } else { self.r.below(12) };
        match k {
            0 | 1 => E::Number(self.small_int()),
            // a parameter declared through a type alias keeps the alias as its type
            2 if self.allow_params && self.r.chance(1, 4) => self.param("amt", Type::Custom("Amount".into())),
            2 if self.allow_params => self.param("n", Type::Int),
            2 => E::Number(self.small_int()),
            3 | 4 => bx(tir::BuiltInOp::Add(self.int(d - 1), self.int(d - 1))),
            5 => bx(tir::BuiltInOp::Sub(self.int(d - 1), self.int(d - 1))),
            6 => bx(tir::BuiltInOp::Negate(self.int(d - 1))),
            7 => {
                // index into a list of ints
                let n = 1 + self.r.below(3) as usize;
                let xs = (0..n).map(|_| self.int(d - 1)).collect();
                let idx = if self.r.chance(1, 4) {
                    self.int(0)
                } else if self.r.chance(1, 10) {
                    E::Number(n as i128)
                } else {
                    E::Number(self.r.below(n as u64) as i128)
                };
                bx(tir::BuiltInOp::Property(E::List(xs), idx))
            }
            8 if self.allow_compiler => bx(tir::CompilerOp::ComputeTipSlot),
            9 | 10 if self.allow_compiler => {
                // operands mostly closed, so that the op can be evaluated at any stage
                let saved = (self.allow_params, self.allow_compiler);
                if self.r.chance(3, 4) {
                    self.allow_params = false;
                }
                self.allow_compiler = false;
                let operand = match self.r.below(4) {
                    0 => E::Number(1_757_611_408_000 + self.r.below(100_000_000) as i128),
                    // the inverse conversion inside (not the identity: time_to_slot truncates to whole slots)
                    1 if self.r.chance(1, 2) => {
                        if k == 9 {
                            bx(tir::CompilerOp::ComputeTimeToSlot(E::Number(1_757_611_408_000 + self.r.below(100_000_000) as i128)))
                        } else {
                            bx(tir::CompilerOp::ComputeSlotToTime(E::Number(101_674_141 + self.r.below(1000) as i128)))
                        }
                    }
                    1 => E::Number(101_674_141 + self.r.below(1000) as i128),
                    // a parameter, alone or under arithmetic: the operand is available as soon as
                    // the arguments are applied, and has to be reported by find_params
                    2 if saved.0 => {
                        self.allow_params = true;
                        let p = self.param("n", Type::Int);
                        if self.r.chance(1, 2) { p } else { bx(tir::BuiltInOp::Add(p, E::Number(60 + self.r.below(1000) as i128))) }
                    }
                    _ => self.int(d - 1),
                };
                self.allow_params = saved.0;
                self.allow_compiler = saved.1;
                if k == 9 {
                    bx(tir::CompilerOp::ComputeSlotToTime(operand))
                } else {
                    bx(tir::CompilerOp::ComputeTimeToSlot(operand))
                }
            }
            11 if self.wild => self.any(d - 1),
            _ => E::Number(self.small_int()),
        }
    }

    pub fn bytes_lit(&mut self) -> Vec<u8> {
        if self.long_bytes && self.r.chance(1, 40) {
            // an embedded script: longer than any fixed decoding buffer
            let n = *self.r.pick(&[4095usize, 4096, 4097, 5000, 12288]);
            return vec![self.r.below(256) as u8; n];
        }
        let n = *self.r.pick(&[0usize, 1, 4, 28, 32]);
        let t = self.r.below(4) as u8;
        vec![t; n]
    }

    pub fn bytes(&mut self, d: u32) -> E {
        let k = if d == 0 { self.r.below(3) } else { self.r.below(6) };
        match k {
            0 | 1 => E::Bytes(self.bytes_lit()),
            2 if self.allow_params => self.param("b", Type::Bytes),
            3 | 4 => bx(tir::BuiltInOp::Concat(self.bytes(d - 1), self.bytes(d - 1))),
            5 if self.wild => self.any(d - 1),
            _ => E::Bytes(self.bytes_lit()),
        }
    }

    pub fn string(&mut self, d: u32) -> E {
        let k = if d == 0 { 0 } else { self.r.below(4) };
        match k {
            0 => E::String((*self.r.pick(&["", "a", "hello", "tx3"])).to_string()),
            1 => bx(tir::BuiltInOp::Concat(self.string(d - 1), self.string(d - 1))),
            2 => bx(tir::BuiltInOp::Concat(self.string(d - 1), self.int(d - 1))),
            _ => E::String("s".into()),
        }
    }

    pub fn address(&mut self, d: u32) -> E {
        match self.r.below(6) {
            0 | 1 => E::Address(addr_bytes(*self.r.pick(&[0xA1u8, 0xB2]))),
            2 | 3 if self.allow_params => self.param("party", Type::Address),
            4 if self.allow_compiler && d > 0 => bx(tir::CompilerOp::BuildScriptAddress(E::Hash(policy_bytes(0x33)))),
            5 if self.allow_compiler && self.allow_params && d > 0 => {
                bx(tir::CompilerOp::BuildScriptAddress(self.param("policy", Type::Bytes)))
            }
            _ => E::Address(addr_bytes(0xA1)),
        }
    }

    pub fn asset_expr(&mut self, d: u32) -> tir::AssetExpr {
        let (policy, name) = match self.r.below(if self.allow_params { 6 } else { 4 }) {
            0 | 1 => (E::None, E::None),
            2 => (E::Bytes(policy_bytes(0x11)), E::Bytes(b"t1".to_vec())),
            3 => (E::Bytes(policy_bytes(0x22)), E::String("t2".into())),
            // the asset name (or the policy) is itself a parameter: an asset list that is not
            // yet constant although its amounts are
            4 => (E::Bytes(policy_bytes(0x11)), self.param("b", Type::Bytes)),
            _ => (self.param("b", Type::Bytes), E::Bytes(b"t1".to_vec())),
        };
        // untyped streams: now and then a constant amount that is no number (what a datum field of
        // untrusted UTxO content can put there), under every arithmetic operator alike
        let amount = if self.wild && self.r.chance(1, 5) {
            match self.r.below(4) {
                0 => E::String("1".into()),
                1 => E::Bytes(vec![0xde, 0xad]),
                2 => E::Bool(true),
                _ => E::None,
            }
        } else {
            self.int(d.saturating_sub(1))
        };
        tir::AssetExpr { policy, asset_name: name, amount }
    }

    pub fn assets(&mut self, d: u32) -> E {
        let k = if d == 0 { self.r.below(3) } else { self.r.below(12) };
        match k {
            0 | 1 | 2 => {
                let n = 1 + self.r.below(2) as usize;
                E::Assets((0..n).map(|_| self.asset_expr(d)).collect())
            }
            3 | 4 => bx(tir::BuiltInOp::Add(self.assets(d - 1), self.assets(d - 1))),
            5 | 6 => bx(tir::BuiltInOp::Sub(self.assets(d - 1), self.assets(d - 1))),
            7 => bx(tir::Param::ExpectFees),
            8 if self.allow_inputs && !self.inputs.is_empty() => {
                let n = self.r.pick(&self.inputs).clone();
                bx(tir::Coerce::IntoAssets(self.input_ref(&n)))
            }
            9 if self.allow_compiler => bx(tir::CompilerOp::ComputeMinUtxo(E::Number(self.r.below(3) as i128))),
            10 => bx(tir::BuiltInOp::Negate(self.assets(d - 1))),
            11 if self.wild => self.any(d - 1),
            _ => E::Assets(vec![self.asset_expr(d)]),
        }
    }

    /// a reference to a named input: the lowered form repeats the whole query
    pub fn input_ref(&mut self, name: &str) -> E {
        bx(tir::Param::ExpectInput(
            name.to_string(),
            tir::InputQuery {
                address: E::Address(addr_bytes(0xA1)),
                min_amount: E::Assets(vec![tir::AssetExpr { policy: E::None, asset_name: E::None, amount: E::Number(1) }]),
                r#ref: E::None,
                many: false,
                collateral: false,
            },
        ))
    }

    pub fn data(&mut self, d: u32) -> E {
        let k = if d == 0 { self.r.below(4) } else { self.r.below(12) };
        match k {
            0 => self.int(d),
            1 => self.bytes(d),
            2 => E::Bool(self.r.chance(1, 2)),
            3 => E::Struct(tir::StructExpr { constructor: 0, fields: vec![] }),
            4 | 5 => {
                let n = self.r.below(4) as usize;
                E::Struct(tir::StructExpr {
                    constructor: self.r.below(3) as usize,
                    fields: (0..n).map(|_| self.data(d - 1)).collect(),
                })
            }
            6 => {
                let n = self.r.below(3) as usize;
                E::List((0..n).map(|_| self.data(d - 1)).collect())
            }
            7 => {
                let n = self.r.below(3) as usize;
                E::Map((0..n).map(|_| (self.data(d - 1), self.data(d - 1))).collect())
            }
            8 => {
                // field access on a struct
                let n = 1 + self.r.below(3) as usize;
                let s = E::Struct(tir::StructExpr { constructor: 0, fields: (0..n).map(|_| self.data(d - 1)).collect() });
                let i = if self.r.chance(1, 10) { n as u64 } else { self.r.below(n as u64) };
                bx(tir::BuiltInOp::Property(s, E::Number(i as i128)))
            }
            9 if self.allow_inputs && !self.inputs.is_empty() => {
                let n = self.r.pick(&self.inputs).clone();
                let dat: E = bx(tir::Coerce::IntoDatum(self.input_ref(&n)));
                if self.r.chance(1, 2) {
                    bx(tir::BuiltInOp::Property(dat, E::Number(self.r.below(3) as i128)))
                } else {
                    dat
                }
            }
            10 => self.string(d),
            11 => E::Tuple(Box::new((self.data(d - 1), self.data(d - 1)))),
            _ => E::Number(1),
        }
    }

    /// any constructor with random children: the malformed stream
    pub fn any(&mut self, d: u32) -> E {
        if d == 0 {
            return match self.r.below(8) {
                0 => E::None,
                1 => E::Number(self.small_int()),
                2 => E::Bytes(self.bytes_lit()),
                3 => E::Bool(true),
                4 => E::String("x".into()),
                5 => E::Hash(self.bytes_lit()),
                6 => E::UtxoRefs(vec![UtxoRef { txid: vec![7; 32], index: 1 }]),
                _ => bx(tir::Param::ExpectFees),
            };
        }
        match self.r.below(22) {
            0 => E::List(vec![self.any(d - 1), self.any(d - 1)]),
            1 => E::Map(vec![(self.any(d - 1), self.any(d - 1))]),
            2 => E::Tuple(Box::new((self.any(d - 1), self.any(d - 1)))),
            3 => E::Struct(tir::StructExpr { constructor: self.r.below(200) as usize, fields: vec![self.any(d - 1)] }),
            4 => {
                // the amount of a decoded IR need not be a number
                let amount = if self.r.chance(1, 3) { self.any(d - 1) } else { self.int(d - 1) };
                E::Assets(vec![tir::AssetExpr { policy: self.any(d - 1), asset_name: self.any(d - 1), amount }])
            }
            5 => {
                // Param::Set holds what apply_args puts there: a constant argument value
                let v = match self.r.below(3) {
                    0 => E::Number(self.small_int()),
                    1 => E::Bytes(self.bytes_lit()),
                    _ => E::Bool(self.r.chance(1, 2)),
                };
                bx(tir::Param::Set(v))
            }
            6 => self.param("w", Type::Undefined),
            7 => bx(tir::BuiltInOp::NoOp(self.any(d - 1))),
            8 => bx(tir::BuiltInOp::Add(self.any(d - 1), self.any(d - 1))),
            9 => bx(tir::BuiltInOp::Sub(self.any(d - 1), self.any(d - 1))),
            10 => bx(tir::BuiltInOp::Concat(self.any(d - 1), self.any(d - 1))),
            11 => bx(tir::BuiltInOp::Negate(self.any(d - 1))),
            12 => bx(tir::BuiltInOp::Property(self.any(d - 1), self.any(d - 1))),
            13 => bx(tir::CompilerOp::BuildScriptAddress(self.any(d - 1))),
            14 => bx(tir::CompilerOp::ComputeSlotToTime(self.any(d - 1))),
            15 => bx(tir::Coerce::NoOp(self.any(d - 1))),
            16 => bx(tir::Coerce::IntoAssets(self.any(d - 1))),
            17 if self.r.chance(1, 4) => bx(tir::Coerce::IntoScript(self.any(d - 1))),
            17 => bx(tir::Coerce::IntoDatum(self.any(d - 1))),
            18 => E::AdHocDirective(Box::new(tir::AdHocDirective {
                name: "x".into(),
                data: HashMap::from([("a".to_string(), self.any(d - 1)), ("b".to_string(), self.any(d - 1))]),
            })),
            19 => self.assets(d - 1),
            20 => self.data(d - 1),
            _ => self.any(0),
        }
    }

    pub fn query(&mut self, d: u32) -> tir::InputQuery {
        tir::InputQuery {
            address: if self.r.chance(5, 6) { self.address(d) } else { E::None },
            min_amount: if self.r.chance(5, 6) { self.assets(d.min(2)) } else { E::None },
            r#ref: if self.r.chance(1, 5) { E::UtxoRefs(vec![UtxoRef { txid: vec![9; 32], index: 0 }]) } else { E::None },
            many: self.r.chance(1, 3),
            collateral: false,
        }
    }

    pub fn template(&mut self, depth: u32) -> tir::Tx {
        let n_in = 1 + self.r.below(2) as usize;
        let names = ["source", "gas", "extra"];
        let mut inputs = vec![];
        // queries may not mention inputs (would be a cycle in the language)
        let saved = self.allow_inputs;
        self.allow_inputs = false;
        for i in 0..n_in {
            let q = self.query(depth.min(3));
            inputs.push(tir::Input {
                name: names[i].to_string(),
                utxos: bx(tir::Param::ExpectInput(names[i].to_string(), q)),
                redeemer: if self.r.chance(1, 3) { self.data(depth.min(2)) } else { E::None },
            });
        }
        self.allow_inputs = saved;
        self.inputs = inputs.iter().map(|i| i.name.clone()).collect();
        let n_out = 1 + self.r.below(3) as usize;
        let outputs = (0..n_out)
            .map(|_| tir::Output {
                address: self.address(depth),
                datum: if self.r.chance(1, 2) { self.data(depth) } else { E::None },
                amount: self.assets(depth),
                optional: self.r.chance(1, 6),
            })
            .collect();
        let validity = if self.r.chance(1, 3) {
            Some(tir::Validity {
                since: if self.r.chance(1, 2) { self.int(depth.min(3)) } else { E::None },
                until: if self.r.chance(1, 2) { self.int(depth.min(3)) } else { E::None },
            })
        } else {
            None
        };
        let mk_mint = |g: &mut Gen| tir::Mint {
            amount: E::Assets(vec![tir::AssetExpr {
                policy: E::Bytes(policy_bytes(0x11)),
                asset_name: E::Bytes(b"t1".to_vec()),
                amount: g.int(1),
            }]),
            redeemer: if g.r.chance(1, 2) { g.data(2) } else { E::None },
        };
        let mints = if self.r.chance(1, 4) { vec![mk_mint(self)] } else { vec![] };
        let burns = if self.r.chance(1, 6) { vec![mk_mint(self)] } else { vec![] };
        let adhoc = if self.r.chance(1, 4) {
            vec![tir::AdHocDirective {
                name: "withdrawal".into(),
                data: HashMap::from([
                    ("credential".to_string(), self.address(1)),
                    ("amount".to_string(), self.int(depth.min(3))),
                    ("redeemer".to_string(), if self.r.chance(1, 2) { self.data(2) } else { E::None }),
                ]),
            }]
        } else if self.r.chance(1, 6) {
            vec![tir::AdHocDirective {
                name: "cardano_publish".into(),
                data: HashMap::from([("to".to_string(), self.address(1)), ("amount".to_string(), self.assets(depth.min(3)))]),
            }]
        } else {
            vec![]
        };
        let collateral = if self.r.chance(1, 5) {
            vec![tir::Collateral {
                utxos: bx(tir::Param::ExpectInput(
                    "collateral".into(),
                    tir::InputQuery {
                        address: self.address(0),
                        min_amount: E::Assets(vec![tir::AssetExpr { policy: E::None, asset_name: E::None, amount: E::Number(5_000_000) }]),
                        r#ref: E::None,
                        many: false,
                        collateral: true,
                    },
                )),
            }]
        } else {
            vec![]
        };
        let signers = if self.r.chance(1, 5) { Some(tir::Signers { signers: vec![self.address(0), self.bytes(1)] }) } else { None };
        let metadata = if self.r.chance(1, 4) {
            vec![tir::Metadata { key: self.int(1), value: if self.r.chance(1, 2) { self.string(2) } else { self.int(2) } }]
        } else {
            vec![]
        };
        let references = if self.r.chance(1, 5) {
            vec![if self.allow_params && self.r.chance(1, 2) {
                self.param("r", Type::UtxoRef)
            } else {
                E::UtxoRefs(vec![UtxoRef { txid: vec![8; 32], index: 2 }])
            }]
        } else {
            vec![]
        };
        tir::Tx {
            fees: bx(tir::Param::ExpectFees),
            references,
            inputs,
            outputs,
            validity,
            mints,
            burns,
            adhoc,
            collateral,
            signers,
            metadata,
        }
    }
}

pub fn arg_for(r: &mut Rng, ty: &Type) -> ArgValue {
    match ty {
        Type::Int => ArgValue::Int(match r.below(6) {
            0 => 0,
            1 => r.range(1, 5) as i128,
            2 => -(r.range(1, 1000) as i128),
            3 => r.i128_bits(66),
            4 if r.chance(1, 3) => *r.pick(&[i128::MAX, i128::MIN, 1i128 << 126, -(1i128 << 126), (1i128 << 64), i128::MAX / 1000]),
            _ => 1_000_000 + r.below(10_000_000) as i128,
        }),
        Type::Bool => ArgValue::Bool(r.chance(1, 2)),
        Type::Bytes => ArgValue::Bytes(vec![r.below(4) as u8; *r.pick(&[0usize, 4, 28, 28, 28, 28, 32])]),
        Type::Address => ArgValue::Address(addr_bytes(*r.pick(&[0xA1u8, 0xB2, 0xC3]))),
        Type::UtxoRef => ArgValue::UtxoRef(UtxoRef { txid: vec![5; 32], index: r.below(3) as u32 }),
        Type::Custom(n) if n == "Amount" => ArgValue::Int(1 + r.below(5_000_000) as i128),
        _ => match r.below(3) {
            0 => ArgValue::Int(r.range(0, 9) as i128),
            1 => ArgValue::String("u".into()),
            _ => ArgValue::Bool(true),
        },
    }
}

pub fn utxo_for(r: &mut Rng, i: u64, datum: bool) -> Utxo {
    let mut assets = CanonicalAssets::from_naked_amount(2_000_000 + r.below(50_000_000) as i128);
    if r.chance(1, 3) {
        assets = assets + CanonicalAssets::from_defined_asset(&policy_bytes(0x11), b"t1", 1 + r.below(1000) as i128);
    }
    // consecutive UTxOs are two outputs of one transaction: same txid, different index
    let mut t = vec![0u8; 24];
    t.extend((i / 2).to_be_bytes());
    Utxo {
        r#ref: UtxoRef { txid: t, index: (i % 2) as u32 + 2 * r.below(2) as u32 },
        address: addr_bytes(0xA1),
        assets,
        datum: if datum {
            Some(E::Struct(tir::StructExpr {
                constructor: r.below(2) as usize,
                fields: vec![E::Number(r.range(0, 100) as i128), E::Bytes(vec![1, 2, 3]), E::Number(7)],
            }))
        } else {
            None
        },
        script: None,
    }
}

// ---------------------------------------------------------------- canonical form for comparisons

fn const_key(e: &E) -> Option<Vec<u8>> {
    match e {
        E::None => Some(vec![0]),
        E::Bytes(b) => Some([vec![1], b.clone()].concat()),
        E::String(s) => Some([vec![2], s.as_bytes().to_vec()].concat()),
        E::Number(n) => Some([vec![3], n.to_be_bytes().to_vec()].concat()),
        _ => None,
    }
}

/// sort every all-constant asset list (its order is hash-map iteration order whenever it is the
/// result of arithmetic)
pub fn canon_expr(e: &mut E) {
    match e {
        E::List(xs) => xs.iter_mut().for_each(canon_expr),
        E::Map(kvs) => kvs.iter_mut().for_each(|(k, v)| {
            canon_expr(k);
            canon_expr(v)
        }),
        E::Tuple(t) => {
            canon_expr(&mut t.0);
            canon_expr(&mut t.1)
        }
        E::Struct(s) => s.fields.iter_mut().for_each(canon_expr),
        E::Assets(xs) => {
            for a in xs.iter_mut() {
                canon_expr(&mut a.policy);
                canon_expr(&mut a.asset_name);
                canon_expr(&mut a.amount);
            }
            let keys: Option<Vec<_>> = xs.iter().map(|a| Some((const_key(&a.policy)?, const_key(&a.asset_name)?, const_key(&a.amount)?))).collect();
            if let Some(keys) = keys {
                let mut idx: Vec<usize> = (0..xs.len()).collect();
                idx.sort_by(|i, j| keys[*i].cmp(&keys[*j]));
                let sorted: Vec<_> = idx.into_iter().map(|i| xs[i].clone()).collect();
                *xs = sorted;
            }
        }
        E::EvalParam(p) => match p.as_mut() {
            tir::Param::Set(x) => canon_expr(x),
            tir::Param::ExpectInput(_, q) => {
                canon_expr(&mut q.address);
                canon_expr(&mut q.min_amount);
                canon_expr(&mut q.r#ref)
            }
            _ => {}
        },
        E::EvalBuiltIn(op) => match op.as_mut() {
            tir::BuiltInOp::NoOp(a) | tir::BuiltInOp::Negate(a) => canon_expr(a),
            tir::BuiltInOp::Add(a, b) | tir::BuiltInOp::Sub(a, b) | tir::BuiltInOp::Concat(a, b) | tir::BuiltInOp::Property(a, b) => {
                canon_expr(a);
                canon_expr(b)
            }
        },
        E::EvalCompiler(op) => match op.as_mut() {
            tir::CompilerOp::BuildScriptAddress(a) | tir::CompilerOp::ComputeMinUtxo(a) | tir::CompilerOp::ComputeSlotToTime(a) | tir::CompilerOp::ComputeTimeToSlot(a) => canon_expr(a),
            _ => {}
        },
        E::EvalCoerce(c) => match c.as_mut() {
            tir::Coerce::NoOp(a) | tir::Coerce::IntoAssets(a) | tir::Coerce::IntoDatum(a) | tir::Coerce::IntoScript(a) => canon_expr(a),
        },
        E::AdHocDirective(d) => d.data.values_mut().for_each(canon_expr),
        _ => {}
    }
}

pub fn canon_tx_gal(tx: &tir::Tx) -> String {
    let mut t = tx.clone();
    canon_expr(&mut t.fees);
    t.references.iter_mut().for_each(canon_expr);
    for i in t.inputs.iter_mut() {
        canon_expr(&mut i.utxos);
        canon_expr(&mut i.redeemer);
    }
    for o in t.outputs.iter_mut() {
        canon_expr(&mut o.address);
        canon_expr(&mut o.datum);
        canon_expr(&mut o.amount);
    }
    if let Some(v) = t.validity.as_mut() {
        canon_expr(&mut v.since);
        canon_expr(&mut v.until);
    }
    for m in t.mints.iter_mut().chain(t.burns.iter_mut()) {
        canon_expr(&mut m.amount);
        canon_expr(&mut m.redeemer);
    }
    for a in t.adhoc.iter_mut() {
        a.data.values_mut().for_each(canon_expr);
    }
    for c in t.collateral.iter_mut() {
        canon_expr(&mut c.utxos);
    }
    if let Some(s) = t.signers.as_mut() {
        s.signers.iter_mut().for_each(canon_expr);
    }
    for m in t.metadata.iter_mut() {
        canon_expr(&mut m.key);
        canon_expr(&mut m.value);
    }
    tx_gal(&t)
}
