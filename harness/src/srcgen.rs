//! Generator of tx3 programs in the core of the language: the generator's own syntax tree, a
//! printer to source text (with layout variation: whitespace, comments, trailing commas) and a
//! printer to the Gallina `sprogram` of coq/Surface.v.
use crate::gal;
use crate::rng::Rng;

#[derive(Clone, Debug, PartialEq)]
pub enum Ty {
    Int,
    Bool,
    Bytes,
    Address,
    UtxoRef,
    AnyAsset,
    List(Box<Ty>),
    Map(Box<Ty>, Box<Ty>),
    Custom(String),
}

#[derive(Clone, Debug)]
pub enum X {
    Num(i64),
    Bool(bool),
    Str(String),
    Hex(Vec<u8>),
    /// a hex literal with an odd number of digits (accepted by the grammar)
    HexOdd(String),
    Unit,
    RefLit(Vec<u8>, u64),
    Id(String),
    Add(Box<X>, Box<X>),
    Sub(Box<X>, Box<X>),
    Neg(Box<X>),
    Prop(Box<X>, String),
    Index(Box<X>, Box<X>),
    Struct { ty: String, case: Option<String>, fields: Vec<(String, X)>, spread: Option<Box<X>> },
    List(Vec<X>),
    Map(Vec<(X, X)>),
    Concat(Box<X>, Box<X>),
    AnyAsset(Box<X>, Box<X>, Box<X>),
    Call(String, Vec<X>),
}

#[derive(Clone, Debug)]
pub struct TypeDef {
    pub name: String,
    /// a record is printed as `type N { f: T, }`; its single case is named "Default"
    pub record: bool,
    pub cases: Vec<(String, Vec<(String, Ty)>)>,
}

#[derive(Clone, Debug, Default)]
pub struct Input {
    pub name: String,
    pub many: bool,
    pub from: Option<X>,
    pub min: Option<X>,
    pub r#ref: Option<X>,
    pub redeemer: Option<X>,
    pub datum_is: Option<Ty>,
}

#[derive(Clone, Debug, Default)]
pub struct Output {
    pub name: Option<String>,
    pub optional: bool,
    pub to: Option<X>,
    pub amount: Option<X>,
    pub datum: Option<X>,
}

#[derive(Clone, Debug, Default)]
pub struct Mint {
    pub amount: Option<X>,
    pub redeemer: Option<X>,
}

#[derive(Clone, Debug)]
pub enum Dir {
    Withdrawal { from: Option<X>, amount: Option<X>, redeemer: Option<X> },
    PlutusWitness { version: Option<X>, script: Option<X> },
    NativeWitness { script: Option<X> },
    Donation(X),
    Publish { to: Option<X>, amount: Option<X>, datum: Option<X>, version: Option<X>, script: Option<X> },
    VoteDelegation(X, X),
}

#[derive(Clone, Debug, Default)]
pub struct Tx {
    pub name: String,
    pub params: Vec<(String, Ty)>,
    pub locals: Vec<(String, X)>,
    pub refs: Vec<(String, X)>,
    pub inputs: Vec<Input>,
    pub collateral: Vec<(Option<X>, Option<X>, Option<X>)>,
    pub outputs: Vec<Output>,
    pub mints: Vec<Mint>,
    pub burns: Vec<Mint>,
    pub validity: Option<(Option<X>, Option<X>)>,
    pub signers: Option<Vec<X>>,
    pub metadata: Option<Vec<(X, X)>>,
    pub dirs: Vec<Dir>,
}

#[derive(Clone, Debug, Default)]
pub struct Prog {
    pub env: Vec<(String, Ty)>,
    pub parties: Vec<String>,
    pub policies: Vec<(String, Vec<u8>)>,
    pub assets: Vec<(String, X, X)>,
    pub types: Vec<TypeDef>,
    pub txs: Vec<Tx>,
}

// ---------------------------------------------------------------------------------------------
// source text

fn ty_text(t: &Ty) -> String {
    match t {
        Ty::Int => "Int".into(),
        Ty::Bool => "Bool".into(),
        Ty::Bytes => "Bytes".into(),
        Ty::Address => "Address".into(),
        Ty::UtxoRef => "UtxoRef".into(),
        Ty::AnyAsset => "AnyAsset".into(),
        Ty::List(x) => format!("List<{}>", ty_text(x)),
        Ty::Map(k, v) => format!("Map<{},{}>", ty_text(k), ty_text(v)),
        Ty::Custom(n) => n.clone(),
    }
}

/// precedence levels: 1 infix, 2 prefix, 3 postfix, 4 primary
fn prec(x: &X) -> u8 {
    match x {
        X::Add(..) | X::Sub(..) => 1,
        X::Neg(..) => 2,
        X::Prop(..) | X::Index(..) => 3,
        _ => 4,
    }
}

pub struct Toks(pub Vec<String>);

impl Toks {
    fn t(&mut self, s: &str) {
        self.0.push(s.to_string());
    }
    fn expr_at(&mut self, x: &X, min: u8) {
        if prec(x) < min {
            self.t("(");
            self.expr(x);
            self.t(")");
        } else {
            self.expr(x);
        }
    }
    pub fn expr(&mut self, x: &X) {
        match x {
            X::Num(n) => self.t(&n.to_string()),
            X::Bool(b) => self.t(if *b { "true" } else { "false" }),
            X::Str(s) => self.t(&format!("\"{}\"", s)),
            X::Hex(b) => self.t(&format!("0x{}", hex::encode(b))),
            X::HexOdd(s) => self.t(&format!("0x{}", s)),
            X::Unit => self.t("()"),
            X::RefLit(txid, i) => self.t(&format!("0x{}#{}", hex::encode(txid), i)),
            X::Id(n) => self.t(n),
            X::Add(a, b) => {
                self.expr_at(a, 1);
                self.t("+");
                self.expr_at(b, 2);
            }
            X::Sub(a, b) => {
                self.expr_at(a, 1);
                self.t("-");
                self.expr_at(b, 2);
            }
            X::Neg(a) => {
                self.t("!");
                self.expr_at(a, 2);
            }
            X::Prop(o, f) => {
                self.expr_at(o, 3);
                self.t(".");
                self.t(f);
            }
            X::Index(o, i) => {
                self.expr_at(o, 3);
                self.t("[");
                self.expr(i);
                self.t("]");
            }
            X::Struct { ty, case, fields, spread } => {
                self.t(ty);
                if let Some(c) = case {
                    self.t("::");
                    self.t(c);
                }
                self.t("{");
                for (f, v) in fields {
                    self.t(f);
                    self.t(":");
                    self.expr(v);
                    self.t(",");
                }
                if let Some(s) = spread {
                    self.t("...");
                    self.expr(s);
                }
                self.t("}");
            }
            X::List(xs) => {
                self.t("[");
                for (i, x) in xs.iter().enumerate() {
                    self.expr(x);
                    if i + 1 < xs.len() {
                        self.t(",");
                    } else {
                        self.t("?,");
                    }
                }
                self.t("]");
            }
            X::Map(kvs) => {
                self.t("{");
                for (k, v) in kvs {
                    self.expr(k);
                    self.t(":");
                    self.expr(v);
                    self.t(",");
                }
                self.t("}");
            }
            X::Concat(a, b) => {
                self.t("concat");
                self.t("(");
                self.expr(a);
                self.t(",");
                self.expr(b);
                self.t(")");
            }
            X::AnyAsset(p, n, a) => {
                self.t("AnyAsset");
                self.t("(");
                self.expr(p);
                self.t(",");
                self.expr(n);
                self.t(",");
                self.expr(a);
                self.t(")");
            }
            X::Call(f, args) => {
                self.t(f);
                self.t("(");
                for (i, x) in args.iter().enumerate() {
                    self.expr(x);
                    if i + 1 < args.len() {
                        self.t(",");
                    } else {
                        self.t("?,");
                    }
                }
                self.t(")");
            }
        }
    }
    fn field(&mut self, name: &str, x: &Option<X>) {
        if let Some(x) = x {
            self.t(name);
            self.t(":");
            self.expr(x);
            self.t(",");
        }
    }
    fn mint(&mut self, kw: &str, m: &Mint) {
        self.t(kw);
        self.t("{");
        self.field("amount", &m.amount);
        self.field("redeemer", &m.redeemer);
        self.t("}");
    }
    fn tx(&mut self, t: &Tx) {
        self.t("tx");
        self.t(&t.name);
        self.t("(");
        for (i, (n, ty)) in t.params.iter().enumerate() {
            self.t(n);
            self.t(":");
            self.t(&ty_text(ty));
            if i + 1 < t.params.len() {
                self.t(",");
            } else {
                self.t("?,");
            }
        }
        self.t(")");
        self.t("{");
        if !t.locals.is_empty() {
            self.t("locals");
            self.t("{");
            for (n, x) in &t.locals {
                self.t(n);
                self.t(":");
                self.expr(x);
                self.t(",");
            }
            self.t("}");
        }
        for (n, x) in &t.refs {
            self.t("reference");
            self.t(n);
            // the grammar allows a `*` marker after the name of a reference block
            if n.ends_with('s') {
                self.t("*");
            }
            self.t("{");
            self.t("ref");
            self.t(":");
            self.expr(x);
            self.t(",");
            self.t("}");
        }
        for i in &t.inputs {
            self.t("input");
            if i.many {
                self.t("*");
            }
            self.t(&i.name);
            self.t("{");
            self.field("from", &i.from);
            if let Some(ty) = &i.datum_is {
                self.t("datum_is");
                self.t(":");
                self.t(&ty_text(ty));
                self.t(",");
            }
            self.field("min_amount", &i.min);
            self.field("ref", &i.r#ref);
            self.field("redeemer", &i.redeemer);
            self.t("}");
        }
        for (f, m, r) in &t.collateral {
            self.t("collateral");
            self.t("{");
            self.field("from", f);
            self.field("min_amount", m);
            self.field("ref", r);
            self.t("}");
        }
        for m in &t.burns {
            self.mint("burn", m);
        }
        for m in &t.mints {
            self.mint("mint", m);
        }
        for o in &t.outputs {
            self.t("output");
            if o.optional {
                self.t("?");
            }
            if let Some(n) = &o.name {
                self.t(n);
            }
            self.t("{");
            self.field("to", &o.to);
            self.field("amount", &o.amount);
            self.field("datum", &o.datum);
            self.t("}");
        }
        for d in &t.dirs {
            self.t("cardano");
            self.t("::");
            match d {
                Dir::Withdrawal { from, amount, redeemer } => {
                    self.t("withdrawal");
                    self.t("{");
                    self.field("from", from);
                    self.field("amount", amount);
                    self.field("redeemer", redeemer);
                    self.t("}");
                }
                Dir::PlutusWitness { version, script } => {
                    self.t("plutus_witness");
                    self.t("{");
                    self.field("version", version);
                    self.field("script", script);
                    self.t("}");
                }
                Dir::NativeWitness { script } => {
                    self.t("native_witness");
                    self.t("{");
                    self.field("script", script);
                    self.t("}");
                }
                Dir::Donation(c) => {
                    self.t("treasury_donation");
                    self.t("{");
                    self.field("coin", &Some(c.clone()));
                    self.t("}");
                }
                Dir::Publish { to, amount, datum, version, script } => {
                    self.t("publish");
                    self.t("{");
                    self.field("to", to);
                    self.field("amount", amount);
                    self.field("datum", datum);
                    self.field("version", version);
                    self.field("script", script);
                    self.t("}");
                }
                Dir::VoteDelegation(d, s) => {
                    self.t("vote_delegation_certificate");
                    self.t("{");
                    self.field("drep", &Some(d.clone()));
                    self.field("stake", &Some(s.clone()));
                    self.t("}");
                }
            }
        }
        if let Some(ss) = &t.signers {
            self.t("signers");
            self.t("{");
            for s in ss {
                self.expr(s);
                self.t(",");
            }
            self.t("}");
        }
        if let Some(md) = &t.metadata {
            self.t("metadata");
            self.t("{");
            for (k, v) in md {
                self.expr(k);
                self.t(":");
                self.expr(v);
                self.t(",");
            }
            self.t("}");
        }
        if let Some((s, u)) = &t.validity {
            self.t("validity");
            self.t("{");
            self.field("since_slot", s);
            self.field("until_slot", u);
            self.t("}");
        }
        self.t("}");
    }
    pub fn prog(&mut self, p: &Prog) {
        if !p.env.is_empty() {
            self.t("env");
            self.t("{");
            for (n, ty) in &p.env {
                self.t(n);
                self.t(":");
                self.t(&ty_text(ty));
                self.t(",");
            }
            self.t("}");
        }
        for n in &p.parties {
            self.t("party");
            self.t(n);
            self.t(";");
        }
        for (n, h) in &p.policies {
            self.t("policy");
            self.t(n);
            self.t("=");
            self.t(&format!("0x{}", hex::encode(h)));
            self.t(";");
        }
        for (n, pol, name) in &p.assets {
            self.t("asset");
            self.t(n);
            self.t("=");
            self.expr(pol);
            self.t(".");
            self.expr(name);
            self.t(";");
        }
        for td in &p.types {
            self.t("type");
            self.t(&td.name);
            self.t("{");
            if td.record {
                for (f, ty) in &td.cases[0].1 {
                    self.t(f);
                    self.t(":");
                    self.t(&ty_text(ty));
                    self.t(",");
                }
            } else {
                for (c, fs) in &td.cases {
                    self.t(c);
                    if !fs.is_empty() {
                        self.t("{");
                        for (f, ty) in fs {
                            self.t(f);
                            self.t(":");
                            self.t(&ty_text(ty));
                            self.t(",");
                        }
                        self.t("}");
                    }
                    self.t(",");
                }
            }
            self.t("}");
        }
        for t in &p.txs {
            self.tx(t);
        }
    }
}

/// `layout = None`: one space between tokens, a newline after `{`, `,`, `;` and `}`.
/// `layout = Some(rng)`: random whitespace and comments between tokens, optional trailing
/// commas where the grammar allows them to be dropped.
pub fn render(toks: &[String], mut layout: Option<&mut Rng>) -> String {
    let mut out = String::new();
    for (i, t) in toks.iter().enumerate() {
        // "?," marks a trailing comma the grammar makes optional
        let tok: &str = if t == "?," {
            match layout.as_mut() {
                Some(r) => {
                    if r.chance(1, 2) {
                        ","
                    } else {
                        ""
                    }
                }
                None => "",
            }
        } else {
            t
        };
        if tok.is_empty() {
            continue;
        }
        out.push_str(tok);
        if i + 1 == toks.len() {
            break;
        }
        match layout.as_mut() {
            None => {
                if matches!(tok, "{" | "," | ";" | "}") {
                    out.push('\n');
                } else {
                    out.push(' ');
                }
            }
            Some(r) => match r.below(12) {
                0 => out.push('\n'),
                1 => out.push_str("  "),
                2 => out.push('\t'),
                3 => out.push_str(" /* c */ "),
                4 => out.push_str(" // note: x + 1 }\n"),
                5 => out.push_str("\r\n"),
                6 => out.push_str(" /* multi\n line */\n"),
                _ => out.push(' '),
            },
        }
    }
    out.push('\n');
    out
}

pub fn prog_text(p: &Prog, layout: Option<&mut Rng>) -> String {
    let mut t = Toks(vec![]);
    t.prog(p);
    render(&t.0, layout)
}

// ---------------------------------------------------------------------------------------------
// Gallina

pub fn ty_gal(t: &Ty) -> String {
    match t {
        Ty::Int => "SInt".into(),
        Ty::Bool => "SBool".into(),
        Ty::Bytes => "SBytes".into(),
        Ty::Address => "SAddress".into(),
        Ty::UtxoRef => "SUtxoRef".into(),
        Ty::AnyAsset => "SAnyAsset".into(),
        Ty::List(x) => format!("(SList {})", ty_gal(x)),
        Ty::Map(k, v) => format!("(SMap {} {})", ty_gal(k), ty_gal(v)),
        Ty::Custom(n) => format!("(SCustom {})", gal::s(n)),
    }
}

pub fn x_gal(x: &X) -> String {
    match x {
        X::Num(n) => format!("(SNum {})", gal::z(*n as i128)),
        X::Bool(b) => format!("(SBoolLit {})", gal::b(*b)),
        X::Str(s) => format!("(SStr {})", gal::bytes(s.as_bytes())),
        X::Hex(b) => format!("(SHex {})", gal::bytes(b)),
        X::HexOdd(_) => "SHexOdd".into(),
        X::Unit => "SUnit".into(),
        X::RefLit(t, i) => format!("(SRefLit {} {})", gal::bytes(t), gal::n(*i)),
        X::Id(n) => format!("(SId {})", gal::s(n)),
        X::Add(a, b) => format!("(SAddE {} {})", x_gal(a), x_gal(b)),
        X::Sub(a, b) => format!("(SSubE {} {})", x_gal(a), x_gal(b)),
        X::Neg(a) => format!("(SNegE {})", x_gal(a)),
        X::Prop(o, f) => format!("(SPropE {} {})", x_gal(o), gal::s(f)),
        X::Index(o, i) => format!("(SIndex {} {})", x_gal(o), x_gal(i)),
        X::Struct { ty, case, fields, spread } => format!(
            "(SStruct {} {} {} {})",
            gal::s(ty),
            gal::opt(case.as_ref().map(|c| gal::s(c))),
            gal::list(&fields.iter().map(|(f, v)| format!("({}, {})", gal::s(f), x_gal(v))).collect::<Vec<_>>()),
            gal::opt(spread.as_ref().map(|s| x_gal(s)))
        ),
        X::List(xs) => format!("(SListE {})", gal::list(&xs.iter().map(x_gal).collect::<Vec<_>>())),
        X::Map(kvs) => format!("(SMapE {})", gal::list(&kvs.iter().map(|(k, v)| format!("({}, {})", x_gal(k), x_gal(v))).collect::<Vec<_>>())),
        X::Concat(a, b) => format!("(SConcat {} {})", x_gal(a), x_gal(b)),
        X::AnyAsset(p, n, a) => format!("(SAnyAssetE {} {} {})", x_gal(p), x_gal(n), x_gal(a)),
        X::Call(f, args) => format!("(SCall {} {})", gal::s(f), gal::list(&args.iter().map(x_gal).collect::<Vec<_>>())),
    }
}

fn ox_gal(x: &Option<X>) -> String {
    gal::opt(x.as_ref().map(x_gal))
}

pub fn tx_gal(t: &Tx) -> String {
    let dirs: Vec<String> = t
        .dirs
        .iter()
        .map(|d| match d {
            Dir::Withdrawal { from, amount, redeemer } => format!("(DWithdrawal {} {} {})", ox_gal(from), ox_gal(amount), ox_gal(redeemer)),
            Dir::PlutusWitness { version, script } => format!("(DPlutusWitness {} {})", ox_gal(version), ox_gal(script)),
            Dir::NativeWitness { script } => format!("(DNativeWitness {})", ox_gal(script)),
            Dir::Donation(c) => format!("(DDonation {})", x_gal(c)),
            Dir::Publish { to, amount, datum, version, script } => {
                format!("(DPublish {} {} {} {} {})", ox_gal(to), ox_gal(amount), ox_gal(datum), ox_gal(version), ox_gal(script))
            }
            Dir::VoteDelegation(d, s) => format!("(DVoteDelegation {} {})", x_gal(d), x_gal(s)),
        })
        .collect();
    let mint_gal = |m: &Mint| format!("(mk_smint {} {})", ox_gal(&m.amount), ox_gal(&m.redeemer));
    format!(
        "(mk_stx {} {} {} {} {} {} {} {} {} {} {} {} {})",
        gal::s(&t.name),
        gal::list(&t.params.iter().map(|(n, ty)| format!("({}, {})", gal::s(n), ty_gal(ty))).collect::<Vec<_>>()),
        gal::list(&t.locals.iter().map(|(n, x)| format!("({}, {})", gal::s(n), x_gal(x))).collect::<Vec<_>>()),
        gal::list(&t.refs.iter().map(|(n, x)| format!("({}, {})", gal::s(n), x_gal(x))).collect::<Vec<_>>()),
        gal::list(
            &t.inputs
                .iter()
                .map(|i| {
                    format!(
                        "(mk_sinput {} {} {} {} {} {} {})",
                        gal::s(&i.name),
                        gal::b(i.many),
                        ox_gal(&i.from),
                        ox_gal(&i.min),
                        ox_gal(&i.r#ref),
                        ox_gal(&i.redeemer),
                        gal::opt(i.datum_is.as_ref().map(ty_gal))
                    )
                })
                .collect::<Vec<_>>()
        ),
        gal::list(&t.collateral.iter().map(|(f, m, r)| format!("({}, {}, {})", ox_gal(f), ox_gal(m), ox_gal(r))).collect::<Vec<_>>()),
        gal::list(
            &t.outputs
                .iter()
                .map(|o| {
                    format!(
                        "(mk_soutput {} {} {} {} {})",
                        gal::opt(o.name.as_ref().map(|n| gal::s(n))),
                        gal::b(o.optional),
                        ox_gal(&o.to),
                        ox_gal(&o.amount),
                        ox_gal(&o.datum)
                    )
                })
                .collect::<Vec<_>>()
        ),
        gal::list(&t.mints.iter().map(mint_gal).collect::<Vec<_>>()),
        gal::list(&t.burns.iter().map(mint_gal).collect::<Vec<_>>()),
        gal::opt(t.validity.as_ref().map(|(s, u)| format!("({}, {})", ox_gal(s), ox_gal(u)))),
        gal::opt(t.signers.as_ref().map(|ss| gal::list(&ss.iter().map(x_gal).collect::<Vec<_>>()))),
        gal::opt(t.metadata.as_ref().map(|md| gal::list(&md.iter().map(|(k, v)| format!("({}, {})", x_gal(k), x_gal(v))).collect::<Vec<_>>()))),
        gal::list(&dirs)
    )
}

pub fn prog_gal(p: &Prog) -> String {
    format!(
        "(mk_sprogram {} {} {} {} {} {})",
        gal::list(&p.env.iter().map(|(n, ty)| format!("({}, {})", gal::s(n), ty_gal(ty))).collect::<Vec<_>>()),
        gal::list(&p.parties.iter().map(|n| gal::s(n)).collect::<Vec<_>>()),
        gal::list(&p.policies.iter().map(|(n, h)| format!("({}, {})", gal::s(n), gal::bytes(h))).collect::<Vec<_>>()),
        gal::list(&p.assets.iter().map(|(n, pol, name)| format!("({}, {}, {})", gal::s(n), x_gal(pol), x_gal(name))).collect::<Vec<_>>()),
        gal::list(
            &p.types
                .iter()
                .map(|td| {
                    format!(
                        "(mk_stypedef {} {})",
                        gal::s(&td.name),
                        gal::list(
                            &td.cases
                                .iter()
                                .map(|(c, fs)| {
                                    format!(
                                        "({}, {})",
                                        gal::s(c),
                                        gal::list(&fs.iter().map(|(f, ty)| format!("({}, {})", gal::s(f), ty_gal(ty))).collect::<Vec<_>>())
                                    )
                                })
                                .collect::<Vec<_>>()
                        )
                    )
                })
                .collect::<Vec<_>>()
        ),
        gal::list(&p.txs.iter().map(tx_gal).collect::<Vec<_>>())
    )
}

// ---------------------------------------------------------------------------------------------
// generation

/// what an expression is generated for
#[derive(Clone, Debug, PartialEq)]
pub enum Want {
    Int,
    Bytes,
    Address,
    Assets,
    Ref,
    Data(Ty),
}

#[derive(Clone, Copy, PartialEq)]
pub enum Mode {
    /// programs that can be carried through apply / reduce / compile with ArgValue arguments
    Full,
    /// anything the lowering handles
    Broad,
}

pub struct Gen<'a> {
    pub r: &'a mut Rng,
    pub mode: Mode,
    pub prog: Prog,
    // per transaction
    params: Vec<(String, Ty)>,
    locals: Vec<(String, Want)>,
    inputs: Vec<(String, Option<Ty>)>,
    outputs: Vec<String>,
    in_locals: bool,
    pub collide: bool,
}

const PARTY_NAMES: &[&str] = &["Sender", "receiver", "MiddleMan", "Dex"];
const POLICY_NAMES: &[&str] = &["MyPolicy", "other_policy"];
const ASSET_NAMES: &[&str] = &["Tok", "myCoin"];
const ENV_NAMES: &[&str] = &["Fee_Limit", "network_tag", "Tip"];
const PARAM_NAMES: &[&str] = &["quantity", "Amount2", "pKey", "Dest", "deadline", "X1", "theRef", "note"];
const LOCAL_NAMES: &[&str] = &["total", "Half", "tagBytes", "change_v", "L5"];
const INPUT_NAMES: &[&str] = &["source", "Gas", "locked"];
const OUTPUT_NAMES: &[&str] = &["target", "Change", "out3"];

pub fn policy_hash(tag: u8) -> Vec<u8> {
    (0..28).map(|i| tag.wrapping_mul(17).wrapping_add(i)).collect()
}

impl<'a> Gen<'a> {
    pub fn new(r: &'a mut Rng, mode: Mode) -> Self {
        Gen { r, mode, prog: Prog::default(), params: vec![], locals: vec![], inputs: vec![], outputs: vec![], in_locals: false, collide: false }
    }

    fn subset<'b>(&mut self, names: &[&'b str], lo: usize, hi: usize) -> Vec<&'b str> {
        let k = lo + self.r.below((hi - lo + 1) as u64) as usize;
        let mut v: Vec<&str> = names.to_vec();
        // partial shuffle
        for i in 0..v.len() {
            let j = i + self.r.below((v.len() - i) as u64) as usize;
            v.swap(i, j);
        }
        v.truncate(k.min(v.len()));
        v
    }

    pub fn gen_program_header(&mut self) {
        let n_env = if self.r.chance(1, 2) { 0 } else { 1 + self.r.below(2) as usize };
        for n in self.subset(ENV_NAMES, n_env, n_env) {
            let ty = if self.r.chance(2, 3) { Ty::Int } else { Ty::Bytes };
            self.prog.env.push((n.to_string(), ty));
        }
        for n in self.subset(PARTY_NAMES, 1, 3) {
            self.prog.parties.push(n.to_string());
        }
        for (i, n) in self.subset(POLICY_NAMES, 0, 2).into_iter().enumerate() {
            self.prog.policies.push((n.to_string(), policy_hash(i as u8 + 1)));
        }
        for (i, n) in self.subset(ASSET_NAMES, 0, 2).into_iter().enumerate() {
            let pol = X::Hex(policy_hash(i as u8 + 7));
            let name = if self.r.chance(1, 2) { X::Str(format!("TK{}", i)) } else { X::Hex(vec![0xab, i as u8]) };
            self.prog.assets.push((n.to_string(), pol, name));
        }
        // a record, a second record nesting the first, and a variant
        if self.r.chance(4, 5) {
            self.prog.types.push(TypeDef {
                name: "State".into(),
                record: true,
                cases: vec![("Default".into(), vec![("count".into(), Ty::Int), ("owner".into(), Ty::Bytes), ("Flag".into(), Ty::Bool)])],
            });
            if self.r.chance(1, 2) {
                self.prog.types.push(TypeDef {
                    name: "Wrapper".into(),
                    record: true,
                    cases: vec![("Default".into(), vec![("inner".into(), Ty::Custom("State".into())), ("tags".into(), Ty::List(Box::new(Ty::Int)))])],
                });
            }
        }
        if self.r.chance(3, 5) {
            self.prog.types.push(TypeDef {
                name: "Action".into(),
                record: false,
                cases: vec![
                    ("Buy".into(), vec![("price".into(), Ty::Int)]),
                    ("Sell".into(), vec![("price".into(), Ty::Int), ("memo".into(), Ty::Bytes)]),
                    ("Cancel".into(), vec![]),
                    // cases beyond the seventh: Plutus constructor tags leave the compact range 121..127
                    ("Hold".into(), vec![("until".into(), Ty::Int)]),
                    ("Bid".into(), vec![("price".into(), Ty::Int)]),
                    ("Ask".into(), vec![("price".into(), Ty::Int)]),
                    ("Pause".into(), vec![]),
                    ("Settle".into(), vec![("amount".into(), Ty::Int)]),
                    ("Close".into(), vec![]),
                    ("Audit".into(), vec![("memo".into(), Ty::Bytes)]),
                    ("Expire".into(), vec![("at".into(), Ty::Int)]),
                ],
            });
        }
    }

    fn small_num(&mut self) -> i64 {
        if self.mode == Mode::Full {
            return match self.r.below(8) {
                0 => 0,
                1 => -(self.r.range(1, 2_000_000)),
                _ => self.r.range(0, 5_000_000),
            };
        }
        match self.r.below(10) {
            0 => 0,
            1 => -1,
            2 => i64::MAX,
            3 => i64::MIN,
            4 => self.r.range(-1_000_000_000_000, 1_000_000_000_000),
            _ => self.r.range(0, 5_000_000),
        }
    }

    fn names_of(&self, want: &Want) -> Vec<X> {
        let mut v = vec![];
        let ty_ok = |t: &Ty| match want {
            Want::Int => *t == Ty::Int,
            Want::Bytes => *t == Ty::Bytes,
            Want::Address => *t == Ty::Address,
            Want::Ref => *t == Ty::UtxoRef,
            Want::Assets => *t == Ty::AnyAsset,
            Want::Data(d) => t == d,
        };
        for (n, t) in &self.params {
            if ty_ok(t) {
                v.push(X::Id(n.clone()));
            }
        }
        if !self.in_locals {
            for (n, t) in &self.prog.env {
                if ty_ok(t) {
                    v.push(X::Id(n.clone()));
                }
            }
        }
        for (n, w) in &self.locals {
            if w == want {
                v.push(X::Id(n.clone()));
            }
        }
        // fields of record parameters
        if self.mode == Mode::Broad {
            for (n, t) in &self.params {
                if let Ty::Custom(tn) = t {
                    if let Some(td) = self.prog.types.iter().find(|td| &td.name == tn && td.record) {
                        for (f, ft) in &td.cases[0].1 {
                            if ty_ok(ft) {
                                v.push(X::Prop(Box::new(X::Id(n.clone())), f.clone()));
                            }
                        }
                    }
                }
                if *t == Ty::AnyAsset {
                    match want {
                        Want::Int => v.push(X::Prop(Box::new(X::Id(n.clone())), "amount".into())),
                        Want::Bytes => v.push(X::Prop(Box::new(X::Id(n.clone())), "policy".into())),
                        _ => {}
                    }
                }
                if let (Ty::List(inner), Want::Int) = (t, want) {
                    if **inner == Ty::Int {
                        v.push(X::Index(Box::new(X::Id(n.clone())), Box::new(X::Num(0))));
                    }
                }
            }
        }
        v
    }

    pub fn int(&mut self, d: u32) -> X {
        let names = self.names_of(&Want::Int);
        let k = self.r.below(if d == 0 { 4 } else { 12 });
        match k {
            0 | 1 => X::Num(self.small_num()),
            2 | 3 => {
                if names.is_empty() {
                    X::Num(self.small_num())
                } else {
                    self.r.pick(&names).clone()
                }
            }
            4 | 5 => X::Add(Box::new(self.int(d - 1)), Box::new(self.int(d - 1))),
            6 | 7 => X::Sub(Box::new(self.int(d - 1)), Box::new(self.int(d - 1))),
            8 => X::Neg(Box::new(self.int(d - 1))),
            9 => {
                // slots and timestamps are non-negative: literals or offsets of the tip
                let arg = if self.mode == Mode::Full {
                    if self.r.chance(1, 2) {
                        X::Num(self.r.range(0, 2_000_000_000_000))
                    } else {
                        X::Add(Box::new(X::Call("tip_slot".into(), vec![])), Box::new(X::Num(self.r.range(0, 100_000))))
                    }
                } else {
                    self.int(d - 1)
                };
                match self.r.below(3) {
                    0 => X::Call("tip_slot".into(), vec![]),
                    1 => X::Call("slot_to_time".into(), vec![arg]),
                    _ => X::Call("time_to_slot".into(), vec![arg]),
                }
            }
            _ => {
                if names.is_empty() {
                    X::Num(self.small_num())
                } else {
                    self.r.pick(&names).clone()
                }
            }
        }
    }

    pub fn bytes(&mut self, d: u32) -> X {
        let names = self.names_of(&Want::Bytes);
        match self.r.below(if d == 0 { 3 } else { 6 }) {
            0 => X::Hex(self.r.bytes(1 + self.r.clone().below(6) as usize)),
            1 => X::Str(["abc", "Hello World", "", "x_y-z"][self.r.below(4) as usize].to_string()),
            2 | 3 => {
                if names.is_empty() {
                    X::Hex(vec![1, 2, 3])
                } else {
                    self.r.pick(&names).clone()
                }
            }
            4 => {
                if self.mode == Mode::Full {
                    // both operands of one kind
                    if self.r.chance(1, 2) {
                        X::Concat(Box::new(X::Hex(self.r.bytes(2))), Box::new(X::Hex(self.r.bytes(3))))
                    } else {
                        X::Concat(Box::new(X::Str("ab".into())), Box::new(X::Str("Cd".into())))
                    }
                } else {
                    X::Concat(Box::new(self.bytes(d - 1)), Box::new(self.bytes(d - 1)))
                }
            }
            _ => {
                if self.prog.policies.is_empty() {
                    X::Hex(vec![9])
                } else {
                    X::Id(self.r.pick(&self.prog.policies.clone()).0.clone())
                }
            }
        }
    }

    pub fn address(&mut self) -> X {
        let names = self.names_of(&Want::Address);
        match self.r.below(8) {
            0 | 1 if !names.is_empty() => self.r.pick(&names).clone(),
            2 if !self.prog.policies.is_empty() => X::Id(self.r.pick(&self.prog.policies.clone()).0.clone()),
            3 => X::Hex(crate::tirgen::addr_bytes(self.r.below(3) as u8)),
            _ => X::Id(self.r.pick(&self.prog.parties.clone()).clone()),
        }
    }

    pub fn assets(&mut self, d: u32) -> X {
        let names = self.names_of(&Want::Assets);
        let k = self.r.below(if d == 0 { 5 } else { 11 });
        match k {
            0 | 1 => X::Call("Ada".into(), vec![self.int(d.min(1))]),
            2 if !self.prog.assets.is_empty() => X::Call(self.r.pick(&self.prog.assets.clone()).0.clone(), vec![self.int(d.min(1))]),
            3 if !names.is_empty() => self.r.pick(&names).clone(),
            4 => {
                let pol = if self.prog.policies.is_empty() || self.r.chance(if self.mode == Mode::Full { 5 } else { 1 }, if self.mode == Mode::Full { 6 } else { 2 }) {
                    X::Hex(policy_hash(3))
                } else {
                    X::Id(self.r.pick(&self.prog.policies.clone()).0.clone())
                };
                X::AnyAsset(Box::new(pol), Box::new(self.bytes(0)), Box::new(self.int(d.min(1))))
            }
            5 | 6 => X::Add(Box::new(self.assets(d - 1)), Box::new(self.assets(d - 1))),
            7 | 8 => X::Sub(Box::new(self.assets(d - 1)), Box::new(self.assets(d - 1))),
            9 if !self.inputs.is_empty() && !self.in_locals => X::Id(self.r.pick(&self.inputs.clone()).0.clone()),
            10 if !self.in_locals => X::Id("fees".into()),
            _ => X::Call("Ada".into(), vec![self.int(0)]),
        }
    }

    pub fn utxo_ref(&mut self) -> X {
        let names = self.names_of(&Want::Ref);
        if !names.is_empty() && self.r.chance(1, 2) {
            self.r.pick(&names).clone()
        } else {
            X::RefLit(crate::cbackend::txid_pool(self.r.below(6)), self.r.below(4))
        }
    }

    pub fn data(&mut self, ty: &Ty, d: u32) -> X {
        let names = self.names_of(&Want::Data(ty.clone()));
        if !names.is_empty() && self.r.chance(1, 4) {
            return self.r.pick(&names).clone();
        }
        match ty {
            Ty::Int => self.int(d.min(2)),
            Ty::Bytes => self.bytes(d.min(1)),
            Ty::Bool => X::Bool(self.r.chance(1, 2)),
            Ty::List(inner) => {
                let n = self.r.below(4) as usize;
                X::List((0..n).map(|_| self.data(inner, d.saturating_sub(1))).collect())
            }
            Ty::Map(k, v) => {
                let n = 1 + self.r.below(2) as usize;
                X::Map((0..n).map(|_| (self.data(k, 0), self.data(v, d.saturating_sub(1)))).collect())
            }
            Ty::Custom(tn) => {
                let td = match self.prog.types.iter().find(|td| &td.name == tn) {
                    Some(td) => td.clone(),
                    None => return X::Unit,
                };
                let ci = self.r.below(td.cases.len() as u64) as usize;
                let (cname, cfields) = td.cases[ci].clone();
                // a spread source of the same record type: a parameter or an input with datum_is
                let mut sources: Vec<X> = vec![];
                if td.record {
                    for (n, t) in &self.params {
                        if t == ty && self.mode == Mode::Broad {
                            sources.push(X::Id(n.clone()));
                        }
                    }
                    if !self.in_locals {
                        for (n, t) in &self.inputs {
                            if t.as_ref() == Some(ty) {
                                sources.push(X::Id(n.clone()));
                            }
                        }
                    }
                }
                let spread = if !sources.is_empty() && self.r.chance(1, 2) { Some(Box::new(self.r.pick(&sources).clone())) } else { None };
                let mut fields = vec![];
                for (f, ft) in &cfields {
                    if spread.is_some() && self.r.chance(1, 2) {
                        continue;
                    }
                    fields.push((f.clone(), self.data(ft, d.saturating_sub(1))));
                }
                // explicit fields may come in any order
                if fields.len() > 1 && self.r.chance(1, 3) {
                    fields.reverse();
                }
                X::Struct { ty: tn.clone(), case: if td.record { None } else { Some(cname) }, fields, spread }
            }
            Ty::Address => self.address(),
            Ty::UtxoRef => self.utxo_ref(),
            Ty::AnyAsset => X::Unit,
        }
    }

    fn datum_type(&mut self) -> Ty {
        let mut cands = vec![Ty::Int, Ty::Bytes, Ty::List(Box::new(Ty::Int)), Ty::Map(Box::new(Ty::Int), Box::new(Ty::Bytes))];
        for td in &self.prog.types {
            cands.push(Ty::Custom(td.name.clone()));
            cands.push(Ty::Custom(td.name.clone()));
        }
        self.r.pick(&cands).clone()
    }

    pub fn gen_tx(&mut self, name: &str) -> Tx {
        self.params.clear();
        self.locals.clear();
        self.inputs.clear();
        self.outputs.clear();
        let mut t = Tx { name: name.to_string(), ..Default::default() };
        let n_params = 1 + self.r.below(4) as usize;
        for n in self.subset(PARAM_NAMES, n_params, n_params) {
            let ty = match self.r.below(if self.mode == Mode::Broad { 10 } else { 6 }) {
                0 | 1 | 2 => Ty::Int,
                3 => Ty::Bytes,
                4 => Ty::Address,
                5 => Ty::UtxoRef,
                6 => Ty::AnyAsset,
                7 => Ty::List(Box::new(Ty::Int)),
                _ => {
                    let recs: Vec<String> = self.prog.types.iter().filter(|td| td.record).map(|td| td.name.clone()).collect();
                    if recs.is_empty() {
                        Ty::Int
                    } else {
                        Ty::Custom(self.r.pick(&recs).clone())
                    }
                }
            };
            self.params.push((n.to_string(), ty));
        }
        if self.collide && self.r.chance(1, 3) {
            // a parameter spelled like another argument name up to letter case
            let mut pool: Vec<String> = self.params.iter().map(|p| p.0.clone()).collect();
            pool.extend(self.prog.parties.iter().cloned());
            pool.extend(self.prog.env.iter().map(|e| e.0.clone()));
            let base = self.r.pick(&pool).clone();
            let variant = if base.chars().any(|c| c.is_ascii_uppercase()) { base.to_lowercase() } else { base.to_uppercase() };
            if !pool.contains(&variant) {
                self.params.push((variant, Ty::Int));
            }
        }
        t.params = self.params.clone();
        // inputs are declared first so that expressions can name them; their fields are filled below
        let n_inputs = 1 + self.r.below(2) as usize;
        let in_names = self.subset(INPUT_NAMES, n_inputs, n_inputs);
        for n in &in_names {
            let dt = if self.r.chance(1, 2) && self.prog.types.iter().any(|td| td.record) {
                let recs: Vec<String> = self.prog.types.iter().filter(|td| td.record).map(|td| td.name.clone()).collect();
                Some(Ty::Custom(self.r.pick(&recs).clone()))
            } else {
                None
            };
            self.inputs.push((n.to_string(), dt));
        }
        // locals (may refer to parameters and to earlier or later locals)
        self.in_locals = true;
        let n_locals = self.r.below(4) as usize;
        for n in self.subset(LOCAL_NAMES, n_locals, n_locals) {
            let (w, x) = match self.r.below(4) {
                0 | 1 => (Want::Int, self.int(2)),
                2 => (Want::Bytes, self.bytes(1)),
                _ => (Want::Assets, self.assets(1)),
            };
            t.locals.push((n.to_string(), x));
            self.locals.push((n.to_string(), w));
        }
        self.in_locals = false;
        if self.r.chance(1, 4) {
            t.refs.push((if self.r.chance(1, 2) { "myref".into() } else { "myrefs".into() }, self.utxo_ref()));
            // up to five more reference blocks: their order in the IR is the order of the source
            if self.r.chance(1, 2) {
                for k in 0..1 + self.r.below(5) {
                    let x = self.utxo_ref();
                    t.refs.push((format!("ref{}", k), x));
                }
            }
        }
        let input_decls = self.inputs.clone();
        self.inputs.clear();
        for (n, dt) in input_decls {
            let mut i = Input { name: n.clone(), many: self.r.chance(1, 5), datum_is: dt.clone(), ..Default::default() };
            if self.r.chance(9, 10) {
                i.from = Some(self.address());
            }
            if self.r.chance(4, 5) {
                i.min = Some(self.assets(2));
            }
            if self.r.chance(1, 5) {
                i.r#ref = Some(self.utxo_ref());
            }
            if self.r.chance(1, 4) {
                let ty = self.datum_type();
                i.redeemer = Some(self.data(&ty, 2));
            }
            t.inputs.push(i);
            self.inputs.push((n, dt));
        }
        if self.r.chance(1, 5) {
            let from = if self.r.chance(4, 5) { Some(self.address()) } else { None };
            let min = if self.r.chance(1, 2) { Some(self.assets(0)) } else { None };
            let rf = if self.r.chance(1, 4) { Some(self.utxo_ref()) } else { None };
            t.collateral.push((from, min, rf));
        }
        let n_outputs = 1 + self.r.below(3) as usize;
        let out_names = self.subset(OUTPUT_NAMES, n_outputs, n_outputs);
        for n in out_names {
            let named = self.r.chance(1, 2);
            let optional = self.r.chance(1, 8);
            let mut o = Output { name: if named { Some(n.to_string()) } else { None }, optional, ..Default::default() };
            if self.mode == Mode::Full || self.r.chance(19, 20) {
                o.to = Some(self.address());
            }
            if self.mode == Mode::Full || self.r.chance(19, 20) {
                o.amount = Some(self.assets(3));
            }
            if !optional && self.r.chance(1, 2) {
                let ty = self.datum_type();
                o.datum = Some(self.data(&ty, 3));
            }
            t.outputs.push(o);
            if named {
                self.outputs.push(n.to_string());
            }
        }
        if self.mode == Mode::Broad && !self.outputs.is_empty() && self.r.chance(1, 4) {
            // min_utxo of a named output in another output's amount
            let n = self.r.pick(&self.outputs.clone()).clone();
            let k = self.r.below(t.outputs.len() as u64) as usize;
            let old = t.outputs[k].amount.clone().unwrap_or(X::Call("Ada".into(), vec![X::Num(1)]));
            t.outputs[k].amount = Some(X::Add(Box::new(old), Box::new(X::Call("min_utxo".into(), vec![X::Id(n)]))));
        }
        if self.r.chance(1, 4) {
            let m = Mint { amount: Some(self.mint_amount()), redeemer: if self.r.chance(1, 2) { Some(self.int(1)) } else { None } };
            t.mints.push(m);
        }
        if self.r.chance(1, 5) {
            let m = Mint { amount: Some(self.mint_amount()), redeemer: if self.r.chance(1, 2) { Some(X::Unit) } else { None } };
            t.burns.push(m);
        }
        if self.r.chance(1, 3) {
            let s = if self.r.chance(2, 3) { Some(self.int(1)) } else { None };
            let u = if self.r.chance(2, 3) { Some(self.int(1)) } else { None };
            t.validity = Some((s, u));
        }
        if self.r.chance(1, 4) {
            let n = 1 + self.r.below(2) as usize;
            t.signers = Some((0..n).map(|_| if self.r.chance(1, 2) { self.address() } else { X::Hex(self.r.bytes(28)) }).collect());
        }
        if self.r.chance(1, 4) {
            let n = 1 + self.r.below(2) as usize;
            t.metadata = Some(
                (0..n)
                    .map(|_| {
                        let k = X::Num(self.r.range(0, 5));
                        let v = match self.r.below(3) {
                            0 => self.int(1),
                            1 => X::Str("some text".into()),
                            _ => self.bytes(0),
                        };
                        (k, v)
                    })
                    .collect(),
            );
        }
        if self.r.chance(1, 4) {
            let d = match self.r.below(6) {
                0 | 1 => Dir::Withdrawal {
                    from: Some(self.address()),
                    amount: Some(self.typed_int()),
                    redeemer: if self.r.chance(1, 2) { Some(self.int(0)) } else { None },
                },
                2 => Dir::Donation(self.typed_int()),
                3 => Dir::PlutusWitness { version: Some(X::Num(self.r.range(1, 3))), script: Some(X::Hex(self.r.bytes(12))) },
                4 => Dir::NativeWitness { script: Some(X::Hex(vec![0x82, 0x00, 0x58, 0x1c].into_iter().chain(self.r.bytes(28)).collect())) },
                _ => Dir::Publish {
                    to: Some(self.address()),
                    amount: Some(self.assets(0)),
                    datum: None,
                    version: Some(X::Num(self.r.range(1, 3))),
                    script: Some(X::Hex(self.r.bytes(10))),
                },
            };
            t.dirs.push(d);
        }
        t
    }

    /// an integer expression whose static type is Int for the analyzer (literal, Int
    /// parameter, or arithmetic whose leftmost leaf is one of those)
    fn typed_int(&mut self) -> X {
        let ps: Vec<String> = self.params.iter().filter(|(_, t)| *t == Ty::Int).map(|(n, _)| n.clone()).collect();
        let leaf = if !ps.is_empty() && self.r.chance(1, 2) { X::Id(self.r.pick(&ps).clone()) } else { X::Num(self.r.range(0, 3_000_000)) };
        if self.r.chance(1, 3) {
            X::Add(Box::new(leaf), Box::new(self.int(0)))
        } else {
            leaf
        }
    }

    fn mint_amount(&mut self) -> X {
        if !self.prog.assets.is_empty() && self.r.chance(1, 2) {
            X::Call(self.r.pick(&self.prog.assets.clone()).0.clone(), vec![self.int(1)])
        } else {
            let pol = if self.prog.policies.is_empty() || (self.mode == Mode::Full && self.r.chance(4, 5)) {
                X::Hex(policy_hash(3))
            } else {
                X::Id(self.r.pick(&self.prog.policies.clone()).0.clone())
            };
            let amount = if self.mode == Mode::Full { X::Num(self.r.range(1, 1000)) } else { self.int(1) };
            X::AnyAsset(Box::new(pol), Box::new(self.bytes(0)), Box::new(amount))
        }
    }

    pub fn gen_program(&mut self, n_txs: usize) -> Prog {
        self.prog = Prog::default();
        self.gen_program_header();
        let names = ["transfer", "Swap_2", "mintIt"];
        for i in 0..n_txs {
            let t = self.gen_tx(names[i % 3]);
            self.prog.txs.push(t);
        }
        if self.collide && self.r.chance(1, 5) {
            // one name for two kinds of top-level definition: an asset or a policy named like an
            // environment value or a party (they share one scope, the later definition would hide the earlier)
            let mut pool: Vec<String> = self.prog.parties.clone();
            pool.extend(self.prog.env.iter().map(|e| e.0.clone()));
            let name = self.r.pick(&pool).clone();
            if self.r.chance(1, 2) {
                self.prog.policies.push((name, policy_hash(5)));
            } else {
                self.prog.assets.push((name, X::Hex(policy_hash(6)), X::Str("DUP".into())));
            }
        }
        if self.collide && n_txs >= 2 && self.r.chance(1, 2) {
            // two transactions under one name, or under names that differ in letter case only
            // (the interface and the IR are looked up by the exact name)
            let first = self.prog.txs[0].name.clone();
            let last = self.prog.txs.len() - 1;
            self.prog.txs[last].name = if self.r.chance(1, 2) { first } else { first.to_uppercase() };
        }
        self.prog.clone()
    }
}
