//! C09 — Plutus Data encoding of datums and redeemers: compile constant transactions
//! carrying generated data expressions, extract the inline-datum and redeemer bytes, and
//! print cases for coq/C09_check.v. A second leg goes through the front end with variant
//! types of 1..140 cases.
use crate::c06::test_pparams;
use crate::gal;
use crate::rng::Rng;
use crate::tirgen::*;
use crate::Ctx;
use std::collections::{BTreeMap, HashSet};
use tx3_cardano::pallas::codec::minicbor;
use tx3_cardano::pallas::ledger::primitives::conway;
use tx3_tir::model::core::UtxoRef;
use tx3_tir::model::v1beta0 as tir;
use tx3_tir::model::v1beta0::Expression as E;

pub fn const_tx(datum: E, redeemer: E) -> tir::Tx {
    tir::Tx {
        fees: E::Number(170000),
        references: vec![],
        inputs: vec![tir::Input {
            name: "source".into(),
            utxos: E::UtxoRefs(vec![UtxoRef { txid: vec![3; 32], index: 0 }]),
            redeemer,
        }],
        outputs: vec![tir::Output {
            address: E::Address(addr_bytes(0xA1)),
            datum,
            amount: E::Assets(vec![tir::AssetExpr { policy: E::None, asset_name: E::None, amount: E::Number(2_000_000) }]),
            optional: false,
        }],
        validity: None,
        mints: vec![],
        burns: vec![],
        adhoc: vec![],
        collateral: vec![],
        signers: None,
        metadata: vec![],
    }
}

/// (kind, datum bytes, redeemer bytes)
pub fn compile_parts(tx: &tir::Tx) -> (u8, Option<Vec<u8>>, Option<Vec<u8>>) {
    let pp = test_pparams(4310, false);
    let res = std::panic::catch_unwind(std::panic::AssertUnwindSafe(|| tx3_cardano::compile::entry_point(tx, &pp)));
    match res {
        Err(_) => (2, None, None),
        Ok(Err(_)) => (1, None, None),
        Ok(Ok(ctx)) => {
            let datum = ctx.transaction_body.outputs.first().and_then(|o| match o {
                conway::TransactionOutput::PostAlonzo(p) => p.datum_option.as_ref().and_then(|d| match &**d {
                    conway::DatumOption::Data(w) => Some(minicbor::to_vec(&*w.0).unwrap()),
                    _ => None,
                }),
                _ => None,
            });
            let red = ctx.transaction_witness_set.redeemer.as_ref().and_then(|r| match &**r {
                conway::Redeemers::Map(m) => m.values().next().map(|v| minicbor::to_vec(&v.data).unwrap()),
                conway::Redeemers::List(l) => l.first().map(|v| minicbor::to_vec(&v.data).unwrap()),
            });
            (0, datum, red)
        }
    }
}

fn pdata_gal_of(idx: usize, fields: &[String]) -> String {
    format!("(PConstr {} {})", gal::n(idx), gal::list(fields))
}

/// front-end leg: a variant type with n cases; the k-th is constructed in an output datum
fn frontend_case(r: &mut Rng, n_cases: usize, k: usize) -> Option<(E, String)> {
    let mut src = String::from("party Sender;\n\ntype V {\n");
    // case shapes: unit or struct with 1..3 fields
    let mut shapes = vec![];
    for i in 0..n_cases {
        let nf = if i == k { 1 + r.below(3) as usize } else { r.below(3) as usize };
        shapes.push(nf);
        if nf == 0 {
            src.push_str(&format!("    C{},\n", i));
        } else {
            src.push_str(&format!("    C{} {{\n", i));
            for f in 0..nf {
                src.push_str(&format!("        f{}: {},\n", f, if f % 2 == 0 { "Int" } else { "Bytes" }));
            }
            src.push_str("    },\n");
        }
    }
    src.push_str("}\n\ntx t(q: Int) {\n    input source {\n        from: Sender,\n        min_amount: Ada(q),\n    }\n    output {\n        to: Sender,\n        amount: Ada(q),\n        datum: V::C");
    src.push_str(&format!("{} {{\n", k));
    let nf = shapes[k];
    // fields written in a shuffled order: declaration order must win
    let mut order: Vec<usize> = (0..nf).collect();
    for i in (1..nf).rev() {
        let j = r.below(i as u64 + 1) as usize;
        order.swap(i, j);
    }
    let mut vals: Vec<(i128, Vec<u8>)> = vec![];
    for f in 0..nf {
        vals.push((match r.below(4) { 0 => 0, 1 => r.range(1, 23) as i128, 2 => 1_000_000 + r.below(1 << 40) as i128, _ => r.range(24, 70000) as i128 },
                   vec![0xAB; 1 + r.below(3) as usize]));
        let _ = f;
    }
    for &f in &order {
        if f % 2 == 0 {
            src.push_str(&format!("            f{}: {},\n", f, vals[f].0));
        } else {
            src.push_str(&format!("            f{}: 0x{},\n", f, hex::encode(&vals[f].1)));
        }
    }
    src.push_str("        },\n    }\n}\n");
    let res = std::panic::catch_unwind(std::panic::AssertUnwindSafe(|| {
        let mut program = tx3_lang::parsing::parse_string(&src).ok()?;
        let report = tx3_lang::analyzing::analyze(&mut program);
        if !report.errors.is_empty() {
            return None;
        }
        tx3_lang::lowering::lower(&program, "t").ok()
    }));
    let tx = res.ok().flatten()?;
    let datum = tx.outputs.first()?.datum.clone();
    let fields: Vec<String> = (0..nf)
        .map(|f| if f % 2 == 0 { format!("(PInt {})", gal::z(vals[f].0)) } else { format!("(PBytes {})", gal::bytes(&vals[f].1)) })
        .collect();
    Some((datum, pdata_gal_of(k, &fields)))
}

/// front-end leg with a spread: `V::C<k> { ...source }` (optionally with one explicit field) where the
/// UTxO bound to `source` carries another case of the same shape; the template names case k, so
/// the datum must be alternative k with the source's fields.
fn frontend_spread_case(r: &mut Rng, n_cases: usize, k: usize, j: usize, explicit_first: bool) -> Option<(E, String)> {
    let mut src = String::from("party Sender;\n\ntype V {\n");
    for i in 0..n_cases {
        src.push_str(&format!("    C{} {{\n        f0: Int,\n        f1: Bytes,\n    }},\n", i));
    }
    src.push_str("}\n\ntx t(q: Int) {\n    input source {\n        from: Sender,\n        datum_is: V,\n        min_amount: Ada(q),\n    }\n    output {\n        to: Sender,\n        amount: Ada(q),\n");
    let new0 = 7 + r.below(1000) as i128;
    if explicit_first {
        src.push_str(&format!("        datum: V::C{} {{\n            f0: {},\n            ...source\n        }},\n", k, new0));
    } else {
        src.push_str(&format!("        datum: V::C{} {{\n            ...source\n        }},\n", k));
    }
    src.push_str("    }\n}\n");
    let held0 = 100 + r.below(100_000) as i128;
    let held1 = vec![0x61, 0x62, 0x63, r.below(256) as u8];
    let res = std::panic::catch_unwind(std::panic::AssertUnwindSafe(|| {
        let mut program = tx3_lang::parsing::parse_string(&src).ok()?;
        let report = tx3_lang::analyzing::analyze(&mut program);
        if !report.errors.is_empty() {
            return None;
        }
        let tx = tx3_lang::lowering::lower(&program, "t").ok()?;
        let utxo = tx3_tir::model::core::Utxo {
            r#ref: UtxoRef { txid: vec![5; 32], index: 0 },
            address: addr_bytes(0xA1),
            assets: tx3_tir::model::assets::CanonicalAssets::from_naked_amount(5_000_000),
            datum: Some(E::Struct(tir::StructExpr { constructor: j, fields: vec![E::Number(held0), E::Bytes(held1.clone())] })),
            script: None,
        };
        let ins = BTreeMap::from([("source".to_string(), std::collections::HashSet::from([utxo]))]);
        let tx = tx3_tir::reduce::apply_inputs(tx, &ins).ok()?;
        tx3_tir::reduce::reduce(tx).ok()
    }));
    let tx = res.ok().flatten()?;
    let datum = tx.outputs.first()?.datum.clone();
    let f0 = if explicit_first { new0 } else { held0 };
    Some((datum, pdata_gal_of(k, &[format!("(PInt {})", gal::z(f0)), format!("(PBytes {})", gal::bytes(&held1))])))
}

fn bytes_opt(b: &Option<Vec<u8>>) -> String {
    gal::opt(b.as_ref().map(|x| gal::bytes_lit(x)))
}

pub fn run(ctx: &mut Ctx) {
    let mut r = Rng::new(ctx.seed ^ 0xC09);
    let mut cases: Vec<(E, Option<String>, &'static str)> = vec![];
    // every constructor index 0..140 (exhaustive) and a few large ones, through the IR
    for i in (0..=140usize).chain([255, 256, 65535, 65536, 4_000_000_000, usize::MAX]) {
        let nf = i % 4;
        let fields = (0..nf).map(|j| E::Number((i as i128).wrapping_mul(7) + j as i128)).collect();
        cases.push((E::Struct(tir::StructExpr { constructor: i, fields }), None, "ctor_index"));
    }
    // integers at every power-of-two boundary +-1 up to the i128 extremes
    for b in 0..=127u32 {
        let p: i128 = if b == 127 { i128::MAX } else { 1i128 << b };
        for z in [p - 1, p, p.checked_add(1).unwrap_or(p), -p, -p + 1, (-p).checked_sub(1).unwrap_or(-p)] {
            if b % 8 < 2 || b > 60 && b < 68 || ctx.thorough {
                cases.push((E::Number(z), None, "int_boundary"));
            }
        }
    }
    cases.push((E::Number(i128::MIN), None, "int_boundary"));
    // byte strings of every length 0..100 (exhaustive) and a few longer
    for n in (0..=100usize).chain([127, 128, 129, 192, 193, 300]) {
        cases.push((E::Bytes((0..n).map(|i| (i * 3) as u8).collect()), None, "bytes_len"));
    }
    cases.push((E::String("héllo".into()), None, "string"));
    cases.push((E::Bool(true), None, "bool"));
    cases.push((E::Bool(false), None, "bool"));
    cases.push((E::Hash(vec![1; 28]), None, "hash"));
    cases.push((E::Address(addr_bytes(0xB2)), None, "address"));
    // nested data
    let n_rand = if ctx.thorough { 4000 } else { 500 };
    for _ in 0..n_rand {
        let mut g = Gen::new(&mut r);
        g.allow_params = false;
        g.allow_compiler = false;
        g.allow_inputs = false;
        let d = 1 + g.r.below(4) as u32;
        let e = g.data(d);
        // constant data only: reduce first (index/concat nodes fold away); skip what does not reduce
        if let Ok(e) = tx3_tir::reduce::reduce(e) {
            cases.push((e, None, "random_data"));
        }
    }
    // front end: variant types with 1..140 cases
    let fe: Vec<usize> = if ctx.thorough { (1..=140).collect() } else { vec![1, 2, 3, 7, 8, 9, 24, 25, 127, 128, 129, 140] };
    for n in fe {
        let ks: Vec<usize> = if ctx.thorough { (0..n).collect() } else { vec![0, n / 2, n - 1, (n.max(8) - 8).min(n - 1), 7.min(n - 1)] };
        for k in ks {
            if let Some((e, den)) = frontend_case(&mut r, n, k) {
                cases.push((e, Some(den), "frontend_variant"));
            }
        }
    }
    // front end: a constructor that spreads an input whose datum is another case of the type
    for (n, k, j) in [(2usize, 1usize, 0usize), (2, 0, 1), (3, 2, 0), (9, 7, 6), (9, 6, 7), (130, 128, 3), (130, 3, 128), (4, 1, 1)] {
        for explicit in [false, true] {
            if let Some((e, den)) = frontend_spread_case(&mut r, n, k, j, explicit) {
                cases.push((e, Some(den), "frontend_spread"));
            }
        }
    }
    let mut texts = vec![];
    let mut hist: BTreeMap<String, u64> = BTreeMap::new();
    let mut samples = vec![];
    let mut distinct = HashSet::new();
    for (i, (e, den, kind)) in cases.iter().enumerate() {
        *hist.entry(kind.to_string()).or_default() += 1;
        let (dk, datum, _) = compile_parts(&const_tx(e.clone(), E::None));
        let (rk, _, red) = compile_parts(&const_tx(E::None, e.clone()));
        let text = format!(
            "(mk_case {} {} {} {} {} {})",
            expr_gal(e),
            gal::opt(den.clone()),
            gal::n(dk),
            bytes_opt(&datum),
            gal::n(rk),
            bytes_opt(&red)
        );
        distinct.insert(text.clone());
        if i % (cases.len() / 6 + 1) == 0 {
            samples.push(serde_json::json!({"kind": kind, "expr": format!("{:?}", e).chars().take(200).collect::<String>(),
                "datum_hex": datum.as_ref().map(hex::encode), "redeemer_hex": red.as_ref().map(hex::encode)}));
        }
        texts.push(text);
    }
    ctx.write_cases("C09", "From Tx3 Require Import Base Tir PlutusData C09_check.", "case", "run", &texts, 100);
    ctx.meta.insert("evaluations".into(), serde_json::json!(cases.len() * 2));
    ctx.meta.insert("distinct_nontrivial".into(), serde_json::json!(distinct.len()));
    ctx.meta.insert("distribution".into(), serde_json::json!(hist));
    ctx.meta.insert("samples".into(), serde_json::json!(samples));
    ctx.meta.insert("exhaustive_axes".into(), serde_json::json!(["constructor index 0..140", "byte-string length 0..100"]));
    ctx.meta.insert(
        "rule".into(),
        serde_json::json!("each expression is compiled once as the inline datum of an output and once as a spend redeemer; axes: every constructor index 0..140 plus large ones, integers at power-of-two boundaries +-1 up to the i128 extremes, byte strings of every length 0..100, random nested data (records, lists, maps, tuples-as-errors) to depth 4, and variant types of 1..140 cases written as source text with fields in shuffled order (front-end leg, denotation from the generator); distinct = distinct printed case, all non-trivial"),
    );
}
