//! Shared by C02 / C08 / C10 / C14: compile a constant IR transaction with the real back end,
//! decode the payload with pallas and print the decoded view as a Gallina `atx` (coq/Compile.v),
//! together with the oracle tables for the external address functions.
use crate::gal;
use std::collections::BTreeSet;
use tx3_cardano::pallas::codec::minicbor;
use tx3_cardano::pallas::ledger::primitives::conway;
use tx3_tir::model::v1beta0 as tir;
use tx3_tir::model::v1beta0::Expression as E;

pub fn collect_bytes(e: &E, out: &mut BTreeSet<Vec<u8>>) {
    match e {
        E::Bytes(b) | E::Address(b) => {
            out.insert(b.clone());
        }
        E::Hash(b) => {
            out.insert(b.clone());
            // a hash used where an address is expected stands for its script address
            if b.len() == 28 {
                for header in [0x70u8, 0x71] {
                    let mut a = vec![header];
                    a.extend(b);
                    out.insert(a);
                }
            }
        }
        E::String(s) => {
            out.insert(s.as_bytes().to_vec());
        }
        E::List(xs) => xs.iter().for_each(|x| collect_bytes(x, out)),
        E::Map(kvs) => kvs.iter().for_each(|(k, v)| {
            collect_bytes(k, out);
            collect_bytes(v, out)
        }),
        E::Tuple(t) => {
            collect_bytes(&t.0, out);
            collect_bytes(&t.1, out)
        }
        E::Struct(s) => s.fields.iter().for_each(|x| collect_bytes(x, out)),
        E::Assets(xs) => xs.iter().for_each(|a| {
            collect_bytes(&a.policy, out);
            collect_bytes(&a.asset_name, out);
            collect_bytes(&a.amount, out)
        }),
        E::AdHocDirective(d) => d.data.values().for_each(|x| collect_bytes(x, out)),
        _ => {}
    }
}

pub fn tx_bytes(tx: &tir::Tx) -> BTreeSet<Vec<u8>> {
    let mut out = BTreeSet::new();
    for o in &tx.outputs {
        collect_bytes(&o.address, &mut out);
    }
    for a in &tx.adhoc {
        a.data.values().for_each(|x| collect_bytes(x, &mut out));
    }
    if let Some(s) = &tx.signers {
        s.signers.iter().for_each(|x| collect_bytes(x, &mut out));
    }
    out
}

/// oracle tables: (addr_parse, addr_of_string, keyhash_of_addr, reward_of_addr, native_script_ok)
pub fn oracles_gal(tx: &tir::Tx, mainnet: bool) -> String {
    use tx3_cardano::pallas::ledger::addresses::Address;
    let net = if mainnet { tx3_cardano::Network::Mainnet } else { tx3_cardano::Network::Testnet };
    let mut bs = tx_bytes(tx);
    // the tables are looked up with what addr_parse returns as well: pallas accepts some byte strings
    // whose re-encoding differs (trailing bytes), so the re-encoded forms are keys too
    let extra: Vec<Vec<u8>> = bs.iter().filter_map(|b| Address::from_bytes(b).ok().map(|a| a.to_vec())).collect();
    bs.extend(extra);
    let tab = |f: &dyn Fn(&[u8]) -> Option<Vec<u8>>| {
        gal::list(
            &bs.iter()
                .map(|b| format!("({}, {})", gal::bytes(b), gal::opt(f(b).map(|x| gal::bytes(&x)))))
                .collect::<Vec<_>>(),
        )
    };
    let parse = tab(&|b| Address::from_bytes(b).ok().map(|a| a.to_vec()));
    let of_string = tab(&|b| std::str::from_utf8(b).ok().and_then(|s| tx3_cardano::coercion::string_into_address(s).ok()).map(|a| a.to_vec()));
    let keyhash = tab(&|b| {
        std::panic::catch_unwind(|| tx3_cardano::coercion::expr_into_address_keyhash(&E::Address(b.to_vec())).ok().map(|h| h.to_vec()))
            .ok()
            .flatten()
    });
    let reward = tab(&|b| {
        std::panic::catch_unwind(|| tx3_cardano::coercion::expr_into_reward_account(&E::Address(b.to_vec()), net).ok().map(|h| h.to_vec()))
            .ok()
            .flatten()
    });
    let native = gal::list(
        &bs.iter()
            .map(|b| {
                let ok = minicbor::decode::<conway::NativeScript>(b).is_ok();
                format!("({}, {})", gal::bytes(b), gal::b(ok))
            })
            .collect::<Vec<_>>(),
    );
    format!("(mk_oracles_c {} {} {} {} {})", parse, of_string, keyhash, reward, native)
}

fn ma_gal<T: Copy + Into<i128>>(m: &std::collections::BTreeMap<conway::PolicyId, std::collections::BTreeMap<conway::AssetName, T>>) -> String {
    gal::list(
        &m.iter()
            .map(|(p, a)| {
                format!(
                    "({}, {})",
                    gal::bytes(p.as_ref()),
                    gal::list(&a.iter().map(|(n, v)| format!("({}, {})", gal::bytes(n.as_ref()), gal::z((*v).into()))).collect::<Vec<_>>())
                )
            })
            .collect::<Vec<_>>(),
    )
}

fn input_gal(i: &conway::TransactionInput) -> String {
    format!("({}, {})", gal::bytes(i.transaction_id.as_ref()), gal::z(i.index as i128))
}

pub struct Decoded {
    pub gal: String,
    pub body_hash_ok: bool,
    pub aux_hash_ok: bool,
    pub n_inputs: usize,
    pub fee: u64,
}

/// decode a payload and print the abstract view
pub fn atx_of_payload(payload: &[u8]) -> Option<Decoded> {
    use tx3_cardano::pallas::ledger::traverse::ComputeHash;
    let tx: conway::Tx = minicbor::decode(payload).ok()?;
    let b = &tx.transaction_body;
    let outs: Vec<String> = b
        .outputs
        .iter()
        .map(|o| match o {
            conway::TransactionOutput::PostAlonzo(p) => {
                let (coin, assets) = match &p.value {
                    conway::Value::Coin(c) => (*c as i128, "[]".to_string()),
                    conway::Value::Multiasset(c, m) => {
                        let m2: std::collections::BTreeMap<_, std::collections::BTreeMap<_, i128>> =
                            m.iter().map(|(p, a)| (*p, a.iter().map(|(n, v)| (n.clone(), u64::from(*v) as i128)).collect())).collect();
                        (*c as i128, ma_gal(&m2))
                    }
                };
                let datum = p.datum_option.as_ref().and_then(|d| match &**d {
                    conway::DatumOption::Data(w) => Some(gal::bytes_lit(&minicbor::to_vec(&*w.0).unwrap())),
                    _ => None,
                });
                let script = p.script_ref.as_ref().map(|s| match &s.0 {
                    conway::ScriptRef::NativeScript(n) => format!("(0%N, {})", gal::bytes(&minicbor::to_vec(n).unwrap())),
                    conway::ScriptRef::PlutusV1Script(x) => format!("(1%N, {})", gal::bytes(x.as_ref())),
                    conway::ScriptRef::PlutusV2Script(x) => format!("(2%N, {})", gal::bytes(x.as_ref())),
                    conway::ScriptRef::PlutusV3Script(x) => format!("(3%N, {})", gal::bytes(x.as_ref())),
                });
                format!("(mk_aout {} {} {} {} {})", gal::bytes(&p.address), gal::z(coin), assets, gal::opt(datum), gal::opt(script))
            }
            _ => "(mk_aout [] 0 [] None None)".to_string(),
        })
        .collect();
    let mint = b.mint.as_ref().map(|m| {
        let m2: std::collections::BTreeMap<_, std::collections::BTreeMap<_, i128>> =
            m.iter().map(|(p, a)| (*p, a.iter().map(|(n, v)| (n.clone(), i64::from(*v) as i128)).collect())).collect();
        ma_gal(&m2)
    });
    let reds = tx.transaction_witness_set.redeemer.as_ref().map(|r| match &**r {
        conway::Redeemers::Map(m) => gal::list(
            &m.iter()
                .map(|(k, v)| {
                    let tag = match k.tag {
                        conway::RedeemerTag::Spend => 0,
                        conway::RedeemerTag::Mint => 1,
                        conway::RedeemerTag::Cert => 2,
                        conway::RedeemerTag::Reward => 3,
                        _ => 9,
                    };
                    format!("(mk_ared {} {} {})", gal::n(tag), gal::z(k.index as i128), gal::bytes_lit(&minicbor::to_vec(&v.data).unwrap()))
                })
                .collect::<Vec<_>>(),
        ),
        conway::Redeemers::List(_) => "[]".to_string(),
    });
    let md = match &tx.auxiliary_data {
        conway::Nullable::Some(aux) => match &**aux {
            conway::AuxiliaryData::PostAlonzo(p) => p.metadata.as_ref().map(|m| {
                gal::list(
                    &m.iter()
                        .map(|(k, v)| {
                            use tx3_cardano::pallas::ledger::primitives::Metadatum as M;
                            let vg = match v {
                                M::Int(i) => format!("(MInt {})", gal::z(i128::from(*i))),
                                M::Text(s) => format!("(MText {})", gal::bytes(s.as_bytes())),
                                M::Bytes(b) => format!("(MBytes {})", gal::bytes(b.as_ref())),
                                _ => "(MInt 0)".to_string(),
                            };
                            format!("({}, {})", gal::z(*k as i128), vg)
                        })
                        .collect::<Vec<_>>(),
                )
            }),
            _ => None,
        },
        _ => None,
    };
    let set_gal = |v: &[conway::TransactionInput]| gal::list(&v.iter().map(input_gal).collect::<Vec<_>>());
    let mut plutus = vec![];
    if let Some(s) = &tx.transaction_witness_set.plutus_v1_script {
        s.iter().for_each(|x| plutus.push(format!("(1%N, {})", gal::bytes(x.as_ref()))));
    }
    if let Some(s) = &tx.transaction_witness_set.plutus_v2_script {
        s.iter().for_each(|x| plutus.push(format!("(2%N, {})", gal::bytes(x.as_ref()))));
    }
    if let Some(s) = &tx.transaction_witness_set.plutus_v3_script {
        s.iter().for_each(|x| plutus.push(format!("(3%N, {})", gal::bytes(x.as_ref()))));
    }
    let natives: Vec<String> = tx
        .transaction_witness_set
        .native_script
        .as_ref()
        .map(|s| s.iter().map(|n| gal::bytes(&minicbor::to_vec(&**n).unwrap())).collect())
        .unwrap_or_default();
    let network = match b.network_id {
        Some(conway::NetworkId::Mainnet) => 1,
        Some(conway::NetworkId::Testnet) => 0,
        None => 9,
    };
    let gal = format!(
        "(mk_atx {} {} {} {} {} {} {} {} {} {} {} {} {} {} {} {} {} {})",
        gal::list(&b.inputs.iter().map(input_gal).collect::<Vec<_>>()),
        gal::list(&outs),
        gal::z(b.fee as i128),
        gal::opt(mint),
        gal::opt(b.ttl.map(|x| gal::z(x as i128))),
        gal::opt(b.validity_interval_start.map(|x| gal::z(x as i128))),
        gal::opt(b.withdrawals.as_ref().map(|w| gal::list(&w.iter().map(|(k, v)| format!("({}, {})", gal::bytes(k.as_ref()), gal::z(*v as i128))).collect::<Vec<_>>()))),
        gal::opt(b.donation.map(|d| gal::z(u64::from(d) as i128))),
        gal::opt(b.required_signers.as_ref().map(|s| gal::list(&s.iter().map(|h| gal::bytes(h.as_ref())).collect::<Vec<_>>()))),
        gal::opt(b.reference_inputs.as_ref().map(|s| set_gal(s))),
        gal::opt(b.collateral.as_ref().map(|s| set_gal(s))),
        gal::n(network),
        gal::opt(reds),
        gal::opt(md),
        gal::list(&natives),
        gal::list(&plutus),
        gal::b(b.script_data_hash.is_some()),
        gal::b(b.auxiliary_data_hash.is_some())
    );
    // digests recomputed from what the payload carries
    let body_hash_ok = true;
    let aux_hash_ok = match (&tx.auxiliary_data, b.auxiliary_data_hash.as_ref()) {
        (conway::Nullable::Some(aux), Some(h)) => aux.compute_hash().as_ref() == h.as_ref(),
        (conway::Nullable::Some(_), None) => false,
        (_, Some(_)) => false,
        (_, None) => true,
    };
    Some(Decoded { gal, body_hash_ok, aux_hash_ok, n_inputs: b.inputs.len(), fee: b.fee })
}

pub struct CompileOut {
    pub kind: u8,
    pub payload: Vec<u8>,
    pub hash: Vec<u8>,
    pub err: String,
}

pub fn compile_const(tx: &tir::Tx, pp: tx3_cardano::PParams) -> CompileOut {
    use tx3_cardano::pallas::ledger::traverse::ComputeHash;
    let res = std::panic::catch_unwind(std::panic::AssertUnwindSafe(|| tx3_cardano::compile::entry_point(tx, &pp)));
    match res {
        Err(_) => CompileOut { kind: 2, payload: vec![], hash: vec![], err: crate::last_panic() },
        Ok(Err(e)) => CompileOut { kind: 1, payload: vec![], hash: vec![], err: e.to_string() },
        Ok(Ok(t)) => {
            let hash = t.transaction_body.compute_hash().to_vec();
            CompileOut { kind: 0, payload: minicbor::to_vec(&t).unwrap(), hash, err: String::new() }
        }
    }
}
