"""Per-property configuration of the driver (see ./check)."""

TB_COMMON = [
    "Coq 8.16.1 kernel + vm_compute (no native_compute); axioms: none (Print Assumptions: Closed under the global context)",
    "std++ 1.8.0 and Coq stdlib as compiled on this image",
    "hand-written Gallina model tied to /repo by differential execution (harness tx3v, canonicalised outcomes printed as Gallina terms)",
]

PROPS = {}

PROPS["C15"] = dict(
    level="proof",
    runner="C15",
    model_files=["Base.v", "Assets.v"],
    proof_files=["Assets_proofs.v", "Assets_wf.v"],
    check_files=["C15_check.v"],
    theorems=["C15_add_comm", "C15_add_assoc", "C15_add_empty", "C15_sub_def", "C15_sub_add_cancel",
              "C15_inverse", "C15_neg_involutive", "C15_eq_semantic", "C15_congruence",
              "C15_contains_order", "C15_exprs_roundtrip", "C15_built_values_well_formed", "C15_exprs_roundtrip_built", "C15_struct_eq_refuted"],
    trusted_base=TB_COMMON + ["i128 overflow of +,-,neg is outside the model (amounts are Z); generated amounts stay below 2^122"],
    assumptions=["no i128 overflow in the generated values", "asset classes in the constructors' normal form for the expression round trip"],
    check_names={101: "a+b = b+a", 102: "(a+b)+c = a+(b+c)", 103: "a-b = a+(-b)", 104: "(a-b)+b = a",
                 105: "== is semantic equality", 106: "(a-b)+b == a per implementation", 107: "contains is component-wise >=",
                 108: "expression round trip"},
)

SELECT_TB = TB_COMMON + [
    "UtxoStore is a trait of the embedding application: the model assumes narrow_refs(by_address) = UTxOs at that address, narrow_refs(by_asset) = UTxOs holding a positive amount, fetch_utxos = the stored UTxOs with those references (the harness store implements exactly this)",
    "hash-set iteration orders and the f64 distance sort are oracle arguments (any order); the traced orders come from the cfg(tx3_verif) hook tx3_resolver::verif",
]

PROPS["C03"] = dict(
    level="proof",
    runner="C03",
    model_files=["Base.v", "Assets.v", "Select.v"],
    proof_files=["Assets_proofs.v", "Select_proofs.v", "Select_flat.v", "Select_complete.v"],
    check_files=["C03_check.v"],
    theorems=["C03_constraints", "C03_meets_is_address_and_ref", "C03_single", "C03_many_covers",
              "C03_single_complete", "C03_many_complete", "C03_candidates_exact", "C03_single_block_served", "C03_many_block_served", "C03_window"],
    partial=["that the candidates of the property reach coin selection (and nothing else does) is a theorem when the search space fits the window of 50 (C03_candidates_exact); beyond the window which UTxOs are topped up is the hash set's choice and completeness is not claimed by the property either; end-to-end completeness is stated for single-UTxO blocks (C03_single_block_served) and for `many` blocks (C03_many_block_served: the candidates handed to coin selection together cover the amount)"],
    trusted_base=SELECT_TB,
    assumptions=["UTxO amounts and min_amount are non-negative", "stores hold at most 50 UTxOs (the property's window)"],
    check_names={101: "selected UTxOs exist in the store", 102: "from/ref constraints", 103: "single input: one UTxO covering min_amount alone",
                 104: "multi input: sum covers min_amount", 105: "collateral is pure lovelace", 106: "UTxO taken by an earlier block",
                 107: "reported unresolved although a candidate (set) covers min_amount"},
)

PROPS["C04"] = dict(
    level="proof",
    runner="C04",
    model_files=["Base.v", "Assets.v", "Select.v"],
    proof_files=["Assets_proofs.v", "Select_proofs.v", "Select_flat.v"],
    check_files=["C03_check.v"],
    theorems=["C04_selections_disjoint", "C04_ignore_invariant", "C04_no_reuse_fails", "C04_flattened_inputs_distinct"],
    partial=["that the body's input list is the concatenation of the blocks' selections is the model of compile_inputs (Compile.v, tied by C02/C08/C10/C14); the theorem says that this concatenation holds no reference twice, and the same is checked on the implementation's output (clause 106)"],
    trusted_base=SELECT_TB,
    assumptions=["input blocks of one transaction have distinct lower-cased names (see DESIGN 5.4)"],
    check_names={106: "a UTxO is bound to two input blocks", 108: "two input blocks of one resolve_tx pass hold the same UTxO (fee loop)", 109: "an accepted program gives two of its blocks (input / collateral) one query name"},
)

TIR_TB = TB_COMMON + [
    "the IR is modelled as one inductive (coq/Tir.v) with hash-map / hash-set payloads as key-sorted lists; the harness prints implementation IRs sorted the same way, and all-constant asset lists are compared up to order (hash-map iteration order)",
    "reduce is modelled with fuel 200 (the code re-reduces its own output once per built-in / coercion / query node); exhaustion is a distinct error never observed in the runs",
    "the compiler's min_utxo is the constant 197 * coins_per_utxo_byte in these runs (fresh compiler, no previous body); script-address construction is modelled as header byte + 28-byte hash",
]

PROPS["C06"] = dict(
    level="proof",
    runner="C06",
    model_files=["Base.v", "Assets.v", "Select.v", "Tir.v", "Reduce.v", "Walk.v"],
    proof_files=["Assets_proofs.v", "Tir_proofs.v", "Reduce_proofs.v", "Reduce_inputs.v", "Reduce_queries.v", "Reduce_closed.v"],
    check_files=["C06_check.v"],
    theorems=["C06_constant_closed", "C06_params_complete", "C06_params_sound", "C06_queries_complete", "C06_apply_args_closes", "C06_apply_inputs_closes",
              "C06_apply_fees_closes", "C06_missing_arg_refused", "C06_all_args_accepted", "C06_reduce_keeps_closed", "C06_tx_reduce_keeps_closed"],
    partial=["preservation of closedness by reduce is a theorem for expressions and whole transactions (C06_reduce_keeps_closed, C06_tx_reduce_keeps_closed) under the hypothesis that the datums of resolved UTxOs are plain data; it is also evaluated per case on the implementation's output (clause 103)",
             "queries_complete is a theorem for templates whose queries do not contain queries (C06_queries_complete); it is also evaluated per case (clause 102)"],
    trusted_base=TIR_TB,
    assumptions=["Param::Set payloads are closed (sets_closed): true of lowered templates and of what apply_* inserts"],
    keep_ids=lambda ids: [x for x in ids if x < 200],
    check_names={101: "unresolved value parameters found by the walk are reported by find_params",
                 102: "unresolved inputs found by the walk are reported by find_queries",
                 103: "after all stages and reduce the walk finds nothing",
                 104: "resolve_tx without a reported argument answers MissingTxArg naming the first missing key",
                 201: "all full schedules that end Ok give the same canonical TIR",
                 202: "reduce(reduce x) = reduce x on every intermediate",
                 203: "full schedules whose compiler stage comes when every operand is available all end in a transaction, or none does (templates whose queries evaluate without error)"},
)

PROPS["C07"] = dict(
    level="proof",
    runner="C07",
    model_files=["Base.v", "Assets.v", "Select.v", "Tir.v", "Reduce.v", "Walk.v"],
    proof_files=["Assets_proofs.v", "Tir_proofs.v", "Reduce_proofs.v", "Reduce_values.v", "Reduce_closed.v", "Reduce_idem.v"],
    check_files=["C06_check.v"],
    theorems=["C07_args_fees_commute", "C07_args_inputs_commute", "C07_fees_inputs_commute", "C07_tx_stages_commute", "C07_values_are_fixed_points",
              "C07_reduce_idempotent_closed", "C07_apply_stages_fill_values"],
    partial=["idempotence of reduce is a theorem for fully applied templates (C07_reduce_idempotent_closed); for partially applied templates, and the independence from the position of the compiler-op and reduce stages, it is checked on every schedule explored (clauses 201-203) and by model/implementation agreement on each schedule",
             "into_datum on a multi-UTxO set depends on hash-set order (pick oracle); generated sets carry one datum"],
    trusted_base=TIR_TB,
    assumptions=["schedules in which a compiler op's operand is not yet available end in a coercion error in model and implementation alike and are not compared"],
    keep_ids=lambda ids: [x for x in ids if x < 100 or 200 <= x < 300],
    check_names={201: "all full schedules that end Ok give the same canonical TIR",
                 202: "reduce(reduce x) = reduce x on every intermediate",
                 203: "full schedules whose compiler stage comes when every operand is available all end in a transaction, or none does (templates whose queries evaluate without error)"},
)

PROPS["C09"] = dict(
    level="proof",
    runner="C09",
    model_files=["Base.v", "Assets.v", "Select.v", "Tir.v", "PlutusData.v", "Surface.v", "Lower.v"],
    proof_files=["PlutusData_proofs.v", "Lower_ctor.v"],
    check_files=["C09_check.v"],
    theorems=["C09_decode_encode", "C09_int_any_size", "C09_bytes_any_length", "C09_constr_tags",
              "C09_fields_in_declaration_order", "C09_map_entries_in_order", "C09_list_elements_in_order", "C09_constructor_is_named_case"],
    partial=["that the implementation's bytes are the model encoder's bytes is byte-for-byte correspondence (exhaustive on constructor index 0..140 and byte lengths 0..100), not a theorem about pallas"],
    trusted_base=TB_COMMON + ["pallas' CBOR writer is environment: the model re-implements heads, tags, definite arrays/maps, bignum tags and 64-byte chunking and is compared byte for byte",
                              "the front-end leg trusts the generator's own denotation (constructor index = case position, fields in declaration order)"],
    assumptions=["integers within +-2^1024, lengths below 2^64"],
    check_names={101: "the specification's reader on the datum bytes recovers the denoted value",
                 102: "the specification's reader on the redeemer bytes recovers the denoted value",
                 103: "datum / redeemer conversion panicked"},
)

LOOP_TB = TB_COMMON + [
    "one pass of the resolver (apply_fees .. compile) is abstract: a function of the compiler state and the fee; the recorded pass traces of the real resolve_tx (through a recording wrapper that implements the public Compiler trait around tx3_cardano::Compiler) instantiate it",
    "payload identity stands for the payload bytes and the hash; 'a payload determines the fee in its body' is a hypothesis of the fixed-point theorem, checked on every recorded pass (decoded body.fee = fee the pass was told)",
]

def _c05_classify(ids, text):
    s = set(ids)
    if s == {110}:
        return "IGNORE"            # left through the round cap but still a fixed point
    if s == {101, 110}:
        return "exit_by_round_cap"
    return None

PROPS["C05"] = dict(
    level="proof",
    runner="C05",
    model_files=["Base.v", "Loop.v"],
    proof_files=["Loop_proofs.v", "Loop_errors.v"],
    check_files=["C05_check.v"],
    theorems=["C05_fee_formula", "C05_converged_fixed_point", "C05_passes_bounded", "C05_round_cap_refuted", "C05_failing_pass_fails_resolution", "C05_failing_pass_no_transaction"],
    partial=["convergence of the loop for the concrete CBOR size function is not a theorem (finding F05-1 is a counterexample); which inputs leave through the round cap is observed"],
    trusted_base=LOOP_TB,
    assumptions=["the pass function is deterministic in (compiler state, fee)"],
    classify=_c05_classify,
    check_names={101: "fee in the body of the returned payload = reported fee", 102: "reported fee = a*|payload| + b + margin",
                 103: "number of passes within max(max_rounds,3)+2", 110: "the loop left through the round cap"},
)

PROPS["C20"] = dict(
    level="proof",
    runner="C20",
    model_files=["Base.v", "Loop.v"],
    proof_files=["Loop_proofs.v"],
    check_files=["C05_check.v"],
    theorems=["C20_history_independent", "C20_history_independent_after_reset"],
    partial=["the theorems are about Loop.v, where resolve starts from the reset state; that resolve_tx resets the real instance (Compiler::reset clears latest_tx_body, the only state a pass reads) is the per-history comparison of clause 101"],
    trusted_base=LOOP_TB,
    assumptions=["a template without min_utxo never reads Compiler.latest_tx_body (reduce_op is the only reader; checked by clause 1 on every such target)"],
    check_names={101: "same payload, hash and fee (or same error variant) as on a fresh instance", 102: "a panic on the reused or the fresh instance"},
)

PROPS["C16"] = dict(
    level="proof",
    runner="C16",
    model_files=["Base.v", "Assets.v", "Select.v", "Tir.v", "PlutusData.v", "Interop.v"],
    proof_files=["PlutusData_proofs.v", "Interop_proofs.v", "Interop_refs.v", "Interop_assemble.v"],
    check_files=["C16_check.v"],
    theorems=["C16_int_dec", "C16_int_number", "C16_int_hex16", "C16_int_out_of_range_rejected", "C16_bool",
              "C16_bytes_hex", "C16_bytes_envelope_hex", "C16_bytes_envelope_base64", "C16_odd_hex_rejected",
              "C16_request_declared_only", "C16_request_args_then_env", "C16_request_args_win", "C16_utxo_ref", "C16_utxo_ref_index_out_of_range"],
    partial=["address round trips go through bech32, an oracle of the model: checked per case (clause 101)",
             "'never panics' is a statement about serde_json / ciborium / the envelope decoders: observed on the malformed stream (clause 103)"],
    trusted_base=TB_COMMON + ["base64 and bech32 decoding are oracle arguments: the crates' own answers on the strings at hand are fed to the model",
                              "serde_json's parsing of numbers is environment: integers it holds as i64/u64 are JNum, everything else JFloat"],
    assumptions=["JSON strings are modelled byte per ascii"],
    check_names={101: "a valid encoding of v is coerced to exactly v / the returned map is the declared subset of args + env",
                 102: "an ill-formed value (or corrupted envelope) is rejected with an error", 103: "panic"},
)

COMPILE_TB = TB_COMMON + [
    "the back end is modelled to an abstract Conway transaction (coq/Compile.v); the harness decodes the real payload with pallas and prints the same abstract view; address parsing, bech32, the address-to-credential projections and native-script decoding of pallas are oracle tables filled from the real functions",
    "the harness crate is built with overflow-checks = true so that unchecked arithmetic shows up as a panic",
]
COMPILE_MODEL = ["Base.v", "Assets.v", "Select.v", "Tir.v", "Reduce.v", "PlutusData.v", "Interop.v", "Compile.v"]

def _only(ids_ok):
    def f(ids):
        return [i for i in ids if ids_ok(i)]
    return f

def _cls(mapping):
    def classify(ids, text):
        s = set(ids)
        if s and s <= set(mapping.keys()):
            return mapping[sorted(s)[0]]
        return None
    return classify

PROPS["C02"] = dict(
    level="proof", runner="C02", model_files=COMPILE_MODEL, proof_files=["Assets_proofs.v", "PlutusData_proofs.v", "Compile_proofs.v", "Compile_values.v"],
    check_files=["Compile_check.v"],
    theorems=["C02_u64_exact_or_error", "C02_u64_out_of_range_is_error", "C02_i64_exact_or_error", "C02_lovelace_exact_in_range",
              "C02_native_exact_in_range", "C02_mint_exact_or_error", "C02_balance_equation", "C02_output_coin_is_exact_sum", "C02_output_coin_overflow_refused", "C02_negative_lovelace_refuted", "C02_negative_native_refuted"],
    partial=["the balance equation is a theorem about the multi-asset algebra (C02_balance_equation); that the compiled transaction of a whole balanced template carries those values is evaluated per case (clauses 101, 104)",
             "i128 overflow in asset arithmetic is an error since the repair 3481f18 and is modelled as such (Reduce.chk_assets, expr_assets_from)"],
    trusted_base=COMPILE_TB, assumptions=["28-byte policies; amounts are closed integer expressions"],
    keep_ids=_only(lambda i: i in (1, 2) or 100 <= i < 120),
    classify=_cls({111: "output_lovelace_outside_u64", 112: "output_native_amount_negative_or_huge"}),
    check_names={101: "every output's lovelace and native amounts equal the exact value of their source expressions",
                 102: "fee exact", 103: "validity slots exact", 104: "mint field = mints - burns, class by class", 105: "metadata integers exact",
                 106: "every withdrawal directive's amount is in the body under its reward account", 107: "every treasury donation's coin is the body's donation",
                 111: "an output's lovelace denotes a value outside [0, 2^64) and compilation succeeded",
                 112: "a native asset entry denotes a negative or >= 2^63 amount and compilation succeeded"},
)
PROPS["C08"] = dict(
    level="proof", runner="C08", model_files=COMPILE_MODEL, proof_files=["Compile_proofs.v", "Compile_sorted.v", "Compile_redeemers.v", "Compile_accounts.v"], check_files=["Compile_check.v"],
    theorems=["C08_sorted_inputs_perm", "C08_sorted_inputs_sorted", "C08_index_is_rank", "C08_index_points_at_item", "C08_order_strict_total",
              "C08_mint_redeemer_points_at_policy", "C08_mint_redeemer_needs_policy", "C08_reward_accounts_sorted", "C08_reward_index_is_ledger_rank", "C08_reward_redeemers_point_at_account", "C08_same_transaction_ranks_by_index_number"],
    partial=["the end-to-end equality of the witness set's redeemer map with the specification-side map is checked per case (clause 201); the theorems cover the mechanism: the looked-up list is the sorted permutation of the body inputs, the index found is the item's rank in the ledger's order, and a mint / burn redeemer carries the position of its own policy or the compilation fails"],
    trusted_base=COMPILE_TB, assumptions=["distinct reward accounts per withdrawal directive in generated cases"],
    keep_ids=_only(lambda i: i in (1, 2, 121, 122) or 200 <= i < 300),
    classify=_cls({121: "many_utxo_input_with_redeemer", 122: "shared_policy_different_redeemers"}),
    check_names={201: "spend and mint redeemers of the decoded witness set = the map built from the source in ledger order",
                 202: "every withdrawal with a redeemer yields a Reward redeemer", 203: "a Reward redeemer's index is the rank of its account in the ledger's order (network, script before key, hash)",
                 121: "a multi-UTxO script input gets a single redeemer", 122: "two mint/burn blocks on one policy with different redeemers collapse to one"},
)
PROPS["C10"] = dict(
    level="translation_validation", runner="C10", model_files=COMPILE_MODEL, proof_files=["Compile_proofs.v", "Compile_reds.v", "Compile_sets.v"], check_files=["Compile_check.v"],
    theorems=["C10_hash_fields_presence", "C10_no_empty_multiasset", "C10_redeemers_strictly_sorted", "C10_redeemer_keys_distinct", "C10_set_fields_distinct", "C10_distinct_keeps_order"],
    partial=["digests, decoder acceptance and byte identity are checked on every emitted payload (clauses 311-316), they are statements about pallas / blake2b",
             "cross-process byte identity (body input order of a multi-UTxO block is hash-set order) is not exercised by the quick tier"],
    trusted_base=COMPILE_TB + ["pallas' decoder and hasher recompute the digests the check compares with"],
    assumptions=[],
    keep_ids=_only(lambda i: i in (1, 2) or 300 <= i < 400),
    classify=_cls({321: "input_named_twice"}),
    check_names={301: "no empty multi-asset map", 302: "no empty set/map field", 321: "the template names one UTxO in two input positions (recorded finding F10-5: the inputs field lists it twice)", 303: "no duplicate inputs", 307: "no duplicate reference inputs, collateral inputs or required signers", 308: "no duplicate certificates (direct probe: one vote delegation directive given 1-3 times)", 304: "network id",
                 305: "script data hash present iff redeemers", 306: "auxiliary data hash present iff metadata",
                 311: "payload decodes as a Conway transaction", 312: "reported hash = Blake2b-256 of the body bytes in the payload",
                 313: "auxiliary data hash = digest of the auxiliary data", 314: "compiling twice gives identical bytes", 316: "script data hash = digest of redeemers + language view"},
)
PROPS["C14"] = dict(
    level="proof", runner="C14", model_files=COMPILE_MODEL, proof_files=["Compile_proofs.v", "Compile_sorted.v", "NoPanic.v", "Compile_accounts.v"], check_files=["Compile_check.v"],
    theorems=["C14_reward_sort_total_on_any_account", "C14_hash_construction_total", "C14_number_conversions_total", "C14_int_arithmetic_total", "C14_utxo_refs_total",
              "C14_compile_never_panics", "C14_reduce_never_panics", "C14_tx_reduce_never_panics", "C14_compiler_ops_never_panic", "C14_np_is_no_panic"],
    partial=["the modelled back end (reduce, compiler ops, compile) is proved to have no reachable panic; that the code is the model is the per-case tie, so that every panic of the implementation on a generated case is a disagreement (clause 1 / id 140), and panics in the stages before compile and in resolve_tx are reported directly (id 147); stack exhaustion and panics inside dependencies can only be observed"],
    trusted_base=COMPILE_TB, assumptions=[],
    keep_ids=_only(lambda i: i in (1, 2) or 140 <= i < 150),
    check_names={140: "the implementation panicked where the model has no panic site", 141: "fixed-size hash from wrong-length bytes", 142: "textual utxo reference", 143: "missing script bytes", 144: "native script decode",
                 145: "arithmetic overflow", 146: "Coerce::IntoScript todo!", 147: "a stage before compile (apply, compiler ops, reduce) panicked on a generated template", 149: "other panic site of the model"},
)

PROPS["C11"] = dict(
    level="proof", runner="C11",
    model_files=["Base.v", "Assets.v", "Select.v", "Tir.v", "Reduce.v", "PlutusData.v", "Serde.v"],
    proof_files=["PlutusData_proofs.v", "Tir_proofs.v", "Serde_proofs.v", "Serde_back.v", "Serde_tx.v"], check_files=["C11_check.v"],
    theorems=["C11_decode_encode", "C11_wire_roundtrip", "C11_expression_roundtrip", "C11_wire_expression_roundtrip",
              "C11_transaction_roundtrip", "C11_wire_transaction_roundtrip", "C11_layout_distinguishes_constructors"],
    partial=["the way back from the data model to the IR is modelled (Serde_back.of_cval, Serde_tx.of_tx) and proved to invert the layout for every expression and every whole transaction; that serde-derive's actual Deserialize is that function is exercised on the implementation (decode, compare canonical forms, same parameters/queries, same result after identical application: clauses 101-103)",
             "'decoding garbage never panics' is a statement about ciborium: observed on the malformed stream (clause 104)"],
    trusted_base=TB_COMMON + ["serde-derive's layout and ciborium's encoder are re-implemented in Serde.v and compared byte for byte with to_bytes on every case"],
    assumptions=["integers are i128; lengths below 2^64"],
    check_names={131: "decoding a nested input kills the process (stack exhaustion) instead of returning an error", 132: "nesting-bomb control", 101: "decode(encode t) has the same canonical form as t", 102: "same reported parameters and queries",
                 103: "identical application gives the same transaction", 104: "decoding malformed bytes panicked or aborted",
                 105: "an unknown or retired version was not refused"},
)

FRONT_TB = TB_COMMON + [
    "the front end is modelled on the generator's own syntax tree (coq/Surface.v): parsing is tied by printing that tree as source text (two layouts) and comparing what the implementation lowers it to with coq/Lower.v; the analyzer's acceptance is modelled in coq/Analyze.v and compared verdict by verdict",
    "the model covers the core of the language (DESIGN 5.1); type aliases, policy constructors with ref/script and tuple variant cases are outside it",
    "Strategy opaque [deep lower_expr] in Lower_proofs.v is a conversion-order hint for the kernel (efficiency only)",
]
FRONT_MODEL = ["Base.v", "Assets.v", "Select.v", "Tir.v", "Reduce.v", "Surface.v", "Lower.v", "Analyze.v"]

PROPS["C13"] = dict(
    level="proof", runner="C13", model_files=FRONT_MODEL, proof_files=["Lower_proofs.v", "Front_proofs.v", "Analyze_names.v"], check_files=["Front_check.v"],
    theorems=["C13_accepted_programs_lower", "C13_accepted_expressions_lower", "C13_static_type_stable", "C13_case_lookup_unambiguous", "C13_case_indexes_distinct"],
    partial=["the theorem is about Analyze.v / Lower.v; that these are the code's analyzer and lowering is the per-case tie (clauses 1-3) on valid and mutated programs"],
    trusted_base=FRONT_TB, assumptions=["programs of the modelled core; asset definitions with literal policy and name"],
    keep_ids=_only(lambda i: i in (1, 2, 3) or 130 <= i < 150),
    classify=_cls({142: "policy_chain_depth"}),
    check_names={142: "policies naming policies through five or more levels: accepted, lowering fails (recorded finding F13-5)", 1: "the analyzer's verdict is the model's", 2: "lowering outcome kind agrees", 3: "lowered IR agrees",
                 130: "Workspace::lower fails or panics on an accepted program", 131: "an accepted program does not lower (unclassified)",
                 132: "accepted, lowering panics: missing field without spread", 133: "accepted, lowering panics: asset constructor without amount",
                 134: "accepted, lowering panics: name of the wrong kind as a value", 135: "accepted, lowering fails: arity / unknown function",
                 136: "accepted, lowering fails: malformed hex literal", 137: "accepted, lowering fails: unresolved chain of definitions",
                 138: "accepted, lowering fails: directive lacks a required field", 139: "accepted, lowering fails: invalid property", 140: "accepted, lowering fails: invalid symbol",
                 141: "a text program outside the modelled core (constructor-form policies; parameters / environment values typed by records, variants, alias chains) is accepted (or panics) and does not lower"},
)
PROPS["C17"] = dict(
    level="proof", runner="C17", needs_tx3c=True, model_files=FRONT_MODEL, proof_files=["Front_proofs.v", "Lower_names.v", "Analyze_names.v"], check_files=["Front_check.v"],
    theorems=["C17_required_keys_are_declared", "C17_argument_keys_do_not_collide", "C17_lowercase_idempotent", "C17_reported_params_sorted", "C17_lower_by_name_unambiguous", "C17_top_level_names_unique"],
    partial=["the theorems are about Lower.v; that the TII file written by tx3c publishes exactly the lower-cased declared names and embeds the IR that lowering produced is checked per emitted file (clauses 171-174)"],
    trusted_base=FRONT_TB + ["the TII is read from the file written by the tx3c binary built from /repo's current tree"],
    assumptions=[],
    keep_ids=_only(lambda i: i in (1, 2, 3, 5) or 170 <= i < 180),
    check_names={171: "every argument key the embedded IR requires is declared by the interface under the same spelling",
                 172: "the envelope in the TII decodes to the IR that lowering produced",
                 173: "two declared names share a key", 174: "a declared name is required by the IR under another spelling",
                 175: "a declared key that the body uses is not reported by find_params of the shipped IR (the server would drop the argument)", 176: "the IR shipped for a sum of 4..40 parameters does not decode to what lowering produced", 5: "find_params of the shipped IR (implementation) = the model's walk of that IR"},
)
PROPS["C18"] = dict(
    level="proof", runner="C18", needs_tx3c=True, model_files=FRONT_MODEL + ["PlutusData.v", "Serde.v"], proof_files=["Front_proofs.v", "Serde_order.v"], check_files=["Front_check.v"],
    theorems=["C18_key_order_independent_of_iteration_order", "C18_key_order_sorted", "C18_key_order_total", "C18_encoding_independent_of_iteration_order"],
    partial=["determinism of parsing and analysis themselves is observed (20 repetitions in process, 3 fresh processes, 3 TII files), not modelled: the Gallina model is a function by construction, the theorem covers the one place where the code iterates a randomly seeded hash map"],
    trusted_base=FRONT_TB, assumptions=["distinct field names per directive (the IR type is a map)"],
    keep_ids=_only(lambda i: i in (1, 2, 3) or 180 <= i < 190),
    check_names={181: "repeated lowering + encoding of one source gives different bytes", 182: "the TII file differs between processes"},
)

PROPS["C01"] = dict(
    level="proof", runner="C01",
    model_files=FRONT_MODEL + ["PlutusData.v", "Interop.v", "Compile.v", "Denote.v"], proof_files=["Assets_proofs.v", "C01_proofs.v", "C01_args.v", "C01_assets.v"], check_files=["Compile_check.v", "C01_check.v"],
    theorems=["C01_integer_arithmetic_exact", "C01_integer_parameters_exact", "C01_multi_asset_arithmetic_exact", "C01_multi_asset_denotation", "C01_subtraction_associates_left"],
    partial=["the unbounded theorems cover integer arithmetic (closed and with integer parameters) and closed multi-asset arithmetic over asset constructors, at the level lower + apply_args + reduce = denotation; for the rest of the core (names by context, records with spread, property access, mint/burn, validity, references, collateral, metadata) and for the compile stage 'pipeline = denotation' is evaluated per generated program: the implementation's decoded transaction against Denote.v (clauses 101-108, 110), and against the composition of the stage models (clauses 1-4)",
             "the pest parser is not modelled: it is tied by printing the generator's tree in two layouts and comparing what the implementation builds from the text",
             "outputs whose denoted amount is negative or beyond the field's range are C02's recorded findings and are skipped by clause 102; which UTxO of a multi-UTxO script input carries the redeemer is C08's (F08-2)"],
    trusted_base=FRONT_TB + COMPILE_TB[3:],
    assumptions=["parameters of the types an argument map can carry (Int, Bool, Bytes, Address, UtxoRef)", "one resolution pass with a given fee (convergence is C05)", "min_utxo is exercised by C05/C20, not here"],
    check_names={1: "lowering outcome kind agrees with the model", 2: "lowered IR agrees", 3: "pipeline outcome kind agrees", 4: "decoded transaction = model pipeline's transaction",
                 101: "inputs are the UTxOs assigned to the input blocks", 102: "outputs (address, lovelace, native assets, inline datum; order) are what the source denotes",
                 103: "mint field = mints - burns as denoted", 104: "validity interval", 105: "reference inputs", 106: "collateral inputs", 107: "metadata", 108: "fee", 109: "inline datums equal the denoted data (independently of the amounts)",
                 110: "the implementation built a transaction for a program the semantics gives no meaning to",
                 161: "another white-space / comment layout of the same program gives different transaction bytes"},
)

PEG_TB = TB_COMMON + [
    "translator `tx3v extract` (harness/src/c12.rs): reads /repo/crates/tx3-lang/src/tx3.pest with pest_meta 2.7.15 (the parser pest itself uses for grammar files) and prints every rule as a Gallina term into coq/gen/Grammar.v on every run; it fails on any construct outside the subset Peg.v interprets",
    "Peg.v re-implements pest's matching semantics (ordered choice, implicit WHITESPACE/COMMENT skipping outside atomic rules, predicates, built-in classes); it is compared with pest's verdict on every generated text (clause 1)",
    "AST construction (parsing.rs) and the analyzer are not modelled here: they are observed under catch_unwind and a 10 s limit",
]
PROPS["C12"] = dict(
    level="proof", runner="C12", uses_gen=True, model_files=["Base.v", "Peg.v", "gen/Grammar.v"], proof_files=["Peg_proofs.v", "Peg_term.v"], check_files=["Peg_check.v"],
    theorems=["C12_grammar_well_formed", "C12_matches_are_prefixes", "C12_verdict_independent_of_fuel", "C12_verdict_unique",
              "C12_checked_grammar_terminates", "C12_every_parse_terminates"],
    partial=["the grammar of the current tree (generated from tx3.pest on every run) is proved to decide every text: recursive descent over it terminates for every input, start rule and position (C12_every_parse_terminates, from three certificates computed and checked inside Coq: nullable rules closed, a rank decreasing along first-position calls, WHITESPACE / COMMENT self-contained), and the answer does not depend on the fuel; that pest's generated parser is this interpreter is the per-text tie (clause 1)",
             "panic-freedom of the AST construction and of the analyzer is observed on the generated texts (clauses 121-123), not proved"],
    trusted_base=PEG_TB, assumptions=["texts up to 2500 bytes, nesting up to 64"],
    keep_ids=_only(lambda i: i == 1 or 120 <= i < 130),
    check_names={1: "acceptance by the generated grammar under Peg.v differs from pest's verdict (or the interpreter ran out of fuel)",
                 121: "parse_string panicked", 122: "analyze panicked", 123: "no answer within 10 s",
                 124: "no answer within 20 s on a small shaped input (child process)", 125: "the front end aborts on a small shaped input (child process, 3 GB)",
                 126: "locals expanded by copy: exponential in reuse (recorded finding)"},
    classify=lambda ids, text: "locals_fanout" if set(ids) == {126} else None,
)
PROPS["C19"] = dict(
    level="proof", runner="C19", uses_gen=True, model_files=["Base.v", "Peg.v", "gen/Grammar.v"], proof_files=["Peg_proofs.v", "Peg_utf8.v"], check_files=["Peg_check.v"],
    theorems=["C19_positions_within_text", "C19_position_is_consumed_length", "C19_matches_end_on_character_boundaries", "C19_tx3_positions_on_character_boundaries"],
    partial=["the theorem bounds the positions of the modelled parser; that the implementation attaches those positions to the text it carries is checked on every diagnostic of every generated erroneous text (clauses 191-194)"],
    trusted_base=PEG_TB, assumptions=[],
    keep_ids=_only(lambda i: i == 1 or 190 <= i < 200),
    check_names={191: "a parse error's label ends outside the text the error carries", 192: "a parse error's label does not fall on character boundaries of that text",
                 193: "an analysis error's span lies outside the input", 194: "a not-in-scope error's span does not cover the reported name"},
)
