"""Per-property configuration of the driver (see ./check)."""

TB_COMMON = [
    "Coq 8.16.1 kernel + vm_compute (no native_compute); axioms: none (Print Assumptions: Closed under the global context)",
    "std++ 1.8.0 and Coq stdlib as compiled on this image",
    "hand-written Gallina model tied to /repo by differential execution (harness tx3v, canonicalised outcomes printed as Gallina terms)",
]

PROPS = {}

PROPS["C15"] = dict(
    level="proof",
    runner="C15",
    model_files=["Base.v", "Assets.v"],
    proof_files=["Assets_proofs.v"],
    check_files=["C15_check.v"],
    theorems=["C15_add_comm", "C15_add_assoc", "C15_add_empty", "C15_sub_def", "C15_sub_add_cancel",
              "C15_inverse", "C15_neg_involutive", "C15_eq_semantic", "C15_congruence",
              "C15_contains_order", "C15_exprs_roundtrip", "C15_struct_eq_refuted"],
    trusted_base=TB_COMMON + ["i128 overflow of +,-,neg is outside the model (amounts are Z); generated amounts stay below 2^122"],
    assumptions=["no i128 overflow in the generated values", "asset classes in the constructors' normal form for the expression round trip"],
    check_names={101: "a+b = b+a", 102: "(a+b)+c = a+(b+c)", 103: "a-b = a+(-b)", 104: "(a-b)+b = a",
                 105: "== is semantic equality", 106: "(a-b)+b == a per implementation", 107: "contains is component-wise >=",
                 108: "expression round trip"},
)
