(** Reduce_values.v — reducing an already reduced template changes nothing: every plain value
    (data without operators, coercions or parameters) is a fixed point of reduce, at every
    sufficient fuel (C07). *)
From Tx3 Require Import Base Tir Tir_proofs Reduce.

(** plain data: what a fully applied and reduced template consists of *)
Fixpoint is_value (e : expr) : bool :=
  match e with
  | ENone | EBytes _ | ENumber _ | EBool _ | EString _ | EAddress _ | EHash _ | EUtxoRefs _ | EUtxoSet _ => true
  | EList _ | EMap _ | ETuple _ _ | EStruct _ _ | EAssets _ | EAdHoc _ _ => forall_children is_value e
  | _ => false
  end.

Lemma omapM_cons2 {A B} (f : A -> outcome B) x xs :
  omapM f (x :: xs) = (y <- f x ;; ys <- omapM f xs ;; Ok (y :: ys)).
Proof. reflexivity. Qed.

Lemma omapM_id (g : expr -> outcome expr) l : (forall x, x ∈ l -> g x = Ok x) -> omapM g l = Ok l.
Proof.
  induction l as [|x l IH]; intros H; [reflexivity|]. rewrite omapM_cons2.
  rewrite (H x) by left. cbn [obind]. rewrite IH; [reflexivity|]. intros y Hy. apply H. right. exact Hy.
Qed.
Lemma omapM2_id (g : expr -> outcome expr) l :
  (forall kv, kv ∈ l -> g (fst kv) = Ok (fst kv) /\ g (snd kv) = Ok (snd kv)) -> omapM2 g l = Ok l.
Proof.
  induction l as [|[k v] l IH]; intros H; [reflexivity|].
  destruct (H (k, v)) as [H1 H2]; [left|]. cbn [fst snd] in H1, H2.
  change (omapM2 g ((k, v) :: l)) with (a' <- g k ;; b' <- g v ;; r' <- omapM2 g l ;; Ok ((a', b') :: r')).
  rewrite H1. cbn [obind]. rewrite H2. cbn [obind]. rewrite IH; [reflexivity|]. intros y Hy. apply H. right. exact Hy.
Qed.
Lemma omapM3_id (g : expr -> outcome expr) l :
  (forall x, x ∈ l -> g (fst (fst x)) = Ok (fst (fst x)) /\ g (snd (fst x)) = Ok (snd (fst x)) /\ g (snd x) = Ok (snd x)) -> omapM3 g l = Ok l.
Proof.
  induction l as [|[[a b] c] l IH]; intros H; [reflexivity|].
  destruct (H (a, b, c)) as (H1 & H2 & H3); [left|]. cbn [fst snd] in H1, H2, H3.
  change (omapM3 g ((a, b, c) :: l)) with (a' <- g a ;; b' <- g b ;; c' <- g c ;; r' <- omapM3 g l ;; Ok ((a', b', c') :: r')).
  rewrite H1. cbn [obind]. rewrite H2. cbn [obind]. rewrite H3. cbn [obind].
  rewrite IH; [reflexivity|]. intros y Hy. apply H. right. exact Hy.
Qed.

Lemma omapMkv_id (g : expr -> outcome expr) (l : list (string * expr)) :
  (forall x, x ∈ l -> g (snd x) = Ok (snd x)) -> omapMkv g l = Ok l.
Proof.
  induction l as [|[k v] l IH]; intros H; [reflexivity|].
  change (omapMkv g ((k, v) :: l)) with (a' <- g v ;; r' <- omapMkv g l ;; Ok ((k, a') :: r')).
  pose proof (H (k, v) ltac:(left)) as Hv. cbn [snd] in Hv. rewrite Hv. cbn [obind]. rewrite IH; [reflexivity|]. intros y Hy. apply H. right. exact Hy.
Qed.

Lemma value_constant e : is_value e = true -> is_constant e = true.
Proof.
  induction e using expr_children_ind. intros Hv.
  destruct e; cbn [is_value] in Hv; try discriminate; cbn [is_constant forall_children] in *; try reflexivity.
  - (* EList *) rewrite forallb_forall in Hv |- *. intros x Hx. apply H; [|apply Hv; exact Hx].
    unfold all_children. cbn. rewrite app_nil_r. apply elem_of_list_In. exact Hx.
  - (* EMap *) rewrite forallb_forall in Hv |- *. intros [k v] Hx. specialize (Hv _ Hx). cbn [fst snd] in *.
    apply andb_true_iff in Hv as [Hk Hv']. apply elem_of_list_In in Hx.
    apply andb_true_iff. split; apply H; try assumption; unfold all_children; cbn; rewrite app_nil_r;
      apply elem_of_list_In, in_flat_map; exists (k, v); (split; [apply elem_of_list_In; exact Hx|cbn; auto]).
  - (* ETuple *) apply andb_true_iff in Hv as [Ha Hb]. apply andb_true_iff. split; apply H; try assumption;
      unfold all_children; cbn; [left|right; left].
  - (* EStruct *) rewrite forallb_forall in Hv |- *. intros x Hx. apply H; [|apply Hv; exact Hx].
    unfold all_children. cbn. rewrite app_nil_r. apply elem_of_list_In. exact Hx.
  - (* EAssets *) rewrite forallb_forall in Hv |- *. intros [[a b] c] Hx. specialize (Hv _ Hx). cbn [fst snd] in *.
    apply andb_true_iff in Hv as [Hv Hc]. apply andb_true_iff in Hv as [Ha Hb]. apply elem_of_list_In in Hx.
    repeat (apply andb_true_iff; split); apply H; try assumption; unfold all_children; cbn; rewrite app_nil_r;
      apply elem_of_list_In, in_flat_map; exists (a, b, c); (split; [apply elem_of_list_In; exact Hx|cbn; auto]).
  - (* EAdHoc *) rewrite forallb_forall in Hv |- *. intros [k v] Hx. cbn [snd]. apply H; [|apply (Hv _ Hx)].
    unfold all_children. cbn. rewrite app_nil_r. apply elem_of_list_In, in_map_iff. exists (k, v). split; [reflexivity|exact Hx].
Qed.

(** a common fuel bound for finitely many expressions *)
Lemma common_bound (P : nat -> expr -> Prop) (l : list expr) :
  (forall c, c ∈ l -> exists n, forall f, (n <= f)%nat -> P f c) ->
  exists n, forall f, (n <= f)%nat -> forall c, c ∈ l -> P f c.
Proof.
  induction l as [|x l IH]; intros H.
  - exists O. intros f _ c Hc. inversion Hc.
  - destruct (H x) as [n1 H1]; [left|]. destruct IH as [n2 H2]; [intros c Hc; apply H; right; exact Hc|].
    exists (Nat.max n1 n2). intros f Hf c Hc. apply elem_of_cons in Hc as [->|Hc]; [apply H1; lia|apply H2; [lia|exact Hc]].
Qed.

Theorem reduce_value_fixed e : is_value e = true ->
  exists f0, forall f, (f0 <= f)%nat -> forall pick, reduce pick f e = Ok e.
Proof.
  induction e using expr_children_ind. intros Hv.
  assert (Hc : is_constant e = true) by (apply value_constant; exact Hv).
  (* children of a value are values *)
  assert (Hch : forall c, c ∈ all_children e -> is_value c = true).
  { intros c Hin. destruct e; cbn [is_value] in Hv; try discriminate; unfold all_children in Hin; cbn in Hin;
      rewrite ?app_nil_r in Hin; try (apply elem_of_nil in Hin; contradiction); cbn [forall_children] in Hv.
    - rewrite forallb_forall in Hv. apply Hv. apply elem_of_list_In. exact Hin.
    - apply elem_of_list_In, in_flat_map in Hin as [[k v] [Hx Hin]]. rewrite forallb_forall in Hv. specialize (Hv _ Hx).
      cbn [fst snd] in Hv. apply andb_true_iff in Hv as [Hk Hv']. cbn in Hin. destruct Hin as [<-|[<-|[]]]; assumption.
    - apply andb_true_iff in Hv as [Ha Hb]. apply elem_of_cons in Hin as [->|Hin]; [exact Ha|]. apply elem_of_list_singleton in Hin as ->. exact Hb.
    - rewrite forallb_forall in Hv. apply Hv. apply elem_of_list_In. exact Hin.
    - apply elem_of_list_In, in_flat_map in Hin as [[[a b] c0] [Hx Hin]]. rewrite forallb_forall in Hv. specialize (Hv _ Hx).
      cbn [fst snd] in Hv. apply andb_true_iff in Hv as [Hv Hc0]. apply andb_true_iff in Hv as [Ha Hb].
      cbn in Hin. destruct Hin as [<-|[<-|[<-|[]]]]; assumption.
    - apply elem_of_list_In, in_map_iff in Hin as [[k v] [<- Hx]]. rewrite forallb_forall in Hv. apply (Hv _ Hx). }
  destruct (common_bound (fun f c => forall pick, reduce pick f c = Ok c) (all_children e)) as [n Hn].
  { intros c Hin. apply H; [exact Hin|apply Hch; exact Hin]. }
  exists (S n). intros f Hf pick. destruct f as [|f]; [lia|]. assert (Hle : (n <= f)%nat) by lia.
  assert (Hkid : forall c, c ∈ all_children e -> reduce pick f c = Ok c) by (intros c Hin; apply Hn; assumption).
  destruct e; cbn [is_value] in Hv; try discriminate; cbn [reduce]; unfold composite_reduce; cbn [mapM_children];
    try (cbn [forall_children]; reflexivity).
  - (* EList *) rewrite omapM_id; [reflexivity|]. intros x Hx. apply Hkid. unfold all_children. cbn. rewrite app_nil_r. exact Hx.
  - (* EMap *) rewrite omapM2_id; [reflexivity|]. intros [k v] Hx. cbn [fst snd].
    split; apply Hkid; unfold all_children; cbn; rewrite app_nil_r; apply elem_of_list_In, in_flat_map; exists (k, v);
      (split; [apply elem_of_list_In; exact Hx|cbn; auto]).
  - (* ETuple *) rewrite (Hkid e1) by (unfold all_children; cbn; left). cbn [obind].
    rewrite (Hkid e2) by (unfold all_children; cbn; right; left). reflexivity.
  - (* EStruct *) rewrite omapM_id.
    + cbn [obind]. cbn [is_constant] in Hc. rewrite Hc. reflexivity.
    + intros x Hx. apply Hkid. unfold all_children. cbn. rewrite app_nil_r. exact Hx.
  - (* EAssets *) rewrite omapM3_id.
    + cbn [obind]. cbn [is_constant] in Hc. rewrite Hc. reflexivity.
    + intros [[a b] c] Hx. cbn [fst snd].
      repeat split; apply Hkid; unfold all_children; cbn; rewrite app_nil_r; apply elem_of_list_In, in_flat_map; exists (a, b, c);
        (split; [apply elem_of_list_In; exact Hx|cbn; auto]).
  - (* EAdHoc *) rewrite omapMkv_id.
    + cbn [obind]. cbn [is_constant] in Hc. rewrite Hc. reflexivity.
    + intros [k v] Hx. cbn [snd]. apply Hkid. unfold all_children. cbn. rewrite app_nil_r.
      apply elem_of_list_In, in_map_iff. exists (k, v). split; [reflexivity|apply elem_of_list_In; exact Hx].
Qed.
