(** Peg_utf8.v — every position the interpreter reaches falls on a character boundary of the
    text: if the grammar's literals and ranges are ASCII (a boolean certificate, computed on the
    grammar generated from tx3.pest), a match against a text made of whole UTF-8 sequences
    leaves a rest made of whole UTF-8 sequences. pest reports the positions at which it tried
    and failed to match; each of them is the start of the text or the end of an earlier match,
    so a location built from them can be rendered with string slicing (property C19). *)
From Tx3 Require Import Base Peg Peg_proofs.

(** continuation bytes are 10xxxxxx *)
Definition is_cont (b : N) : bool := (128 <=? b)%N && (b <? 192)%N.

(** a text is a sequence of characters: a byte that is not a continuation byte, followed by
    as many continuation bytes as that lead byte announces *)
Inductive chars : list N -> Prop :=
| chars_nil : chars []
| chars_cons b tl rest :
    is_cont b = false -> S (length tl) = utf8_len b -> forallb is_cont tl = true ->
    chars rest -> chars (b :: tl ++ rest).

Definition is_ascii (b : N) : bool := (b <? 128)%N.

(** the certificate: literals are ASCII, ranges end below 128 *)
Fixpoint ascii_exp (e : pexp) : bool :=
  match e with
  | PStr s => forallb is_ascii s
  | PRange _ hi => is_ascii hi
  | PIdent _ => true
  | PSeq a b | PChoice a b => ascii_exp a && ascii_exp b
  | POpt a | PRep a | PRepOnce a | PNeg a | PPos a => ascii_exp a
  end.
Definition ascii_grammar (g : grammar) : bool := forallb (fun r => ascii_exp (snd (snd r))) g.

Lemma chars_ascii_tail x r : is_ascii x = true -> chars (x :: r) -> chars r.
Proof.
  intros Hx H. inversion H as [|b tl rest Hc Hl Hf Hr [Hb Ht]]; subst.
  unfold is_ascii in Hx. unfold utf8_len in Hl. rewrite Hx in Hl.
  destruct tl; [exact Hr|cbn in Hl; lia].
Qed.

Lemma chars_drop_char x r : chars (x :: r) -> chars (drop (utf8_len x) (x :: r)).
Proof.
  intros H. inversion H as [|b tl rest Hc Hl Hf Hr [Hb Ht]]; subst.
  rewrite <- Hl. cbn [drop]. rewrite drop_app_alt by reflexivity. exact Hr.
Qed.

Lemma strip_prefix_chars s : forall inp r,
  forallb is_ascii s = true -> strip_prefix s inp = Some r -> chars inp -> chars r.
Proof.
  induction s as [|x s IH]; intros inp r Hs H Hv; cbn [strip_prefix] in H.
  - injection H as <-. exact Hv.
  - destruct inp as [|y inp]; [discriminate|]. destruct (x =? y)%N eqn:E; [|discriminate].
    apply N.eqb_eq in E. subst y. cbn [forallb] in Hs. apply andb_prop in Hs as [Hx Hs].
    eapply IH; [exact Hs|exact H|]. eapply chars_ascii_tail; eassumption.
Qed.

Lemma one_chars p inp pos r pos' :
  (forall x, p x = true -> is_ascii x = true) -> one p inp pos = RMatch r pos' -> chars inp -> chars r.
Proof.
  intros Hp H Hv. unfold one in H. destruct inp as [|x inp]; [discriminate|].
  destruct (p x) eqn:E; [|discriminate]. injection H as <- _. eapply chars_ascii_tail; [apply Hp; exact E|exact Hv].
Qed.

Ltac bools := repeat match goal with
  | H : (_ && _)%bool = true |- _ => apply andb_prop in H as [? ?]
  | H : (_ || _)%bool = true |- _ => apply orb_prop in H as [?|?]
  | H : (_ <=? _)%N = true |- _ => apply N.leb_le in H
  | H : (_ <? _)%N = true |- _ => apply N.ltb_lt in H
  end.
Lemma in_range_ascii lo hi x : is_ascii hi = true -> in_range lo hi x = true -> is_ascii x = true.
Proof. unfold is_ascii, in_range. intros H1 H2. bools. apply N.ltb_lt. lia. Qed.
Lemma is_alpha_ascii x : is_alpha x = true -> is_ascii x = true.
Proof. unfold is_alpha, in_range, is_ascii. intros H. bools; apply N.ltb_lt; lia. Qed.
Lemma is_digit_ascii x : is_digit x = true -> is_ascii x = true.
Proof. unfold is_digit, in_range, is_ascii. intros H. bools; apply N.ltb_lt; lia. Qed.
Lemma is_hex_ascii x : is_hex x = true -> is_ascii x = true.
Proof. unfold is_hex, is_digit, in_range, is_ascii. intros H. bools; apply N.ltb_lt; lia. Qed.

Lemma glookup_ascii g n k body : ascii_grammar g = true -> glookup g n = Some (k, body) -> ascii_exp body = true.
Proof.
  unfold ascii_grammar, glookup. intros Hg H.
  destruct (find (fun r => bool_decide (r.1 = n)) g) as [[n' [k' b']]|] eqn:E; [|discriminate].
  cbn in H. injection H as -> ->. apply find_some in E as [Hin _].
  rewrite forallb_forall in Hg. exact (Hg _ Hin).
Qed.

Section Proofs.
Variable g : grammar.
Hypothesis Hg : ascii_grammar g = true.

Definition skip_exp : pexp := PRep (PChoice (PIdent "WHITESPACE") (PIdent "COMMENT")).
Lemma skip_exp_ascii : ascii_exp skip_exp = true.
Proof. reflexivity. Qed.

Theorem run_chars : forall fuel atomic e inp pos rest pos',
  ascii_exp e = true -> chars inp -> run g fuel atomic e inp pos = RMatch rest pos' -> chars rest.
Proof.
  induction fuel as [|f IH]; intros atomic e inp pos rest pos' He Hv H; [discriminate|].
  assert (Hskip : forall i p r q, chars i ->
            (if atomic then RMatch i p else run g f true skip_exp i p) = RMatch r q -> chars r).
  { intros i p r q Hi Hs. destruct atomic; [injection Hs as <- _; exact Hi|eapply IH; [exact skip_exp_ascii|exact Hi|exact Hs]]. }
  destruct e; cbn [run] in H; fold skip_exp in H; cbn [ascii_exp] in He.
  - (* PStr *) destruct (strip_prefix s inp) eqn:E; [|discriminate]. injection H as <- _. eapply strip_prefix_chars; eassumption.
  - (* PRange *) eapply one_chars; [|exact H|exact Hv]. intros x Hx. eapply in_range_ascii; eassumption.
  - (* PIdent *)
    repeat match type of H with
           | (if bool_decide ?c then _ else _) = _ => destruct (bool_decide c)
           end.
    + (* ANY *) destruct inp as [|x inp]; [discriminate|].
      destruct (utf8_len x <=? length (x :: inp))%nat; [|discriminate]. injection H as <- _.
      apply chars_drop_char; exact Hv.
    + (* SOI *) destruct (pos =? 0)%N; [|discriminate]. injection H as <- _. exact Hv.
    + (* EOI *) destruct inp; [|discriminate]. injection H as <- _. exact Hv.
    + eapply one_chars; [|exact H|exact Hv]. exact is_alpha_ascii.
    + eapply one_chars; [|exact H|exact Hv]. exact is_digit_ascii.
    + eapply one_chars; [|exact H|exact Hv]. intros x Hx. apply orb_prop in Hx as [Hx|Hx]; [apply is_alpha_ascii|apply is_digit_ascii]; exact Hx.
    + eapply one_chars; [|exact H|exact Hv]. exact is_hex_ascii.
    + destruct (glookup g name) as [[k body]|] eqn:El; [|discriminate].
      eapply IH; [eapply glookup_ascii; [exact Hg|exact El]|exact Hv|exact H].
  - (* PSeq *)
    apply andb_prop in He as [He1 He2].
    destruct (run g f atomic e1 inp pos) as [r1 p1| |] eqn:E1; try discriminate.
    match type of H with match ?s with _ => _ end = _ => destruct s as [r2 p2| |] eqn:E2; try discriminate end.
    pose proof (IH _ _ _ _ _ _ He1 Hv E1) as V1. pose proof (Hskip _ _ _ _ V1 E2) as V2.
    eapply IH; [exact He2|exact V2|exact H].
  - (* PChoice *)
    apply andb_prop in He as [He1 He2].
    destruct (run g f atomic e1 inp pos) as [r1 p1| |] eqn:E1; try discriminate.
    + injection H as <- _. eapply IH; [exact He1|exact Hv|exact E1].
    + eapply IH; [exact He2|exact Hv|exact H].
  - (* POpt *)
    destruct (run g f atomic e inp pos) as [r1 p1| |] eqn:E1; try discriminate.
    + injection H as <- _. eapply IH; [exact He|exact Hv|exact E1].
    + injection H as <- _. exact Hv.
  - (* PRep *)
    destruct (run g f atomic e inp pos) as [r1 p1| |] eqn:E1; try discriminate.
    + pose proof (IH _ _ _ _ _ _ He Hv E1) as V1.
      destruct (p1 =? pos)%N; [injection H as <- _; exact V1|].
      match type of H with match ?s with _ => _ end = _ => destruct s as [r2 p2| |] eqn:E2; try discriminate end.
      * destruct (run g f atomic (PRepOnce e) r2 p2) as [r3 p3| |] eqn:E3; try discriminate.
        -- injection H as <- _. eapply (IH atomic (PRepOnce e)); [exact He|eapply Hskip; [exact V1|exact E2]|exact E3].
        -- injection H as <- _. exact V1.
      * injection H as <- _. exact V1.
    + injection H as <- _. exact Hv.
  - (* PRepOnce *)
    destruct (run g f atomic e inp pos) as [r1 p1| |] eqn:E1; try discriminate.
    pose proof (IH _ _ _ _ _ _ He Hv E1) as V1.
    destruct (p1 =? pos)%N; [injection H as <- _; exact V1|].
    match type of H with match ?s with _ => _ end = _ => destruct s as [r2 p2| |] eqn:E2; try discriminate end.
    + destruct (run g f atomic (PRepOnce e) r2 p2) as [r3 p3| |] eqn:E3; try discriminate.
      * injection H as <- _. eapply (IH atomic (PRepOnce e)); [exact He|eapply Hskip; [exact V1|exact E2]|exact E3].
      * injection H as <- _. exact V1.
    + injection H as <- _. exact V1.
  - (* PNeg *)
    destruct (run g f atomic e inp pos) as [r1 p1| |]; try discriminate. injection H as <- _. exact Hv.
  - (* PPos *)
    destruct (run g f atomic e inp pos) as [r1 p1| |]; try discriminate. injection H as <- _. exact Hv.
Qed.

(** from the start of a text: the position reported is the offset of a character boundary *)
Corollary run_position_on_boundary : forall fuel start inp rest pos',
  chars inp -> run g fuel false (PIdent start) inp 0 = RMatch rest pos' ->
  rest = drop (N.to_nat pos') inp /\ chars (drop (N.to_nat pos') inp).
Proof.
  intros fuel start inp rest pos' Hv H.
  destruct (run_adv g _ _ _ _ _ _ _ H) as [c [Hc Hp]].
  assert (Hd : rest = drop (N.to_nat pos') inp).
  { subst inp pos'. replace (N.to_nat (0 + N.of_nat (length c))) with (length c) by lia.
    rewrite drop_app_alt by reflexivity. reflexivity. }
  split; [exact Hd|]. rewrite <- Hd. exact (run_chars _ _ (PIdent start) _ _ _ _ eq_refl Hv H).
Qed.
End Proofs.

(** non-vacuity: a text with two-, three- and four-byte characters is a [chars]; 'é' = C3 A9,
    '€' = E2 82 AC, U+1F600 = F0 9F 98 80 *)
Example chars_example : chars [97; 195; 169; 226; 130; 172; 240; 159; 152; 128; 10]%N.
Proof.
  apply (chars_cons 97 [] _); [reflexivity..|].
  apply (chars_cons 195 [169%N] _); [reflexivity..|].
  apply (chars_cons 226 [130; 172]%N _); [reflexivity..|].
  apply (chars_cons 240 [159; 152; 128]%N _); [reflexivity..|].
  apply (chars_cons 10 [] _); [reflexivity..|]. constructor.
Qed.
(** and a position inside a character is not a boundary *)
Example chars_not_inside : ~ chars [169; 10]%N.
Proof. intros H. inversion H as [|b tl rest Hc]; subst. discriminate Hc. Qed.
