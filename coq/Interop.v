(** Interop.v — model of tx3_resolver::interop (from_json and its helpers) and of
    trp::parse_resolve_request's assembly of the argument map. Strings are Coq strings
    (one [ascii] per byte). base64 and bech32 decoding are external: their results on the
    strings at hand are oracle arguments. *)
From Tx3 Require Export Base Tir.
From Coq Require Export Ascii DecimalString DecimalZ.
Local Open Scope string_scope.

Inductive json :=
| JNull
| JBool (b : bool)
| JNum (z : Z)               (* an integer that serde_json holds as i64/u64 *)
| JFloat                     (* any other number (fraction, exponent, beyond u64 / below i64) *)
| JStr (s : string)
| JArr (l : list json)
| JObj (kvs : list (string * json)).

(** * hex *)
Definition hex_val (c : Ascii.ascii) : option N :=
  let n := Ascii.N_of_ascii c in
  if (48 <=? n)%N && (n <=? 57)%N then Some (n - 48)%N
  else if (97 <=? n)%N && (n <=? 102)%N then Some (n - 87)%N
  else if (65 <=? n)%N && (n <=? 70)%N then Some (n - 55)%N
  else None.
Fixpoint hex_decode (s : string) : option bytes :=
  match s with
  | EmptyString => Some []
  | String a (String b r) =>
    match hex_val a, hex_val b, hex_decode r with
    | Some x, Some y, Some l => Some ((x * 16 + y)%N :: l)
    | _, _, _ => None
    end
  | String _ EmptyString => None       (* odd length *)
  end.
Definition hex_digit (n : N) : Ascii.ascii :=
  Ascii.ascii_of_N (if (n <? 10)%N then n + 48 else n + 87)%N.
Fixpoint hex_encode (b : bytes) : string :=
  match b with
  | [] => EmptyString
  | x :: r => String (hex_digit (x / 16)) (String (hex_digit (x mod 16)) (hex_encode r))
  end.

Definition strip_0x (s : string) : string :=
  match s with String "0"%char (String "x"%char r) => r | _ => s end.
Definition has_hex_prefix (s : string) : bool :=
  match s with String "0"%char (String "x"%char _) => true | _ => false end.
(** interop::hex_to_bytes: one optional 0x prefix *)
Definition hex_to_bytes (s : string) : option bytes := hex_decode (strip_0x s).

(** * integers *)
Definition parse_dec (s : string) : option Z :=
  let '(neg, digits) := match s with
                        | String "-"%char r => (true, r)
                        | String "+"%char r => (false, r)
                        | _ => (false, s)
                        end in
  match NilEmpty.uint_of_string digits with
  | Some Decimal.Nil => None                (* no digit at all *)
  | Some d => Some (if neg then (- Z.of_uint d)%Z else Z.of_uint d)
  | None => None
  end.
Definition dec_string (z : Z) : string := NilEmpty.string_of_int (Z.to_int z).

Definition from_be_signed (b : bytes) : Z :=
  let u := Z.of_N (fold_left (fun acc x => (acc * 256 + x)%N) b 0%N) in
  if (u <? 2 ^ 127)%Z then u else (u - 2 ^ 128)%Z.

Definition string_to_bigint (s : string) : outcome Z :=
  if has_hex_prefix s then
    match hex_to_bytes s with
    | Some b => if (length b =? 16)%nat then Ok (from_be_signed b) else Err "InvalidBytesForNumber"
    | None => Err "InvalidHex"
    end
  else match parse_dec s with
       | Some z => if in_i128 z then Ok z else Err "InvalidBytesForNumber"
       | None => Err "InvalidBytesForNumber"
       end.

Definition value_to_bigint (j : json) : outcome Z :=
  match j with
  | JNum z => Ok z
  | JFloat => Err "NumberCantFit"
  | JStr s => string_to_bigint s
  | JNull => Err "ValueIsNull"
  | _ => Err "ValueIsNotANumber"
  end.

Definition value_to_bool (j : json) : outcome bool :=
  match j with
  | JBool b => Ok b
  | JNum 0 => Ok false
  | JNum 1 => Ok true
  | JStr "true" => Ok true
  | JStr "false" => Ok false
  | _ => Err "ValueIsNotABool"
  end.

(** * bytes *)
Section Oracles.
(** what the base64 / bech32 crates answer on a given string (environment) *)
Variable base64_decode : string -> option bytes.
Variable bech32_decode : string -> option bytes.

Definition obj_get (k : string) (kvs : list (string * json)) : list json :=
  map snd (filter (fun kv => bool_decide (fst kv = k)) kvs).

(** serde: `content` with aliases bytecode / payload; `contentType` with alias encoding;
    a field given twice (under any of its names) is an error, so is a missing one *)
Definition envelope_of (kvs : list (string * json)) : option (string * string) :=
  match (obj_get "content" kvs ++ obj_get "bytecode" kvs ++ obj_get "payload" kvs)%list,
        (obj_get "contentType" kvs ++ obj_get "encoding" kvs)%list with
  | [JStr c], [JStr e] => Some (c, e)
  | _, _ => None
  end.

Definition value_to_bytes (j : json) : outcome bytes :=
  match j with
  | JStr s => match hex_to_bytes s with Some b => Ok b | None => Err "InvalidHex" end
  | JObj kvs =>
    match envelope_of kvs with
    | Some (c, "hex") => match hex_to_bytes c with Some b => Ok b | None => Err "InvalidHex" end
    | Some (c, "base64") => match base64_decode c with Some b => Ok b | None => Err "InvalidBase64" end
    | _ => Err "InvalidBytesEnvelope"
    end
  | _ => Err "ValueIsNotBytes"
  end.

Definition value_to_address (j : json) : outcome bytes :=
  match j with
  | JStr s => match bech32_decode s with
              | Some d => Ok d
              | None => match hex_to_bytes s with Some b => Ok b | None => Err "InvalidHex" end
              end
  | _ => Err "ValueIsNotAnAddress"
  end.

(** split at the first '#' *)
Fixpoint split_hash (s : string) : option (string * string) :=
  match s with
  | EmptyString => None
  | String c r =>
    if Ascii.eqb c "#"%char then Some (EmptyString, r)
    else match split_hash r with Some (a, b) => Some (String c a, b) | None => None end
  end.
Definition parse_u32 (s : string) : option N :=
  let digits := match s with String "+"%char r => r | _ => s end in
  match NilEmpty.uint_of_string digits with
  | Some Decimal.Nil => None
  | Some d => let n := N.of_uint d in if (n <? 2 ^ 32)%N then Some n else None
  | None => None
  end.
Definition value_to_utxo_ref (j : json) : outcome utxo_ref :=
  match j with
  | JStr s =>
    match split_hash s with
    | Some (t, i) =>
      match hex_decode t, parse_u32 i with
      | Some txid, Some idx => Ok (mk_ref txid idx)
      | _, _ => Err "InvalidUtxoRef"
      end
    | None => Err "InvalidUtxoRef"
    end
  | _ => Err "ValueIsNotUtxoRef"
  end.

Definition string_bytes (s : string) : bytes := map Ascii.N_of_ascii (list_ascii_of_string s).

Definition value_to_undefined (j : json) : outcome arg_value :=
  match j with
  | JBool b => Ok (ArgBool b)
  | JNum z => Ok (ArgInt z)
  | JFloat => Err "NumberCantFit"
  | JStr s => Ok (ArgString (string_bytes s))
  | _ => Err "CantInferTypeForValue"
  end.

Definition from_json (j : json) (t : ty) : outcome arg_value :=
  match t with
  | TInt => z <- value_to_bigint j ;; Ok (ArgInt z)
  | TBool => b <- value_to_bool j ;; Ok (ArgBool b)
  | TBytes => b <- value_to_bytes j ;; Ok (ArgBytes b)
  | TAddress => a <- value_to_address j ;; Ok (ArgAddress a)
  | TUtxoRef => r <- value_to_utxo_ref j ;; Ok (ArgUtxoRef r)
  | TUndefined => value_to_undefined j
  | _ => Err "TargetTypeNotSupported"
  end.

(** * request assembly (trp::parse_resolve_request after the envelope is decoded):
    declared parameters from `args`, then from `env` for those not yet supplied *)
Definition lookup_s {A} (k : string) (m : list (string * A)) : option A :=
  option_map snd (find (fun kv => bool_decide (fst kv = k)) m).

Fixpoint assemble_from (params : list (string * ty)) (src : list (string * json))
         (acc : list (string * arg_value)) (skip_present : bool) : outcome (list (string * arg_value)) :=
  match src with
  | [] => Ok acc
  | (k, v) :: r =>
    if skip_present && bool_decide (is_Some (lookup_s k acc)) then assemble_from params r acc skip_present
    else match lookup_s k params with
         | Some t => a <- from_json v t ;; assemble_from params r (acc ++ [(k, a)])%list skip_present
         | None => assemble_from params r acc skip_present
         end
  end.

Definition assemble (params : list (string * ty)) (args env : list (string * json))
  : outcome (list (string * arg_value)) :=
  a <- assemble_from params args [] false ;; assemble_from params env a true.
End Oracles.
