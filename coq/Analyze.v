(** Analyze.v — model of the acceptance decision of tx3_lang::analyzing on the core of the
    language: which programs produce an empty report. Name resolution is Lower.resolve; the
    checks are the ones the code makes (names in scope, struct type / case kinds, the few type
    expectations, metadata keys and sizes, optional outputs without datum). *)
From Tx3 Require Export Lower.

Section Analyze.
Variable p : sprogram.

(** a type written in a scope: custom names only have to be in scope (of any kind) *)
Fixpoint ty_ok (in_scope : string -> bool) (ty : sty) : bool :=
  match ty with
  | SCustom n => in_scope n
  | SList x => ty_ok in_scope x
  | SMap k v => ty_ok in_scope k && ty_ok in_scope v
  | _ => true
  end.

Definition prog_scope (n : string) : bool := match resolve_prog p n with Some _ => true | None => false end.

Section Tx.
Variable t : stx.
Definition in_scope (n : string) : bool := match resolve p t n with Some _ => true | None => false end.

Definition forall_pairs {A B} (f : A -> bool) (g : B -> bool) : list (A * B) -> bool :=
  fix go l := match l with [] => true | x :: r => f (fst x) && g (snd x) && go r end.

(** a name used as a value must denote one *)
Definition value_kind (n : string) : bool :=
  match resolve p t n with
  | Some (SymType _ | SymAsset _ _ | SymFunction _) => false
  | Some _ => true
  | None => false
  end.

(** Type::property_index is defined *)
Definition has_property (ty : sty) (prop : sexpr) : bool :=
  match ty with
  | SAnyAsset | SUtxoRef | SCustom _ =>
    match prop with
    | SId f => match index_of (fun kv => bool_decide (fst kv = f)) (properties p ty) with Some _ => true | None => false end
    | _ => false
    end
  | SList _ => bool_decide (target_type p t ldepth prop = Some SInt)
  | _ => false
  end.

Definition hex_ok (e : sexpr) : bool := match e with SHexOdd => false | _ => true end.

Fixpoint expr_ok (e : sexpr) : bool :=
  match e with
  | SNum _ | SBoolLit _ | SStr _ | SHex _ | SUnit | SRefLit _ _ => true
  | SHexOdd => false
  | SId n => value_kind n
  | SAddE a b | SSubE a b | SConcat a b => expr_ok a && expr_ok b
  | SNegE a => expr_ok a
  | SPropE o f =>
    expr_ok o
    && (match field_type p (target_type p t ldepth o) f with Some _ => true | None => value_kind f end)
    && (match target_type p t ldepth o with Some ty => has_property ty (SId f) | None => false end)
  | SIndex o idx =>
    expr_ok o
    && (match idx with
        | SId f => match field_type p (target_type p t ldepth o) f with Some _ => true | None => value_kind f end
        | _ => expr_ok idx
        end)
    && (match target_type p t ldepth o with Some ty => has_property ty idx | None => false end)
  | SStruct tyname case fields spread =>
    match resolve p t tyname with
    | Some (SymType td) =>
      let cname := from_option id "Default"%string case in
      match option_map snd (find (fun cs => bool_decide (fst cs = cname)) (td_cases td)) with
      | Some decl =>
        forall_pairs (fun f => match find (fun kv => bool_decide (fst kv = f)) decl with Some _ => true | None => in_scope f end)
                     expr_ok fields
        && match spread with
           | Some s => expr_ok s
           | None => forallb (fun fd => match find (fun kv => bool_decide (fst kv = fst fd)) fields with Some _ => true | None => false end) decl
           end
      | None => false
      end
    | _ => false
    end
  | SListE xs => forallb expr_ok xs
  | SMapE kvs => forall_pairs expr_ok expr_ok kvs
  | SAnyAssetE a b c => expr_ok a && expr_ok b && expr_ok c
  | SCall f args =>
    in_scope f && forallb expr_ok args
    && (if bool_decide (f = "min_utxo"%string) || bool_decide (f = "slot_to_time"%string) || bool_decide (f = "time_to_slot"%string)
        then (length args =? 1)%nat
        else if bool_decide (f = "tip_slot"%string) then (length args =? 0)%nat
        else match resolve p t f with
             | Some (SymAsset pol name) => hex_ok pol && hex_ok name && negb (length args =? 0)%nat
             | _ => false
             end)
  end.

Definition declared_field (tyname : string) (case : option string) (fld : string) : bool :=
  match resolve p t tyname with
  | Some (SymType td) =>
    match option_map snd (find (fun cs => bool_decide (fst cs = from_option id "Default"%string case)) (td_cases td)) with
    | Some decl => match find (fun kv => bool_decide (fst kv = fld)) decl with Some _ => true | None => false end
    | None => false
    end
  | _ => false
  end.

(** Identifier::is_resolved followed through the copies kept in the symbols of locals and
    inputs (what lowering will walk); [d] as in Lower.lower_expr *)
Fixpoint ty_has_custom (ty : sty) : bool :=
  match ty with SCustom _ => true | SList x => ty_has_custom x | SMap k v => ty_has_custom k || ty_has_custom v | _ => false end.

Fixpoint deep (fuel : nat) (d : nat) (e : sexpr) {struct fuel} : bool :=
  match fuel with
  | O => false
  | S f =>
    let dopt := fun (o : option sexpr) => match o with Some x => deep f d x | None => true end in
    match e with
    | SNum _ | SBoolLit _ | SStr _ | SHex _ | SHexOdd | SUnit | SRefLit _ _ => true
    | SId n =>
      match d with
      | O => false
      | S d' =>
        match resolve p t n with
        | Some (SymLocal x) => deep f d' x
        | Some (SymInput i) =>
          let dopt' := fun (o : option sexpr) => match o with Some x => deep f d' x | None => true end in
          dopt' (in_from i) && dopt' (in_min i) && dopt' (in_ref i) && dopt' (in_redeemer i)
          && match in_datum_is i with Some ty => negb (ty_has_custom ty) || negb (d' =? 0)%nat | None => true end
        | Some _ => true
        | None => false
        end
      end
    | SAddE a b | SSubE a b | SConcat a b => deep f d a && deep f d b
    | SNegE a => deep f d a
    | SPropE o fld =>
      negb (d =? 0)%nat && deep f d o
      && (match field_type p (target_type p t d o) fld with Some _ => true | None => deep f d (SId fld) end)
    | SIndex o idx => deep f d o && deep f d idx
    | SStruct tyname case fields spread =>
      negb (d =? 0)%nat && forallb (fun kv => deep f d (snd kv)) fields && dopt spread
      (* a field name that is not a field of the case denotes whatever the enclosing scope
         binds it to, and that definition is followed too *)
      && forallb (fun kv => if declared_field tyname case (fst kv) then true else deep f d (SId (fst kv))) fields
    | SListE xs => forallb (deep f d) xs
    | SMapE kvs => forallb (fun kv => deep f d (fst kv) && deep f d (snd kv)) kvs
    | SAnyAssetE a b c => deep f d a && deep f d b && deep f d c
    | SCall _ args => negb (d =? 0)%nat && forallb (deep f d) args
    end
  end.

Definition opt_ok (o : option sexpr) : bool := match o with Some e => expr_ok e | None => true end.
Definition has_type (ty : sty) (e : sexpr) : bool := bool_decide (target_type p t ldepth e = Some ty).

Definition lit_size (e : sexpr) : nat :=
  match e with SStr s => length s | SHex b => length b | _ => 0 end.

Definition metadata_ok (kv : sexpr * sexpr) : bool :=
  expr_ok (fst kv) && expr_ok (snd kv)
  && match fst kv with
     | SNum _ => true
     | SId n => bool_decide (sym_type (resolve p t n) = Some SInt)
     | _ => false
     end
  && (lit_size (snd kv) <=? 64)%nat.

Definition directive_ok (d : sdirective) : bool :=
  match d with
  | DWithdrawal from amount redeemer =>
    opt_ok from && opt_ok redeemer && match amount with Some a => expr_ok a && has_type SInt a | None => false end
    && match from with Some _ => true | None => false end
  | DPlutusWitness v s => opt_ok v && opt_ok s
  | DNativeWitness s => opt_ok s
  | DDonation c => expr_ok c && has_type SInt c
  | DPublish a b c d e => opt_ok a && opt_ok b && opt_ok c && opt_ok d && opt_ok e
  | DVoteDelegation a b => expr_ok a && expr_ok b
  end.

(** parameters, parties and environment values share one argument map keyed by lower-cased name *)
Definition arg_names_ok : bool :=
  nodupb (map to_lower (map fst (sp_env p) ++ sp_parties p ++ map fst (st_params t))).

(** input blocks are keyed by their lower-cased name *)
(** the collateral block is resolved through the same query map, under the name "collateral" *)
Definition input_names_ok : bool :=
  nodupb ((match st_collateral t with [] => [] | _ => ["collateral"%string] end) ++ map (fun i => to_lower (in_name i)) (st_inputs t)).

Definition tx_shallow_ok : bool :=
  arg_names_ok
  && input_names_ok
  && forallb (fun pt => ty_ok prog_scope (snd pt)) (st_params t)
  && forallb (fun l => expr_ok (snd l)) (st_locals t)
  && forallb (fun i => opt_ok (in_from i) && opt_ok (in_min i) && opt_ok (in_ref i) && opt_ok (in_redeemer i)
                       && match in_datum_is i with Some ty => ty_ok in_scope ty | None => true end) (st_inputs t)
  && forallb (fun o => opt_ok (so_to o) && opt_ok (so_amount o) && opt_ok (so_datum o)
                       && negb (so_optional o && match so_datum o with Some _ => true | None => false end)) (st_outputs t)
  && forallb (fun m => opt_ok (sm_amount m) && opt_ok (sm_redeemer m)) (st_mints t ++ st_burns t)
  && forallb directive_ok (st_directives t)
  && match st_validity t with Some (a, b) => opt_ok a && opt_ok b | None => true end
  && match st_metadata t with Some kvs => forallb metadata_ok kvs | None => true end
  && match st_signers t with Some ss => forallb expr_ok ss | None => true end
  && forallb (fun r => expr_ok (snd r)) (st_references t)
  && forallb (fun c => opt_ok (fst (fst c)) && opt_ok (snd (fst c)) && opt_ok (snd c)) (st_collateral t).

Definition deep_top (e : sexpr) : bool := deep lfuel ldepth e.
Definition deep_opt (o : option sexpr) : bool := match o with Some e => deep_top e | None => true end.
Definition directive_exprs (d : sdirective) : list (option sexpr) :=
  match d with
  | DWithdrawal a b c => [a; b; c]
  | DPlutusWitness a b => [a; b]
  | DNativeWitness a => [a]
  | DDonation a => [Some a]
  | DPublish a b c d e => [a; b; c; d; e]
  | DVoteDelegation a b => [Some a; Some b]
  end.

(** TxDef::is_resolved: every block except the parameter list *)
Definition tx_deep_ok : bool :=
  forallb (fun i => deep_opt (in_from i) && deep_opt (in_min i) && deep_opt (in_ref i) && deep_opt (in_redeemer i)) (st_inputs t)
  && forallb (fun o => deep_opt (so_to o) && deep_opt (so_amount o) && deep_opt (so_datum o)) (st_outputs t)
  && forallb (fun m => deep_opt (sm_amount m) && deep_opt (sm_redeemer m)) (st_mints t ++ st_burns t)
  && forallb (fun l => deep_top (snd l)) (st_locals t)
  && forallb (fun d => forallb deep_opt (directive_exprs d)) (st_directives t)
  && match st_validity t with Some (a, b) => deep_opt a && deep_opt b | None => true end
  && match st_metadata t with Some kvs => forallb (fun kv => deep_top (fst kv) && deep_top (snd kv)) kvs | None => true end
  && match st_signers t with Some ss => forallb deep_top ss | None => true end
  && forallb (fun r => deep_top (snd r)) (st_references t)
  && forallb (fun c => deep_opt (fst (fst c)) && deep_opt (snd (fst c)) && deep_opt (snd c)) (st_collateral t).

Definition tx_ok : bool := tx_shallow_ok && tx_deep_ok.
End Tx.

(** program-level checks: asset definitions are literals of type Bytes; field types resolve *)
Definition lit_bytes (e : sexpr) : bool := match e with SStr _ | SHex _ | SHexOdd => true | _ => false end.
Definition names_distinct : bool :=
  nodupb (map st_name (sp_txs p))
  && nodupb (map fst (sp_env p) ++ sp_parties p ++ map fst (sp_policies p) ++ map (fun a => fst (fst a)) (sp_assets p) ++ map td_name (sp_types p))
  && forallb (fun td => nodupb (map fst (td_cases td)) && forallb (fun cs => nodupb (map fst (snd cs))) (td_cases td)) (sp_types p).
Definition program_ok : bool :=
  (names_distinct && nodupb (map to_lower (map fst (sp_env p) ++ sp_parties p)))
  && forallb (fun a => lit_bytes (snd (fst a)) && lit_bytes (snd a)) (sp_assets p)
  && forallb (fun td => forallb (fun cs => forallb (fun f => ty_ok prog_scope (snd f)) (snd cs)) (td_cases td)) (sp_types p).

Definition analyze_ok : bool := program_ok && forallb tx_ok (sp_txs p).
End Analyze.
