(** Reduce_inputs.v — supplying UTxOs for every reported query leaves no input placeholder
    anywhere in the template, nested queries included (C06). *)
From Tx3 Require Import Base Tir Tir_proofs Reduce Walk Reduce_proofs.

Theorem apply_inputs_closes ins e :
  sets_closed e = true ->
  (forall q, q ∈ map fst (queries e) -> q ∈ map fst ins) ->
  forall n, (UInput, n) ∉ unresolved (apply_inputs ins e).
Proof.
  induction e as [e IH] using expr_children_ind. intros Hs Hq n Hin.
  destruct (is_param e) eqn:Ep.
  - destruct e; cbn in Ep; try discriminate; cbn in Hs, Hin.
    + (* EParamSet *) destruct (unresolved e); [|discriminate]. apply elem_of_nil in Hin. contradiction.
    + (* EExpectValue *) apply elem_of_list_singleton in Hin. discriminate.
    + (* EExpectInput: reported, hence supplied, hence replaced by the set *)
      cbn [queries map fst] in Hq.
      destruct (lookup_arg n0 ins) as [us|] eqn:El.
      * cbn in Hin. apply elem_of_nil in Hin. contradiction.
      * apply lookup_arg_fresh in El. apply El. apply Hq. left.
    + (* EExpectFees *) apply elem_of_list_singleton in Hin. discriminate.
  - rewrite apply_inputs_generic in Hin by exact Ep.
    rewrite unresolved_generic in Hin by (rewrite is_param_map_children; exact Ep).
    rewrite flat_children_spec, children_map_children in Hin.
    rewrite sets_closed_generic, forall_children_spec in Hs by exact Ep.
    apply elem_of_flat_map in Hin as [c' [Hc' Hin]].
    apply elem_of_list_fmap in Hc' as [c [-> Hc]].
    eapply IH; [apply child_all; exact Hc | | | exact Hin].
    + rewrite forallb_forall in Hs. apply Hs. apply elem_of_list_In. exact Hc.
    + intros q Hqc. apply Hq. rewrite queries_generic by exact Ep. rewrite flat_children_spec.
      apply elem_of_list_fmap in Hqc as [x [-> Hx]]. apply elem_of_list_fmap. exists x. split; [reflexivity|].
      apply elem_of_flat_map. exists c. split; assumption.
Qed.
