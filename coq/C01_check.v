(** C01_check.v — the whole pipeline. The model pipeline is the composition of the models of
    the stages (Lower, Reduce, Compile); it is compared with the implementation's decoded
    transaction (tie), and the implementation's transaction is compared, field by field, with
    the independent denotation of the source program (Denote.v). *)
From Tx3 Require Import Base Assets Tir Reduce PlutusData Compile Surface Lower Analyze Denote.
From Tx3 Require Compile_check.

Record case := mk_case {
  c_prog : sprogram; c_tx : string;
  c_args : args_map; c_ins : inputs_map; c_fee : Z;
  c_mainnet : bool; c_slot : Z; c_time : Z;
  c_oracles : Compile_check.oracles_c; c_cost_models : list N;
  c_accepted : bool;
  c_lower_kind : N; c_tir : option tx;
  c_kind : N;                      (* whole pipeline: 0 Ok, 1 Err, 2 panic *)
  c_atx : option atx;
  c_layout_same : bool }.          (* another layout of the same program gives the same transaction bytes *)

Definition kind_of {A} (x : outcome A) : N := match x with Ok _ => 0%N | Err _ => 1%N | _ => 2%N end.

Definition cfg_of (c : case) : cfg := mk_cfg (c_mainnet c) (c_slot c) (c_time c) (fun _ => Err "min_utxo is outside C01").

Definition pipeline (c : case) : outcome atx :=
  let o := c_oracles c in
  t0 <- lower (c_prog c) (c_tx c) ;;
  t3 <- tx_reduce 0 (tx_apply_fees (c_fee c) (tx_apply_args (c_args c) t0)) ;;
  t4 <- tx_visit 0 (cfg_of c) t3 ;;
  t5 <- tx_reduce 0 t4 ;;
  t7 <- tx_reduce 0 (tx_apply_inputs (c_ins c) t5) ;;
  compile_tx (c_mainnet c) (Compile_check.tab (Compile_check.oc_parse o) None) (Compile_check.tab (Compile_check.oc_of_string o) None)
             (Compile_check.tab (Compile_check.oc_keyhash o) None) (Compile_check.tab (Compile_check.oc_reward o) None)
             (Compile_check.tab (Compile_check.oc_native o) false)
             (fun v => bool_decide (v ∈ c_cost_models c)) t7.

(** which UTxO of a multi-UTxO script input carries the redeemer is C08's matter (F08-2) *)
Definition no_redeemers (a : atx) : atx :=
  mk_atx (a_inputs a) (a_outputs a) (a_fee a) (a_mint a) (a_ttl a) (a_start a) (a_withdrawals a) (a_donation a) (a_signers a)
         (a_refs a) (a_collateral a) (a_network a) (option_map (fun _ => []) (a_redeemers a)) (a_metadata a) (a_native_scripts a) (a_plutus a)
         (a_has_script_data_hash a) (a_has_aux_hash a).

Definition env_of (c : case) : denv := mk_denv (c_args c) (c_ins c) (c_fee c) (c_mainnet c) (c_slot c) (c_time c).

Definition the_tx (c : case) : option stx := find (fun t => bool_decide (st_name t = c_tx c)) (sp_txs (c_prog c)).

Definition ref_pair (r : utxo_ref) : bytes * Z := (r_txid r, Z.of_N (r_idx r)).
Definition same_set {A} `{EqDecision A} (x y : list A) : bool :=
  forallb (fun a => bool_decide (a ∈ y)) x && forallb (fun a => bool_decide (a ∈ x)) y.

Definition mint_assets (a : atx) : assets :=
  strip (list_to_map (flat_map (fun pm => map (fun na => (Defined (fst pm) (fst na), snd na)) (snd pm)) (from_option id [] (a_mint a)))).

Definition metadatum_of (v : val) : option metadatum :=
  match v with VInt z => Some (MInt z) | VStr s => Some (MText s) | VBytes b => Some (MBytes b) | _ => None end.

(** the clauses of C01, evaluated on the implementation's decoded transaction [a] *)
Definition clauses (c : case) (d : dtx) (a : atx) : list (N * bool) :=
  [ (101%N, same_set (map ref_pair (d_inputs d)) (a_inputs a));
    (102%N, existsb (fun v => Compile_check.lovelace_neg v || Compile_check.native_bad v) (d_declared_values d)   (* C02's recorded classes *)
            || (length (d_outputs d) =? length (a_outputs a))%nat
            && forallb (fun p => let (x, y) := p : dout * aout in
                                 bool_decide (do_addr x = ao_addr y)
                                 && (Compile_check.lovelace_neg (do_value x) || Compile_check.native_bad (do_value x)   (* C02's recorded classes *)
                                     || eq_impl (do_value x) (Compile_check.out_assets y))
                                 && bool_decide (option_map PlutusData.encode (do_datum x) = ao_datum y))
                       (zip (d_outputs d) (a_outputs a)));
    (103%N, eq_impl (d_mint d) (mint_assets a));
    (104%N, bool_decide (a_start a = d_since d) && bool_decide (a_ttl a = d_until d));
    (105%N, same_set (map ref_pair (d_refs d)) (from_option id [] (a_refs a)));
    (106%N, same_set (map ref_pair (d_collateral d)) (from_option id [] (a_collateral a)));
    (107%N, let keys := map fst (d_metadata d) in
            if negb (nodupb keys) then true     (* a later entry with the same key replaces the earlier one *)
            else forallb (fun kv => match metadatum_of (snd kv) with
                                    | Some m => bool_decide ((fst kv, m) ∈ from_option id [] (a_metadata a))
                                    | None => true end) (d_metadata d)
                 && (length (from_option id [] (a_metadata a)) =? length (d_metadata d))%nat);
    (108%N, a_fee a =? d_fee d);
    (* the inline datums on their own: they do not depend on whether an amount falls into C02's classes *)
    (109%N, negb (length (d_outputs d) =? length (a_outputs a))%nat
            || forallb (fun p => let (x, y) := p : dout * aout in
                                 negb (bool_decide (do_addr x = ao_addr y))
                                 || bool_decide (option_map PlutusData.encode (do_datum x) = ao_datum y))
                       (zip (d_outputs d) (a_outputs a))) ].

Definition checks (c : case) : list (N * bool) :=
  let m := pipeline c in
  [ (1%N, (kind_of (lower (c_prog c) (c_tx c)) =? c_lower_kind c)%N || negb (c_accepted c));
    (2%N, match lower (c_prog c) (c_tx c), c_tir c with
          | Ok t, Some t' => tx_eqb (tx_canon t) (tx_canon t')
          | _, _ => true end);
    (3%N, (kind_of m =? c_kind c)%N || negb (c_accepted c));
    (4%N, match m, c_atx c with
          | Ok a, Some a' => bool_decide (no_redeemers (Compile_check.canon_atx a) = no_redeemers (Compile_check.canon_atx a'))
          | Ok _, None => negb (c_accepted c)
          | _, _ => true end);
    (161%N, c_layout_same c) ] ++
  match c_atx c, the_tx c with
  | Some a, Some t =>
    match denote_tx (c_prog c) t (env_of c) with
    | Some d => (110%N, true) :: clauses c d a
    | None => [(110%N, false)]          (* the implementation built a transaction the semantics gives no meaning to *)
    end
  | _, _ => []
  end.

Definition failed (c : case) : list N := map fst (filter (fun x => negb (snd x)) (checks c)).
Fixpoint run_from (i : N) (cs : list case) : list (N * list N) :=
  match cs with
  | [] => []
  | c :: r => match failed c with [] => run_from (i + 1)%N r | f => (i, f) :: run_from (i + 1)%N r end
  end.
Definition run (cs : list case) := run_from 0%N cs.
