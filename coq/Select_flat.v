(** Select_flat.v — the input list of the transaction body is the concatenation of the blocks'
    selections: over a store without repeated references it holds no reference twice (C04). *)
From Tx3 Require Import Base Assets Select Select_proofs.

Lemma NoDup_map_filter {A B} (f : A -> B) (P : A -> Prop) `{forall x, Decision (P x)} (l : list A) :
  NoDup (map f l) -> NoDup (map f (filter P l)).
Proof.
  induction l as [|x l IH]; intros Hnd; [constructor|]. cbn in Hnd. apply NoDup_cons in Hnd as [Hx Hnd].
  rewrite filter_cons. destruct (decide (P x)); [|apply IH; exact Hnd].
  cbn. apply NoDup_cons. split; [|apply IH; exact Hnd].
  intros Hin. apply Hx. apply elem_of_list_fmap in Hin as [y [-> Hy]]. apply elem_of_list_filter in Hy as [_ Hy].
  apply elem_of_list_fmap. exists y. split; [reflexivity|exact Hy].
Qed.

Lemma order_by_refs ord l r : r ∈ map u_ref (order_by ord l) -> r ∈ ord.
Proof.
  unfold order_by. induction ord as [|x ord IH]; cbn; intros Hin; [apply elem_of_nil in Hin; contradiction|].
  destruct (find _ l) as [u|] eqn:Ef.
  - cbn in Hin. apply elem_of_cons in Hin as [->|Hin]; [|right; apply IH; exact Hin].
    apply find_some in Ef as [_ Hu]. apply bool_decide_eq_true in Hu. rewrite Hu. left.
  - right. apply IH. exact Hin.
Qed.

Lemma order_by_nodup ord l : NoDup ord -> NoDup (map u_ref (order_by ord l)).
Proof.
  unfold order_by. induction ord as [|x ord IH]; intros Hnd; cbn; [constructor|].
  apply NoDup_cons in Hnd as [Hx Hnd]. destruct (find _ l) as [u|] eqn:Ef; [|apply IH; exact Hnd].
  cbn. apply NoDup_cons. split; [|apply IH; exact Hnd].
  apply find_some in Ef as [_ Hu]. apply bool_decide_eq_true in Hu. rewrite Hu.
  intros Hin. apply Hx. eapply order_by_refs. exact Hin.
Qed.

Lemma prune_nodup fuel : forall matched target scans,
  NoDup (map u_ref matched) -> NoDup (map u_ref (prune fuel matched target scans)).
Proof.
  induction fuel as [|f IH]; intros matched target scans Hnd; cbn [prune]; [exact Hnd|].
  destruct (find_first_excess matched target (hd [] scans)); [|exact Hnd].
  apply IH. unfold remove_utxo. apply NoDup_map_filter. exact Hnd.
Qed.

(** one block's selection holds no reference twice, whatever the store order, provided the
    oracle for the candidates' order is an order (no repeated reference) *)
Theorem select_nodup st sp q ign o :
  NoDup (o_sorted o) -> NoDup (map u_ref (select st sp q ign o)).
Proof.
  intros Ho. unfold select.
  pose proof (order_by_nodup (o_sorted o) (fetched_cands st sp q ign (o_fill o)) Ho) as Hc.
  destruct (q_many q).
  - unfold pick_many. destruct (greedy _ [] (target_of q)) as [matched pending] eqn:Eg.
    destruct (negb (is_empty_or_negative pending)); [constructor|].
    apply prune_nodup. pose proof (greedy_nodup (order_by (o_sorted o) (fetched_cands st sp q ign (o_fill o))) [] (target_of q)) as Hg.
    rewrite Eg in Hg. apply Hg. exact Hc.
  - unfold pick_single. destruct (find _ _); cbn; [apply NoDup_singleton|constructor].
Qed.

Lemma chain_disjoint_concat l :
  chain_disjoint l -> (forall x, x ∈ l -> NoDup x) -> NoDup (concat l).
Proof.
  induction l as [|x r IH]; intros Hd Hn; cbn; [constructor|].
  destruct Hd as [Hx Hr]. apply NoDup_app. split; [apply Hn; left|]. split.
  - intros a Ha Hin. apply elem_of_list_In, in_concat in Hin as [y [Hy Hay]].
    apply (Hx a y Ha); [apply elem_of_list_In; exact Hy|apply elem_of_list_In; exact Hay].
  - apply IH; [exact Hr|]. intros y Hy. apply Hn. right. exact Hy.
Qed.

Lemma regular_sels_nodup st bs : forall sel out,
  (forall b, b ∈ bs -> NoDup (o_sorted b.2)) ->
  resolve_blocks st sel bs = Ok out -> forall x, x ∈ regular_sels bs out -> NoDup x.
Proof.
  induction bs as [|[[name q] o] bs IH]; intros sel out Ho H x Hx; cbn in H.
  - injection H as <-. apply elem_of_nil in Hx. contradiction.
  - destruct (narrow st q) as [sp| | |]; cbn in H; try discriminate.
    set (ign := if q_coll q then ign_coll sel else ign_input sel) in *.
    destruct (select st sp q ign o) as [|u0 s0] eqn:Es; [discriminate|].
    set (sel' := if q_coll q then _ else _) in H.
    destruct (resolve_blocks st sel' bs) as [out'| | |] eqn:Er; cbn in H; try discriminate.
    injection H as <-. cbn [regular_sels] in Hx.
    assert (Hrest : forall y, y ∈ regular_sels bs out' -> NoDup y).
    { apply (IH sel' out'); [|exact Er]. intros b Hb. apply Ho. right. exact Hb. }
    destruct (q_coll q).
    + apply Hrest. exact Hx.
    + apply elem_of_cons in Hx as [->|Hx]; [|apply Hrest; exact Hx].
      rewrite <- Es. apply select_nodup. apply (Ho (name, q, o)). left.
Qed.

(** the flattened list of regular inputs (what compile_inputs writes into the body) holds every
    reference once *)
Theorem flattened_inputs_distinct st bs out :
  (forall b, b ∈ bs -> NoDup (o_sorted b.2)) ->
  resolve_inputs st bs = Ok out -> NoDup (concat (regular_sels bs out)).
Proof.
  intros Ho H. apply chain_disjoint_concat.
  - apply (selections_disjoint st bs out H).
  - apply (regular_sels_nodup st bs _ out Ho H).
Qed.
