(** Serde_tx.v — the way back from the CBOR data model for a whole transaction: reading the
    layout that serde derives for `Tx` gives back the transaction (directive fields in key
    order, which is how they are written), for every transaction whose byte strings are byte
    strings (C11). *)
From Tx3 Require Import Base Assets Select Tir Tir_proofs Reduce Serde Serde_proofs Serde_back.
Local Open Scope string_scope.

Definition obo {A B} (m : option A) (k : A -> option B) : option B := match m with Some x => k x | None => None end.
Local Notation "'opt!' x <- m ;; k" := (obo m (fun x => k)) (at level 100, x name, m at next level, right associativity).

Definition of_arr {A} (g : cval -> option A) (v : cval) : option (list A) :=
  match v with CArr l => omapO g l | _ => None end.
Definition of_opt {A} (g : cval -> option A) (v : cval) : option (option A) :=
  match v with CNull => Some None | _ => option_map Some (g v) end.

Section Back.
Variable f : nat.
Let one := of_cval f.

Definition of_input (v : cval) : option input :=
  match struct_of ["name"; "utxos"; "redeemer"] v with
  | Some [CText n; u; r] => opt! u' <- one u ;; opt! r' <- one r ;; Some (mk_input (string_of_bytes n) u' r')
  | _ => None
  end.
Definition of_output (v : cval) : option output :=
  match struct_of ["address"; "datum"; "amount"; "optional"] v with
  | Some [a; d; m; CBool o] => opt! a' <- one a ;; opt! d' <- one d ;; opt! m' <- one m ;; Some (mk_output a' d' m' o)
  | _ => None
  end.
Definition of_validity (v : cval) : option validity :=
  match struct_of ["since"; "until"] v with
  | Some [s; u] => opt! s' <- one s ;; opt! u' <- one u ;; Some (mk_validity s' u')
  | _ => None
  end.
Definition of_mint (v : cval) : option mint :=
  match struct_of ["amount"; "redeemer"] v with
  | Some [a; r] => opt! a' <- one a ;; opt! r' <- one r ;; Some (mk_mint a' r')
  | _ => None
  end.
Definition of_adhoc (v : cval) : option adhoc :=
  match struct_of ["name"; "data"] v with
  | Some [CText nm; CMap kvs] =>
    option_map (mk_adhoc (string_of_bytes nm))
      (omapO (fun kv : cval * cval => match fst kv, one (snd kv) with CText k, Some x => Some (string_of_bytes k, x) | _, _ => None end) kvs)
  | _ => None
  end.
Definition of_collateral (v : cval) : option expr :=
  match struct_of ["utxos"] v with Some [u] => one u | _ => None end.
Definition of_signers (v : cval) : option (list expr) :=
  match struct_of ["signers"] v with Some [CArr l] => omapO one l | _ => None end.
Definition of_metadata (v : cval) : option metadata :=
  match struct_of ["key"; "value"] v with
  | Some [k; x] => opt! k' <- one k ;; opt! x' <- one x ;; Some (mk_metadata k' x')
  | _ => None
  end.

Definition of_tx (v : cval) : option tx :=
  match struct_of ["fees"; "references"; "inputs"; "outputs"; "validity"; "mints"; "burns"; "adhoc"; "collateral"; "signers"; "metadata"] v with
  | Some [fees; refs; ins; outs; val; mints; burns; adh; coll; sig; md] =>
    opt! fees' <- one fees ;;
    opt! refs' <- of_arr one refs ;;
    opt! ins' <- of_arr of_input ins ;;
    opt! outs' <- of_arr of_output outs ;;
    opt! val' <- of_opt of_validity val ;;
    opt! mints' <- of_arr of_mint mints ;;
    opt! burns' <- of_arr of_mint burns ;;
    opt! adh' <- of_arr of_adhoc adh ;;
    opt! coll' <- of_arr of_collateral coll ;;
    opt! sig' <- of_opt of_signers sig ;;
    opt! md' <- of_arr of_metadata md ;;
    Some (mk_tx fees' refs' ins' outs' val' mints' burns' adh' coll' sig' md')
  | _ => None
  end.
End Back.

(** what comes back: the transaction with its directive fields in key order *)
Definition tx_norm (t : tx) : tx :=
  mk_tx (norm (tx_fees t))
        (map norm (tx_references t))
        (map (fun i => mk_input (i_name i) (norm (i_utxos i)) (norm (i_redeemer i))) (tx_inputs t))
        (map (fun o => mk_output (norm (out_address o)) (norm (out_datum o)) (norm (out_amount o)) (out_optional o)) (tx_outputs t))
        (option_map (fun v => mk_validity (norm (v_since v)) (norm (v_until v))) (tx_validity t))
        (map (fun m => mk_mint (norm (m_amount m)) (norm (m_redeemer m))) (tx_mints t))
        (map (fun m => mk_mint (norm (m_amount m)) (norm (m_redeemer m))) (tx_burns t))
        (map (fun a => mk_adhoc (ad_name a) (bt_of_list (map (fun kv => (fst kv, norm (snd kv))) (ad_data a)))) (tx_adhoc t))
        (map norm (tx_collateral t))
        (option_map (map norm) (tx_signers t))
        (map (fun m => mk_metadata (norm (md_key m)) (norm (md_value m))) (tx_metadata t)).

Definition tx_wf (t : tx) : bool := forallb wf_e (tx_slots t).

Lemma struct_of_cstruct names fields :
  map fst fields = names -> struct_of names (cstruct fields) = Some (map snd fields).
Proof.
  intros <-. unfold struct_of, cstruct. induction fields as [|[k v] r IH]; [reflexivity|].
  cbn [map fst snd fields_of]. rewrite text_is_ctext, String.eqb_refl, IH. reflexivity.
Qed.

Lemma of_opt_cstruct {A} (g : cval -> option A) l : of_opt g (cstruct l) = option_map Some (g (cstruct l)).
Proof. reflexivity. Qed.

Lemma in_flat {A} (g : A -> list expr) l x c : x ∈ l -> c ∈ g x -> c ∈ flat_map g l.
Proof.
  intros Hx Hc. apply elem_of_list_In, in_flat_map. exists x. split; apply elem_of_list_In; assumption.
Qed.

Theorem of_tx_tx_cval t : tx_wf t = true ->
  exists f0, forall f, (f0 <= f)%nat -> of_tx f (tx_cval t) = Some (tx_norm t).
Proof.
  intros Hw. unfold tx_wf in Hw. rewrite forallb_forall in Hw.
  destruct (common_bound' (fun f c => of_cval f (to_cval c) = Some (norm c)) (tx_slots t)) as [n Hn].
  { intros c Hin. apply of_cval_to_cval. apply Hw. apply elem_of_list_In. exact Hin. }
  exists n. intros f Hf.
  assert (Hk : forall c, c ∈ tx_slots t -> of_cval f (to_cval c) = Some (norm c)) by (intros c Hc; apply (Hn f Hf c Hc)).
  clear Hn Hw. unfold tx_slots in Hk.
  (* one membership fact per block kind *)
  assert (Kin : forall i, i ∈ tx_inputs t -> of_cval f (to_cval (i_utxos i)) = Some (norm (i_utxos i)) /\
                                             of_cval f (to_cval (i_redeemer i)) = Some (norm (i_redeemer i))).
  { intros i Hi. split; apply Hk; apply elem_of_app; left; (eapply in_flat; [exact Hi|]); cbn; [left|right; left]. }
  assert (Kout : forall o, o ∈ tx_outputs t -> of_cval f (to_cval (out_address o)) = Some (norm (out_address o)) /\
                                               of_cval f (to_cval (out_datum o)) = Some (norm (out_datum o)) /\
                                               of_cval f (to_cval (out_amount o)) = Some (norm (out_amount o))).
  { intros o Ho. repeat split; apply Hk; apply elem_of_app; right; apply elem_of_app; left; (eapply in_flat; [exact Ho|]); cbn;
      [left|right; left|right; right; left]. }
  assert (Kmint : forall m, m ∈ tx_mints t -> of_cval f (to_cval (m_amount m)) = Some (norm (m_amount m)) /\
                                              of_cval f (to_cval (m_redeemer m)) = Some (norm (m_redeemer m))).
  { intros m Hm. split; apply Hk; do 2 (apply elem_of_app; right); apply elem_of_app; left; (eapply in_flat; [exact Hm|]); cbn; [left|right; left]. }
  assert (Kburn : forall m, m ∈ tx_burns t -> of_cval f (to_cval (m_amount m)) = Some (norm (m_amount m)) /\
                                              of_cval f (to_cval (m_redeemer m)) = Some (norm (m_redeemer m))).
  { intros m Hm. split; apply Hk; do 3 (apply elem_of_app; right); apply elem_of_app; left; (eapply in_flat; [exact Hm|]); cbn; [left|right; left]. }
  assert (Kfee : of_cval f (to_cval (tx_fees t)) = Some (norm (tx_fees t))).
  { apply Hk. do 4 (apply elem_of_app; right). apply elem_of_app. left. left. }
  assert (Kadh : forall a kv, a ∈ tx_adhoc t -> kv ∈ ad_data a -> of_cval f (to_cval (snd kv)) = Some (norm (snd kv))).
  { intros a kv Ha Hkv. apply Hk. do 5 (apply elem_of_app; right). apply elem_of_app. left.
    eapply in_flat; [exact Ha|]. apply elem_of_list_fmap. exists kv. split; [reflexivity|exact Hkv]. }
  assert (Ksig : forall ss c, tx_signers t = Some ss -> c ∈ ss -> of_cval f (to_cval c) = Some (norm c)).
  { intros ss c Hs Hc. apply Hk. do 6 (apply elem_of_app; right). apply elem_of_app. left. rewrite Hs. exact Hc. }
  assert (Kval : forall v, tx_validity t = Some v -> of_cval f (to_cval (v_since v)) = Some (norm (v_since v)) /\
                                                     of_cval f (to_cval (v_until v)) = Some (norm (v_until v))).
  { intros v Hv. split; apply Hk; do 7 (apply elem_of_app; right); apply elem_of_app; left; rewrite Hv; cbn; [left|right; left]. }
  assert (Kmd : forall m, m ∈ tx_metadata t -> of_cval f (to_cval (md_key m)) = Some (norm (md_key m)) /\
                                               of_cval f (to_cval (md_value m)) = Some (norm (md_value m))).
  { intros m Hm. split; apply Hk; do 8 (apply elem_of_app; right); apply elem_of_app; left; (eapply in_flat; [exact Hm|]); cbn; [left|right; left]. }
  assert (Kref : forall c, c ∈ tx_references t -> of_cval f (to_cval c) = Some (norm c)).
  { intros c Hc. apply Hk. do 9 (apply elem_of_app; right). apply elem_of_app. left. exact Hc. }
  assert (Kcoll : forall c, c ∈ tx_collateral t -> of_cval f (to_cval c) = Some (norm c)).
  { intros c Hc. apply Hk. do 10 (apply elem_of_app; right). exact Hc. }
  clear Hk.
  unfold of_tx, tx_cval. rewrite struct_of_cstruct by reflexivity. cbn [map snd].
  rewrite Kfee. cbn [obo].
  (* references *)
  unfold of_arr at 1. rewrite (omapO_map _ _ norm) by exact Kref. cbn [obo].
  (* inputs *)
  unfold of_arr at 1. rewrite (omapO_map _ _ (fun i => mk_input (i_name i) (norm (i_utxos i)) (norm (i_redeemer i)))).
  2:{ intros i Hi. destruct (Kin i Hi) as [K1 K2]. unfold of_input. rewrite struct_of_cstruct by reflexivity. cbn [map snd].
      unfold ctext. rewrite K1, K2. cbn [obo]. rewrite string_of_bytes_sbytes. reflexivity. }
  cbn [obo].
  (* outputs *)
  unfold of_arr at 1. rewrite (omapO_map _ _ (fun o => mk_output (norm (out_address o)) (norm (out_datum o)) (norm (out_amount o)) (out_optional o))).
  2:{ intros o Ho. destruct (Kout o Ho) as (K1 & K2 & K3). unfold of_output. rewrite struct_of_cstruct by reflexivity. cbn [map snd].
      rewrite K1, K2, K3. reflexivity. }
  cbn [obo].
  (* validity *)
  assert (Hval : of_opt (of_validity f) (copt (option_map (fun v => cstruct [("since", to_cval (v_since v)); ("until", to_cval (v_until v))]) (tx_validity t)))
                 = Some (option_map (fun v => mk_validity (norm (v_since v)) (norm (v_until v))) (tx_validity t))).
  { destruct (tx_validity t) as [v|] eqn:Ev; [|reflexivity]. destruct (Kval v eq_refl) as [K1 K2].
    cbn [option_map copt from_option id]. rewrite of_opt_cstruct.
    unfold of_validity. rewrite struct_of_cstruct by reflexivity. cbn [map snd]. rewrite K1, K2. reflexivity. }
  rewrite Hval. cbn [obo].
  (* mints, burns *)
  unfold of_arr at 1. rewrite (omapO_map _ _ (fun m => mk_mint (norm (m_amount m)) (norm (m_redeemer m)))).
  2:{ intros m Hm. destruct (Kmint m Hm) as [K1 K2]. unfold of_mint. rewrite struct_of_cstruct by reflexivity. cbn [map snd]. rewrite K1, K2. reflexivity. }
  cbn [obo].
  unfold of_arr at 1. rewrite (omapO_map _ _ (fun m => mk_mint (norm (m_amount m)) (norm (m_redeemer m)))).
  2:{ intros m Hm. destruct (Kburn m Hm) as [K1 K2]. unfold of_mint. rewrite struct_of_cstruct by reflexivity. cbn [map snd]. rewrite K1, K2. reflexivity. }
  cbn [obo].
  (* adhoc *)
  unfold of_arr at 1. rewrite (omapO_map _ _ (fun a => mk_adhoc (ad_name a) (bt_of_list (map (fun kv => (fst kv, norm (snd kv))) (ad_data a))))).
  2:{ intros a Ha. unfold of_adhoc, adhoc_cval. rewrite struct_of_cstruct by reflexivity. cbn [map snd]. unfold ctext at 1.
      rewrite string_of_bytes_sbytes.
      rewrite (bt_of_list_map to_cval), map_map. cbn [fst snd].
      rewrite (omapO_map _ _ (fun kv => (fst kv, norm (snd kv)))).
      - cbn [option_map]. rewrite (bt_of_list_map norm). reflexivity.
      - intros [k v] Hx. cbn [fst snd]. unfold ctext. rewrite string_of_bytes_sbytes.
        apply bt_of_list_subset in Hx. pose proof (Kadh a (k, v) Ha Hx) as Kv. cbn [snd] in Kv. rewrite Kv. reflexivity. }
  cbn [obo].
  (* collateral *)
  unfold of_arr at 1. rewrite (omapO_map _ _ norm).
  2:{ intros c Hc. unfold of_collateral. rewrite struct_of_cstruct by reflexivity. cbn [map snd]. apply Kcoll. exact Hc. }
  cbn [obo].
  (* signers *)
  assert (Hsig : of_opt (of_signers f) (copt (option_map (fun ss => cstruct [("signers", CArr (map to_cval ss))]) (tx_signers t)))
                 = Some (option_map (map norm) (tx_signers t))).
  { destruct (tx_signers t) as [ss|] eqn:Es; [|reflexivity].
    cbn [option_map copt from_option id]. rewrite of_opt_cstruct.
    unfold of_signers. rewrite struct_of_cstruct by reflexivity. cbn [map snd].
    rewrite (omapO_map _ _ norm); [reflexivity|]. intros c Hc. apply (Ksig ss c eq_refl Hc). }
  rewrite Hsig. cbn [obo].
  (* metadata *)
  unfold of_arr at 1. rewrite (omapO_map _ _ (fun m => mk_metadata (norm (md_key m)) (norm (md_value m)))).
  2:{ intros m Hm. destruct (Kmd m Hm) as [K1 K2]. unfold of_metadata. rewrite struct_of_cstruct by reflexivity. cbn [map snd]. rewrite K1, K2. reflexivity. }
  cbn [obo]. reflexivity.
Qed.

(** bytes -> data model -> transaction *)
Theorem wire_tx_roundtrip t : tx_wf t = true -> ok_cval (tx_cval t) = true ->
  exists f0, forall f, (f0 <= f)%nat ->
    match decode_cval f (to_bytes t) with
    | Some (v, rest) => rest = [] /\ of_tx f v = Some (tx_norm t)
    | None => False
    end.
Proof.
  intros Hw Hok. destruct (of_tx_tx_cval t Hw) as [f0 Hf0].
  exists (Nat.max f0 (csize (tx_cval t))). intros f Hf. unfold to_bytes.
  pose proof (decode_encode_cval (tx_cval t) Hok f [] ltac:(lia)) as Hd. rewrite app_nil_r in Hd. rewrite Hd.
  split; [reflexivity|]. apply Hf0. lia.
Qed.

(** the hypotheses are met, and the normal form differs from the transaction exactly in the order
    of directive fields *)
Example tx_roundtrip_somewhere :
  let t := mk_tx (ENumber 5) [EUtxoRefs [mk_ref [1%N] 0%N]]
                 [mk_input "a" (EExpectValue "p" TInt) ENone]
                 [mk_output (EAddress [1%N]) ENone (EAssets [(ENone, ENone, ENumber 7)]) false]
                 (Some (mk_validity ENone (ENumber 3))) [] []
                 [mk_adhoc "w" [("b", ENumber 1); ("a", ENumber 2)]] []
                 (Some [EBytes [2%N]]) [mk_metadata (ENumber 1) (EString [104%N])] in
  tx_wf t = true /\ ok_cval (tx_cval t) = true /\ of_tx 20 (tx_cval t) = Some (tx_norm t) /\
  tx_adhoc (tx_norm t) = [mk_adhoc "w" [("a", ENumber 2); ("b", ENumber 1)]].
Proof. vm_compute. repeat split. Qed.
