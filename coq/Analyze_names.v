(** Analyze_names.v — what the analyzer's refusal of repeated names buys: in an accepted program
    a transaction is looked up by name without ambiguity (the interface entry and the lowered IR
    of a name come from one definition, C17), and so is a variant case (the constructor index and
    the field list come from one declaration, C09 / C13). *)
From Tx3 Require Import Base Tir Surface Lower Analyze Front_proofs.

Lemma find_unique {A} (f : A -> bool) (l : list A) x :
  x ∈ l -> f x = true -> (forall y, y ∈ l -> f y = true -> y = x) -> find f l = Some x.
Proof.
  intros Hin Hfx Huniq. destruct (find f l) as [y|] eqn:E.
  - apply find_some in E as [Hy Hfy]. f_equal. apply Huniq; [apply elem_of_list_In; exact Hy | exact Hfy].
  - exfalso. apply elem_of_list_In in Hin. pose proof (find_none f l E x Hin) as Hn. congruence.
Qed.

Lemma names_distinct_txs p : analyze_ok p = true -> NoDup (map st_name (sp_txs p)).
Proof.
  unfold analyze_ok, program_ok, names_distinct. intros H.
  repeat (apply andb_true_iff in H as [H _]). apply nodupb_NoDup. exact H.
Qed.

Lemma names_distinct_types p td : analyze_ok p = true -> td ∈ sp_types p ->
  NoDup (map fst (td_cases td)) /\ forall cs, cs ∈ td_cases td -> NoDup (map fst (snd cs)).
Proof.
  unfold analyze_ok, program_ok, names_distinct. intros H Htd.
  apply andb_true_iff in H as [H _]. apply andb_true_iff in H as [H _]. apply andb_true_iff in H as [H _].
  apply andb_true_iff in H as [H _]. apply andb_true_iff in H as [_ H].
  rewrite forallb_forall in H. specialize (H td (proj1 (elem_of_list_In _ _) Htd)).
  apply andb_true_iff in H as [H1 H2]. split; [apply nodupb_NoDup; exact H1|].
  intros cs Hcs. rewrite forallb_forall in H2. apply nodupb_NoDup. apply H2. apply elem_of_list_In. exact Hcs.
Qed.

(** C17: the IR that a name resolves to is the IR of the very definition that carries the name,
    for every definition of an accepted program *)
Theorem lower_by_name_unambiguous p t :
  analyze_ok p = true -> t ∈ sp_txs p -> lower p (st_name t) = lower_tx p t.
Proof.
  intros Hok Hin. unfold lower.
  rewrite (find_unique _ _ t Hin); [reflexivity | apply bool_decide_eq_true; reflexivity |].
  intros y Hy Hf. apply bool_decide_eq_true in Hf.
  exact (NoDup_fmap_inj st_name (sp_txs p) y t (names_distinct_txs p Hok) Hy Hin Hf).
Qed.

(** without the analyzer's check the statement is false: two definitions of one name, and the
    second is never what its name resolves to *)
Lemma index_of_spec {A} (f : A -> bool) (l : list A) x :
  x ∈ l -> f x = true -> (forall y, y ∈ l -> f y = true -> y = x) ->
  exists i, index_of f l = Some i /\ l !! i = Some x.
Proof.
  induction l as [|a l IH]; intros Hin Hfx Huniq; [inversion Hin|].
  cbn [index_of]. destruct (f a) eqn:Efa.
  - exists O. split; [reflexivity|]. cbn. f_equal. apply Huniq; [left | exact Efa].
  - apply elem_of_cons in Hin as [->|Hin]; [congruence|].
    destruct (IH Hin Hfx) as [i [Ei Hi]]; [intros y Hy; apply Huniq; right; exact Hy|].
    exists (S i). rewrite Ei. split; [reflexivity | exact Hi].
Qed.

(** C09 / C13: in an accepted program the index of a constructor and the field list it is checked
    against belong to one declaration of the type *)
Theorem case_lookup_unambiguous p td cname decl :
  analyze_ok p = true -> td ∈ sp_types p -> (cname, decl) ∈ td_cases td ->
  find (fun cs => bool_decide (fst cs = cname)) (td_cases td) = Some (cname, decl)
  /\ exists i, index_of (fun cs => bool_decide (fst cs = cname)) (td_cases td) = Some i
               /\ td_cases td !! i = Some (cname, decl).
Proof.
  intros Hok Htd Hin. destruct (names_distinct_types p td Hok Htd) as [Hnd _].
  assert (Huniq : forall y, y ∈ td_cases td -> bool_decide (fst y = cname) = true -> y = (cname, decl)).
  { intros y Hy Hf. apply bool_decide_eq_true in Hf.
    exact (NoDup_fmap_inj fst (td_cases td) y (cname, decl) Hnd Hy Hin Hf). }
  split.
  - apply find_unique; [exact Hin | apply bool_decide_eq_true; reflexivity | exact Huniq].
  - apply index_of_spec; [exact Hin | apply bool_decide_eq_true; reflexivity | exact Huniq].
Qed.

(** two declarations of an accepted type never share an index *)
Theorem case_indexes_distinct p td c1 c2 i :
  analyze_ok p = true -> td ∈ sp_types p ->
  index_of (fun cs => bool_decide (fst cs = c1)) (td_cases td) = Some i ->
  index_of (fun cs => bool_decide (fst cs = c2)) (td_cases td) = Some i -> c1 = c2.
Proof.
  intros _ _. generalize (td_cases td). intros l. revert i.
  induction l as [|a l IH]; intros i H1 H2; [discriminate|].
  cbn [index_of] in H1, H2.
  destruct (bool_decide (fst a = c1)) eqn:E1, (bool_decide (fst a = c2)) eqn:E2.
  - apply bool_decide_eq_true in E1, E2. congruence.
  - injection H1 as <-. destruct (index_of (fun cs => bool_decide (fst cs = c2)) l); cbn in H2; discriminate.
  - injection H2 as <-. destruct (index_of (fun cs => bool_decide (fst cs = c1)) l); cbn in H1; discriminate.
  - destruct (index_of (fun cs => bool_decide (fst cs = c1)) l) as [j1|] eqn:J1; [|discriminate].
    destruct (index_of (fun cs => bool_decide (fst cs = c2)) l) as [j2|] eqn:J2; [|discriminate].
    cbn in H1, H2. injection H1 as <-. injection H2 as ->. exact (IH j1 eq_refl eq_refl).
Qed.

(** environment values, parties, policies, assets and types of an accepted program carry pairwise
    different names: none of them is hidden by another in the program scope *)
Theorem top_level_names_unique p : analyze_ok p = true ->
  NoDup (map fst (sp_env p) ++ sp_parties p ++ map fst (sp_policies p) ++ map (fun a => fst (fst a)) (sp_assets p) ++ map td_name (sp_types p)).
Proof.
  unfold analyze_ok, program_ok, names_distinct. intros H.
  apply andb_true_iff in H as [H _]. apply andb_true_iff in H as [H _]. apply andb_true_iff in H as [H _].
  apply andb_true_iff in H as [H _]. apply andb_true_iff in H as [H _]. apply andb_true_iff in H as [_ H].
  apply nodupb_NoDup. exact H.
Qed.
