(** Reduce_closed.v — reduce never re-opens a closed template: when an expression has no
    unfilled parameter, query, fee reference or compiler operation left (is_constant) and the
    datums carried by its resolved UTxOs are plain data, every result of reduce, at every fuel
    and for every choice of the set-order oracle, is closed again (C06). *)
From Tx3 Require Import Base Assets Select Tir Tir_proofs Reduce Reduce_proofs.

(** plain data: what a datum read from the chain consists of *)
Fixpoint is_plain (e : expr) : bool :=
  match e with
  | ENone | EBytes _ | ENumber _ | EBool _ | EString _ | EAddress _ | EHash _ | EUtxoRefs _ => true
  | EList _ | EMap _ | ETuple _ _ | EStruct _ _ | EAssets _ => forall_children is_plain e
  | _ => false
  end.
Definition utxo_plain (u : utxo_x) : bool :=
  match snd (fst u) with None => true | Some d => is_plain d end.

(** every UTxO found anywhere in the expression carries a plain datum (or none) *)
Fixpoint datums_plain (e : expr) : bool :=
  match e with
  | EUtxoSet us => forallb utxo_plain us
  | EParamSet x => datums_plain x
  | EExpectInput _ a m r _ _ => datums_plain a && datums_plain m && datums_plain r
  | _ => forall_children datums_plain e
  end.

Definition closed (e : expr) : bool := is_constant e && datums_plain e.

(** the same predicate as one recursion *)
Fixpoint closedF (e : expr) : bool :=
  match e with
  | EParamSet x => closedF x
  | EExpectValue _ _ | EExpectInput _ _ _ _ _ _ | EExpectFees => false
  | EScriptAddr _ | EMinUtxo _ | ETipSlot | ESlotToTime _ | ETimeToSlot _ => false
  | EUtxoSet us => forallb utxo_plain us
  | _ => forall_children closedF e
  end.

Lemma forallb_and {A} (f g : A -> bool) l : forallb (fun x => f x && g x) l = forallb f l && forallb g l.
Proof. induction l as [|x l IH]; cbn; [reflexivity|]. rewrite IH. destruct (f x), (g x), (forallb f l); reflexivity. Qed.

Lemma forallb_ext_in {A} (f g : A -> bool) l : (forall x, x ∈ l -> f x = g x) -> forallb f l = forallb g l.
Proof.
  induction l as [|x l IH]; intros H; cbn; [reflexivity|]. rewrite (H x) by left. rewrite IH; [reflexivity|].
  intros y Hy. apply H. right. exact Hy.
Qed.

Lemma closedF_closed e : closedF e = closed e.
Proof.
  unfold closed. induction e using expr_children_ind.
  assert (Hk : forallb closedF (children e) = forallb is_constant (children e) && forallb datums_plain (children e)).
  { rewrite <- forallb_and. apply forallb_ext_in. intros c Hc. apply H. apply child_all. exact Hc. }
  destruct e; cbn [closedF is_constant datums_plain]; rewrite ?forall_children_spec; try exact Hk; try reflexivity.
  (* EParamSet *) apply H. unfold all_children. cbn. left.
Qed.

(** * inversion of binds *)
Lemma obind_ok {A B} (m : outcome A) (k : A -> outcome B) r :
  obind m k = Ok r -> exists a, m = Ok a /\ k a = Ok r.
Proof. destruct m; cbn; intros H; try discriminate. eauto. Qed.

Ltac inv_bind H :=
  let a := fresh "v" in let H1 := fresh "Hm" in
  apply obind_ok in H as [a [H1 H]].

Section Step.
Variables P Q : expr -> bool.
Variable g : expr -> outcome expr.
Hypothesis Hg : forall c c', P c = true -> g c = Ok c' -> Q c' = true.

Lemma omapM_keeps l l' : forallb P l = true -> omapM g l = Ok l' -> forallb Q l' = true.
Proof.
  revert l'. induction l as [|x l IH]; intros l' Hq H.
  - cbn in H. injection H as <-. reflexivity.
  - cbn [forallb] in Hq. apply andb_true_iff in Hq as [Hx Hl].
    change (omapM g (x :: l)) with (y <- g x ;; ys <- omapM g l ;; Ok (y :: ys)) in H.
    inv_bind H. inv_bind H. injection H as <-. cbn [forallb]. rewrite (Hg _ _ Hx Hm), (IH _ Hl Hm0). reflexivity.
Qed.
Lemma omapM2_keeps l l' :
  forallb (fun kv => P (fst kv) && P (snd kv)) l = true -> omapM2 g l = Ok l' ->
  forallb (fun kv => Q (fst kv) && Q (snd kv)) l' = true.
Proof.
  revert l'. induction l as [|[a b] l IH]; intros l' Hq H.
  - cbn in H. injection H as <-. reflexivity.
  - cbn [forallb fst snd] in Hq. apply andb_true_iff in Hq as [Hx Hl]. apply andb_true_iff in Hx as [Ha Hb].
    change (omapM2 g ((a, b) :: l)) with (a' <- g a ;; b' <- g b ;; r' <- omapM2 g l ;; Ok ((a', b') :: r')) in H.
    inv_bind H. inv_bind H. inv_bind H. injection H as <-. cbn [forallb fst snd].
    rewrite (Hg _ _ Ha Hm), (Hg _ _ Hb Hm0), (IH _ Hl Hm1). reflexivity.
Qed.
Lemma omapM3_keeps l l' :
  forallb (fun x => P (fst (fst x)) && P (snd (fst x)) && P (snd x)) l = true -> omapM3 g l = Ok l' ->
  forallb (fun x => Q (fst (fst x)) && Q (snd (fst x)) && Q (snd x)) l' = true.
Proof.
  revert l'. induction l as [|[[a b] c] l IH]; intros l' Hq H.
  - cbn in H. injection H as <-. reflexivity.
  - cbn [forallb fst snd] in Hq. apply andb_true_iff in Hq as [Hx Hl]. apply andb_true_iff in Hx as [Hx Hc].
    apply andb_true_iff in Hx as [Ha Hb].
    change (omapM3 g ((a, b, c) :: l))
      with (a' <- g a ;; b' <- g b ;; c' <- g c ;; r' <- omapM3 g l ;; Ok ((a', b', c') :: r')) in H.
    inv_bind H. inv_bind H. inv_bind H. inv_bind H. injection H as <-. cbn [forallb fst snd].
    rewrite (Hg _ _ Ha Hm), (Hg _ _ Hb Hm0), (Hg _ _ Hc Hm1), (IH _ Hl Hm2). reflexivity.
Qed.
Lemma omapMkv_keeps (l l' : list (string * expr)) :
  forallb (fun kv => P (snd kv)) l = true -> omapMkv g l = Ok l' -> forallb (fun kv => Q (snd kv)) l' = true.
Proof.
  revert l'. induction l as [|[k a] l IH]; intros l' Hq H.
  - cbn in H. injection H as <-. reflexivity.
  - cbn [forallb fst snd] in Hq. apply andb_true_iff in Hq as [Ha Hl].
    change (omapMkv g ((k, a) :: l)) with (a' <- g a ;; r' <- omapMkv g l ;; Ok ((k, a') :: r')) in H.
    inv_bind H. inv_bind H. injection H as <-. cbn [forallb fst snd].
    rewrite (Hg _ _ Ha Hm), (IH _ Hl Hm0). reflexivity.
Qed.
End Step.

(** * the results of the built-ins are closed *)

Lemma closedF_assets_expr a : closedF (assets_expr a) = true.
Proof.
  unfold assets_expr, assets_to_exprs. cbn [closedF forall_children]. rewrite forallb_forall. intros x Hx.
  apply in_map_iff in Hx as [kv [<- _]]. cbn [fst snd].
  destruct (class_policy kv.1), (class_name kv.1); reflexivity.
Qed.

Lemma plain_closedF d : is_plain d = true -> closedF d = true.
Proof.
  induction d using expr_children_ind. intros Hp.
  assert (Hk : forallb is_plain (children d) = true -> forallb closedF (children d) = true).
  { rewrite !forallb_forall. intros Hall c Hc. apply H; [apply child_all, elem_of_list_In; exact Hc|apply Hall; exact Hc]. }
  destruct d; cbn [is_plain] in Hp; try discriminate; cbn [closedF]; rewrite ?forall_children_spec in *;
    try reflexivity; apply Hk; exact Hp.
Qed.

Lemma nth_usize_in {A} (xs : list A) z x : nth_usize xs z = Some x -> In x xs.
Proof. unfold nth_usize. destruct (_ <? _)%Z; [|discriminate]. apply nth_error_In. Qed.

Lemma neg_closed b r : closedF b = true -> neg_expr b = Ok r -> closedF r = true.
Proof.
  intros Hb H. destruct b; cbn [neg_expr] in H; try discriminate.
  - injection H as <-. reflexivity.
  - destruct (in_i128 _); [|discriminate]. injection H as <-. reflexivity.
  - inv_bind H. inv_bind H. injection H as <-. apply closedF_assets_expr.
Qed.
Lemma add_number_closed x b r : add_number x b = Ok r -> closedF r = true.
Proof.
  intros H. destruct b; cbn [add_number] in H; try discriminate.
  - injection H as <-. reflexivity.
  - destruct (in_i128 _); [|discriminate]. injection H as <-. reflexivity.
Qed.
Lemma add_assets_closed xs b r : add_assets xs b = Ok r -> closedF r = true.
Proof. unfold add_assets. intros H. inv_bind H. inv_bind H. inv_bind H. injection H as <-. apply closedF_assets_expr. Qed.
Lemma add_closed a b r : closedF b = true -> add_expr a b = Ok r -> closedF r = true.
Proof.
  intros Hb H. destruct a; cbn [add_expr] in H; try discriminate.
  - injection H as <-. exact Hb.
  - eapply add_number_closed; exact H.
  - eapply add_assets_closed; exact H.
Qed.
Lemma sub_closed a b r : closedF b = true -> sub_expr a b = Ok r -> closedF r = true.
Proof.
  intros Hb H. destruct a; cbn [sub_expr] in H; try discriminate.
  - eapply neg_closed; eassumption.
  - inv_bind H. eapply add_number_closed; exact H.
  - inv_bind H. eapply add_assets_closed; exact H.
Qed.
Lemma concat_closed a b r : closedF a = true -> closedF b = true -> concat_expr a b = Ok r -> closedF r = true.
Proof.
  intros Ha Hb H. destruct a; cbn [concat_expr] in H; try discriminate.
  - injection H as <-. exact Hb.
  - destruct b; try discriminate. injection H as <-. cbn [closedF forall_children] in *.
    rewrite forallb_app, Ha, Hb. reflexivity.
  - destruct b; try discriminate; injection H as <-; reflexivity.
  - destruct b; try discriminate; injection H as <-; reflexivity.
Qed.
Lemma index_closed a i r : closedF a = true -> index_or_err a i = Ok r -> closedF r = true.
Proof.
  unfold index_or_err. intros Ha H. destruct (index_expr a i) as [x|] eqn:E; [|discriminate]. injection H as <-.
  destruct a; cbn [index_expr] in E; try discriminate; cbn [closedF forall_children] in Ha.
  - destruct (as_number i); [|discriminate]. apply nth_usize_in in E. rewrite forallb_forall in Ha. apply Ha. exact E.
  - destruct (find _ kvs) as [kv|] eqn:Ef; [|discriminate]. injection E as <-. apply find_some in Ef as [Hin _].
    rewrite forallb_forall in Ha. specialize (Ha _ Hin). exact Ha.
  - apply andb_true_iff in Ha as [H1 H2]. destruct (as_number i) as [n|]; [|discriminate].
    destruct (n =? 0)%Z; [injection E as <-; exact H1|]. destruct (n =? 1)%Z; [injection E as <-; exact H2|discriminate].
  - destruct i; try discriminate. apply nth_usize_in in E. rewrite forallb_forall in Ha. apply Ha. exact E.
Qed.
Lemma into_assets_closed a r : closedF a = true -> into_assets a = Ok r -> closedF r = true.
Proof.
  intros Ha H. destruct a; cbn [into_assets] in H; try discriminate.
  - injection H as <-. reflexivity.
  - inv_bind H. injection H as <-. apply closedF_assets_expr.
  - injection H as <-. exact Ha.
Qed.
Lemma datum_of_closed (u : utxo_x) : utxo_plain u = true -> closedF (from_option id ENone (snd (fst u))) = true.
Proof. unfold utxo_plain. destruct (snd (fst u)) as [d|]; cbn; [apply plain_closedF|reflexivity]. Qed.
Lemma into_datum_closed pick a r : closedF a = true -> into_datum pick a = Ok r -> closedF r = true.
Proof.
  intros Ha H. destruct a; cbn [into_datum] in H; try discriminate; try (injection H as <-; first [exact Ha|reflexivity]).
  (* EUtxoSet *)
  cbn [closedF] in Ha. rewrite forallb_forall in Ha. injection H as <-.
  destruct (nth_error us pick) as [u|] eqn:E.
  - apply datum_of_closed, Ha. eapply nth_error_In. exact E.
  - destruct us as [|u us']; [reflexivity|]. apply datum_of_closed, Ha. left. reflexivity.
Qed.

Lemma reduce_self_closed pick y x : closedF y = true -> reduce_self pick y = Ok x -> closedF x = true.
Proof.
  intros Hy H. destruct y; cbn [reduce_self] in H; try (injection H as <-; exact Hy); cbn [closedF forall_children] in Hy.
  - apply andb_true_iff in Hy as [Ha Hb]. inv_bind H. injection H as <-. cbn [closedF forall_children]. exact (add_closed _ _ _ Hb Hm).
  - apply andb_true_iff in Hy as [Ha Hb]. inv_bind H. injection H as <-. cbn [closedF forall_children]. exact (sub_closed _ _ _ Hb Hm).
  - apply andb_true_iff in Hy as [Ha Hb]. inv_bind H. injection H as <-. cbn [closedF forall_children]. exact (concat_closed _ _ _ Ha Hb Hm).
  - inv_bind H. injection H as <-. cbn [closedF forall_children]. exact (neg_closed _ _ Hy Hm).
  - apply andb_true_iff in Hy as [Ha Hb]. inv_bind H. injection H as <-. cbn [closedF forall_children]. exact (index_closed _ _ _ Ha Hm).
  - inv_bind H. injection H as <-. cbn [closedF forall_children]. exact (into_assets_closed _ _ Hy Hm).
  - inv_bind H. injection H as <-. cbn [closedF forall_children]. exact (into_datum_closed _ _ _ Hy Hm).
  - discriminate.
Qed.

Section Rec.
Variable g : expr -> outcome expr.
Hypothesis Hg : forall c c', closedF c = true -> g c = Ok c' -> closedF c' = true.

Lemma mapM_children_closed e y : closedF e = true -> mapM_children g e = Ok y -> closedF y = true.
Proof.
  intros He H. destruct e; cbn [closedF] in He; try discriminate; cbn [mapM_children] in H;
    try (injection H as <-; exact He); cbn [forall_children] in He.
  - inv_bind H. injection H as <-. cbn [closedF forall_children]. eapply (omapM_keeps closedF closedF); eassumption.
  - inv_bind H. injection H as <-. cbn [closedF forall_children]. eapply (omapM2_keeps closedF closedF); eassumption.
  - apply andb_true_iff in He as [Ha Hb]. inv_bind H. inv_bind H. injection H as <-. cbn [closedF forall_children].
    rewrite (Hg _ _ Ha Hm), (Hg _ _ Hb Hm0). reflexivity.
  - inv_bind H. injection H as <-. cbn [closedF forall_children]. eapply (omapM_keeps closedF closedF); eassumption.
  - inv_bind H. injection H as <-. cbn [closedF forall_children]. eapply (omapM3_keeps closedF closedF); eassumption.
  - inv_bind H. injection H as <-. cbn [closedF forall_children]. eapply Hg; eassumption.
  - apply andb_true_iff in He as [Ha Hb]. inv_bind H. inv_bind H. injection H as <-. cbn [closedF forall_children].
    rewrite (Hg _ _ Ha Hm), (Hg _ _ Hb Hm0). reflexivity.
  - apply andb_true_iff in He as [Ha Hb]. inv_bind H. inv_bind H. injection H as <-. cbn [closedF forall_children].
    rewrite (Hg _ _ Ha Hm), (Hg _ _ Hb Hm0). reflexivity.
  - apply andb_true_iff in He as [Ha Hb]. inv_bind H. inv_bind H. injection H as <-. cbn [closedF forall_children].
    rewrite (Hg _ _ Ha Hm), (Hg _ _ Hb Hm0). reflexivity.
  - inv_bind H. injection H as <-. cbn [closedF forall_children]. eapply Hg; eassumption.
  - apply andb_true_iff in He as [Ha Hb]. inv_bind H. inv_bind H. injection H as <-. cbn [closedF forall_children].
    rewrite (Hg _ _ Ha Hm), (Hg _ _ Hb Hm0). reflexivity.
  - inv_bind H. injection H as <-. cbn [closedF forall_children]. eapply Hg; eassumption.
  - inv_bind H. injection H as <-. cbn [closedF forall_children]. eapply Hg; eassumption.
  - inv_bind H. injection H as <-. cbn [closedF forall_children]. eapply Hg; eassumption.
  - inv_bind H. injection H as <-. cbn [closedF forall_children]. eapply Hg; eassumption.
  - inv_bind H. injection H as <-. cbn [closedF forall_children]. eapply (omapMkv_keeps closedF closedF); eassumption.
Qed.

Lemma composite_closed pick e x : closedF e = true -> composite_reduce pick g e = Ok x -> closedF x = true.
Proof.
  unfold composite_reduce. intros He H. inv_bind H. pose proof (mapM_children_closed _ _ He Hm) as Hv.
  destruct (forall_children is_constant v); [eapply reduce_self_closed; eassumption|injection H as <-; exact Hv].
Qed.
End Rec.

Theorem reduce_keeps_closedF pick : forall f e e', closedF e = true -> reduce pick f e = Ok e' -> closedF e' = true.
Proof.
  induction f as [|f IH]; intros e e' He H; [discriminate|].
  assert (Hc : forall e x, closedF e = true -> composite_reduce pick (reduce pick f) e = Ok x -> closedF x = true)
    by (intros e0 x0 H1 H2; exact (composite_closed (reduce pick f) IH pick e0 x0 H1 H2)).
  assert (Hm : forall e x, closedF e = true -> mapM_children (reduce pick f) e = Ok x -> closedF x = true)
    by (intros e0 x0 H1 H2; exact (mapM_children_closed (reduce pick f) IH e0 x0 H1 H2)).
  assert (Hb : forall e r, closedF e = true ->
             (x <- composite_reduce pick (reduce pick f) e ;;
              match x with EBNoOp r => Ok r | _ => y <- composite_reduce pick (reduce pick f) x ;; Ok y end) = Ok r ->
             closedF r = true).
  { intros e0 r He0 H0. inv_bind H0. pose proof (Hc _ _ He0 Hm0) as Hv.
    destruct v; try (inv_bind H0; injection H0 as <-; eapply Hc; eassumption).
    injection H0 as <-. exact Hv. }
  assert (Hco : forall e r, closedF e = true ->
             (x <- composite_reduce pick (reduce pick f) e ;;
              match x with ECNoOp r => Ok r | _ => y <- composite_reduce pick (reduce pick f) x ;; Ok y end) = Ok r ->
             closedF r = true).
  { intros e0 r He0 H0. inv_bind H0. pose proof (Hc _ _ He0 Hm0) as Hv.
    destruct v; try (inv_bind H0; injection H0 as <-; eapply Hc; eassumption).
    injection H0 as <-. exact Hv. }
  destruct e; cbn [closedF] in He; try discriminate; cbn [reduce] in H;
    try (injection H as <-; first [exact He|reflexivity]);
    first [ eapply Hb; [|exact H]; exact He
          | eapply Hco; [|exact H]; exact He
          | eapply Hm; [|exact H]; exact He
          | eapply Hc; [|exact H]; exact He ].
Qed.

(** the statement over is_constant and the datums *)
Theorem reduce_keeps_closed pick f e e' :
  is_constant e = true -> datums_plain e = true -> reduce pick f e = Ok e' ->
  is_constant e' = true /\ datums_plain e' = true.
Proof.
  intros H1 H2 H. assert (Hc : closedF e = true) by (rewrite closedF_closed; unfold closed; rewrite H1, H2; reflexivity).
  pose proof (reduce_keeps_closedF pick f e e' Hc H) as Hr. rewrite closedF_closed in Hr.
  unfold closed in Hr. apply andb_true_iff in Hr. exact Hr.
Qed.

(** the hypotheses are met by a template that still has work to do *)
Example closed_reducible :
  let e := EAdd (ENumber 1) (EIntoDatum (EUtxoSet [((mk_ref [1%N] 0%N, [], [], Some (ENumber 7), None) : utxo_x)])) in
  is_constant e = true /\ datums_plain e = true /\ reduce 0 5 e = Ok (ENumber 8).
Proof. vm_compute. repeat split. Qed.

(** * whole transactions: tx_reduce applies reduce to every slot *)
Section TxStep.
Variable Q : expr -> bool.
Variable g : expr -> outcome expr.
Hypothesis Hg : forall c c', Q c = true -> g c = Ok c' -> Q c' = true.

Lemma omapM_slots {A} (h : A -> outcome A) (sl : A -> list expr) :
  (forall x y, h x = Ok y -> forallb Q (sl x) = true -> forallb Q (sl y) = true) ->
  forall l l', omapM h l = Ok l' -> forallb Q (flat_map sl l) = true -> forallb Q (flat_map sl l') = true.
Proof.
  intros Hh. induction l as [|x l IH]; intros l' H Hq.
  - cbn in H. injection H as <-. reflexivity.
  - change (omapM h (x :: l)) with (y <- h x ;; ys <- omapM h l ;; Ok (y :: ys)) in H.
    inv_bind H. inv_bind H. injection H as <-. cbn [flat_map] in *. rewrite forallb_app in *.
    apply andb_true_iff in Hq as [H1 H2]. rewrite (Hh _ _ Hm H1), (IH _ Hm0 H2). reflexivity.
Qed.

Lemma step_input x y :
  (u <- g (i_utxos x) ;; r <- g (i_redeemer x) ;; Ok (mk_input (i_name x) u r)) = Ok y ->
  forallb Q [i_utxos x; i_redeemer x] = true -> forallb Q [i_utxos y; i_redeemer y] = true.
Proof.
  intros Hx Hqx. inv_bind Hx. inv_bind Hx. injection Hx as <-. cbn [forallb i_utxos i_redeemer] in *.
  apply andb_true_iff in Hqx as [Ha Hb]. apply andb_true_iff in Hb as [Hb _].
  rewrite (Hg _ _ Ha Hm), (Hg _ _ Hb Hm0). reflexivity.
Qed.
Lemma step_output x y :
  (a <- g (out_address x) ;; d <- g (out_datum x) ;; m <- g (out_amount x) ;; Ok (mk_output a d m (out_optional x))) = Ok y ->
  forallb Q [out_address x; out_datum x; out_amount x] = true -> forallb Q [out_address y; out_datum y; out_amount y] = true.
Proof.
  intros Hx Hqx. inv_bind Hx. inv_bind Hx. inv_bind Hx. injection Hx as <-. cbn [forallb out_address out_datum out_amount] in *.
  apply andb_true_iff in Hqx as [Ha Hb]. apply andb_true_iff in Hb as [Hb Hc]. apply andb_true_iff in Hc as [Hc _].
  rewrite (Hg _ _ Ha Hm), (Hg _ _ Hb Hm0), (Hg _ _ Hc Hm1). reflexivity.
Qed.
Lemma step_mint x y :
  (a <- g (m_amount x) ;; r <- g (m_redeemer x) ;; Ok (mk_mint a r)) = Ok y ->
  forallb Q [m_amount x; m_redeemer x] = true -> forallb Q [m_amount y; m_redeemer y] = true.
Proof.
  intros Hx Hqx. inv_bind Hx. inv_bind Hx. injection Hx as <-. cbn [forallb m_amount m_redeemer] in *.
  apply andb_true_iff in Hqx as [Ha Hb]. apply andb_true_iff in Hb as [Hb _].
  rewrite (Hg _ _ Ha Hm), (Hg _ _ Hb Hm0). reflexivity.
Qed.
Lemma step_md x y :
  (k <- g (md_key x) ;; v <- g (md_value x) ;; Ok (mk_metadata k v)) = Ok y ->
  forallb Q [md_key x; md_value x] = true -> forallb Q [md_key y; md_value y] = true.
Proof.
  intros Hx Hqx. inv_bind Hx. inv_bind Hx. injection Hx as <-. cbn [forallb md_key md_value] in *.
  apply andb_true_iff in Hqx as [Ha Hb]. apply andb_true_iff in Hb as [Hb _].
  rewrite (Hg _ _ Ha Hm), (Hg _ _ Hb Hm0). reflexivity.
Qed.
Lemma forallb_map_snd (l : list (string * expr)) : forallb Q (map snd l) = forallb (fun kv => Q (snd kv)) l.
Proof. induction l as [|x l IH]; cbn; [reflexivity|]. rewrite IH. reflexivity. Qed.
Lemma step_adhoc x y :
  (d <- omapMkv g (ad_data x) ;; Ok (mk_adhoc (ad_name x) d)) = Ok y ->
  forallb Q (map snd (ad_data x)) = true -> forallb Q (map snd (ad_data y)) = true.
Proof.
  intros Hx Hqx. inv_bind Hx. injection Hx as <-. cbn [ad_data] in *.
  rewrite forallb_map_snd in *. exact (omapMkv_keeps Q Q g Hg _ _ Hqx Hm).
Qed.

Lemma tx_mapM_slots t t' : tx_mapM g t = Ok t' -> forallb Q (tx_slots t) = true -> forallb Q (tx_slots t') = true.
Proof.
  unfold tx_mapM. intros H Hq.
  inv_bind H. rename v into fees, Hm into Hfees.
  inv_bind H. rename v into refs, Hm into Hrefs.
  inv_bind H. rename v into ins, Hm into Hins.
  inv_bind H. rename v into outs, Hm into Houts.
  inv_bind H. rename v into val, Hm into Hval.
  inv_bind H. rename v into mints, Hm into Hmints.
  inv_bind H. rename v into burns, Hm into Hburns.
  inv_bind H. rename v into adh, Hm into Hadh.
  inv_bind H. rename v into coll, Hm into Hcoll.
  inv_bind H. rename v into sig, Hm into Hsig.
  inv_bind H. rename v into md, Hm into Hmd.
  injection H as <-. unfold tx_slots in *. cbn [tx_fees tx_references tx_inputs tx_outputs tx_validity tx_mints tx_burns
    tx_adhoc tx_collateral tx_signers tx_metadata] in *.
  rewrite !forallb_app in Hq. rewrite !forallb_app.
  repeat match type of Hq with (_ && _) = true => let Hx := fresh "Hs" in apply andb_true_iff in Hq as [Hx Hq] end.
  repeat (apply andb_true_iff; split).
  - (* inputs *) exact (omapM_slots _ (fun i => [i_utxos i; i_redeemer i]) step_input _ _ Hins Hs).
  - (* outputs *) exact (omapM_slots _ (fun o => [out_address o; out_datum o; out_amount o]) step_output _ _ Houts Hs0).
  - (* mints *) exact (omapM_slots _ (fun m => [m_amount m; m_redeemer m]) step_mint _ _ Hmints Hs1).
  - (* burns *) exact (omapM_slots _ (fun m => [m_amount m; m_redeemer m]) step_mint _ _ Hburns Hs2).
  - (* fees *) cbn [forallb] in Hs3. apply andb_true_iff in Hs3 as [Hf _]. exact (Hg _ _ Hf Hfees).
  - reflexivity.
  - (* adhoc *) exact (omapM_slots _ (fun a => map snd (ad_data a)) step_adhoc _ _ Hadh Hs4).
  - (* signers *) destruct (tx_signers t) as [s|]; cbn [option_mapM] in Hsig.
    + inv_bind Hsig. injection Hsig as <-. cbn [from_option id] in *. exact (omapM_keeps Q Q g Hg _ _ Hs5 Hm).
    + injection Hsig as <-. reflexivity.
  - (* validity *) destruct (tx_validity t) as [v|]; cbn [option_mapM] in Hval.
    + inv_bind Hval. inv_bind Hm. inv_bind Hm. injection Hm as <-. injection Hval as <-.
      cbn [from_option forallb v_since v_until] in *. apply andb_true_iff in Hs6 as [Ha Hb]. apply andb_true_iff in Hb as [Hb _].
      rewrite (Hg _ _ Ha Hm0), (Hg _ _ Hb Hm1). reflexivity.
    + injection Hval as <-. reflexivity.
  - (* metadata *) exact (omapM_slots _ (fun m => [md_key m; md_value m]) step_md _ _ Hmd Hs7).
  - (* references *) exact (omapM_keeps Q Q g Hg _ _ Hs8 Hrefs).
  - (* collateral *) exact (omapM_keeps Q Q g Hg _ _ Hq Hcoll).
Qed.
End TxStep.

Definition tx_datums_plain (t : tx) : bool := forallb datums_plain (tx_slots t).

(** a closed transaction stays closed under tx_reduce: the gate before compilation
    (tx_is_constant) cannot be passed by a template and failed by its reduction *)
Theorem tx_reduce_keeps_closed pick t t' :
  tx_is_constant t = true -> tx_datums_plain t = true -> tx_reduce pick t = Ok t' ->
  tx_is_constant t' = true /\ tx_datums_plain t' = true.
Proof.
  unfold tx_is_constant, tx_datums_plain, tx_reduce. intros H1 H2 H.
  assert (Hc : forallb closedF (tx_slots t) = true).
  { rewrite forallb_forall in *. intros x Hx. rewrite closedF_closed. unfold closed. rewrite (H1 x Hx), (H2 x Hx). reflexivity. }
  pose proof (tx_mapM_slots closedF (reduce pick reduce_fuel) (reduce_keeps_closedF pick reduce_fuel) _ _ H Hc) as Hr.
  apply andb_true_iff. rewrite <- forallb_and. erewrite forallb_ext_in; [exact Hr|]. intros x _. symmetry. apply closedF_closed.
Qed.
