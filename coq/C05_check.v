(** C05_check.v — the loop model of Loop.v replayed on the pass traces recorded from
    tx3_resolver::resolve_tx (tie of C05), the clauses of C05 on the implementation's results,
    and the history cases of C20. *)
From Tx3 Require Import Base Loop.
Local Open Scope N_scope.

Record pass := mk_pass {
  p_fee_in : Z;          (* the fee the compiled IR carried (-1: not a plain number) *)
  p_len : N; p_pid : N; p_fee_out : N;
  p_body_fee : Z;        (* fee field of the decoded payload *)
  p_ok : bool }.

Record case := mk_case {
  k_a : N; k_b : N; k_m : N; k_max : N;
  k_passes : list pass;
  k_kind : N;            (* 0 Ok, 1 Err, 2 panic *)
  k_pid : N; k_len : N; k_fee : N; k_body_fee : Z }.

(** the recorded passes as the abstract pass function: state = index of the next pass *)
Definition build_of (ps : list pass) (st : nat) (fee : N) : outcome (N * N * nat) :=
  match nth_error ps st with
  | Some p =>
    if negb (p_ok p) then Err "compile"
    else if negb (p_fee_in p =? Z.of_N fee)%Z then Err "fee threading"   (* the pass was told another fee *)
    else Ok (p_len p, p_pid p, Datatypes.S st)
  | None => Err "more passes than recorded"
  end.

Definition model (c : case) :=
  resolve (k_a c) (k_b c) (k_m c) nat (build_of (k_passes c)) O (N.to_nat (k_max c)) O.

Definition checks (c : case) : list (N * bool) :=
  let ps := k_passes c in
  let last_ok := forallb p_ok ps in
  match model c with
  | Ok (Some r, st, by_eq) =>
    [ (1%N, (k_kind c =? 0));
      (2%N, (length ps =? st)%nat);                         (* the implementation ran exactly the passes the model runs *)
      (3%N, (c_pid r =? k_pid c) && (c_len r =? k_len c) && (c_fee r =? k_fee c));
      (4%N, forallb (fun p => (p_fee_out p =? k_a c * p_len p + k_b c + k_m c)) ps);
      (5%N, forallb (fun p => (p_body_fee p =? p_fee_in p)%Z) ps);
      (* C05 on the implementation's result *)
      (101%N, (k_body_fee c =? Z.of_N (k_fee c))%Z);
      (102%N, (k_fee c =? k_a c * k_len c + k_b c + k_m c));
      (103%N, (length ps <=? passes_allowed (N.to_nat (k_max c)))%nat);
      (* classification: 110 fails exactly when the loop left through the round cap *)
      (110%N, by_eq) ]
  | Ok (None, _, _) => [ (6%N, false) ]
  | Err e =>
    (* the model stops where a pass failed to compile; the implementation must have failed too *)
    (7%N, negb (k_kind c =? 0) && negb (bool_decide (e = "fee threading"%string))) ::
    (* whatever the model makes of the trace, a returned transaction must satisfy the property *)
    (if k_kind c =? 0 then [ (101%N, (k_body_fee c =? Z.of_N (k_fee c))%Z); (102%N, (k_fee c =? k_a c * k_len c + k_b c + k_m c)) ] else [])
  | _ => [ (8%N, false) ]
  end.

Definition failed (c : case) : list N := map fst (filter (fun x => negb (snd x)) (checks c)).
Fixpoint run_from (i : N) (cs : list case) : list (N * list N) :=
  match cs with
  | [] => []
  | c :: r => match failed c with [] => run_from (i + 1) r | f => (i, f) :: run_from (i + 1) r end
  end.
Definition run (cs : list case) := run_from 0 cs.

(** * C20 *)
Record hcase := mk_hcase {
  h_len : N;                 (* number of earlier resolutions on the instance *)
  h_min_utxo : bool;         (* the target uses min_utxo *)
  h_prior_outputs : Z;       (* outputs of the body left behind by the history (-1: none) *)
  h_fresh_kind : N; h_used_kind : N;
  h_same : bool;             (* same payload, hash, fee / same error variant *)
  h_fresh_passes : N; h_used_passes : N;
  h_panic : bool }.

Definition hchecks (c : hcase) : list (N * bool) :=
  [ (* the theorem's prediction: a target that never reads the state is history-independent *)
    (1%N, if h_min_utxo c then true else h_same c);
    (2%N, if (h_len c =? 0) then h_same c else true);
    (* C20 itself *)
    (101%N, h_same c);
    (102%N, negb (h_panic c)) ].
Definition hfailed (c : hcase) : list N := map fst (filter (fun x => negb (snd x)) (hchecks c)).
Fixpoint hrun_from (i : N) (cs : list hcase) : list (N * list N) :=
  match cs with
  | [] => []
  | c :: r => match hfailed c with [] => hrun_from (i + 1) r | f => (i, f) :: hrun_from (i + 1) r end
  end.
Definition hrun (cs : list hcase) := hrun_from 0 cs.
