(** Assets_wf.v — every value that the constructors and the group operations build holds classes
    in normal form only (no empty policy, no empty name without a policy), so the round trip
    through the IR's asset-expression list preserves every such value. *)
From Tx3 Require Import Base Assets Assets_proofs.
Local Open Scope Z_scope.

Definition wf (a : assets) : Prop := forall k v, a !! k = Some v -> wf_class k = true.

Lemma wf_classes_spec a : wf_classes a = true <-> wf a.
Proof.
  unfold wf_classes, wf. rewrite forallb_forall. split.
  - intros H k v Hk. apply (H (k, v)). apply elem_of_list_In, elem_of_map_to_list. exact Hk.
  - intros H [k v] Hin. apply elem_of_list_In, elem_of_map_to_list in Hin. exact (H k v Hin).
Qed.

Lemma wf_empty : wf a_empty.
Proof. intros k v H. unfold a_empty in H. rewrite lookup_empty in H. discriminate. Qed.

Lemma wf_singleton c z : wf_class c = true -> wf ({[ c := z ]} : assets).
Proof.
  intros Hc k v H. apply lookup_singleton_Some in H as [<- _]. exact Hc.
Qed.

Lemma wf_from_naked z : wf (from_naked_amount z).
Proof. apply wf_singleton. reflexivity. Qed.

Lemma wf_from_named n z : wf (from_named_asset n z).
Proof. destruct n as [|x n]; [apply wf_from_naked | apply wf_singleton; reflexivity]. Qed.

Lemma wf_from_defined p n z : wf (from_defined_asset p n z).
Proof. destruct p as [|x p]; [apply wf_from_named | apply wf_singleton; reflexivity]. Qed.

Lemma wf_from_class c z : wf (from_class_and_amount c z).
Proof. destruct c; [apply wf_from_naked | apply wf_from_named | apply wf_from_defined]. Qed.

Lemma wf_from_asset p n z : wf (from_asset p n z).
Proof.
  destruct p, n; cbn [from_asset]; auto using wf_from_defined, wf_from_named, wf_from_naked.
Qed.

Lemma wf_neg a : wf a -> wf (a_neg a).
Proof.
  intros H k v Hk. unfold a_neg in Hk. rewrite lookup_fmap in Hk.
  destruct (a !! k) as [w|] eqn:E; [|discriminate]. exact (H k w E).
Qed.

Lemma wf_strip a : wf a -> wf (strip a).
Proof.
  intros H k v Hk. unfold strip in Hk. apply map_filter_lookup_Some in Hk as [Hk _]. exact (H k v Hk).
Qed.

Lemma wf_add a b : wf a -> wf b -> wf (a_add a b).
Proof.
  intros Ha Hb. apply wf_strip. intros k v Hk. unfold a_add_raw in Hk.
  rewrite lookup_union_with in Hk.
  destruct (a !! k) as [x|] eqn:Ea; [exact (Ha k x Ea)|].
  destruct (b !! k) as [y|] eqn:Eb; [exact (Hb k y Eb)|]. discriminate.
Qed.

Lemma wf_sub a b : wf a -> wf b -> wf (a_sub a b).
Proof.
  intros Ha Hb. apply wf_strip. intros k v Hk. unfold a_sub_raw in Hk.
  rewrite lookup_merge in Hk.
  destruct (a !! k) as [x|] eqn:Ea; [exact (Ha k x Ea)|].
  destruct (b !! k) as [y|] eqn:Eb; [exact (Hb k y Eb)|]. discriminate.
Qed.

Lemma wf_of_exprs_from acc l a : wf acc -> of_exprs_from acc l = Ok a -> wf a.
Proof.
  revert acc. induction l as [|e l IH]; intros acc Hacc H.
  - cbn in H. injection H as <-. exact Hacc.
  - cbn in H. destruct (of_expr e) as [x| | |] eqn:Ee; try discriminate.
    cbn in H. eapply IH; [|exact H]. apply wf_add; [exact Hacc|].
    destruct e as [[p n] amt]. cbn in Ee. destruct amt; try discriminate.
    injection Ee as <-. apply wf_from_asset.
Qed.

(** the values of the property: built through any constructor (also from an expression list),
    closed under the group operations *)
Inductive built : assets -> Prop :=
| B_empty : built a_empty
| B_naked z : built (from_naked_amount z)
| B_named n z : built (from_named_asset n z)
| B_defined p n z : built (from_defined_asset p n z)
| B_class c z : built (from_class_and_amount c z)
| B_asset p n z : built (from_asset p n z)
| B_exprs l a : of_exprs l = Ok a -> built a
| B_add a b : built a -> built b -> built (a_add a b)
| B_sub a b : built a -> built b -> built (a_sub a b)
| B_neg a : built a -> built (a_neg a).

Theorem built_wf a : built a -> wf_classes a = true.
Proof.
  intros H. apply wf_classes_spec.
  induction H as [| | | | | |l a E| a b _ IHa _ IHb | a b _ IHa _ IHb | a _ IHa];
    auto using wf_empty, wf_from_naked, wf_from_named, wf_from_defined, wf_from_class, wf_from_asset,
      wf_add, wf_sub, wf_neg.
  eapply wf_of_exprs_from; [apply wf_empty | exact E].
Qed.

(** the round trip, without a premise about classes: every value built through the constructors
    and the operations survives value -> expression list -> value, whatever order the hash map
    is iterated in *)
Theorem exprs_roundtrip_built a ord :
  built a -> ord ≡ₚ map_to_list a ->
  exists a', of_exprs (to_exprs_ord ord) = Ok a' /\ a' ≈ a.
Proof. intros Hb. apply exprs_roundtrip. apply built_wf. exact Hb. Qed.

Example built_example :
  built (a_sub (a_add (from_class_and_amount (Defined [] [7%N]) 3) (from_asset (Some []) None 2)) (from_naked_amount 1)).
Proof. repeat constructor. Qed.
