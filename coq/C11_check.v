(** C11_check.v — byte-for-byte correspondence of Serde.v with tx3_tir::encoding::to_bytes, the
    decoder model run on the implementation's bytes, and the clauses of C11. *)
From Tx3 Require Import Base Tir PlutusData Serde.

Record case := mk_case {
  c_tx : tx;                (* printed in the order serialization follows *)
  c_bytes : list N;         (* to_bytes of the implementation *)
  c_rt_kind : N;            (* from_bytes on those bytes: 0 Ok, 1 Err, 2 panic *)
  c_same : bool;            (* canonical(decoded) = canonical(original) *)
  c_same_params : bool;     (* same reported parameters and queries *)
  c_same_after : bool }.    (* identical application gives the same transaction *)

Fixpoint cval_eqb (a b : cval) {struct a} : bool :=
  match a, b with
  | CInt x, CInt y => (x =? y)%Z
  | CText x, CText y => bool_decide (x = y)
  | CArr xs, CArr ys =>
    (fix go (xs ys : list cval) : bool :=
       match xs, ys with [], [] => true | x :: xs', y :: ys' => cval_eqb x y && go xs' ys' | _, _ => false end) xs ys
  | CMap xs, CMap ys =>
    (fix go (xs ys : list (cval * cval)) : bool :=
       match xs, ys with
       | [], [] => true
       | x :: xs', y :: ys' => cval_eqb (fst x) (fst y) && cval_eqb (snd x) (snd y) && go xs' ys'
       | _, _ => false end) xs ys
  | CBool x, CBool y => Bool.eqb x y
  | CNull, CNull => true
  | _, _ => false
  end.

Definition checks (c : case) : list (N * bool) :=
  [ (1%N, bool_decide (to_bytes (c_tx c) = c_bytes c));
    (2%N, match decode_cval (S (length (c_bytes c))) (c_bytes c) with
          | Some (v, []) => cval_eqb v (tx_cval (c_tx c))
          | _ => false
          end);
    (101%N, (c_rt_kind c =? 0)%N && c_same c);
    (102%N, c_same_params c);
    (103%N, c_same_after c) ].
Definition failed (c : case) : list N := map fst (filter (fun x => negb (snd x)) (checks c)).
Fixpoint run_from (i : N) (cs : list case) : list (N * list N) :=
  match cs with
  | [] => []
  | c :: r => match failed c with [] => run_from (i + 1)%N r | f => (i, f) :: run_from (i + 1)%N r end
  end.
Definition run (cs : list case) := run_from 0%N cs.

(** the malformed stream: Ok or Err, never a panic; unknown or retired versions are refused *)
Record gcase := mk_gcase { g_kind : N; g_must_fail : bool }.
Definition gchecks (c : gcase) : list (N * bool) :=
  [ (104%N, negb (g_kind c =? 2)%N); (105%N, if g_must_fail c then (g_kind c =? 1)%N else true) ].
Definition gfailed (c : gcase) : list N := map fst (filter (fun x => negb (snd x)) (gchecks c)).
Fixpoint grun_from (i : N) (cs : list gcase) : list (N * list N) :=
  match cs with
  | [] => []
  | c :: r => match gfailed c with [] => grun_from (i + 1)%N r | f => (i, f) :: grun_from (i + 1)%N r end
  end.
Definition grun (cs : list gcase) := grun_from 0%N cs.
