(** Compile_redeemers.v — mint and withdrawal redeemers point at their own policy / account:
    the index written into the witness set is the position of that very key in the (sorted,
    distinct) key list of the body's field, and a block whose key is absent from the body makes
    the compilation fail instead of borrowing a neighbour's index (C08). *)
From Tx3 Require Import Base Assets Select Tir Reduce PlutusData PlutusData_proofs Compile Compile_proofs.

Lemma elem_of_concat_Forall2 {A B} (P : A -> list B -> Prop) (l : list A) (rs : list (list B)) r :
  Forall2 P l rs -> r ∈ concat rs -> exists a xs, a ∈ l /\ P a xs /\ r ∈ xs.
Proof.
  induction 1 as [|a xs l rs Hp _ IH]; cbn; intros Hin; [apply elem_of_nil in Hin; contradiction|].
  apply elem_of_app in Hin as [Hin|Hin].
  - exists a, xs. split; [left|]. split; assumption.
  - destruct (IH Hin) as (a' & xs' & Ha & Hp' & Hr). exists a', xs'. split; [right; exact Ha|]. split; assumption.
Qed.

Theorem mint_redeemers_point_at_policy ms minted rs :
  mint_redeemers ms minted = Ok rs ->
  forall r, r ∈ rs ->
  exists m x xs p p' d k,
    m ∈ ms /\ m_redeemer m <> ENone /\
    expr_into_assets (m_amount m) = Ok (x :: xs) /\ expr_into_bytes (fst (fst x)) = Ok p /\ hash_from 28 p = Ok p' /\
    nth_error (map fst (from_option id [] minted)) k = Some p' /\
    (forall j y, (j < k)%nat -> nth_error (map fst (from_option id [] minted)) j = Some y -> y <> p') /\
    encode_redeemer (m_redeemer m) = Ok d /\ r = mk_ared 1 (Z.of_nat k) d.
Proof.
  unfold mint_redeemers. intros H r Hr.
  match type of H with (rs0 <- omapM ?f ms ;; _) = _ => destruct (omapM f ms) as [rss| | |] eqn:E; cbn [obind] in H; try discriminate end.
  injection H as <-. apply omapM_Forall2 in E.
  destruct (elem_of_concat_Forall2 _ _ _ _ E Hr) as (m & xs0 & Hm & Hf & Hin).
  destruct (m_redeemer m) eqn:Er;
    try (injection Hf as <-; apply elem_of_nil in Hin; contradiction).
  all: destruct (expr_into_assets (m_amount m)) as [ys| | |] eqn:Ea; cbn [obind] in Hf; try discriminate;
    destruct ys as [|x1 xs1]; [discriminate|];
    destruct (expr_into_bytes (fst (fst x1))) as [p| | |] eqn:Ep; cbn [obind] in Hf; try discriminate;
    destruct (hash_from 28 p) as [p'| | |] eqn:Eh; cbn [obind] in Hf; try discriminate;
    destruct (position (fun k => bool_decide (k = p')) (map fst (from_option id [] minted))) as [k|] eqn:Epos; [|discriminate];
    match type of Hf with (d <- ?e ;; _) = _ => destruct e as [d| | |] eqn:Ed; cbn [obind] in Hf; try discriminate end;
    injection Hf as <-; apply elem_of_list_singleton in Hin; subst r;
    destruct (position_spec _ _ _ Epos) as (y & Hn & Hy & Hbefore); apply bool_decide_eq_true in Hy; subst y;
    exists m, x1, xs1, p, p', d, k; rewrite Er;
    (split; [exact Hm|]); (split; [discriminate|]); (split; [exact Ea|]); (split; [exact Ep|]); (split; [exact Eh|]);
    (split; [exact Hn|]); (split; [intros j y Hj Hy Heq; specialize (Hbefore j y Hj Hy); apply bool_decide_eq_false in Hbefore; contradiction|]);
    (split; [exact Ed|reflexivity]).
Qed.

(** a mint or burn block with a redeemer whose policy is not among the body's minted policies
    (the amounts of that policy cancelled) cannot be compiled *)
Theorem mint_redeemer_needs_policy ms minted m x xs p p' :
  m ∈ ms -> m_redeemer m <> ENone ->
  expr_into_assets (m_amount m) = Ok (x :: xs) -> expr_into_bytes (fst (fst x)) = Ok p -> hash_from 28 p = Ok p' ->
  p' ∉ map fst (from_option id [] minted) ->
  forall rs, mint_redeemers ms minted <> Ok rs.
Proof.
  intros Hm Hred Ea Ep Eh Hnot rs H.
  unfold mint_redeemers in H.
  match type of H with (rs0 <- omapM ?f ms ;; _) = _ => destruct (omapM f ms) as [rss| | |] eqn:E; cbn [obind] in H; try discriminate end.
  apply omapM_Forall2 in E. apply elem_of_list_In in Hm.
  assert (Hex : exists y, (match m_redeemer m with
                          | ENone => Ok []
                          | red => xs0 <- expr_into_assets (m_amount m) ;;
                                   match xs0 with [] => Err "MissingExpression" | x0 :: _ =>
                                     p0 <- expr_into_bytes (fst (fst x0)) ;; p0' <- hash_from 28 p0 ;;
                                     match position (fun k => bool_decide (k = p0')) (map fst (from_option id [] minted)) with
                                     | Some k => d <- encode_redeemer red ;; Ok [mk_ared 1 (Z.of_nat k) d]
                                     | None => Err "ConsistencyError" end end end) = Ok y).
  { clear -E Hm. induction E as [|a b l r Hab _ IH]; [destruct Hm|]. destruct Hm as [->|Hm]; [eexists; exact Hab|apply IH; exact Hm]. }
  destruct Hex as [y Hy]. rewrite Ea in Hy. cbn [obind] in Hy. rewrite Ep in Hy. cbn [obind] in Hy. rewrite Eh in Hy. cbn [obind] in Hy.
  destruct (position (fun k => bool_decide (k = p')) (map fst (from_option id [] minted))) as [k|] eqn:Epos.
  - destruct (position_spec _ _ _ Epos) as (z & Hn & Hz & _). apply bool_decide_eq_true in Hz. subst z.
    apply Hnot. apply elem_of_list_In. eapply nth_error_In. exact Hn.
  - destruct (m_redeemer m); try discriminate; contradiction.
Qed.
