(** C01_assets.v — multi-asset arithmetic end to end: for closed amount expressions built from
    asset constructors, +, - and unary !, lowering followed by reduction yields an asset list
    whose value is (semantically) exactly the multi-asset value that the independent semantics
    assigns to the source - class by class, nothing dropped, merged or re-associated (C01). *)
From Tx3 Require Import Base Assets Assets_proofs Tir Reduce Surface Lower Denote C01_proofs.
Local Open Scope Z_scope.

(** * the asset list of a value reads back as that value *)

Lemma insert_sorted_perm kv l : insert_sorted kv l ≡ₚ kv :: l.
Proof.
  induction l as [|x l IH]; cbn; [reflexivity|].
  destruct (class_ltb kv.1 x.1); [reflexivity|]. rewrite IH. apply perm_swap.
Qed.
Lemma sorted_entries_perm a : sorted_entries a ≡ₚ map_to_list a.
Proof.
  unfold sorted_entries. induction (map_to_list a) as [|x l IH]; cbn; [reflexivity|].
  rewrite insert_sorted_perm. constructor. exact IH.
Qed.

Lemma to_asset_exprs_of_entries ord : to_asset_exprs (assets_to_exprs ord) = to_exprs_ord ord.
Proof.
  unfold to_asset_exprs, assets_to_exprs, to_exprs_ord. rewrite map_map. apply map_ext. intros [c z].
  unfold entry_to_expr. cbn [fst snd]. destruct c as [|n|pp n]; reflexivity.
Qed.

(** the checked sum over the entries of a value: every partial sum is a part of the value *)
Lemma all_in_i128_spec a : all_in_i128 a = true <-> forall k v, a !! k = Some v -> in_i128 v = true.
Proof.
  unfold all_in_i128. rewrite forallb_forall. split.
  - intros H k v Hl. apply (H (k, v)). apply elem_of_list_In. apply elem_of_map_to_list. exact Hl.
  - intros H [k v] Hin. apply elem_of_list_In in Hin. apply elem_of_map_to_list in Hin. cbn. eapply H; exact Hin.
Qed.
Lemma all_in_i128_get0 a : (forall k, in_i128 (get0 a k) = true) -> all_in_i128 a = true.
Proof. intros H. apply all_in_i128_spec. intros k v Hl. specialize (H k). unfold get0 in H. rewrite Hl in H. exact H. Qed.
Lemma in_i128_get0 a k : all_in_i128 a = true -> in_i128 (get0 a k) = true.
Proof.
  intros H. unfold get0. destruct (a !! k) as [v|] eqn:E; cbn; [|reflexivity].
  apply all_in_i128_spec with (k := k) (v := v) in H; assumption.
Qed.

Lemma expr_assets_from_entries acc l :
  forallb (fun kv => wf_class kv.1) l = true -> NoDup l.*1 ->
  (forall k, k ∈ l.*1 -> get0 acc k = 0) ->
  (forall k, in_i128 (get0 acc k) = true) -> (forall kv, kv ∈ l -> in_i128 kv.2 = true) ->
  exists a', expr_assets_from acc (to_exprs_ord l) = Ok a' /\
             forall k, get0 a' k = get0 acc k + entries_sum l k.
Proof.
  revert acc. induction l as [|[c z] l IH]; intros acc Hwf Hnd Hfresh Hacc Hl; cbn [to_exprs_ord map expr_assets_from].
  - exists acc. split; [reflexivity|]. intros k. cbn. lia.
  - cbn in Hwf. apply andb_true_iff in Hwf as [Hc Hwf]. cbn in Hnd. apply NoDup_cons in Hnd as [Hnotin Hnd].
    unfold entry_to_expr at 1. cbn [snd]. unfold entry_to_expr, of_expr. cbn [fst snd obind].
    rewrite from_asset_of_class by exact Hc.
    assert (Hsum : forall k, in_i128 (get0 (a_add_raw acc {[ c := z ]}) k) = true).
    { intros k. rewrite get0_add_raw, get0_singleton. destruct (decide (c = k)) as [<-|Hne].
      - rewrite (Hfresh c) by (cbn; left). replace (0 + z) with z by lia. apply (Hl (c, z)). left.
      - replace (get0 acc k + 0) with (get0 acc k) by lia. apply Hacc. }
    unfold chk_assets. rewrite (all_in_i128_get0 _ Hsum). cbn [obind].
    destruct (IH (strip (a_add_raw acc {[ c := z ]})) Hwf Hnd) as [a' [E Hget]].
    + intros k Hk. rewrite get0_strip, get0_add_raw, get0_singleton.
      destruct (decide (c = k)) as [<-|Hne]; [contradiction|]. rewrite (Hfresh k) by (cbn; right; exact Hk). lia.
    + intros k. rewrite get0_strip. apply Hsum.
    + intros kv Hkv. apply Hl. right. exact Hkv.
    + exists a'. split; [exact E|]. intros k. rewrite Hget, get0_strip, get0_add_raw, get0_singleton.
      unfold entries_sum. cbn. lia.
Qed.

Lemma assets_expr_reads_back a :
  wf_classes a = true -> all_in_i128 a = true ->
  exists a', expr_assets (assets_to_exprs (sorted_entries a)) = Ok a' /\ a' ≈ a.
Proof.
  intros Hwf Hin. unfold expr_assets. rewrite to_asset_exprs_of_entries.
  pose proof (sorted_entries_perm a) as Hp.
  destruct (expr_assets_from_entries a_empty (sorted_entries a)) as [a' [E Hget]].
  - apply forallb_forall. intros x Hx. unfold wf_classes in Hwf. rewrite forallb_forall in Hwf. apply Hwf.
    apply elem_of_list_In. rewrite <- Hp. apply elem_of_list_In. exact Hx.
  - rewrite Hp. apply NoDup_fst_map_to_list.
  - intros k _. apply get0_empty.
  - intros k. rewrite get0_empty. reflexivity.
  - intros [k v] Hkv. rewrite Hp in Hkv. apply elem_of_map_to_list in Hkv. cbn.
    apply all_in_i128_spec with (k := k) (v := v) in Hin; assumption.
  - exists a'. split; [exact E|]. intros k. rewrite Hget, get0_empty, (entries_sum_map a _ k Hp). lia.
Qed.

(** * classes stay in normal form *)
Lemma wf_classes_spec a : wf_classes a = true <-> forall k v, a !! k = Some v -> wf_class k = true.
Proof.
  unfold wf_classes. rewrite forallb_forall. split.
  - intros H k v Hl. apply (H (k, v)). apply elem_of_list_In. apply elem_of_map_to_list. exact Hl.
  - intros H [k v] Hin. apply elem_of_list_In in Hin. apply elem_of_map_to_list in Hin. cbn. eapply H; exact Hin.
Qed.

Lemma wf_strip a : wf_classes a = true -> wf_classes (strip a) = true.
Proof.
  rewrite !wf_classes_spec. intros H k v Hl. unfold strip in Hl. apply map_filter_lookup_Some in Hl as [Hl _]. eapply H; exact Hl.
Qed.
Lemma wf_add_raw a b : wf_classes a = true -> wf_classes b = true -> wf_classes (a_add_raw a b) = true.
Proof.
  rewrite !wf_classes_spec. intros Ha Hb k v Hl. unfold a_add_raw in Hl. rewrite lookup_union_with in Hl.
  destruct (a !! k) as [x|] eqn:Ea; [eapply Ha; exact Ea|]. destruct (b !! k) as [y|] eqn:Eb; [eapply Hb; exact Eb|]. discriminate.
Qed.
Lemma wf_add a b : wf_classes a = true -> wf_classes b = true -> wf_classes (a_add a b) = true.
Proof. intros Ha Hb. unfold a_add. apply wf_strip. apply wf_add_raw; assumption. Qed.
Lemma wf_neg a : wf_classes a = true -> wf_classes (a_neg a) = true.
Proof.
  rewrite !wf_classes_spec. intros Ha k v Hl. unfold a_neg in Hl. rewrite lookup_fmap in Hl.
  destruct (a !! k) as [x|] eqn:Ea; [eapply Ha; exact Ea|discriminate].
Qed.
Lemma wf_empty : wf_classes a_empty = true.
Proof. reflexivity. Qed.
Lemma wf_singleton c z : wf_class c = true -> wf_classes ({[ c := z ]} : assets) = true.
Proof.
  intros Hc. apply wf_classes_spec. intros k v Hl. apply lookup_singleton_Some in Hl as [<- _]. exact Hc.
Qed.
Lemma wf_from_asset po no z : wf_classes (from_asset po no z) = true.
Proof.
  destruct po as [[|x pp]|], no as [[|y n]|]; cbn; try reflexivity; apply wf_singleton; reflexivity.
Qed.
Lemma wf_expr_assets_from acc l a : wf_classes acc = true -> expr_assets_from acc l = Ok a -> wf_classes a = true.
Proof.
  revert acc. induction l as [|[[pc nc] amt] l IH]; intros acc Hacc H; cbn [expr_assets_from snd] in H.
  - injection H as <-. exact Hacc.
  - destruct amt; try discriminate. cbn [of_expr obind] in H. unfold chk_assets in H.
    destruct (all_in_i128 _); [|discriminate]. cbn [obind] in H.
    eapply IH; [|exact H]. apply wf_strip. apply wf_add_raw; [exact Hacc|apply wf_from_asset].
Qed.
Lemma wf_expr_assets xs a : expr_assets xs = Ok a -> wf_classes a = true.
Proof. unfold expr_assets. apply wf_expr_assets_from. apply wf_empty. Qed.

Lemma all_in_i128_strip a : all_in_i128 a = true -> all_in_i128 (strip a) = true.
Proof.
  rewrite !all_in_i128_spec. intros H k v Hl. unfold strip in Hl. apply map_filter_lookup_Some in Hl as [Hl _]. eapply H; exact Hl.
Qed.

(** * the fragment and its denotation *)
Section AssetsPipeline.
Variable p : sprogram.
Variable t : stx.

Definition lit_part (x : sexpr) : option bytes :=
  match x with SUnit => Some [] | SHex b => Some b | _ => None end.
Definition lit_name (x : sexpr) : option bytes :=
  match x with SUnit => Some [] | SHex b => Some b | SStr s => Some s | _ => None end.

(** [aden e a]: the closed amount expression [e] denotes the value [a]; the side conditions say
    that no intermediate amount leaves the representable range *)
Definition not_builtin (n : string) : Prop :=
  n <> "min_utxo"%string /\ n <> "tip_slot"%string /\ n <> "slot_to_time"%string /\ n <> "time_to_slot"%string.

Inductive aden : sexpr -> assets -> Prop :=
| AD_call n pol nm ie v pb nb r :
    not_builtin n ->
    resolve p t n = Some (SymAsset pol nm) -> lit_part pol = Some pb -> lit_name nm = Some nb ->
    ival ie = Some v -> in_i128 v = true -> aden (SCall n (ie :: r)) {[ class_of_bytes pb nb := v ]}
| AD_add a b x y :
    aden a x -> aden b y -> (forall k, in_i128 (get0 x k + get0 y k) = true) -> aden (SAddE a b) (a_add x y)
| AD_sub a b x y :
    aden a x -> aden b y -> (forall k, in_i128 (- get0 y k) = true) -> (forall k, in_i128 (get0 x k - get0 y k) = true) ->
    aden (SSubE a b) (a_sub x y)
| AD_neg a x :
    aden a x -> (forall k, in_i128 (- get0 x k) = true) -> aden (SNegE a) (a_neg x).

Fixpoint adepth (e : sexpr) : nat :=
  match e with
  | SAddE a b | SSubE a b => S (Nat.max (adepth a) (adepth b))
  | SNegE a => S (adepth a)
  | SCall _ (ie :: _) => S (S (sdepth ie))
  | _ => 1%nat
  end.

(** the value of one constructor call, as the back-conversion computes it *)
Lemma leaf_value pol nm pb nb pe ne v :
  lit_part pol = Some pb -> lit_name nm = Some nb -> in_i128 v = true ->
  pe = match pol with SUnit => ENone | SHex b => EBytes b | _ => ENone end ->
  ne = match nm with SUnit => ENone | SHex b => EBytes b | SStr s => EString s | _ => ENone end ->
  exists a', expr_assets [(pe, ne, ENumber v)] = Ok a' /\ a' ≈ {[ class_of_bytes pb nb := v ]}.
Proof.
  intros Hp Hn Hv -> ->. unfold expr_assets, to_asset_exprs. cbn [map expr_assets_from fst snd to_acomp of_expr obind].
  assert (Hc : from_asset (expect_policy (to_acomp match pol with SUnit => ENone | SHex b => EBytes b | _ => ENone end))
                          (expect_name (to_acomp match nm with SUnit => ENone | SHex b => EBytes b | SStr s => EString s | _ => ENone end)) v
               = {[ class_of_bytes pb nb := v ]}).
  { destruct pol; try discriminate; destruct nm; try discriminate; cbn in Hp, Hn; injection Hp as <-; injection Hn as <-;
      cbn [to_acomp expect_policy expect_name from_asset];
      repeat match goal with
             | |- context [from_defined_asset ?l _ _] => is_var l; destruct l; cbn [from_defined_asset]
             | |- context [from_named_asset ?l _] => is_var l; destruct l; cbn [from_named_asset]
             end;
      reflexivity. }
  cbn [to_acomp] in Hc |- *. rewrite Hc.
  assert (Hsum : all_in_i128 (a_add_raw a_empty {[ class_of_bytes pb nb := v ]}) = true).
  { apply all_in_i128_get0. intros k. rewrite get0_add_raw, get0_empty, get0_singleton.
    destruct (decide (class_of_bytes pb nb = k)); [replace (0 + v) with v by lia; exact Hv|reflexivity]. }
  unfold chk_assets. rewrite Hsum. cbn [obind expr_assets_from]. eexists. split; [reflexivity|].
  apply add_empty_l.
Qed.

Lemma is_constant_entries ord : is_constant (EAssets (assets_to_exprs ord)) = true.
Proof.
  cbn [is_constant forall_children]. unfold assets_to_exprs. rewrite forallb_forall. intros x Hx.
  apply in_map_iff in Hx as [[c z] [<- _]]. cbn [fst snd]. destruct c as [|n|pp n]; reflexivity.
Qed.

Lemma reduce_leaf pick fr e : (match e with ENone | EBytes _ | EString _ | ENumber _ => True | _ => False end) -> reduce pick (S fr) e = Ok e.
Proof. destruct e; intros H; try destruct H; reflexivity. Qed.

(** what the induction carries: the reduced IR is a constant asset list that reads back as the value *)
Definition good (pick f : nat) (ir : expr) (a : assets) : Prop :=
  exists xs a', reduce pick f ir = Ok (EAssets xs) /\ is_constant (EAssets xs) = true /\ expr_assets xs = Ok a' /\ a' ≈ a.

Lemma good_result a0 a :
  wf_classes a0 = true -> all_in_i128 a0 = true -> a0 ≈ a ->
  exists xs a', assets_expr a0 = EAssets xs /\ is_constant (EAssets xs) = true /\ expr_assets xs = Ok a' /\ a' ≈ a.
Proof.
  intros Hwf Hin He. destruct (assets_expr_reads_back a0 Hwf Hin) as [a' [E Ha']].
  exists (assets_to_exprs (sorted_entries a0)), a'. split; [reflexivity|]. split; [apply is_constant_entries|].
  split; [exact E|]. intros k. rewrite (Ha' k). apply He.
Qed.

Theorem assets_pipeline : forall e a, aden e a -> forall pick f d c, (adepth e <= f)%nat ->
  exists ir, lower_expr p t f (S d) c e = Ok ir /\ good pick f ir a.
Proof.
  induction 1 as [n pol nm ie v pb nb r Hnb Hres Hp Hn Hv Hrange
                 | ea eb x y _ IHa _ IHb Hov
                 | ea eb x y _ IHa _ IHb Hov1 Hov2
                 | ea x _ IHa Hov]; intros pick f d c Hf.
  - (* constructor call *)
    cbn [adepth] in Hf. destruct f as [|f]; [lia|].
    assert (Hf1 : exists f0, f = S f0) by (destruct f; [lia|eexists; reflexivity]).
    destruct Hnb as (N1 & N2 & N3 & N4).
    cbn [lower_expr].
    rewrite !bool_decide_eq_false_2 by assumption. rewrite Hres.
    set (pe := match pol with SUnit => ENone | SHex b => EBytes b | _ => ENone end).
    set (ne := match nm with SUnit => ENone | SHex b => EBytes b | SStr s0 => EString s0 | _ => ENone end).
    assert (Hpe : match pol with SUnit => Ok ENone | _ => lower_expr p t f (S d) c pol end = Ok pe).
    { destruct Hf1 as [f0 ->]. destruct pol; try discriminate; reflexivity. }
    assert (Hne : match nm with SUnit => Ok ENone | _ => lower_expr p t f (S d) c nm end = Ok ne).
    { destruct Hf1 as [f0 ->]. destruct nm; try discriminate; reflexivity. }
    rewrite Hpe. cbn [obind]. rewrite Hne. cbn [obind].
    rewrite (lower_int p t f (S d) c ie v Hv) by lia. cbn [obind].
    eexists. split; [reflexivity|].
    destruct (leaf_value pol nm pb nb pe ne v Hp Hn Hrange eq_refl eq_refl) as [a' [E Ha']].
    exists [(pe, ne, ENumber v)], a'. split.
    + cbn [reduce]. unfold composite_reduce. cbn [mapM_children omapM3 fst snd].
      assert (R1 : reduce pick f pe = Ok pe).
      { destruct Hf1 as [f0 ->]. apply reduce_leaf. subst pe. destruct pol; exact I. }
      assert (R2 : reduce pick f ne = Ok ne).
      { destruct Hf1 as [f0 ->]. apply reduce_leaf. subst ne. destruct nm; exact I. }
      rewrite R1. cbn [obind]. rewrite R2. cbn [obind].
      rewrite (reduce_int pick f ie v Hv) by lia. cbn [obind].
      assert (Hc : forall_children is_constant (EAssets [(pe, ne, ENumber v)]) = true).
      { cbn [forall_children forallb fst snd]. subst pe ne. destruct pol, nm; reflexivity. }
      rewrite Hc. reflexivity.
    + split; [|split; [exact E|exact Ha']].
      cbn [is_constant forall_children forallb fst snd]. subst pe ne. destruct pol, nm; reflexivity.
  - (* + *)
    cbn [adepth] in Hf. destruct f as [|f]; [lia|].
    destruct (IHa pick f d c) as [ia [La (xs & ax & Ra & Ca & Ea & Qa)]]; [lia|].
    destruct (IHb pick f d c) as [ib [Lb (ys & ay & Rb & Cb & Eb & Qb)]]; [lia|].
    cbn [lower_expr]. rewrite La. cbn [obind]. rewrite Lb. cbn [obind].
    eexists. split; [reflexivity|].
    assert (Hchk : all_in_i128 (a_add_raw ax ay) = true).
    { apply all_in_i128_get0. intros k. rewrite get0_add_raw, (Qa k), (Qb k). apply Hov. }
    destruct (good_result (strip (a_add_raw ax ay)) (a_add x y)) as (zs & az & Ez & Cz & Rz & Qz).
    { apply wf_strip. apply wf_add_raw; eapply wf_expr_assets; eassumption. }
    { apply all_in_i128_strip. exact Hchk. }
    { intros k. rewrite get0_strip, get0_add_raw, get0_add, (Qa k), (Qb k). reflexivity. }
    exists zs, az. split; [|split; [exact Cz|split; [exact Rz|exact Qz]]].
    cbn [reduce]. unfold composite_reduce. cbn [mapM_children]. rewrite Ra. cbn [obind]. rewrite Rb. cbn [obind].
    cbn [forall_children]. rewrite Ca, Cb. cbn [andb reduce_self add_expr]. unfold add_assets. rewrite Eb. cbn [obind]. rewrite Ea. cbn [obind].
    unfold chk_assets. rewrite Hchk. cbn [obind]. rewrite Ez. reflexivity.
  - (* - *)
    cbn [adepth] in Hf. destruct f as [|f]; [lia|].
    destruct (IHa pick f d c) as [ia [La (xs & ax & Ra & Ca & Ea & Qa)]]; [lia|].
    destruct (IHb pick f d c) as [ib [Lb (ys & ay & Rb & Cb & Eb & Qb)]]; [lia|].
    cbn [lower_expr]. rewrite La. cbn [obind]. rewrite Lb. cbn [obind].
    eexists. split; [reflexivity|].
    assert (Hneg : all_in_i128 (a_neg ay) = true).
    { apply all_in_i128_get0. intros k. rewrite get0_neg, (Qb k). apply Hov1. }
    destruct (good_result (a_neg ay) (a_neg y)) as (ns & an & En & Cn & Rn & Qn).
    { apply wf_neg. eapply wf_expr_assets; exact Eb. }
    { exact Hneg. }
    { intros k. rewrite !get0_neg, (Qb k). reflexivity. }
    assert (Hchk : all_in_i128 (a_add_raw ax an) = true).
    { apply all_in_i128_get0. intros k. rewrite get0_add_raw, (Qa k), (Qn k), get0_neg.
      replace (get0 x k + - get0 y k) with (get0 x k - get0 y k) by lia. apply Hov2. }
    destruct (good_result (strip (a_add_raw ax an)) (a_sub x y)) as (zs & az & Ez & Cz & Rz & Qz).
    { apply wf_strip. apply wf_add_raw; eapply wf_expr_assets; eassumption. }
    { apply all_in_i128_strip. exact Hchk. }
    { intros k. rewrite get0_strip, get0_add_raw, get0_sub, (Qa k), (Qn k), get0_neg. lia. }
    exists zs, az. split; [|split; [exact Cz|split; [exact Rz|exact Qz]]].
    cbn [reduce]. unfold composite_reduce. cbn [mapM_children]. rewrite Ra. cbn [obind]. rewrite Rb. cbn [obind].
    cbn [forall_children]. rewrite Ca, Cb. cbn [andb reduce_self sub_expr neg_expr]. rewrite Eb. cbn [obind].
    unfold chk_assets at 1. rewrite Hneg. cbn [obind]. rewrite En. unfold add_assets. rewrite Rn. cbn [obind]. rewrite Ea. cbn [obind].
    unfold chk_assets. rewrite Hchk. cbn [obind]. rewrite Ez. reflexivity.
  - (* unary ! *)
    cbn [adepth] in Hf. destruct f as [|f]; [lia|].
    destruct (IHa pick f d c) as [ia [La (xs & ax & Ra & Ca & Ea & Qa)]]; [lia|].
    cbn [lower_expr]. rewrite La. cbn [obind].
    eexists. split; [reflexivity|].
    assert (Hneg : all_in_i128 (a_neg ax) = true).
    { apply all_in_i128_get0. intros k. rewrite get0_neg, (Qa k). apply Hov. }
    destruct (good_result (a_neg ax) (a_neg x)) as (ns & an & En & Cn & Rn & Qn).
    { apply wf_neg. eapply wf_expr_assets; exact Ea. }
    { exact Hneg. }
    { intros k. rewrite !get0_neg, (Qa k). reflexivity. }
    exists ns, an. split; [|split; [exact Cn|split; [exact Rn|exact Qn]]].
    cbn [reduce]. unfold composite_reduce. cbn [mapM_children]. rewrite Ra. cbn [obind].
    cbn [forall_children]. rewrite Ca. cbn [reduce_self neg_expr]. rewrite Ea. cbn [obind].
    unfold chk_assets. rewrite Hneg. cbn [obind]. rewrite En. reflexivity.
Qed.

(** the independent semantics assigns the same value *)
Theorem assets_denotation : forall e a, aden e a -> forall env f c, (adepth e <= f)%nat ->
  eval p t env f c e = Some (VAssets a).
Proof.
  induction 1 as [n pol nm ie v pb nb r Hnb Hres Hp Hn Hv Hrange
                 | ea eb x y _ IHa _ IHb Hov
                 | ea eb x y _ IHa _ IHb Hov1 Hov2
                 | ea x _ IHa Hov]; intros env f c Hf.
  - cbn [adepth] in Hf. destruct f as [|f]; [lia|]. destruct Hnb as (N1 & N2 & N3 & N4).
    cbn [eval]. rewrite !bool_decide_eq_false_2 by assumption. rewrite Hres.
    rewrite (eval_int p t env f c ie v Hv) by lia.
    destruct pol; try discriminate; destruct nm; try discriminate; cbn in Hp, Hn; injection Hp as <-; injection Hn as <-; reflexivity.
  - cbn [adepth] in Hf. destruct f as [|f]; [lia|]. cbn [eval]. rewrite (IHa env f c), (IHb env f c) by lia. reflexivity.
  - cbn [adepth] in Hf. destruct f as [|f]; [lia|]. cbn [eval]. rewrite (IHa env f c), (IHb env f c) by lia. reflexivity.
  - cbn [adepth] in Hf. destruct f as [|f]; [lia|]. cbn [eval]. rewrite (IHa env f c) by lia. reflexivity.
Qed.
End AssetsPipeline.
