(** Lower_ctor.v — the constructor alternative of a lowered record / variant constructor is the
    index of the case the template names, and it has one field per declared field of that case,
    whatever is spread into it (C09). *)
From Tx3 Require Import Base Tir Surface Lower.

Section Ctor.
Variables (p : sprogram) (t : stx).

Theorem struct_lowers_to_named_case f d c tyname case fields spread e td :
  lower_expr p t f d c (SStruct tyname case fields spread) = Ok e ->
  resolve p t tyname = Some (SymType td) ->
  exists ctor decl fs,
    index_of (fun cs => bool_decide (fst cs = from_option id "Default"%string case)) (td_cases td) = Some ctor /\
    option_map snd (find (fun cs => bool_decide (fst cs = from_option id "Default"%string case)) (td_cases td)) = Some decl /\
    e = EStruct (N.of_nat ctor) fs /\ length fs = length decl.
Proof.
  destruct f as [|f]; [cbn; discriminate|].
  cbn [lower_expr]. destruct d as [|d]; [discriminate|]. intros H Hr. rewrite Hr in H.
  destruct (index_of _ (td_cases td)) as [ctor|] eqn:Ei; [|discriminate].
  destruct (option_map snd (find _ (td_cases td))) as [decl|] eqn:Ed; [|discriminate].
  match type of H with (fs <- ?g 0%nat decl ;; _) = _ => destruct (g 0%nat decl) as [fs| | |] eqn:Eg; cbn [obind] in H; try discriminate end.
  injection H as <-. exists ctor, decl, fs. split; [reflexivity|]. split; [reflexivity|]. split; [reflexivity|].
  clear Ed Ei. revert fs Eg. generalize 0%nat. induction decl as [|[fname fty] decl IH]; intros i fs Eg.
  - injection Eg as <-. reflexivity.
  - match type of Eg with (v <- ?e ;; _) = _ => destruct e as [v| | |]; cbn [obind] in Eg; try discriminate end.
    match type of Eg with (rest <- ?e ;; _) = _ => destruct e as [rest| | |] eqn:Er; cbn [obind] in Eg; try discriminate end.
    injection Eg as <-. cbn [length]. f_equal. exact (IH (S i) rest Er).
Qed.
End Ctor.
