(** Compile_check.v — correspondence of Compile.v (after Reduce.v) with the decoded payloads of
    tx3_cardano, and the clauses of C02 (exact quantities), C08 (redeemer indices), C10
    (well-formedness) and C14 (no panic) evaluated on the implementation's own output. *)
From Tx3 Require Import Base Assets Tir Reduce PlutusData Compile.

Record oracles_c := mk_oracles_c {
  oc_parse : list (bytes * option bytes);
  oc_of_string : list (bytes * option bytes);
  oc_keyhash : list (bytes * option bytes);
  oc_reward : list (bytes * option bytes);
  oc_native : list (bytes * bool) }.

Definition tab {A} (m : list (bytes * A)) (d : A) (k : bytes) : A :=
  match find (fun kv => bool_decide (fst kv = k)) m with Some kv => snd kv | None => d end.

Record case := mk_case {
  c_tx : tx;
  c_reduce : bool;                 (* reduce before compiling (the slots hold arithmetic) *)
  c_mainnet : bool;
  c_oracles : oracles_c;
  c_cost_models : list N;
  c_kind : N;                      (* 0 Ok, 1 Err, 2 panic *)
  c_atx : option atx;
  c_checks : list (N * bool) }.    (* byte-level checks done by the harness on the payload: (id, passed) *)

Definition model (c : case) : outcome atx :=
  let o := c_oracles c in
  t <- (if c_reduce c then tx_reduce 0 (c_tx c) else Ok (c_tx c)) ;;
  compile_tx (c_mainnet c) (tab (oc_parse o) None) (tab (oc_of_string o) None) (tab (oc_keyhash o) None)
             (tab (oc_reward o) None) (tab (oc_native o) false)
             (fun v => bool_decide (v ∈ c_cost_models c)) t.

Definition kind_of {A} (x : outcome A) : N := match x with Ok _ => 0%N | Err _ => 1%N | _ => 2%N end.

Definition canon_atx (a : atx) : atx :=
  mk_atx (sort_refs (a_inputs a)) (a_outputs a) (a_fee a) (a_mint a) (a_ttl a) (a_start a) (a_withdrawals a)
         (a_donation a) (a_signers a) (option_map sort_refs (a_refs a)) (option_map sort_refs (a_collateral a))
         (a_network a) (a_redeemers a) (a_metadata a) (a_native_scripts a) (a_plutus a)
         (a_has_script_data_hash a) (a_has_aux_hash a).

(** * exact integer / multi-asset denotation of the constant fragment (unbounded Z) *)
Fixpoint zden (e : expr) : option Z :=
  match e with
  | ENumber z => Some z
  | ENone => Some 0
  | EAdd a b => match zden a, zden b with Some x, Some y => Some (x + y) | _, _ => None end
  | ESub a b => match zden a, zden b with Some x, Some y => Some (x - y) | _, _ => None end
  | ENegate a => option_map Z.opp (zden a)
  | EBNoOp a | ECNoOp a | EParamSet a => zden a
  | _ => None
  end.

Definition class_of (policy name : expr) : option asset_class :=
  match policy, name with
  | ENone, ENone => Some Naked
  | ENone, (EBytes n | EString n) => Some (match n with [] => Naked | _ => Named n end)
  | (EBytes p | EString p), (EBytes n | EString n) => Some (match p with [] => (match n with [] => Naked | _ => Named n end) | _ => Defined p n end)
  | (EBytes p | EString p), ENone => Some (match p with [] => Naked | _ => Defined p [] end)
  | _, _ => None
  end.

Fixpoint aden (e : expr) : option assets :=
  match e with
  | ENone => Some a_empty
  | EAssets xs =>
    (fix go (l : list (expr * expr * expr)) : option assets :=
       match l with
       | [] => Some a_empty
       | x :: r =>
         match class_of (fst (fst x)) (snd (fst x)), zden (snd x), go r with
         | Some c, Some z, Some acc => Some (a_add acc {[ c := z ]})
         | _, _, _ => None
         end
       end) xs
  | EAdd a b => match aden a, aden b with Some x, Some y => Some (a_add x y) | _, _ => None end
  | ESub a b => match aden a, aden b with Some x, Some y => Some (a_sub x y) | _, _ => None end
  | ENegate a => option_map a_neg (aden a)
  | EBNoOp a | ECNoOp a | EParamSet a => aden a
  | _ => None
  end.

Definition out_assets (o : aout) : assets :=
  let natives := flat_map (fun pm => map (fun na => (Defined (fst pm) (fst na), snd na)) (snd pm)) (ao_assets o) in
  strip (list_to_map ((Naked, ao_coin o) :: natives)).

Definition lovelace_neg (d : assets) : bool := (get0 d Naked <? 0) || (2 ^ 64 <=? get0 d Naked).
Definition native_bad (d : assets) : bool :=
  existsb (fun kv => match kv.1 with Naked => false | _ => (kv.2 <? 0) || (2 ^ 63 <=? kv.2) end) (map_to_list d).
(** the same at the level of one entry of a (reduced) asset list: a native entry whose own
    amount is negative or >= 2^63 is dropped on its own, whatever the other entries hold *)
Definition native_entry_bad (e : expr) : bool :=
  match e with
  | EAssets xs => existsb (fun x => match fst (fst x), snd x with
                                    | ENone, _ => false
                                    | _, ENumber z => (z <? 0) || (2 ^ 63 <=? z)
                                    | _, _ => false end) xs
  | _ => false
  end.

(** the clauses, evaluated on the implementation's decoded transaction *)
Definition c02_clauses (c : case) (a : atx) : list (N * bool) :=
  let t := c_tx c in
  (* an optional output is emitted exactly when it carries something: lovelace or a token *)
  let keeps := fun (o : output) => negb (out_optional o)
                                   || match aden (out_amount o) with
                                      | Some d => existsb (fun kv => 0 <? kv.2) (map_to_list d)
                                      | None => true end in
  let outs := filter keeps (tx_outputs t) in
  let reduced := match (if c_reduce c then tx_reduce 0 t else Ok t) with Ok t' => t' | _ => t end in
  let entry_bad := map (fun p => native_entry_bad (out_amount (snd p))) (filter (fun p => keeps (fst p)) (zip (tx_outputs t) (tx_outputs reduced))) in
  let dens := map (fun o => aden (out_amount o)) outs in
  (* whether an optional output of C02's recorded classes (wrapped lovelace, dropped entry) is emitted follows the wrapped value: left out of the comparison *)
  let all_plain := forallb (fun o => negb (out_optional o) || match aden (out_amount o) with Some d => negb (lovelace_neg d || native_bad d) | None => false end) (tx_outputs t)
                   && negb (existsb (fun d => bool_decide (ad_name d = "cardano_publish"%string)) (tx_adhoc t)) in
  let pairs := zip dens (a_outputs a) in
  [ (* known classes first: they are reported under their own ids *)
    (111%N, negb (all_plain && existsb (fun p => match fst p with Some d => lovelace_neg d | None => false end) pairs));
    (112%N, negb (all_plain && (existsb (fun p => match fst p with Some d => native_bad d && negb (lovelace_neg d) | None => false end) pairs
                                || existsb id entry_bad)));
    (101%N, if all_plain then
              forallb (fun p => match fst p with
                                | Some d => if lovelace_neg d || native_bad d || existsb id entry_bad then true else eq_impl d (out_assets (snd p))
                                | None => true end) pairs
              && (length (a_outputs a) =? length outs)%nat
            else true);
    (102%N, match zden (tx_fees t) with Some f => a_fee a =? f | None => true end);
    (103%N, match tx_validity t with
            | Some v =>
              match v_since v, zden (v_since v) with ENone, _ => bool_decide (a_start a = None) | _, Some z => bool_decide (a_start a = Some z) | _, None => true end
              && match v_until v, zden (v_until v) with ENone, _ => bool_decide (a_ttl a = None) | _, Some z => bool_decide (a_ttl a = Some z) | _, None => true end
            | None => bool_decide (a_start a = None) && bool_decide (a_ttl a = None)
            end);
    (104%N, (* mint field = sum of mints minus sum of burns, class by class *)
      let side := fun (ms : list mint) =>
        fold_left (fun acc m => match acc, aden (m_amount m) with Some x, Some y => Some (a_add x y) | _, _ => None end) ms (Some a_empty) in
      match side (tx_mints t), side (tx_burns t) with
      | Some mi, Some bu =>
        let got := strip (list_to_map (flat_map (fun pm => map (fun na => (Defined (fst pm) (fst na), snd na)) (snd pm))
                                                 (from_option id [] (a_mint a)))) in
        eq_impl (a_sub mi bu) got
      | _, _ => true
      end);
    (105%N, forallb (fun m => match zden (md_key m), zden (md_value m), md_value m with
                              | Some k, _, _ =>
                                (* a later entry with the same key replaces this one *)
                                if (1 <? length (filter (fun m' => bool_decide (zden (md_key m') = Some k)) (tx_metadata t)))%nat then true else
                                match zden (md_value m), md_value m with
                                | Some v, (ENumber _ | EAdd _ _ | ESub _ _ | ENegate _) =>
                                  match find (fun kv => fst kv =? k) (from_option id [] (a_metadata a)) with
                                  | Some (_, MInt z) => z =? v
                                  | _ => false
                                  end
                                | _, _ => true
                                end
                              | _, _, _ => true end) (tx_metadata t));
    (* every withdrawal directive's amount reaches the body under its own reward account *)
    (106%N, let o := c_oracles c in
            forallb (fun d => match data_get "credential" (ad_data d), data_get "amount" (ad_data d) with
                              | Some cr, Some am =>
                                match reward_account_of (c_mainnet c) (tab (oc_parse o) None) (tab (oc_of_string o) None) (tab (oc_reward o) None) cr, zden am with
                                | Ok r, Some z => existsb (fun kv => bool_decide (fst kv = r) && (snd kv =? z)) (from_option id [] (a_withdrawals a))
                                | _, _ => true
                                end
                              | _, _ => true end) (withdrawal_directives t));
    (* ... and every treasury donation its coin *)
    (107%N, forallb (fun d => match data_get "coin" (ad_data d) with
                              | Some e => match zden e with Some z => bool_decide (a_donation a = Some z) | None => true end
                              | None => true end)
                    (filter (fun d => bool_decide (ad_name d = "treasury_donation"%string)) (tx_adhoc t))) ].

(** C08: the redeemer map the ledger expects, built from the source by sorting items as the ledger does *)
Definition first_ref (e : expr) : option (list utxo_ref) :=
  match e with EUtxoRefs rs => Some rs | EUtxoSet us => Some (map (fun u => fst (fst (fst (fst u)))) us) | _ => None end.

Definition c08_clauses (c : case) (a : atx) : list (N * bool) :=
  let t := c_tx c in
  let sorted := sort_refs (a_inputs a) in
  let multi := existsb (fun i => match i_redeemer i, first_ref (i_utxos i) with
                                 | ENone, _ => false
                                 | _, Some rs => (1 <? length rs)%nat
                                 | _, None => false end) (tx_inputs t) in
  let mint_pols := flat_map (fun m => match m_redeemer m, m_amount m with
                                      | ENone, _ => []
                                      | red, EAssets ((EBytes p, _, _) :: _) =>
                                        [(p, match try_as_data red with Ok d => PlutusData.encode d | _ => [] end)]
                                      | _, _ => [] end) (tx_mints t ++ tx_burns t) in
  (* two blocks on one policy whose redeemers differ: the ledger has one slot per policy *)
  let shared := existsb (fun x => existsb (fun y => bool_decide (fst x = fst y) && negb (bool_decide (snd x = snd y))) mint_pols) mint_pols in
  let spec_spend :=
    flat_map (fun i => match i_redeemer i, first_ref (i_utxos i) with
                       | ENone, _ => []
                       | red, Some [r] =>
                         match position (fun x => bool_decide (fst x = r_txid r) && (snd x =? Z.of_N (r_idx r))) sorted,
                               try_as_data red with
                         | Some k, Ok d => [mk_ared 0 (Z.of_nat k) (PlutusData.encode d)]
                         | _, _ => []
                         end
                       | _, _ => [] end) (tx_inputs t) in
  let pol_keys := map fst (from_option id [] (a_mint a)) in
  let spec_mint :=
    flat_map (fun m => match m_redeemer m, m_amount m with
                       | ENone, _ => []
                       | red, EAssets ((EBytes p, _, _) :: _) =>
                         match position (fun k => bool_decide (k = p)) pol_keys, try_as_data red with
                         | Some k, Ok d => [mk_ared 1 (Z.of_nat k) (PlutusData.encode d)]
                         | _, _ => []
                         end
                       | _, _ => [] end) (tx_mints t ++ tx_burns t) in
  let got := from_option id [] (a_redeemers a) in
  let got_sm := filter (fun r => (rd_tag r <? 2)%N) got in
  [ (121%N, negb multi);       (* known class: a multi-UTxO script input gets one redeemer *)
    (122%N, negb shared);      (* known class: two mint/burn blocks on one policy collapse to one redeemer *)
    (201%N, if multi || shared then true
            else forallb (fun r => bool_decide (r ∈ got_sm)) (spec_spend ++ spec_mint)
                 && forallb (fun r => bool_decide (r ∈ spec_spend ++ spec_mint)) got_sm);
    (203%N, (* a Reward redeemer points at its account in the ledger's order of reward accounts:
               network, script credentials before key credentials, hash (written here from the
               ledger's rule, independently of Compile.sort_accts) *)
      let accts := map fst (from_option id [] (a_withdrawals a)) in
      let ledger_lt (x y : bytes) : bool :=
        match x, y with
        | hx :: bx, hy :: by_ =>
          let nx := N.land hx 15 in let ny := N.land hy 15 in
          let sx := negb (N.land hx 16 =? 0)%N in let sy := negb (N.land hy 16 =? 0)%N in
          if (nx <? ny)%N then true else if (ny <? nx)%N then false
          else if sx && negb sy then true else if sy && negb sx then false
          else bytes_ltb bx by_
        | _, _ => false
        end in
      forallb (fun d => match data_get "redeemer" (ad_data d), data_get "credential" (ad_data d) with
                        | Some ENone, _ | None, _ => true
                        | Some red, Some (EAddress acct) =>
                          if bool_decide (acct ∈ accts) then
                            match try_as_data red with
                            | Ok dd => let rank := length (filter (fun k => ledger_lt k acct) accts) in
                                       bool_decide (mk_ared 3 (Z.of_nat rank) (PlutusData.encode dd) ∈ got)
                            | _ => true
                            end
                          else true
                        | _, _ => true end)
              (filter (fun d => bool_decide (ad_name d = "withdrawal"%string)) (tx_adhoc t)));
    (202%N, (* every withdrawal directive with a redeemer yields a Reward redeemer *)
      let want := length (filter (fun d => bool_decide (ad_name d = "withdrawal"%string) &&
                                           match data_get "redeemer" (ad_data d) with Some ENone | None => false | Some _ => true end)
                                 (tx_adhoc t)) in
      let have := length (filter (fun r => (rd_tag r =? 3)%N) got) in
      (* distinct accounts assumed by the generator *)
      (want =? have)%nat) ].

Definition no_empty {A B} (o : option (list (A * list B))) : bool :=
  match o with Some [] => false | Some l => forallb (fun p => match snd p with [] => false | _ => true end) l | None => true end.

(** known class (F10-5): the template's input blocks name one UTxO more than once; the inputs
    field then lists it as often (a pinned test, smoke_test_vesting_unlock, pins the hash of such
    a body) *)
Definition repeated_input (t : tx) : bool :=
  negb (bool_decide (NoDup (flat_map (fun i => match expr_into_utxo_refs (i_utxos i) with
                                               | Ok rs => map (fun r => (r_txid r, r_idx r)) rs
                                               | _ => [] end) (tx_inputs t)))).

Definition c10_clauses (c : case) (a : atx) : list (N * bool) :=
  [ (321%N, negb (repeated_input (c_tx c) && negb (bool_decide (NoDup (a_inputs a))))); (301%N, no_empty (a_mint a) && forallb (fun o => forallb (fun p => match snd p with [] => false | _ => true end) (ao_assets o)) (a_outputs a));
    (302%N, match a_withdrawals a, a_signers a, a_refs a, a_collateral a, a_redeemers a, a_metadata a with
            | Some [], _, _, _, _, _ | _, Some [], _, _, _, _ | _, _, Some [], _, _, _
            | _, _, _, Some [], _, _ | _, _, _, _, Some [], _ | _, _, _, _, _, Some [] => false
            | _, _, _, _, _, _ => true end);
    (303%N, repeated_input (c_tx c) || bool_decide (NoDup (a_inputs a)));
    (307%N, bool_decide (NoDup (default [] (a_refs a))) && bool_decide (NoDup (default [] (a_collateral a)))
            && bool_decide (NoDup (default [] (a_signers a))));
    (304%N, (a_network a =? (if c_mainnet c then 1 else 0))%N);
    (305%N, Bool.eqb (a_has_script_data_hash a) (match a_redeemers a with Some _ => true | None => false end));
    (306%N, Bool.eqb (a_has_aux_hash a) (match a_metadata a with Some _ => true | None => false end)) ].

Definition multi_redeemer_input (t : tx) : bool :=
  existsb (fun i => match i_redeemer i, first_ref (i_utxos i) with
                    | ENone, _ => false
                    | _, Some rs => (1 <? length rs)%nat
                    | _, None => false end) (tx_inputs t).
Definition drop_spend (a : atx) : atx :=
  mk_atx (a_inputs a) (a_outputs a) (a_fee a) (a_mint a) (a_ttl a) (a_start a) (a_withdrawals a)
         (a_donation a) (a_signers a) (a_refs a) (a_collateral a) (a_network a)
         (option_map (filter (fun r => negb (rd_tag r =? 0)%N)) (a_redeemers a)) (a_metadata a)
         (a_native_scripts a) (a_plutus a) (a_has_script_data_hash a) (a_has_aux_hash a).

(** panic classes the model itself contains (C14): reported under their own ids *)
Definition panic_class (m : outcome atx) : N :=
  match m with
  | Panic s =>
    if bool_decide (s = "Hash::from(slice): length"%string) then 141%N
    else if bool_decide (s = "expr_into_utxo_refs: String"%string) then 142%N
    else if bool_decide (s = "compile_adhoc_script: script.unwrap()"%string) then 143%N
    else if bool_decide (s = "native script decode unwrap"%string) then 144%N
    else if bool_decide (s = "Coerce::reduce_self IntoScript todo!"%string) then 146%N
    else 149%N
  | Overflow _ => 145%N
  | _ => 0%N
  end.

Definition checks (c : case) : list (N * bool) :=
  let m := model c in
  [ (1%N, (kind_of m =? c_kind c)%N);
    (2%N, match m, c_atx c with
          | Ok a, Some a' =>
            (* which UTxO of a multi-UTxO script input carries the redeemer is hash-set order *)
            if multi_redeemer_input (c_tx c) then bool_decide (drop_spend (canon_atx a) = drop_spend (canon_atx a'))
            else bool_decide (canon_atx a = canon_atx a')
          | Ok _, None => false
          | _, _ => true
          end) ]
  ++ (if (c_kind c =? 2)%N then [ ((if (panic_class m =? 0)%N then 140%N else panic_class m), false) ] else [])   (* 140: a panic the model has no site for *)
  ++ match c_atx c with
     | Some a => c02_clauses c a ++ c08_clauses c a ++ c10_clauses c a
     | None => []
     end
  ++ c_checks c.

Definition failed (c : case) : list N := map fst (filter (fun x => negb (snd x)) (checks c)).
Fixpoint run_from (i : N) (cs : list case) : list (N * list N) :=
  match cs with
  | [] => []
  | c :: r => match failed c with [] => run_from (i + 1)%N r | f => (i, f) :: run_from (i + 1)%N r end
  end.
Definition run (cs : list case) := run_from 0%N cs.
