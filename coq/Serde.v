(** Serde.v — the TIR wire format: how serde-derive lays every IR type out in ciborium's data
    model ([cval]), ciborium's CBOR encoding of that model, a decoder, and the way back.
    Structs are maps keyed by field name in declaration order; unit variants are text;
    newtype / tuple / struct variants are one-entry maps; Vec<u8> is an array of small
    integers; Option is null-or-value; i128 is an integer or a bignum tag; directive fields
    are written in key order; UTxO sets and asset maps in the order they are handed over. *)
From Tx3 Require Export Base Tir Reduce PlutusData.

Inductive cval :=
| CInt (z : Z)
| CText (s : bytes)
| CArr (l : list cval)
| CMap (kvs : list (cval * cval))
| CBool (b : bool)
| CNull.

Definition sbytes (s : string) : bytes := map Ascii.N_of_ascii (list_ascii_of_string s).
Definition ctext (s : string) : cval := CText (sbytes s).
Definition cstruct (fields : list (string * cval)) : cval := CMap (map (fun kv => (ctext (fst kv), snd kv)) fields).
Definition cvariant (name : string) (v : cval) : cval := CMap [(ctext name, v)].
Definition cbytes (b : bytes) : cval := CArr (map (fun x => CInt (Z.of_N x)) b).
Definition copt (o : option cval) : cval := from_option id CNull o.

(** * to the data model *)
Definition ty_cval (t : ty) : cval :=
  match t with
  | TUndefined => ctext "Undefined" | TUnit => ctext "Unit" | TInt => ctext "Int" | TBool => ctext "Bool"
  | TBytes => ctext "Bytes" | TAddress => ctext "Address" | TUtxo => ctext "Utxo" | TUtxoRef => ctext "UtxoRef"
  | TAnyAsset => ctext "AnyAsset" | TList => ctext "List" | TMap => ctext "Map"
  | TCustom n => cvariant "Custom" (ctext n)
  end.

Definition ref_cval (r : utxo_ref) : cval :=
  cstruct [("txid", cbytes (r_txid r)); ("index", CInt (Z.of_N (r_idx r)))].

Definition class_cval (c : asset_class) : cval :=
  match c with
  | Naked => ctext "Naked"
  | Named n => cvariant "Named" (cbytes n)
  | Defined p n => cvariant "Defined" (CArr [cbytes p; cbytes n])
  end.

Fixpoint to_cval (e : expr) : cval :=
  match e with
  | ENone => ctext "None"
  | EList xs => cvariant "List" (CArr (map to_cval xs))
  | EMap kvs => cvariant "Map" (CArr (map (fun kv => CArr [to_cval (fst kv); to_cval (snd kv)]) kvs))
  | ETuple a b => cvariant "Tuple" (CArr [to_cval a; to_cval b])
  | EStruct c fs => cvariant "Struct" (cstruct [("constructor", CInt (Z.of_N c)); ("fields", CArr (map to_cval fs))])
  | EBytes b => cvariant "Bytes" (cbytes b)
  | ENumber z => cvariant "Number" (CInt z)
  | EBool b => cvariant "Bool" (CBool b)
  | EString s => cvariant "String" (CText s)
  | EAddress b => cvariant "Address" (cbytes b)
  | EHash b => cvariant "Hash" (cbytes b)
  | EUtxoRefs rs => cvariant "UtxoRefs" (CArr (map ref_cval rs))
  | EUtxoSet us =>
    cvariant "UtxoSet"
      (CArr (map (fun u : utxo_x =>
                    let '(r, a, assets, d, s) := u in
                    cstruct [("ref", ref_cval r); ("address", cbytes a);
                             ("assets", CMap (map (fun kv => (class_cval (fst kv), CInt (snd kv))) assets));
                             ("datum", copt (option_map to_cval d)); ("script", copt (option_map to_cval s))]) us))
  | EAssets xs =>
    cvariant "Assets"
      (CArr (map (fun x => cstruct [("policy", to_cval (fst (fst x))); ("asset_name", to_cval (snd (fst x)));
                                     ("amount", to_cval (snd x))]) xs))
  | EParamSet x => cvariant "EvalParam" (cvariant "Set" (to_cval x))
  | EExpectValue n t => cvariant "EvalParam" (cvariant "ExpectValue" (CArr [ctext n; ty_cval t]))
  | EExpectInput n a m r many coll =>
    cvariant "EvalParam"
      (cvariant "ExpectInput"
         (CArr [ctext n; cstruct [("address", to_cval a); ("min_amount", to_cval m); ("ref", to_cval r);
                                   ("many", CBool many); ("collateral", CBool coll)]]))
  | EExpectFees => cvariant "EvalParam" (ctext "ExpectFees")
  | EBNoOp a => cvariant "EvalBuiltIn" (cvariant "NoOp" (to_cval a))
  | EAdd a b => cvariant "EvalBuiltIn" (cvariant "Add" (CArr [to_cval a; to_cval b]))
  | ESub a b => cvariant "EvalBuiltIn" (cvariant "Sub" (CArr [to_cval a; to_cval b]))
  | EConcat a b => cvariant "EvalBuiltIn" (cvariant "Concat" (CArr [to_cval a; to_cval b]))
  | ENegate a => cvariant "EvalBuiltIn" (cvariant "Negate" (to_cval a))
  | EProperty a b => cvariant "EvalBuiltIn" (cvariant "Property" (CArr [to_cval a; to_cval b]))
  | EScriptAddr a => cvariant "EvalCompiler" (cvariant "BuildScriptAddress" (to_cval a))
  | EMinUtxo a => cvariant "EvalCompiler" (cvariant "ComputeMinUtxo" (to_cval a))
  | ETipSlot => cvariant "EvalCompiler" (ctext "ComputeTipSlot")
  | ESlotToTime a => cvariant "EvalCompiler" (cvariant "ComputeSlotToTime" (to_cval a))
  | ETimeToSlot a => cvariant "EvalCompiler" (cvariant "ComputeTimeToSlot" (to_cval a))
  | ECNoOp a => cvariant "EvalCoerce" (cvariant "NoOp" (to_cval a))
  | EIntoAssets a => cvariant "EvalCoerce" (cvariant "IntoAssets" (to_cval a))
  | EIntoDatum a => cvariant "EvalCoerce" (cvariant "IntoDatum" (to_cval a))
  | EIntoScript a => cvariant "EvalCoerce" (cvariant "IntoScript" (to_cval a))
  | EAdHoc n d =>
    cvariant "AdHocDirective"
      (cstruct [("name", ctext n); ("data", CMap (map (fun kv => (ctext (fst kv), snd kv)) (bt_of_list (map (fun kv => (fst kv, to_cval (snd kv))) d))))])
  end.

Definition adhoc_cval (a : adhoc) : cval :=
  (* serialize_in_key_order: the fields of a directive go through a BTreeMap *)
  cstruct [("name", ctext (ad_name a)); ("data", CMap (map (fun kv => (ctext (fst kv), snd kv)) (bt_of_list (map (fun kv => (fst kv, to_cval (snd kv))) (ad_data a)))))].

Definition tx_cval (t : tx) : cval :=
  cstruct [
    ("fees", to_cval (tx_fees t));
    ("references", CArr (map to_cval (tx_references t)));
    ("inputs", CArr (map (fun i => cstruct [("name", ctext (i_name i)); ("utxos", to_cval (i_utxos i)); ("redeemer", to_cval (i_redeemer i))]) (tx_inputs t)));
    ("outputs", CArr (map (fun o => cstruct [("address", to_cval (out_address o)); ("datum", to_cval (out_datum o));
                                             ("amount", to_cval (out_amount o)); ("optional", CBool (out_optional o))]) (tx_outputs t)));
    ("validity", copt (option_map (fun v => cstruct [("since", to_cval (v_since v)); ("until", to_cval (v_until v))]) (tx_validity t)));
    ("mints", CArr (map (fun m => cstruct [("amount", to_cval (m_amount m)); ("redeemer", to_cval (m_redeemer m))]) (tx_mints t)));
    ("burns", CArr (map (fun m => cstruct [("amount", to_cval (m_amount m)); ("redeemer", to_cval (m_redeemer m))]) (tx_burns t)));
    ("adhoc", CArr (map adhoc_cval (tx_adhoc t)));
    ("collateral", CArr (map (fun c => cstruct [("utxos", to_cval c)]) (tx_collateral t)));
    ("signers", copt (option_map (fun ss => cstruct [("signers", CArr (map to_cval ss))]) (tx_signers t)));
    ("metadata", CArr (map (fun m => cstruct [("key", to_cval (md_key m)); ("value", to_cval (md_value m))]) (tx_metadata t)))
  ].

(** * ciborium's encoding of the data model *)
Fixpoint encode_cval (v : cval) : list N :=
  match v with
  | CInt z => enc_int z
  | CText s => head 3 (N.of_nat (length s)) ++ s
  | CArr l => head 4 (N.of_nat (length l)) ++ flat_map encode_cval l
  | CMap kvs => head 5 (N.of_nat (length kvs)) ++ flat_map (fun kv => encode_cval (fst kv) ++ encode_cval (snd kv)) kvs
  | CBool b => [if b then 245%N else 244%N]
  | CNull => [246%N]
  end.

Definition to_bytes (t : tx) : list N := encode_cval (tx_cval t).

(** * the decoder (definite lengths, as ciborium writes them) *)
Section DecodeC.
Variable dec : list N -> option (cval * list N).
Fixpoint cdec_n (n : nat) (l : list N) : option (list cval * list N) :=
  match n with
  | O => Some ([], l)
  | S n' => match dec l with
            | Some (x, r) => match cdec_n n' r with Some (xs, r') => Some (x :: xs, r') | None => None end
            | None => None
            end
  end.
Fixpoint cdec_pairs (n : nat) (l : list N) : option (list (cval * cval) * list N) :=
  match n with
  | O => Some ([], l)
  | S n' => match dec l with
            | Some (k, r) =>
              match dec r with
              | Some (v, r2) => match cdec_pairs n' r2 with Some (xs, r') => Some ((k, v) :: xs, r') | None => None end
              | None => None
              end
            | None => None
            end
  end.
End DecodeC.

Fixpoint decode_cval (fuel : nat) (l : list N) : option (cval * list N) :=
  match fuel with
  | O => None
  | S f =>
    match l with
    | [] => None
    | b0 :: r0 =>
      if (b0 =? 244)%N then Some (CBool false, r0)
      else if (b0 =? 245)%N then Some (CBool true, r0)
      else if (b0 =? 246)%N then Some (CNull, r0)
      else
      match dec_head l with
      | Some (0%N, ai, n, r) => if (ai =? 31)%N then None else Some (CInt (Z.of_N n), r)
      | Some (1%N, ai, n, r) => if (ai =? 31)%N then None else Some (CInt (- 1 - Z.of_N n), r)
      | Some (3%N, ai, n, r) =>
        if (ai =? 31)%N then None
        else if (n <=? N.of_nat (length r))%N then Some (CText (take (N.to_nat n) r), drop (N.to_nat n) r) else None
      | Some (4%N, ai, n, r) =>
        if (ai =? 31)%N then None
        else if (n <=? N.of_nat (length r))%N then
          match cdec_n (decode_cval f) (N.to_nat n) r with Some (xs, r') => Some (CArr xs, r') | None => None end
        else None
      | Some (5%N, ai, n, r) =>
        if (ai =? 31)%N then None
        else if (n <=? N.of_nat (length r))%N then
          match cdec_pairs (decode_cval f) (N.to_nat n) r with Some (xs, r') => Some (CMap xs, r') | None => None end
        else None
      | Some (6%N, ai, t, r) =>
        if (ai =? 31)%N then None
        else if (t =? 2)%N then
          match dec_def_bytes r with Some (b, r') => Some (CInt (Z.of_N (from_be b 0)), r') | None => None end
        else if (t =? 3)%N then
          match dec_def_bytes r with Some (b, r') => Some (CInt (- 1 - Z.of_N (from_be b 0)), r') | None => None end
        else None
      | _ => None
      end
    end
  end.

(** * back from the data model *)
Definition as_bytes (v : cval) : option bytes :=
  match v with
  | CArr l => mapM (fun x => match x with CInt z => if (0 <=? z) && (z <? 256) then Some (Z.to_N z) else None | _ => None end) l
  | _ => None
  end.
Definition text_is (v : cval) (s : string) : bool :=
  match v with CText b => bool_decide (b = sbytes s) | _ => false end.
(** a one-entry map {name: payload} *)
Definition variant_of (v : cval) : option (bytes * cval) :=
  match v with CMap [(CText n, p)] => Some (n, p) | _ => None end.
(** the fields of a struct, by position, checking the names *)
Fixpoint fields_of (names : list string) (kvs : list (cval * cval)) : option (list cval) :=
  match names, kvs with
  | [], [] => Some []
  | n :: ns, (k, v) :: r => if text_is k n then option_map (cons v) (fields_of ns r) else None
  | _, _ => None
  end.
Definition struct_of (names : list string) (v : cval) : option (list cval) :=
  match v with CMap kvs => fields_of names kvs | _ => None end.
