(** Reduce_idem.v — reducing an already reduced template changes nothing (C07): every result
    of reduce on a closed template is plain data, and plain data is a fixed point of reduce.
    Closed: no unfilled parameter, query, fee reference or compiler operation; the payloads of
    applied parameters are argument values (what apply_args / apply_inputs / apply_fees put
    there) and the datums of resolved UTxOs are plain data. *)
From Tx3 Require Import Base Assets Select Tir Tir_proofs Reduce Reduce_proofs Reduce_values Reduce_closed.

(** the payload of every applied parameter is a value *)
Fixpoint sets_values (e : expr) : bool :=
  match e with
  | EParamSet x => is_value x
  | EExpectInput _ a m r _ _ => sets_values a && sets_values m && sets_values r
  | _ => forall_children sets_values e
  end.

Definition ready (e : expr) : bool := closedF e && sets_values e.
Definition done (e : expr) : bool := is_value e && closedF e.

Lemma ready_children e : is_param e = false -> ready e = true -> forallb ready (children e) = true.
Proof.
  unfold ready. intros Hp H. apply andb_true_iff in H as [Hc Hs].
  rewrite forallb_and. apply andb_true_iff. split.
  - destruct e; cbn [closedF] in Hc; try discriminate; try reflexivity; rewrite ?forall_children_spec in Hc; try exact Hc.
  - destruct e; cbn [is_param] in Hp; try discriminate; cbn [sets_values] in Hs; rewrite ?forall_children_spec in Hs; exact Hs.
Qed.

Lemma plain_value d : is_plain d = true -> is_value d = true.
Proof.
  induction d using expr_children_ind. intros Hp.
  assert (Hk : forallb is_plain (children d) = true -> forallb is_value (children d) = true).
  { rewrite !forallb_forall. intros Hall c Hc. apply H; [apply child_all, elem_of_list_In; exact Hc|apply Hall; exact Hc]. }
  destruct d; cbn [is_plain] in Hp; try discriminate; cbn [is_value]; rewrite ?forall_children_spec in *;
    try reflexivity; apply Hk; exact Hp.
Qed.

Lemma value_assets_expr a : is_value (assets_expr a) = true.
Proof.
  unfold assets_expr, assets_to_exprs. cbn [is_value forall_children]. rewrite forallb_forall. intros x Hx.
  apply in_map_iff in Hx as [kv [<- _]]. cbn [fst snd].
  destruct (class_policy kv.1), (class_name kv.1); reflexivity.
Qed.

(** * the results of the built-ins on values are values *)
Lemma neg_value b r : neg_expr b = Ok r -> is_value r = true.
Proof.
  intros H. destruct b; cbn [neg_expr] in H; try discriminate.
  - injection H as <-. reflexivity.
  - destruct (in_i128 _); [|discriminate]. injection H as <-. reflexivity.
  - inv_bind H. inv_bind H. injection H as <-. apply value_assets_expr.
Qed.
Lemma add_number_value x b r : add_number x b = Ok r -> is_value r = true.
Proof.
  intros H. destruct b; cbn [add_number] in H; try discriminate.
  - injection H as <-. reflexivity.
  - destruct (in_i128 _); [|discriminate]. injection H as <-. reflexivity.
Qed.
Lemma add_assets_value xs b r : add_assets xs b = Ok r -> is_value r = true.
Proof. unfold add_assets. intros H. inv_bind H. inv_bind H. inv_bind H. injection H as <-. apply value_assets_expr. Qed.
Lemma add_value a b r : is_value b = true -> add_expr a b = Ok r -> is_value r = true.
Proof.
  intros Hb H. destruct a; cbn [add_expr] in H; try discriminate.
  - injection H as <-. exact Hb.
  - eapply add_number_value; exact H.
  - eapply add_assets_value; exact H.
Qed.
Lemma sub_value a b r : sub_expr a b = Ok r -> is_value r = true.
Proof.
  intros H. destruct a; cbn [sub_expr] in H; try discriminate.
  - eapply neg_value; eassumption.
  - inv_bind H. eapply add_number_value; exact H.
  - inv_bind H. eapply add_assets_value; exact H.
Qed.
Lemma concat_value a b r : is_value a = true -> is_value b = true -> concat_expr a b = Ok r -> is_value r = true.
Proof.
  intros Ha Hb H. destruct a; cbn [concat_expr] in H; try discriminate.
  - injection H as <-. exact Hb.
  - destruct b; try discriminate. injection H as <-. cbn [is_value forall_children] in *.
    rewrite forallb_app, Ha, Hb. reflexivity.
  - destruct b; try discriminate; injection H as <-; reflexivity.
  - destruct b; try discriminate; injection H as <-; reflexivity.
Qed.
Lemma index_value a i r : is_value a = true -> index_or_err a i = Ok r -> is_value r = true.
Proof.
  unfold index_or_err. intros Ha H. destruct (index_expr a i) as [x|] eqn:E; [|discriminate]. injection H as <-.
  destruct a; cbn [index_expr] in E; try discriminate; cbn [is_value forall_children] in Ha.
  - destruct (as_number i); [|discriminate]. apply nth_usize_in in E. rewrite forallb_forall in Ha. apply Ha. exact E.
  - destruct (find _ kvs) as [kv|] eqn:Ef; [|discriminate]. injection E as <-. apply find_some in Ef as [Hin _].
    rewrite forallb_forall in Ha. specialize (Ha _ Hin). exact Ha.
  - apply andb_true_iff in Ha as [H1 H2]. destruct (as_number i) as [n|]; [|discriminate].
    destruct (n =? 0)%Z; [injection E as <-; exact H1|]. destruct (n =? 1)%Z; [injection E as <-; exact H2|discriminate].
  - destruct i; try discriminate. apply nth_usize_in in E. rewrite forallb_forall in Ha. apply Ha. exact E.
Qed.
Lemma into_assets_value a r : is_value a = true -> into_assets a = Ok r -> is_value r = true.
Proof.
  intros Ha H. destruct a; cbn [into_assets] in H; try discriminate.
  - injection H as <-. reflexivity.
  - inv_bind H. injection H as <-. apply value_assets_expr.
  - injection H as <-. exact Ha.
Qed.
Lemma datum_of_value (u : utxo_x) : utxo_plain u = true -> is_value (from_option id ENone (snd (fst u))) = true.
Proof. unfold utxo_plain. destruct (snd (fst u)) as [d|]; cbn; [apply plain_value|reflexivity]. Qed.
Lemma into_datum_value pick a r : is_value a = true -> closedF a = true -> into_datum pick a = Ok r -> is_value r = true.
Proof.
  intros Ha Hc H. destruct a; cbn [into_datum] in H; try discriminate; try (injection H as <-; first [exact Ha|reflexivity]).
  cbn [closedF] in Hc. rewrite forallb_forall in Hc. injection H as <-.
  destruct (nth_error us pick) as [u|] eqn:E.
  - apply datum_of_value, Hc. eapply nth_error_In. exact E.
  - destruct us as [|u us']; [reflexivity|]. apply datum_of_value, Hc. left. reflexivity.
Qed.

(** [done] on the children of a node *)
Lemma done_split (l : list expr) : forallb done l = true -> forallb is_value l = true /\ forallb closedF l = true.
Proof. unfold done. rewrite forallb_and. apply andb_true_iff. Qed.

Lemma done_constant e : done e = true -> is_constant e = true.
Proof. unfold done. intros H. apply andb_true_iff in H as [H _]. apply value_constant. exact H. Qed.

Section Rec.
Variable pick : nat.
Variable g : expr -> outcome expr.
Hypothesis Hg : forall c c', ready c = true -> g c = Ok c' -> done c' = true.

Lemma ready_and a b : ready a && ready b = true -> ready a = true /\ ready b = true.
Proof. apply andb_true_iff. Qed.

(** a built-in or coercion node over ready children reduces, in one composite step, to a
    no-op wrapper around a finished value *)
Ltac kids H :=
  repeat match type of H with
         | (_ <- _ ;; _) = Ok _ => let a := fresh "k" in let Hk := fresh "Hk" in apply obind_ok in H as [a [Hk H]]
         end.

Lemma done_pair a b : done a = true -> done b = true ->
  is_value a = true /\ closedF a = true /\ is_value b = true /\ closedF b = true.
Proof. unfold done. intros H1 H2. apply andb_true_iff in H1 as [? ?]. apply andb_true_iff in H2 as [? ?]. auto. Qed.

Lemma mk_done r : is_value r = true -> closedF r = true -> done r = true.
Proof. unfold done. intros -> ->. reflexivity. Qed.

Lemma builtin_step e x :
  is_builtin e = true -> ready e = true -> composite_reduce pick g e = Ok x ->
  exists r, x = EBNoOp r /\ done r = true.
Proof.
  intros Hb He H. pose proof (ready_children e ltac:(destruct e; try discriminate; reflexivity) He) as Hk.
  unfold composite_reduce in H. inv_bind H.
  destruct e; try discriminate; cbn [children forallb] in Hk; cbn [mapM_children] in Hm; kids Hm; injection Hm as <-;
    repeat match type of Hk with (_ && _) = true => let Hx := fresh "Hr" in apply andb_true_iff in Hk as [Hx Hk] end.
  - (* EBNoOp *) pose proof (Hg _ _ Hr Hk0) as Hd. cbn [forall_children] in H. rewrite (done_constant _ Hd) in H.
    cbn [reduce_self] in H. injection H as <-. eexists. split; [reflexivity|exact Hd].
  - (* EAdd *) pose proof (Hg _ _ Hr Hk0) as Hd1. pose proof (Hg _ _ Hr0 Hk1) as Hd2.
    cbn [forall_children] in H. rewrite (done_constant _ Hd1), (done_constant _ Hd2) in H. cbn [andb reduce_self] in H.
    inv_bind H. injection H as <-. destruct (done_pair _ _ Hd1 Hd2) as (V1 & C1 & V2 & C2).
    eexists. split; [reflexivity|]. apply mk_done; [exact (add_value _ _ _ V2 Hm)|exact (add_closed _ _ _ C2 Hm)].
  - (* ESub *) pose proof (Hg _ _ Hr Hk0) as Hd1. pose proof (Hg _ _ Hr0 Hk1) as Hd2.
    cbn [forall_children] in H. rewrite (done_constant _ Hd1), (done_constant _ Hd2) in H. cbn [andb reduce_self] in H.
    inv_bind H. injection H as <-. destruct (done_pair _ _ Hd1 Hd2) as (V1 & C1 & V2 & C2).
    eexists. split; [reflexivity|]. apply mk_done; [exact (sub_value _ _ _ Hm)|exact (sub_closed _ _ _ C2 Hm)].
  - (* EConcat *) pose proof (Hg _ _ Hr Hk0) as Hd1. pose proof (Hg _ _ Hr0 Hk1) as Hd2.
    cbn [forall_children] in H. rewrite (done_constant _ Hd1), (done_constant _ Hd2) in H. cbn [andb reduce_self] in H.
    inv_bind H. injection H as <-. destruct (done_pair _ _ Hd1 Hd2) as (V1 & C1 & V2 & C2).
    eexists. split; [reflexivity|]. apply mk_done; [exact (concat_value _ _ _ V1 V2 Hm)|exact (concat_closed _ _ _ C1 C2 Hm)].
  - (* ENegate *) pose proof (Hg _ _ Hr Hk0) as Hd. cbn [forall_children] in H. rewrite (done_constant _ Hd) in H.
    cbn [reduce_self] in H. inv_bind H. injection H as <-. unfold done in Hd. apply andb_true_iff in Hd as [V C].
    eexists. split; [reflexivity|]. apply mk_done; [exact (neg_value _ _ Hm)|exact (neg_closed _ _ C Hm)].
  - (* EProperty *) pose proof (Hg _ _ Hr Hk0) as Hd1. pose proof (Hg _ _ Hr0 Hk1) as Hd2.
    cbn [forall_children] in H. rewrite (done_constant _ Hd1), (done_constant _ Hd2) in H. cbn [andb reduce_self] in H.
    inv_bind H. injection H as <-. destruct (done_pair _ _ Hd1 Hd2) as (V1 & C1 & V2 & C2).
    eexists. split; [reflexivity|]. apply mk_done; [exact (index_value _ _ _ V1 Hm)|exact (index_closed _ _ _ C1 Hm)].
Qed.

Lemma coerce_step e x :
  is_coerce e = true -> ready e = true -> composite_reduce pick g e = Ok x ->
  exists r, x = ECNoOp r /\ done r = true.
Proof.
  intros Hb He H. pose proof (ready_children e ltac:(destruct e; try discriminate; reflexivity) He) as Hk.
  unfold composite_reduce in H. inv_bind H.
  destruct e; try discriminate; cbn [children forallb] in Hk; cbn [mapM_children] in Hm; kids Hm; injection Hm as <-;
    apply andb_true_iff in Hk as [Hr _]; pose proof (Hg _ _ Hr Hk0) as Hd;
    cbn [forall_children] in H; rewrite (done_constant _ Hd) in H; cbn [reduce_self] in H.
  - (* ECNoOp *) injection H as <-. eexists. split; [reflexivity|exact Hd].
  - (* EIntoAssets *) inv_bind H. injection H as <-. unfold done in Hd. apply andb_true_iff in Hd as [V C].
    eexists. split; [reflexivity|]. apply mk_done; [exact (into_assets_value _ _ V Hm)|exact (into_assets_closed _ _ C Hm)].
  - (* EIntoDatum *) inv_bind H. injection H as <-. unfold done in Hd. apply andb_true_iff in Hd as [V C].
    eexists. split; [reflexivity|]. apply mk_done; [exact (into_datum_value _ _ _ V C Hm)|exact (into_datum_closed _ _ _ C Hm)].
  - (* EIntoScript *) discriminate.
Qed.

(** containers: the children are finished, so the container is *)
Lemma container_step e y :
  match e with EList _ | EMap _ | ETuple _ _ | EStruct _ _ | EAssets _ | EAdHoc _ _ => true | _ => false end = true ->
  ready e = true -> mapM_children g e = Ok y -> done y = true /\ forall_children is_constant y = true /\ reduce_self pick y = Ok y.
Proof.
  intros Hs He H. pose proof (ready_children e ltac:(destruct e; try discriminate; reflexivity) He) as Hk.
  assert (Hd : forall l l', forallb ready l = true -> omapM g l = Ok l' -> forallb done l' = true)
    by (intros l l'; apply (omapM_keeps ready done g Hg)).
  destruct e; try discriminate; cbn [mapM_children] in H.
  - (* EList *) inv_bind H. injection H as <-. cbn [children] in Hk. pose proof (Hd _ _ Hk Hm) as Hv.
    destruct (done_split _ Hv) as [V C]. repeat split.
    + apply mk_done; cbn [is_value closedF forall_children]; assumption.
    + cbn [forall_children]. rewrite forallb_forall in V |- *. intros c Hc. apply value_constant, V, Hc.
  - (* EMap *) inv_bind H. injection H as <-. cbn [children] in Hk.
    assert (Hp : forallb (fun kv => ready (fst kv) && ready (snd kv)) kvs = true).
    { clear -Hk. induction kvs as [|[a b] l IH]; [reflexivity|]. cbn [flat_map app forallb fst snd] in *.
      apply andb_true_iff in Hk as [Ha Hk]. apply andb_true_iff in Hk as [Hb Hk]. rewrite Ha, Hb, (IH Hk). reflexivity. }
    pose proof (omapM2_keeps ready done g Hg _ _ Hp Hm) as Hv.
    assert (V : forallb (fun kv => is_value (fst kv) && is_value (snd kv)) v = true /\
                forallb (fun kv => closedF (fst kv) && closedF (snd kv)) v = true).
    { clear -Hv. induction v as [|[a b] l IH]; [split; reflexivity|]. cbn [forallb fst snd] in *.
      apply andb_true_iff in Hv as [Hab Hl]. apply andb_true_iff in Hab as [Ha Hb]. destruct (IH Hl) as [I1 I2].
      unfold done in Ha, Hb. apply andb_true_iff in Ha as [-> ->]. apply andb_true_iff in Hb as [-> ->]. rewrite I1, I2. split; reflexivity. }
    destruct V as [V C]. repeat split.
    + apply mk_done; cbn [is_value closedF forall_children]; assumption.
    + cbn [forall_children]. rewrite forallb_forall in V |- *. intros c Hc. specialize (V _ Hc).
      apply andb_true_iff in V as [V1 V2]. rewrite (value_constant _ V1), (value_constant _ V2). reflexivity.
  - (* ETuple *) kids H. injection H as <-. cbn [children forallb] in Hk.
    apply andb_true_iff in Hk as [Ha Hk]. apply andb_true_iff in Hk as [Hb _].
    pose proof (Hg _ _ Ha Hk0) as D1. pose proof (Hg _ _ Hb Hk1) as D2. destruct (done_pair _ _ D1 D2) as (V1 & C1 & V2 & C2).
    repeat split.
    + apply mk_done; cbn [is_value closedF forall_children]; [rewrite V1, V2|rewrite C1, C2]; reflexivity.
    + cbn [forall_children]. rewrite (value_constant _ V1), (value_constant _ V2). reflexivity.
  - (* EStruct *) inv_bind H. injection H as <-. cbn [children] in Hk. pose proof (Hd _ _ Hk Hm) as Hv.
    destruct (done_split _ Hv) as [V C]. repeat split.
    + apply mk_done; cbn [is_value closedF forall_children]; assumption.
    + cbn [forall_children]. rewrite forallb_forall in V |- *. intros c Hc. apply value_constant, V, Hc.
  - (* EAssets *) inv_bind H. injection H as <-. cbn [children] in Hk.
    assert (Hp : forallb (fun x => ready (fst (fst x)) && ready (snd (fst x)) && ready (snd x)) xs = true).
    { clear -Hk. induction xs as [|[[a b] c] l IH]; [reflexivity|]. cbn [flat_map app forallb fst snd] in *.
      apply andb_true_iff in Hk as [Ha Hk]. apply andb_true_iff in Hk as [Hb Hk]. apply andb_true_iff in Hk as [Hc Hk].
      rewrite Ha, Hb, Hc, (IH Hk). reflexivity. }
    pose proof (omapM3_keeps ready done g Hg _ _ Hp Hm) as Hv.
    assert (V : forallb (fun x => is_value (fst (fst x)) && is_value (snd (fst x)) && is_value (snd x)) v = true /\
                forallb (fun x => closedF (fst (fst x)) && closedF (snd (fst x)) && closedF (snd x)) v = true).
    { clear -Hv. induction v as [|[[a b] c] l IH]; [split; reflexivity|]. cbn [forallb fst snd] in *.
      apply andb_true_iff in Hv as [Hab Hl]. apply andb_true_iff in Hab as [Hab Hc]. apply andb_true_iff in Hab as [Ha Hb].
      destruct (IH Hl) as [I1 I2]. unfold done in Ha, Hb, Hc.
      apply andb_true_iff in Ha as [-> ->]. apply andb_true_iff in Hb as [-> ->]. apply andb_true_iff in Hc as [-> ->].
      rewrite I1, I2. split; reflexivity. }
    destruct V as [V C]. repeat split.
    + apply mk_done; cbn [is_value closedF forall_children]; assumption.
    + cbn [forall_children]. rewrite forallb_forall in V |- *. intros c Hc. specialize (V _ Hc).
      apply andb_true_iff in V as [V12 V3]. apply andb_true_iff in V12 as [V1 V2].
      rewrite (value_constant _ V1), (value_constant _ V2), (value_constant _ V3). reflexivity.
  - (* EAdHoc *) inv_bind H. injection H as <-. cbn [children] in Hk.
    assert (Hp : forallb (fun kv => ready (snd kv)) data = true).
    { clear -Hk. induction data as [|[k a] l IH]; [reflexivity|]. cbn [map forallb snd] in *.
      apply andb_true_iff in Hk as [Ha Hk]. rewrite Ha, (IH Hk). reflexivity. }
    pose proof (omapMkv_keeps ready done g Hg _ _ Hp Hm) as Hv.
    assert (V : forallb (fun kv => is_value (snd kv)) v = true /\ forallb (fun kv => closedF (snd kv)) v = true).
    { clear -Hv. induction v as [|[k a] l IH]; [split; reflexivity|]. cbn [forallb snd] in *.
      apply andb_true_iff in Hv as [Ha Hl]. destruct (IH Hl) as [I1 I2]. unfold done in Ha. apply andb_true_iff in Ha as [-> ->].
      rewrite I1, I2. split; reflexivity. }
    destruct V as [V C]. repeat split.
    + apply mk_done; cbn [is_value closedF forall_children]; assumption.
    + cbn [forall_children]. rewrite forallb_forall in V |- *. intros c Hc. apply value_constant, V, Hc.
Qed.
End Rec.

(** every result of reduce on a closed template is a finished value *)
Theorem reduce_closed_is_value pick : forall f e e', ready e = true -> reduce pick f e = Ok e' -> done e' = true.
Proof.
  induction f as [|f IH]; intros e e' He H; [discriminate|].
  pose proof He as He0. unfold ready in He0. apply andb_true_iff in He0 as [Hc Hs].
  destruct e; cbn [closedF] in Hc; try discriminate; cbn [reduce] in H;
    try (injection H as <-; apply mk_done; [reflexivity|exact Hc]).
  - (* EList *) match type of He with ready ?e0 = true => destruct (container_step pick (reduce pick f) IH e0 _ eq_refl He H) as (D & _ & _) end. exact D.
  - (* EMap *) match type of He with ready ?e0 = true => destruct (container_step pick (reduce pick f) IH e0 _ eq_refl He H) as (D & _ & _) end. exact D.
  - (* ETuple *) match type of He with ready ?e0 = true => destruct (container_step pick (reduce pick f) IH e0 _ eq_refl He H) as (D & _ & _) end. exact D.
  - (* EStruct *) unfold composite_reduce in H. inv_bind H.
    match type of He with ready ?e0 = true => destruct (container_step pick (reduce pick f) IH e0 _ eq_refl He Hm) as (D & K & R) end. rewrite K, R in H. injection H as <-. exact D.
  - (* EAssets *) unfold composite_reduce in H. inv_bind H.
    match type of He with ready ?e0 = true => destruct (container_step pick (reduce pick f) IH e0 _ eq_refl He Hm) as (D & K & R) end. rewrite K, R in H. injection H as <-. exact D.
  - (* EParamSet *) injection H as <-. cbn [sets_values] in Hs. apply mk_done; assumption.
  - (* EBNoOp *) inv_bind H. match type of He with ready ?e0 = true => destruct (builtin_step pick (reduce pick f) IH e0 _ eq_refl He Hm) as [r [-> D]] end. injection H as <-. exact D.
  - inv_bind H. match type of He with ready ?e0 = true => destruct (builtin_step pick (reduce pick f) IH e0 _ eq_refl He Hm) as [r [-> D]] end. injection H as <-. exact D.
  - inv_bind H. match type of He with ready ?e0 = true => destruct (builtin_step pick (reduce pick f) IH e0 _ eq_refl He Hm) as [r [-> D]] end. injection H as <-. exact D.
  - inv_bind H. match type of He with ready ?e0 = true => destruct (builtin_step pick (reduce pick f) IH e0 _ eq_refl He Hm) as [r [-> D]] end. injection H as <-. exact D.
  - inv_bind H. match type of He with ready ?e0 = true => destruct (builtin_step pick (reduce pick f) IH e0 _ eq_refl He Hm) as [r [-> D]] end. injection H as <-. exact D.
  - inv_bind H. match type of He with ready ?e0 = true => destruct (builtin_step pick (reduce pick f) IH e0 _ eq_refl He Hm) as [r [-> D]] end. injection H as <-. exact D.
  - (* ECNoOp *) inv_bind H. match type of He with ready ?e0 = true => destruct (coerce_step pick (reduce pick f) IH e0 _ eq_refl He Hm) as [r [-> D]] end. injection H as <-. exact D.
  - inv_bind H. match type of He with ready ?e0 = true => destruct (coerce_step pick (reduce pick f) IH e0 _ eq_refl He Hm) as [r [-> D]] end. injection H as <-. exact D.
  - inv_bind H. match type of He with ready ?e0 = true => destruct (coerce_step pick (reduce pick f) IH e0 _ eq_refl He Hm) as [r [-> D]] end. injection H as <-. exact D.
  - inv_bind H. match type of He with ready ?e0 = true => destruct (coerce_step pick (reduce pick f) IH e0 _ eq_refl He Hm) as [r [-> D]] end. injection H as <-. exact D.
  - (* EAdHoc *) unfold composite_reduce in H. inv_bind H.
    match type of He with ready ?e0 = true => destruct (container_step pick (reduce pick f) IH e0 _ eq_refl He Hm) as (D & K & R) end. rewrite K, R in H. injection H as <-. exact D.
Qed.

(** reducing an already reduced closed template changes nothing, whatever the set-order
    oracle of either pass, at every sufficient fuel *)
Theorem reduce_idempotent_closed pick f e e' :
  is_constant e = true -> datums_plain e = true -> sets_values e = true -> reduce pick f e = Ok e' ->
  exists f0, forall f', (f0 <= f')%nat -> forall pick', reduce pick' f' e' = Ok e'.
Proof.
  intros H1 H2 H3 H.
  assert (Hr : ready e = true).
  { unfold ready. rewrite closedF_closed. unfold closed. rewrite H1, H2, H3. reflexivity. }
  pose proof (reduce_closed_is_value pick f e e' Hr H) as Hd. unfold done in Hd. apply andb_true_iff in Hd as [V _].
  exact (reduce_value_fixed e' V).
Qed.

Example idempotent_somewhere :
  let e := EAdd (EParamSet (ENumber 1)) (EIntoDatum (EUtxoSet [((mk_ref [1%N] 0%N, [], [], Some (ENumber 7), None) : utxo_x)])) in
  is_constant e = true /\ datums_plain e = true /\ sets_values e = true /\ reduce 0 5 e = Ok (ENumber 8).
Proof. vm_compute. repeat split. Qed.

(** the hypothesis about applied parameters is what the three apply stages establish: each keeps
    it and puts only values into the parameters it fills *)
Lemma sets_values_generic e : is_param e = false -> sets_values e = forallb sets_values (children e).
Proof. intros H. destruct e; cbn [is_param] in H; try discriminate; cbn [sets_values]; rewrite ?forall_children_spec; reflexivity. Qed.

Lemma sets_values_map_children f e :
  is_param e = false -> sets_values e = true ->
  (forall c, c ∈ children e -> sets_values c = true -> sets_values (f c) = true) ->
  sets_values (map_children f e) = true.
Proof.
  intros Hp Hs Hf. rewrite sets_values_generic by (rewrite is_param_map_children; exact Hp).
  rewrite children_map_children. rewrite sets_values_generic in Hs by exact Hp.
  rewrite forallb_forall in Hs |- *. intros x Hx. apply in_map_iff in Hx as [c [<- Hc]].
  apply Hf; [apply elem_of_list_In; exact Hc|apply Hs; exact Hc].
Qed.

Lemma arg_value_is_value v : is_value (arg_value_into_expr v) = true.
Proof. destruct v; reflexivity. Qed.

Theorem apply_args_sets_values args e : sets_values e = true -> sets_values (apply_args args e) = true.
Proof.
  induction e as [e IH] using expr_children_ind. intros Hs. destruct (is_param e) eqn:Ep.
  - destruct e; cbn [is_param] in Ep; try discriminate; cbn [apply_args]; try exact Hs.
    + destruct (lookup_arg n args); [cbn [sets_values]; apply arg_value_is_value|exact Hs].
    + cbn [sets_values] in Hs |- *. apply andb_true_iff in Hs as [Hs H3]. apply andb_true_iff in Hs as [H1 H2].
      rewrite !IH; try assumption; try reflexivity; unfold all_children; cbn; auto using elem_of_list_here, elem_of_list_further.
  - rewrite apply_args_generic by exact Ep. apply sets_values_map_children; [exact Ep|exact Hs|].
    intros c Hc. apply IH. apply child_all. exact Hc.
Qed.

Theorem apply_fees_sets_values fee e : sets_values e = true -> sets_values (apply_fees fee e) = true.
Proof.
  induction e as [e IH] using expr_children_ind. intros Hs. destruct (is_param e) eqn:Ep.
  - destruct e; cbn [is_param] in Ep; try discriminate; cbn [apply_fees]; try exact Hs.
    + cbn [sets_values] in Hs |- *. apply andb_true_iff in Hs as [Hs H3]. apply andb_true_iff in Hs as [H1 H2].
      rewrite !IH; try assumption; try reflexivity; unfold all_children; cbn; auto using elem_of_list_here, elem_of_list_further.
  - rewrite apply_fees_generic by exact Ep. apply sets_values_map_children; [exact Ep|exact Hs|].
    intros c Hc. apply IH. apply child_all. exact Hc.
Qed.

Theorem apply_inputs_sets_values ins e : sets_values e = true -> sets_values (apply_inputs ins e) = true.
Proof.
  induction e as [e IH] using expr_children_ind. intros Hs. destruct (is_param e) eqn:Ep.
  - destruct e; cbn [is_param] in Ep; try discriminate; cbn [apply_inputs]; try exact Hs.
    destruct (lookup_arg n ins); [reflexivity|exact Hs].
  - rewrite apply_inputs_generic by exact Ep. apply sets_values_map_children; [exact Ep|exact Hs|].
    intros c Hc. apply IH. apply child_all. exact Hc.
Qed.
