(** Serde_proofs.v — property C11: ciborium's encoding of the data model is inverted by the
    decoder, for every value (any nesting and width). *)
From Tx3 Require Import Base Tir PlutusData PlutusData_proofs Serde.
From Coq Require Import ZifyN ZifyNat ZifyBool.
Ltac Zify.zify_post_hook ::= Z.div_mod_to_equations.
Local Open Scope N_scope.

Section cval_ind'.
  Variable P : cval -> Prop.
  Hypothesis HI : forall z, P (CInt z).
  Hypothesis HT : forall s, P (CText s).
  Hypothesis HA : forall l, Forall P l -> P (CArr l).
  Hypothesis HM : forall kvs, Forall (fun kv => P (fst kv) /\ P (snd kv)) kvs -> P (CMap kvs).
  Hypothesis HB : forall b, P (CBool b).
  Hypothesis HN : P CNull.
  Fixpoint cval_ind' (v : cval) : P v :=
    match v with
    | CInt z => HI z
    | CText s => HT s
    | CArr l => HA l ((fix go l : Forall P l :=
                         match l with [] => Forall_nil_2 _ | x :: r => Forall_cons_2 _ _ _ (cval_ind' x) (go r) end) l)
    | CMap kvs => HM kvs ((fix go l : Forall (fun kv => P (fst kv) /\ P (snd kv)) l :=
                             match l with
                             | [] => Forall_nil_2 _
                             | x :: r => Forall_cons_2 _ _ _ (conj (cval_ind' (fst x)) (cval_ind' (snd x))) (go r)
                             end) kvs)
    | CBool b => HB b
    | CNull => HN
    end.
End cval_ind'.

Fixpoint csize (v : cval) : nat :=
  match v with
  | CArr l => S (fold_right (fun x s => csize x + s)%nat O l)
  | CMap kvs => S (fold_right (fun kv s => csize (fst kv) + csize (snd kv) + s)%nat O kvs)
  | _ => 1%nat
  end.

(** integers are i128; sequence and text lengths fit a CBOR head *)
Fixpoint ok_cval (v : cval) : bool :=
  match v with
  | CInt z => in_i128 z
  | CText s => N.of_nat (length s) <? 2 ^ 64
  | CArr l => (N.of_nat (length l) <? 2 ^ 64) && forallb ok_cval l
  | CMap kvs => (N.of_nat (length kvs) <? 2 ^ 64) && forallb (fun kv => ok_cval (fst kv) && ok_cval (snd kv)) kvs
  | CBool _ | CNull => true
  end.

(** the first byte of a head of major type < 7 is below 224 *)
Lemma head_first_byte m n : m < 7 -> exists b t, head m n = b :: t /\ b < 224.
Proof.
  intros Hm. unfold head.
  destruct (N.ltb_spec n 24); [eexists _, _; split; [reflexivity | lia]|].
  destruct (N.ltb_spec n 256); [eexists _, _; split; [reflexivity | lia]|].
  destruct (N.ltb_spec n 65536); [eexists _, _; split; [reflexivity | lia]|].
  destruct (N.ltb_spec n 4294967296); eexists _, _; (split; [reflexivity | lia]).
Qed.

Lemma to_be_min_fuel_len fuel n acc k :
  n < 256 ^ N.of_nat k -> (length (to_be_min_fuel fuel n acc) <= k + length acc)%nat.
Proof.
  revert n acc k. induction fuel as [|fuel IH]; intros n acc k Hn; cbn [to_be_min_fuel]; [lia|].
  destruct (N.eqb_spec n 0); [lia|].
  destruct k as [|k]; [cbn in Hn; lia|].
  assert (Hpow: 256 ^ N.of_nat (S k) = 256 * 256 ^ N.of_nat k).
  { rewrite Nat2N.inj_succ, N.pow_succ_r by lia. reflexivity. }
  rewrite Hpow in Hn.
  specialize (IH (n / 256) (n mod 256 :: acc) k ltac:(apply N.div_lt_upper_bound; lia)).
  cbn [length] in IH. lia.
Qed.

Lemma to_be_min_i128 n : n < 2 ^ 128 -> (length (to_be_min n) <= 16)%nat.
Proof.
  intros H. unfold to_be_min. pose proof (to_be_min_fuel_len (S (N.to_nat (N.log2 n))) n [] 16) as Hl.
  cbn [length] in Hl. rewrite Nat.add_0_r in Hl. apply Hl.
  change (256 ^ N.of_nat 16) with (2 ^ 128). exact H.
Qed.

(** integers *)
Lemma decode_cval_int z rest f :
  in_i128 z = true -> decode_cval (S f) (enc_int z ++ rest) = Some (CInt z, rest).
Proof.
  unfold in_i128, i128_min, i128_max, enc_int, two64. intros Hok.
  apply andb_true_iff in Hok as [H1 H2]. apply Z.leb_le in H1. apply Z.leb_le in H2.
  assert (H64: (2 ^ 64 = 18446744073709551616)%Z) by reflexivity.
  assert (Hgen: forall m n r, m < 7 -> n < 2 ^ 64 ->
            decode_cval (S f) (head m n ++ r) =
            match dec_head (head m n ++ r) with
            | Some (0, ai, n, r) => if ai =? 31 then None else Some (CInt (Z.of_N n), r)
            | Some (1, ai, n, r) => if ai =? 31 then None else Some (CInt (- 1 - Z.of_N n), r)
            | Some (6, ai, t, r) =>
              if ai =? 31 then None
              else if t =? 2 then match dec_def_bytes r with Some (b, r') => Some (CInt (Z.of_N (from_be b 0)), r') | None => None end
              else if t =? 3 then match dec_def_bytes r with Some (b, r') => Some (CInt (- 1 - Z.of_N (from_be b 0)), r') | None => None end
              else None
            | Some (3, ai, n, r) =>
              if ai =? 31 then None
              else if n <=? N.of_nat (length r) then Some (CText (take (N.to_nat n) r), drop (N.to_nat n) r) else None
            | Some (4, ai, n, r) =>
              if ai =? 31 then None
              else if n <=? N.of_nat (length r) then
                match cdec_n (decode_cval f) (N.to_nat n) r with Some (xs, r') => Some (CArr xs, r') | None => None end
              else None
            | Some (5, ai, n, r) =>
              if ai =? 31 then None
              else if n <=? N.of_nat (length r) then
                match cdec_pairs (decode_cval f) (N.to_nat n) r with Some (xs, r') => Some (CMap xs, r') | None => None end
              else None
            | _ => None
            end).
  { intros m n r Hm Hn. destruct (head_first_byte m n Hm) as [b [t [E Hb]]].
    cbn [decode_cval]. rewrite E. cbn [app].
    destruct (N.eqb_spec b 244); [lia|]. destruct (N.eqb_spec b 245); [lia|]. destruct (N.eqb_spec b 246); [lia|].
    reflexivity. }
  destruct ((0 <=? z)%Z && (z <? 2 ^ 64)%Z) eqn:E1.
  - apply andb_true_iff in E1 as [Ha Hb]. apply Z.leb_le in Ha. apply Z.ltb_lt in Hb.
    rewrite Hgen by (try lia; change (2 ^ 64) with 18446744073709551616; lia).
    rewrite dec_head_head by (try lia; change (2 ^ 64) with 18446744073709551616; lia).
    rewrite head_ai_not_31, Z2N.id by lia. reflexivity.
  - destruct ((z <? 0)%Z && (- 2 ^ 64 <=? z)%Z) eqn:E2.
    + apply andb_true_iff in E2 as [Ha Hb]. apply Z.ltb_lt in Ha. apply Z.leb_le in Hb.
      rewrite Hgen by (try lia; change (2 ^ 64) with 18446744073709551616; lia).
      rewrite dec_head_head by (try lia; change (2 ^ 64) with 18446744073709551616; lia).
      rewrite head_ai_not_31, Z2N.id by lia. f_equal. f_equal. f_equal. lia.
    + destruct (Z.leb_spec 0 z) as [Hpos|Hneg].
      * rewrite <- app_assoc. rewrite Hgen by (vm_compute; reflexivity).
        rewrite dec_head_head by (vm_compute; reflexivity).
        change (head_ai 2 =? 31) with false. change (2 =? 2) with true. cbn match.
        assert (Hlen: (length (to_be_min (Z.to_N z)) <= 16)%nat).
        { apply to_be_min_i128. change (2 ^ 128) with (Z.to_N (2 ^ 128)%Z). lia. }
        unfold enc_bytes. destruct (Nat.leb_spec (length (to_be_min (Z.to_N z))) 64); [|lia].
        rewrite dec_def_bytes_spec by (change (2 ^ 64) with 18446744073709551616; lia).
        rewrite from_be_to_be_min, Z2N.id by lia. reflexivity.
      * rewrite <- app_assoc. rewrite Hgen by (vm_compute; reflexivity).
        rewrite dec_head_head by (vm_compute; reflexivity).
        change (head_ai 3 =? 31) with false. change (3 =? 2) with false. change (3 =? 3) with true. cbn match.
        assert (Hlen: (length (to_be_min (Z.to_N (- 1 - z))) <= 16)%nat).
        { apply to_be_min_i128. change (2 ^ 128) with (Z.to_N (2 ^ 128)%Z). lia. }
        unfold enc_bytes. destruct (Nat.leb_spec (length (to_be_min (Z.to_N (- 1 - z)))) 64); [|lia].
        rewrite dec_def_bytes_spec by (change (2 ^ 64) with 18446744073709551616; lia).
        rewrite from_be_to_be_min, Z2N.id by lia. f_equal. f_equal. f_equal. lia.
Qed.

(** a value that starts with a head of major type < 7 is dispatched on that head *)
Lemma decode_cval_on_head f m n r : m < 7 ->
  decode_cval (S f) (head m n ++ r) =
  match dec_head (head m n ++ r) with
  | Some (0, ai, n, r) => if ai =? 31 then None else Some (CInt (Z.of_N n), r)
  | Some (1, ai, n, r) => if ai =? 31 then None else Some (CInt (- 1 - Z.of_N n), r)
  | Some (3, ai, n, r) =>
    if ai =? 31 then None
    else if n <=? N.of_nat (length r) then Some (CText (take (N.to_nat n) r), drop (N.to_nat n) r) else None
  | Some (4, ai, n, r) =>
    if ai =? 31 then None
    else if n <=? N.of_nat (length r) then
      match cdec_n (decode_cval f) (N.to_nat n) r with Some (xs, r') => Some (CArr xs, r') | None => None end
    else None
  | Some (5, ai, n, r) =>
    if ai =? 31 then None
    else if n <=? N.of_nat (length r) then
      match cdec_pairs (decode_cval f) (N.to_nat n) r with Some (xs, r') => Some (CMap xs, r') | None => None end
    else None
  | Some (6, ai, t, r) =>
    if ai =? 31 then None
    else if t =? 2 then match dec_def_bytes r with Some (b, r') => Some (CInt (Z.of_N (from_be b 0)), r') | None => None end
    else if t =? 3 then match dec_def_bytes r with Some (b, r') => Some (CInt (- 1 - Z.of_N (from_be b 0)), r') | None => None end
    else None
  | _ => None
  end.
Proof.
  intros Hm. destruct (head_first_byte m n Hm) as [b [t [E Hb]]].
  cbn [decode_cval]. rewrite E. cbn [app].
  destruct (N.eqb_spec b 244); [lia|]. destruct (N.eqb_spec b 245); [lia|]. destruct (N.eqb_spec b 246); [lia|].
  reflexivity.
Qed.

Lemma encode_cval_nonempty v : encode_cval v <> [].
Proof.
  destruct v as [z|s|l|kvs|b|]; cbn [encode_cval]; try discriminate.
  - unfold enc_int. repeat match goal with |- context [if ?c then _ else _] => destruct c end.
    + pose proof (head_nonempty 0 (Z.to_N z)). destruct (head 0 _); [congruence | discriminate].
    + pose proof (head_nonempty 1 (Z.to_N (-1 - z))). destruct (head 1 _); [congruence | discriminate].
    + pose proof (head_nonempty 6 2). destruct (head 6 2); [congruence | discriminate].
    + pose proof (head_nonempty 6 3). destruct (head 6 3); [congruence | discriminate].
  - pose proof (head_nonempty 3 (N.of_nat (length s))). destruct (head 3 _); [congruence | discriminate].
  - pose proof (head_nonempty 4 (N.of_nat (length l))). destruct (head 4 _); [congruence | discriminate].
  - pose proof (head_nonempty 5 (N.of_nat (length kvs))). destruct (head 5 _); [congruence | discriminate].
Qed.

Lemma flat_map_cval_length l : (length l <= length (flat_map encode_cval l))%nat.
Proof.
  induction l as [|x l IH]; cbn; [lia|]. rewrite app_length.
  pose proof (encode_cval_nonempty x). destruct (encode_cval x); [congruence|]. cbn. lia.
Qed.
Lemma flat_map_cval2_length (kvs : list (cval * cval)) :
  (length kvs <= length (flat_map (fun kv => encode_cval (fst kv) ++ encode_cval (snd kv)) kvs))%nat.
Proof.
  induction kvs as [|x l IH]; cbn; [lia|]. rewrite !app_length.
  pose proof (encode_cval_nonempty (fst x)). destruct (encode_cval (fst x)); [congruence|]. cbn. lia.
Qed.

Lemma cdec_n_spec dec xs rest :
  Forall (fun x => forall r, dec (encode_cval x ++ r) = Some (x, r)) xs ->
  cdec_n dec (length xs) (flat_map encode_cval xs ++ rest) = Some (xs, rest).
Proof.
  induction xs as [|x xs IH]; intros H; cbn [length flat_map cdec_n app]; [reflexivity|].
  apply Forall_cons in H as [Hx Hxs]. rewrite <- app_assoc, Hx, (IH Hxs). reflexivity.
Qed.
Lemma cdec_pairs_spec dec (kvs : list (cval * cval)) rest :
  Forall (fun kv => (forall r, dec (encode_cval (fst kv) ++ r) = Some (fst kv, r)) /\
                    (forall r, dec (encode_cval (snd kv) ++ r) = Some (snd kv, r))) kvs ->
  cdec_pairs dec (length kvs) (flat_map (fun kv => encode_cval (fst kv) ++ encode_cval (snd kv)) kvs ++ rest) = Some (kvs, rest).
Proof.
  induction kvs as [|[k v] kvs IH]; intros H; cbn [length flat_map cdec_pairs app fst snd]; [reflexivity|].
  apply Forall_cons in H as [[Hk Hv] Hr]. cbn [fst snd] in *.
  rewrite <- !app_assoc, Hk, Hv, (IH Hr). reflexivity.
Qed.

Lemma csize_child x xs : x ∈ xs -> (csize x <= fold_right (fun y s => csize y + s) 0 xs)%nat.
Proof.
  induction xs as [|y ys IH]; intros Hin; [apply elem_of_nil in Hin; contradiction|].
  cbn. apply elem_of_cons in Hin as [->|Hin]; [lia | specialize (IH Hin); lia].
Qed.

(** the codec law of the wire format *)
Theorem decode_encode_cval : forall v,
  ok_cval v = true ->
  forall f rest, (csize v <= f)%nat -> decode_cval f (encode_cval v ++ rest) = Some (v, rest).
Proof.
  induction v as [z|s|l IH|kvs IH|b|] using cval_ind'; intros Hok f rest Hf.
  - destruct f as [|f]; [cbn in Hf; lia|]. cbn [encode_cval]. apply decode_cval_int. exact Hok.
  - cbn [ok_cval] in Hok. apply N.ltb_lt in Hok.
    destruct f as [|f]; [cbn in Hf; lia|]. cbn [encode_cval]. rewrite <- app_assoc.
    rewrite decode_cval_on_head by lia. rewrite dec_head_head by (try exact Hok; lia).
    rewrite head_ai_not_31. rewrite app_length.
    destruct (N.leb_spec (N.of_nat (length s)) (N.of_nat (length s + length rest))); [|lia].
    rewrite Nat2N.id, take_app_exact, drop_app_exact by reflexivity. reflexivity.
  - cbn [ok_cval] in Hok. apply andb_true_iff in Hok as [Hlen Hl]. apply N.ltb_lt in Hlen.
    destruct f as [|f]; [cbn in Hf; lia|]. cbn [csize] in Hf.
    assert (Hch: Forall (fun x => forall r, decode_cval f (encode_cval x ++ r) = Some (x, r)) l).
    { rewrite Forall_forall in IH |- *. intros x Hx r. apply IH; [exact Hx| |].
      - rewrite forallb_forall in Hl. apply Hl. apply elem_of_list_In. exact Hx.
      - pose proof (csize_child x l Hx). lia. }
    cbn [encode_cval]. rewrite <- app_assoc. rewrite decode_cval_on_head by lia.
    rewrite dec_head_head by (try exact Hlen; lia). rewrite head_ai_not_31.
    rewrite app_length. pose proof (flat_map_cval_length l).
    destruct (N.leb_spec (N.of_nat (length l)) (N.of_nat (length (flat_map encode_cval l) + length rest))); [|lia].
    rewrite Nat2N.id, cdec_n_spec by exact Hch. reflexivity.
  - cbn [ok_cval] in Hok. apply andb_true_iff in Hok as [Hlen Hkv]. apply N.ltb_lt in Hlen.
    destruct f as [|f]; [cbn in Hf; lia|]. cbn [csize] in Hf.
    assert (Hsz: forall kv, kv ∈ kvs ->
              (csize (fst kv) + csize (snd kv) <= fold_right (fun kv s => csize (fst kv) + csize (snd kv) + s) 0 kvs)%nat).
    { clear. induction kvs as [|y ys IHk]; intros kv Hin; [apply elem_of_nil in Hin; contradiction|].
      cbn. apply elem_of_cons in Hin as [->|Hin]; [lia | specialize (IHk kv Hin); lia]. }
    assert (Hch: Forall (fun kv => (forall r, decode_cval f (encode_cval (fst kv) ++ r) = Some (fst kv, r)) /\
                                   (forall r, decode_cval f (encode_cval (snd kv) ++ r) = Some (snd kv, r))) kvs).
    { rewrite Forall_forall in IH |- *. intros kv Hx. destruct (IH kv Hx) as [IHk IHv].
      rewrite forallb_forall in Hkv. specialize (Hkv kv (proj1 (elem_of_list_In _ _) Hx)).
      apply andb_true_iff in Hkv as [Hk Hv]. specialize (Hsz kv Hx).
      split; intros r; [apply IHk | apply IHv]; try assumption; lia. }
    cbn [encode_cval]. rewrite <- app_assoc. rewrite decode_cval_on_head by lia.
    rewrite dec_head_head by (try exact Hlen; lia). rewrite head_ai_not_31.
    rewrite app_length. pose proof (flat_map_cval2_length kvs).
    destruct (N.leb_spec (N.of_nat (length kvs))
                (N.of_nat (length (flat_map (fun kv => encode_cval (fst kv) ++ encode_cval (snd kv)) kvs) + length rest))); [|lia].
    rewrite Nat2N.id, cdec_pairs_spec by exact Hch. reflexivity.
  - destruct f as [|f]; [cbn in Hf; lia|]. destruct b; reflexivity.
  - destruct f as [|f]; [cbn in Hf; lia|]. reflexivity.
Qed.

(** the bytes of a transaction decode back to the data-model value serde laid out *)
Corollary wire_roundtrip t :
  ok_cval (tx_cval t) = true ->
  decode_cval (csize (tx_cval t)) (to_bytes t) = Some (tx_cval t, []).
Proof.
  intros H. unfold to_bytes. rewrite <- (app_nil_r (encode_cval (tx_cval t))).
  apply decode_encode_cval; [exact H | lia].
Qed.

(** * the layout is injective: two different IRs never share an encoding, so the decoded
    data-model value determines the IR *)
Lemma sbytes_inj a b : sbytes a = sbytes b -> a = b.
Proof.
  unfold sbytes. revert b. induction a as [|c a IH]; intros [|d b] H; cbn in H; try discriminate; [reflexivity|].
  injection H as Hc Hr. f_equal; [|apply IH; exact Hr].
  rewrite <- (Ascii.ascii_N_embedding c), <- (Ascii.ascii_N_embedding d), Hc. reflexivity.
Qed.

Lemma cbytes_inj a b : cbytes a = cbytes b -> a = b.
Proof.
  unfold cbytes. intros H. injection H as H. revert b H.
  induction a as [|x a IH]; intros [|y b] H; cbn in H; try discriminate; [reflexivity|].
  injection H as Hx Hr. f_equal; [lia | apply IH; exact Hr].
Qed.

Lemma map_inj_in {A B} (f : A -> B) xs ys :
  (forall x, x ∈ xs -> forall y, f x = f y -> x = y) -> map f xs = map f ys -> xs = ys.
Proof.
  revert ys. induction xs as [|x xs IH]; intros [|y ys] Hinj H; cbn in H; try discriminate; [reflexivity|].
  injection H as Hx Hr. f_equal; [apply Hinj; [left | exact Hx] | apply IH; [|exact Hr]].
  intros z Hz. apply Hinj. right. exact Hz.
Qed.

Definition tag_path (v : cval) : list bytes :=
  match v with
  | CText s => [s]
  | CMap [(CText s, p)] =>
    s :: match p with
         | CText s2 => [s2]
         | CMap [(CText s2, _)] => [s2]
         | _ => []
         end
  | _ => []
  end.

Definition ctor_id (e : expr) : N :=
  match e with
  | ENone => 0 | EList _ => 1 | EMap _ => 2 | ETuple _ _ => 3 | EStruct _ _ => 4 | EBytes _ => 5 | ENumber _ => 6
  | EBool _ => 7 | EString _ => 8 | EAddress _ => 9 | EHash _ => 10 | EUtxoRefs _ => 11 | EUtxoSet _ => 12
  | EAssets _ => 13 | EParamSet _ => 14 | EExpectValue _ _ => 15 | EExpectInput _ _ _ _ _ _ => 16 | EExpectFees => 17
  | EBNoOp _ => 18 | EAdd _ _ => 19 | ESub _ _ => 20 | EConcat _ _ => 21 | ENegate _ => 22 | EProperty _ _ => 23
  | EScriptAddr _ => 24 | EMinUtxo _ => 25 | ETipSlot => 26 | ESlotToTime _ => 27 | ETimeToSlot _ => 28
  | ECNoOp _ => 29 | EIntoAssets _ => 30 | EIntoDatum _ => 31 | EIntoScript _ => 32 | EAdHoc _ _ => 33
  end.

(** the outer variant name (two levels for the Eval* wrappers) of a laid-out expression *)
Definition outer_names (e : expr) : list bytes :=
  match tag_path (to_cval e) with
  | a :: b :: _ =>
    if bool_decide (a = sbytes "EvalParam") || bool_decide (a = sbytes "EvalBuiltIn")
       || bool_decide (a = sbytes "EvalCompiler") || bool_decide (a = sbytes "EvalCoerce") then [a; b] else [a]
  | l => l
  end.

Lemma ctor_of_names e1 e2 : outer_names e1 = outer_names e2 -> ctor_id e1 = ctor_id e2.
Proof.
  destruct e1, e2; intros H; try reflexivity; exfalso; vm_compute in H; discriminate H.
Qed.
