(** C03_check.v — correspondence of Select.v with tx3_resolver::inputs::resolve, and the
    clauses of properties C03 / C04 evaluated on the implementation's own selections. *)
From Tx3 Require Import Base Assets Select.

Record blk := mk_blk {
  b_name : string;
  b_query : query;
  b_oracles : oracles;               (* traced: Fill / Sorted / PruneScan events of this block *)
  b_sel : option (list utxo_ref) }.  (* what the implementation bound to the block *)

(** kind: 0 Ok, 1 InputNotResolved, 2 InputQueryTooBroad, 3 other error, 4 panic *)
Record case := mk_case {
  c_store : store;
  c_blocks : list blk;
  c_kind : N;
  c_err_name : string }.

Definition same_set (a b : list utxo_ref) : bool :=
  forallb (fun x => mem x b) a && forallb (fun x => mem x a) b
  && (length a =? length b)%nat.

(** replay of the model along the blocks with the traced oracles:
    returns (kind, failing block, selections) *)
Fixpoint replay (st : store) (sel : selector) (bs : list blk)
  : N * string * list (list utxo_ref) * bool :=
  match bs with
  | [] => (0%N, ""%string, [], true)
  | b :: rest =>
    let q := b_query b in let o := b_oracles b in
    match narrow st q with
    | Ok sp =>
      let ign := if q_coll q then ign_coll sel else ign_input sel in
      let cands := fetched_cands st sp q ign (o_fill o) in
      let ok := fill_ok sp window (o_fill o) && order_ok (o_sorted o) cands in
      let s := select st sp q ign o in
      match s with
      | [] => (1%N, b_name b, [], ok)
      | _ =>
        let sel' := if q_coll q then mk_sel (ign_input sel) (ign_coll sel ++ map u_ref s)
                    else mk_sel (ign_input sel ++ map u_ref s) (ign_coll sel) in
        let '(k, n, ss, ok') := replay st sel' rest in
        (k, n, map u_ref s :: ss, ok && ok')
      end
    | _ => (2%N, b_name b, [], true)
    end
  end.

Definition lookup_utxo (st : store) (r : utxo_ref) : option utxo :=
  find (fun u => bool_decide (u_ref u = r)) st.
Definition sel_utxos (st : store) (rs : list utxo_ref) : list utxo :=
  omap (lookup_utxo st) rs.

(** boolean form of Select.spec_candidate *)
Definition cand_b (q : query) (ign : list utxo_ref) (u : utxo) : bool :=
  negb (mem (u_ref u) ign) && meets q u
  && (if q_coll q then is_only_naked (u_assets u) else true)
  && match q_addr q with
     | Some _ => true
     | None => match q_refs q with _ :: _ => true | [] => forallb (fun kv => match kv.1 with
                                  | Defined p n => if 0 <? kv.2 then 0 <? get0 (u_assets u) kv.1 else true
                                  | _ => true end)
                       (map_to_list (target_of q)) end
     end.

Definition coversb (a target : assets) : bool :=
  forallb (fun kv => kv.2 <=? get0 a kv.1) (map_to_list target).

(** per-block clauses on the implementation's selection; returns failing clause ids *)
Definition block_clauses (st : store) (q : query) (ign : list utxo_ref) (s : list utxo_ref)
  : list (N * bool) :=
  let us := sel_utxos st s in
  let t := target_of q in
  [ (101%N, (length us =? length s)%nat);                          (* selected UTxOs exist in the store *)
    (102%N, forallb (meets q) us);                                   (* address and ref constraints *)
    (103%N, if q_many q then true else ((length us =? 1)%nat && forallb (fun u => coversb (u_assets u) t) us));
    (104%N, if q_many q then coversb (total us) t else true);
    (105%N, if q_coll q then forallb (fun u => is_only_naked (u_assets u)) us else true);
    (106%N, forallb (fun r => negb (mem r ign)) s)                   (* C04: nothing an earlier block took *)
  ].

(** completeness: when the implementation reports the block unresolved, no candidate (set) covers *)
Definition unresolved_justified (st : store) (q : query) (ign : list utxo_ref) : bool :=
  let cs := filter (fun u => cand_b q ign u = true) st in
  let t := target_of q in
  (* the property speaks of the candidates within the selection window: when more UTxOs match
     than the window holds (the ignore set is applied after the window), which of them are
     looked at is the hash set's choice and the converse clause does not apply *)
  if (window <? length (filter (fun u => cand_b q [] u = true) st))%nat then true else
  if q_many q then
    match cs with [] => true | _ => negb (coversb (total cs) t) end
  else negb (existsb (fun u => coversb (u_assets u) t) cs).

Fixpoint clauses (st : store) (sel : selector) (bs : list blk) (kind : N) (ename : string)
  : list (N * bool) :=
  match bs with
  | [] => []
  | b :: rest =>
    let q := b_query b in
    let ign := if q_coll q then ign_coll sel else ign_input sel in
    match b_sel b with
    | Some s =>
      let sel' := if q_coll q then mk_sel (ign_input sel) (ign_coll sel ++ s)
                  else mk_sel (ign_input sel ++ s) (ign_coll sel) in
      block_clauses st q ign s ++ clauses st sel' rest kind ename
    | None =>
      if (kind =? 1)%N && bool_decide (b_name b = ename)
      then [ (107%N, unresolved_justified st q ign) ]
      else []
    end
  end.

Definition nonneg_case (c : case) : bool :=
  forallb (fun u => nonnegb (u_assets u)) (c_store c)
  && forallb (fun b => nonnegb (target_of (b_query b))) (c_blocks c).

Definition checks (c : case) : list (N * bool) :=
  let '(k, n, ss, ok) := replay (c_store c) (mk_sel [] []) (c_blocks c) in
  let impl_sels := omap b_sel (c_blocks c) in
  [ (1%N, wf_storeb (c_store c));
    (2%N, ok);                                                   (* traced oracles are genuine orders *)
    (3%N, (k =? c_kind c)%N || (3 <=? c_kind c)%N);
    (4%N, if (k =? 1)%N && (c_kind c =? 1)%N then bool_decide (n = c_err_name c) else true);
    (5%N, if (k =? 0)%N && (c_kind c =? 0)%N
          then (length ss =? length impl_sels)%nat
               && forallb (fun p => same_set p.1 p.2) (zip ss impl_sels)
          else true);
    (6%N, negb (c_kind c =? 4)%N) ]
  ++ (if nonneg_case c then clauses (c_store c) (mk_sel [] []) (c_blocks c) (c_kind c) (c_err_name c) else []).

Definition failed (c : case) : list N :=
  map fst (filter (fun x => negb (snd x)) (checks c)).

Fixpoint run_from (i : N) (cs : list case) : list (N * list N) :=
  match cs with
  | [] => []
  | c :: r =>
    match failed c with
    | [] => run_from (i + 1)%N r
    | f => (i, f) :: run_from (i + 1)%N r
    end
  end.
Definition run (cs : list case) := run_from 0%N cs.
