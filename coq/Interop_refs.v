(** Interop_refs.v — a UTxO reference written as "hex(txid)#index" is read back as the same
    reference, for every transaction id of any length and every 32-bit index (C16). *)
From Tx3 Require Import Base Assets Select Tir Interop Interop_proofs.
From Coq Require Import DecimalPos DecimalN DecimalZ.
Local Open Scope string_scope.

Lemma hex_digit_not_hash n : (n < 16)%N -> hex_digit n <> "#"%char.
Proof.
  intros H.
  pose proof (forall_lt16 (fun k => negb (Ascii.eqb (hex_digit k) "#"%char)) ltac:(vm_compute; reflexivity) n H) as Hb.
  apply negb_true_iff in Hb. intros E. rewrite E in Hb. vm_compute in Hb. discriminate.
Qed.

Lemma split_hash_hex b rest : wf_bytes b = true ->
  split_hash (hex_encode b ++ String "#"%char rest) = Some (hex_encode b, rest).
Proof.
  induction b as [|x b IH]; intros H; cbn [hex_encode].
  - reflexivity.
  - cbn in H. apply andb_true_iff in H as [Hx Hb]. apply N.ltb_lt in Hx.
    change ((String (hex_digit (x / 16)) (String (hex_digit (x mod 16)) (hex_encode b))) ++ String "#"%char rest)
      with (String (hex_digit (x / 16)) (String (hex_digit (x mod 16)) (hex_encode b ++ String "#"%char rest))).
    cbn [split_hash].
    assert (H1 : Ascii.eqb (hex_digit (x / 16)) "#"%char = false).
    { apply Ascii.eqb_neq. apply hex_digit_not_hash. apply N.div_lt_upper_bound; lia. }
    assert (H2 : Ascii.eqb (hex_digit (x mod 16)) "#"%char = false).
    { apply Ascii.eqb_neq. apply hex_digit_not_hash. apply N.mod_lt. lia. }
    rewrite H1, H2, (IH Hb). reflexivity.
Qed.

Lemma parse_u32_dec n : (n < 2 ^ 32)%N -> parse_u32 (dec_string (Z.of_N n)) = Some n.
Proof.
  intros Hn. unfold parse_u32, dec_string. destruct n as [|p]; [reflexivity|].
  cbn [Z.of_N Z.to_int NilEmpty.string_of_int].
  destruct (string_of_uint_digit_head (Pos.to_uint p) (to_uint_nonnil p)) as [c [r [E [H1 [H2 _]]]]].
  rewrite E.
  assert (Hsel : match String c r with String "+"%char r0 => r0 | _ => String c r end = String c r).
  { destruct c as [[] [] [] [] [] [] [] []]; try reflexivity; congruence. }
  rewrite Hsel, <- E, NilEmpty.usu.
  pose proof (to_uint_nonnil p) as Hnn.
  assert (Hof : N.of_uint (Pos.to_uint p) = N.pos p).
  { change (Pos.to_uint p) with (N.to_uint (N.pos p)). apply DecimalN.Unsigned.of_to. }
  destruct (Pos.to_uint p) eqn:Ep; try congruence; rewrite Hof;
    (destruct (N.pos p <? 2 ^ 32)%N eqn:El; [reflexivity|apply N.ltb_ge in El; lia]).
Qed.

Theorem utxo_ref_roundtrip txid idx :
  wf_bytes txid = true -> (idx < 2 ^ 32)%N ->
  value_to_utxo_ref (JStr (hex_encode txid ++ String "#"%char (dec_string (Z.of_N idx)))) = Ok (mk_ref txid idx).
Proof.
  intros Hb Hi. unfold value_to_utxo_ref. rewrite (split_hash_hex txid _ Hb).
  rewrite (hex_decode_encode txid Hb), (parse_u32_dec idx Hi). reflexivity.
Qed.

(** ... and a reference without '#', with a non-hex transaction id or with an index beyond 32 bits
    is refused, not truncated *)
Theorem utxo_ref_index_out_of_range txid idx :
  wf_bytes txid = true -> (2 ^ 32 <= idx)%N ->
  value_to_utxo_ref (JStr (hex_encode txid ++ String "#"%char (dec_string (Z.of_N idx)))) = Err "InvalidUtxoRef".
Proof.
  intros Hb Hi. unfold value_to_utxo_ref. rewrite (split_hash_hex txid _ Hb), (hex_decode_encode txid Hb).
  assert (Hp : parse_u32 (dec_string (Z.of_N idx)) = None); [|rewrite Hp; reflexivity].
  unfold parse_u32, dec_string. destruct idx as [|p]; [cbn in Hi; lia|].
  cbn [Z.of_N Z.to_int NilEmpty.string_of_int].
  destruct (string_of_uint_digit_head (Pos.to_uint p) (to_uint_nonnil p)) as [c [r [E [H1 [H2 _]]]]].
  rewrite E.
  assert (Hsel : match String c r with String "+"%char r0 => r0 | _ => String c r end = String c r).
  { destruct c as [[] [] [] [] [] [] [] []]; try reflexivity; congruence. }
  rewrite Hsel, <- E, NilEmpty.usu.
  assert (Hof : N.of_uint (Pos.to_uint p) = N.pos p).
  { change (Pos.to_uint p) with (N.to_uint (N.pos p)). apply DecimalN.Unsigned.of_to. }
  pose proof (to_uint_nonnil p) as Hnn.
  destruct (Pos.to_uint p) eqn:Ep; try congruence; rewrite Hof;
    (destruct (N.pos p <? 2 ^ 32)%N eqn:El; [apply N.ltb_lt in El; lia|reflexivity]).
Qed.
