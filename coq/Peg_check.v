(** Peg_check.v — the front end on arbitrary text: acceptance by the generated grammar under the
    interpreter of Peg.v against pest's verdict (tie), and the clauses of C12 (no panic, an
    answer in time) and C19 (locations inside the text they are attached to) evaluated on the
    implementation's own results. *)
From Tx3 Require Import Base Peg.
From Tx3.gen Require Import Grammar.

Record case := mk_case {
  c_text : list N;
  c_parse : N;                              (* 0 Ok, 1 Err, 2 panic, 3 no answer within the limit *)
  c_grammar_ok : bool;                      (* pest accepted the text (an Err may still come from AST construction) *)
  c_analyze : N;                            (* 0 report returned, 2 panic, 3 no answer, 9 not run *)
  c_err_span : option (N * N * N);          (* parse error: start, end of the label, length of the text the error carries *)
  c_boundaries_ok : bool;
  c_diags : list (N * N * bool * bool) }.   (* located analysis errors: start, end, inside the input on character boundaries, located text = reported name *)

Definition peg_fuel : nat := N.to_nat 60000.

Definition checks (c : case) : list (N * bool) :=
  [ (1%N, if (c_parse c =? 2)%N || (c_parse c =? 3)%N then true
          else match accepts tx3_grammar peg_fuel "program" (c_text c) with
               | Some b => eqb b (c_grammar_ok c)
               | None => false                     (* the interpreter ran out of fuel: no verdict *)
               end);
    (121%N, negb (c_parse c =? 2)%N);
    (122%N, negb (c_analyze c =? 2)%N);
    (123%N, negb (c_parse c =? 3)%N && negb (c_analyze c =? 3)%N);
    (191%N, match c_err_span c with Some (s, e, l) => (s <=? e)%N && (e <=? l)%N | None => true end);
    (192%N, c_boundaries_ok c);
    (193%N, forallb (fun d => let '(s, e, w, _) := d in (s <=? e)%N && w) (c_diags c));
    (194%N, forallb (fun d => let '(_, _, _, m) := d in m) (c_diags c)) ].

Definition failed (c : case) : list N := map fst (filter (fun x => negb (snd x)) (checks c)).
Fixpoint run_from (i : N) (cs : list case) : list (N * list N) :=
  match cs with
  | [] => []
  | c :: r => match failed c with [] => run_from (i + 1)%N r | f => (i, f) :: run_from (i + 1)%N r end
  end.
Definition run (cs : list case) := run_from 0%N cs.
