(** Select_proofs.v — properties C03 (selection honours constraints, is complete) and
    C04 (no UTxO bound to two input blocks), for every store, query and oracle. *)
From Tx3 Require Import Base Assets Assets_proofs Select.
Local Open Scope Z_scope.

(** * Sums of UTxO values *)

Definition sumk (l : list utxo) (k : asset_class) : Z :=
  fold_right (fun u s => get0 (u_assets u) k + s) 0 l.

Lemma get0_total l k : get0 (total l) k = sumk l k.
Proof.
  unfold total, a_sum. rewrite get0_fold_add, get0_empty. unfold sumk.
  induction l as [|u l IH]; cbn; [lia|]. rewrite Z.add_0_l in *. rewrite IH. reflexivity.
Qed.

Lemma sumk_nil k : sumk [] k = 0.
Proof. reflexivity. Qed.
Lemma sumk_cons u l k : sumk (u :: l) k = get0 (u_assets u) k + sumk l k.
Proof. reflexivity. Qed.

Lemma sumk_app l1 l2 k : sumk (l1 ++ l2) k = sumk l1 k + sumk l2 k.
Proof.
  induction l1 as [|u l IH]; [rewrite sumk_nil; cbn [app]; lia|].
  cbn [app]. rewrite !sumk_cons, IH. lia.
Qed.

Lemma sumk_nonneg l k : (forall u, u ∈ l -> nonneg (u_assets u)) -> 0 <= sumk l k.
Proof.
  induction l as [|u l IH]; intros H; [rewrite sumk_nil; lia|]. rewrite sumk_cons.
  assert (0 <= get0 (u_assets u) k) by (apply H; left).
  assert (0 <= sumk l k) by (apply IH; intros v Hv; apply H; right; exact Hv). lia.
Qed.

Lemma sumk_remove u l k :
  NoDup (map u_ref l) -> u ∈ l ->
  sumk l k = get0 (u_assets u) k + sumk (remove_utxo u l) k.
Proof.
  unfold remove_utxo. induction l as [|v l IH]; intros Hnd Hin.
  - apply elem_of_nil in Hin. contradiction.
  - cbn in Hnd. apply NoDup_cons in Hnd as [Hv Hnd].
    apply elem_of_cons in Hin as [->|Hin].
    + rewrite sumk_cons. rewrite filter_cons. destruct (decide (u_ref v <> u_ref v)) as [Hn|_]; [congruence|].
      f_equal.
      assert (E: filter (fun x => u_ref x <> u_ref v) l = l).
      { clear IH. induction l as [|w l IHl]; [reflexivity|].
        rewrite filter_cons. cbn in Hv, Hnd.
        apply not_elem_of_cons in Hv as [Hne Hv]. apply NoDup_cons in Hnd as [_ Hnd].
        destruct (decide (u_ref w <> u_ref v)) as [_|Hn]; [|exfalso; apply Hn; congruence].
        f_equal. apply IHl; assumption. }
      rewrite E. reflexivity.
    + rewrite sumk_cons. rewrite filter_cons.
      destruct (decide (u_ref v <> u_ref u)) as [Hne|Heq].
      * rewrite sumk_cons. rewrite (IH Hnd Hin). lia.
      * exfalso. apply Hv. apply dec_stable in Heq. rewrite Heq.
        apply elem_of_list_fmap. exists u. split; [reflexivity | exact Hin].
Qed.

(** * Sub-list facts: what is selected was a candidate *)

Lemma find_some_elem {A} (f : A -> bool) l x : find f l = Some x -> x ∈ l /\ f x = true.
Proof.
  intros H. apply find_some in H as [H1 H2]. split; [apply elem_of_list_In; exact H1 | exact H2].
Qed.

Lemma order_by_elem ord l u : u ∈ order_by ord l -> u ∈ l.
Proof.
  unfold order_by. intros H. apply elem_of_list_omap in H as [r [_ Hf]].
  apply find_some_elem in Hf as [Hin _]. exact Hin.
Qed.

Lemma order_by_ref ord l u : u ∈ order_by ord l -> u_ref u ∈ ord.
Proof.
  unfold order_by. intros H. apply elem_of_list_omap in H as [r [Hr Hf]].
  apply find_some_elem in Hf as [_ Hb]. apply bool_decide_eq_true in Hb. subst r. exact Hr.
Qed.

Lemma pick_single_elem cs t u : u ∈ pick_single cs t -> u ∈ cs /\ contains_total (u_assets u) t = true.
Proof.
  unfold pick_single. destruct (find _ cs) as [v|] eqn:E; intros H.
  - apply elem_of_list_singleton in H. subst v. apply find_some_elem in E. exact E.
  - apply elem_of_nil in H. contradiction.
Qed.

Lemma pick_single_length cs t : (length (pick_single cs t) <= 1)%nat.
Proof. unfold pick_single. destruct (find _ cs); cbn; lia. Qed.

Lemma pick_single_complete cs t :
  (exists u, u ∈ cs /\ contains_total (u_assets u) t = true) -> pick_single cs t <> [].
Proof.
  intros [u [Hin Hc]]. unfold pick_single.
  destruct (find _ cs) as [v|] eqn:E; [discriminate|].
  exfalso. apply elem_of_list_In in Hin.
  pose proof (find_none _ _ E u Hin) as Hn. cbn in Hn. congruence.
Qed.

Lemma greedy_elem cs m p u :
  u ∈ (greedy cs m p).1 -> u ∈ m \/ u ∈ cs.
Proof.
  revert m p. induction cs as [|c r IH]; intros m p H; cbn in H.
  - left. exact H.
  - destruct (contains_some (u_assets c) p).
    + destruct (is_empty_or_negative (a_sub p (u_assets c))).
      * cbn in H. apply elem_of_app in H as [H|H]; [left; exact H|].
        apply elem_of_list_singleton in H. subst. right. left.
      * apply IH in H as [H|H].
        -- apply elem_of_app in H as [H|H]; [left; exact H|].
           apply elem_of_list_singleton in H. subst. right. left.
        -- right. right. exact H.
    + destruct (is_empty_or_negative p).
      * left. exact H.
      * apply IH in H as [H|H]; [left; exact H | right; right; exact H].
Qed.

Lemma remove_utxo_elem u l v : v ∈ remove_utxo u l -> v ∈ l.
Proof. unfold remove_utxo. intros H. apply elem_of_list_filter in H as [_ H]. exact H. Qed.

Lemma prune_elem fuel m t scans u : u ∈ prune fuel m t scans -> u ∈ m.
Proof.
  revert m scans. induction fuel as [|f IH]; intros m scans H; cbn in H; [exact H|].
  destruct (find_first_excess m t (hd [] scans)) as [v|]; [|exact H].
  apply IH in H. eapply remove_utxo_elem. exact H.
Qed.

Lemma pick_many_elem cs t scans u : u ∈ pick_many cs t scans -> u ∈ cs.
Proof.
  unfold pick_many. destruct (greedy cs [] t) as [m p] eqn:E. intros H.
  destruct (negb (is_empty_or_negative p)).
  - apply elem_of_nil in H. contradiction.
  - apply prune_elem in H.
    assert (Hm: u ∈ (greedy cs [] t).1) by (rewrite E; exact H).
    apply greedy_elem in Hm as [Hm|Hm]; [apply elem_of_nil in Hm; contradiction | exact Hm].
Qed.

(** * pick_many covers the target *)

(** greedy keeps pending = target − Σ matched, class by class *)
Lemma greedy_invariant cs m p t :
  (forall k, get0 p k = get0 t k - sumk m k) ->
  forall k, get0 (greedy cs m p).2 k = get0 t k - sumk (greedy cs m p).1 k.
Proof.
  revert m p. induction cs as [|c r IH]; intros m p Hinv k; cbn.
  - apply Hinv.
  - destruct (contains_some (u_assets c) p).
    + assert (Hinv': forall k, get0 (a_sub p (u_assets c)) k = get0 t k - sumk (m ++ [c]) k).
      { intros k'. rewrite get0_sub, sumk_app, Hinv. cbn. lia. }
      destruct (is_empty_or_negative (a_sub p (u_assets c))); cbn.
      * apply Hinv'.
      * apply IH. exact Hinv'.
    + destruct (is_empty_or_negative p); cbn; [apply Hinv | apply IH; exact Hinv].
Qed.

Lemma greedy_nodup cs m p :
  NoDup (map u_ref (m ++ cs)) -> NoDup (map u_ref (greedy cs m p).1).
Proof.
  revert m p. induction cs as [|c r IH]; intros m p Hnd; cbn.
  - rewrite app_nil_r in Hnd. exact Hnd.
  - assert (Hmc: NoDup (map u_ref ((m ++ [c]) ++ r))) by (rewrite <- app_assoc; exact Hnd).
    assert (Hm: NoDup (map u_ref (m ++ r))).
    { rewrite map_app in Hnd |- *. cbn in Hnd. apply NoDup_app in Hnd as [H1 [H2 H3]].
      apply NoDup_cons in H3 as [_ H3]. apply NoDup_app. split; [exact H1|]. split; [|exact H3].
      intros x Hx Hx'. apply (H2 x Hx). right. exact Hx'. }
    destruct (contains_some (u_assets c) p).
    + destruct (is_empty_or_negative (a_sub p (u_assets c))); cbn.
      * rewrite map_app in Hmc. apply NoDup_app in Hmc as [H1 _]. exact H1.
      * apply IH. exact Hmc.
    + destruct (is_empty_or_negative p); cbn.
      * rewrite map_app in Hm. apply NoDup_app in Hm as [H1 _]. exact H1.
      * apply IH. exact Hm.
Qed.

Lemma remove_utxo_nodup u l : NoDup (map u_ref l) -> NoDup (map u_ref (remove_utxo u l)).
Proof.
  unfold remove_utxo. induction l as [|v l IH]; intros H; [constructor|].
  cbn in H. apply NoDup_cons in H as [Hv Hnd]. rewrite filter_cons.
  destruct (decide (u_ref v <> u_ref u)); [|apply IH; exact Hnd].
  cbn. apply NoDup_cons. split; [|apply IH; exact Hnd].
  intros Hin. apply Hv. apply elem_of_list_fmap in Hin as [w [Hw Hin]].
  apply elem_of_list_filter in Hin as [_ Hin].
  apply elem_of_list_fmap. exists w. split; assumption.
Qed.

Lemma find_first_excess_spec m t scan u :
  find_first_excess m t scan = Some u ->
  u ∈ m /\ contains_total (a_sub (total m) t) (u_assets u) = true /\ (length m <> 1)%nat.
Proof.
  unfold find_first_excess. destruct (Nat.eqb_spec (length m) 1) as [|Hne]; [discriminate|].
  destruct (is_empty_or_negative _); [discriminate|].
  intros H. apply find_some_elem in H as [Hin Hc].
  split; [eapply order_by_elem; exact Hin|]. split; [exact Hc | exact Hne].
Qed.

(** one pruning step keeps Σ matched ≥ target *)
Lemma prune_step_covers m t u :
  NoDup (map u_ref m) ->
  (forall v, v ∈ m -> nonneg (u_assets v)) ->
  (forall k, get0 t k <= sumk m k) ->
  u ∈ m -> contains_total (a_sub (total m) t) (u_assets u) = true ->
  forall k, get0 t k <= sumk (remove_utxo u m) k.
Proof.
  intros Hnd Hnn Hcov Hin Hc k.
  pose proof (sumk_remove u m k Hnd Hin) as Hs.
  destruct (decide (get0 (u_assets u) k = 0)) as [Hz|Hnz].
  - specialize (Hcov k). lia.
  - pose proof (proj1 (contains_total_get0 _ _) Hc k Hnz) as [_ Hle].
    rewrite get0_sub, get0_total in Hle. lia.
Qed.

Lemma prune_covers fuel m t scans :
  NoDup (map u_ref m) ->
  (forall v, v ∈ m -> nonneg (u_assets v)) ->
  (forall k, get0 t k <= sumk m k) ->
  forall k, get0 t k <= sumk (prune fuel m t scans) k.
Proof.
  revert m scans. induction fuel as [|f IH]; intros m scans Hnd Hnn Hcov k; cbn; [apply Hcov|].
  destruct (find_first_excess m t (hd [] scans)) as [u|] eqn:E; [|apply Hcov].
  apply find_first_excess_spec in E as [Hin [Hc _]].
  apply IH.
  - apply remove_utxo_nodup. exact Hnd.
  - intros v Hv. apply Hnn. eapply remove_utxo_elem. exact Hv.
  - apply prune_step_covers; assumption.
Qed.

(** every non-empty answer of pick_many covers the target in every asset class *)
Theorem pick_many_sound cs t scans :
  NoDup (map u_ref cs) ->
  (forall u, u ∈ cs -> nonneg (u_assets u)) ->
  pick_many cs t scans <> [] ->
  forall k, get0 t k <= get0 (total (pick_many cs t scans)) k.
Proof.
  intros Hnd Hnn Hne k. rewrite get0_total. revert Hne. unfold pick_many.
  destruct (greedy cs [] t) as [m p] eqn:E.
  destruct (is_empty_or_negative p) eqn:Ep; cbn [negb]; [|congruence]. intros _.
  assert (Hinv: forall k, get0 p k = get0 t k - sumk m k).
  { intros k'. pose proof (greedy_invariant cs [] t t) as H. rewrite E in H. cbn in H.
    apply H. intros k''. cbn. lia. }
  assert (Hm: forall v, v ∈ m -> v ∈ cs).
  { intros v Hv. assert (Hv': v ∈ (greedy cs [] t).1) by (rewrite E; exact Hv).
    apply greedy_elem in Hv' as [Hv'|Hv']; [apply elem_of_nil in Hv'; contradiction | exact Hv']. }
  apply prune_covers.
  - pose proof (greedy_nodup cs [] t) as H. rewrite E in H. apply H. exact Hnd.
  - intros v Hv. apply Hnn, Hm, Hv.
  - intros k'. apply is_empty_or_negative_spec with (k := k') in Ep. rewrite Hinv in Ep. lia.
Qed.

(** * pick_many is complete: if all candidates together cover the target, it answers *)

Lemma greedy_exhausts cs m p :
  (forall u, u ∈ cs -> nonneg (u_assets u)) ->
  (forall k, get0 p k <= sumk cs k) ->
  is_empty_or_negative (greedy cs m p).2 = true.
Proof.
  revert m p. induction cs as [|c r IH]; intros m p Hnn Hle; cbn.
  - apply is_empty_or_negative_spec. intros k. specialize (Hle k). rewrite sumk_nil in Hle. exact Hle.
  - assert (Hnr: forall u, u ∈ r -> nonneg (u_assets u)) by (intros u Hu; apply Hnn; right; exact Hu).
    assert (Hc: nonneg (u_assets c)) by (apply Hnn; left).
    destruct (contains_some (u_assets c) p) eqn:Ecs.
    + destruct (is_empty_or_negative (a_sub p (u_assets c))) eqn:Een; cbn; [exact Een|].
      apply IH; [exact Hnr|]. intros k. rewrite get0_sub. specialize (Hle k). rewrite sumk_cons in Hle. lia.
    + destruct (is_empty_or_negative p) eqn:Een; cbn; [exact Een|].
      apply IH; [exact Hnr|]. intros k. specialize (Hle k). rewrite sumk_cons in Hle.
      destruct (decide (get0 p k = 0)) as [Hz|Hnz].
      * rewrite Hz. apply sumk_nonneg. exact Hnr.
      * assert (Hck: get0 (u_assets c) k <= 0).
        { destruct (Z.le_gt_cases (get0 (u_assets c) k) 0) as [|Hpos]; [assumption|].
          exfalso. assert (contains_some (u_assets c) p = true); [|congruence].
          apply contains_some_get0. right. exists k. split; [exact Hnz | lia]. }
        specialize (Hc k). lia.
Qed.

Lemma greedy_matched_mono cs m p : m <> [] -> (greedy cs m p).1 <> [].
Proof.
  revert m p. induction cs as [|c r IH]; intros m p Hm; cbn; [exact Hm|].
  destruct (contains_some (u_assets c) p).
  - destruct (is_empty_or_negative _); cbn.
    + destruct m; cbn; congruence.
    + apply IH. destruct m; cbn; congruence.
  - destruct (is_empty_or_negative p); cbn; [exact Hm | apply IH; exact Hm].
Qed.

Lemma prune_nonempty fuel m t scans :
  NoDup (map u_ref m) -> m <> [] -> prune fuel m t scans <> [].
Proof.
  revert m scans. induction fuel as [|f IH]; intros m scans Hnd Hm; cbn; [exact Hm|].
  destruct (find_first_excess m t (hd [] scans)) as [u|] eqn:E; [|exact Hm].
  apply find_first_excess_spec in E as [Hin [_ Hlen]].
  apply IH; [apply remove_utxo_nodup; exact Hnd|].
  destruct m as [|a [|b m']]; [congruence | cbn in Hlen; congruence |].
  cbn in Hnd. apply NoDup_cons in Hnd as [Hab _].
  assert (Hne: u_ref a <> u_ref b) by (intros E; apply Hab; rewrite E; left).
  unfold remove_utxo. intros Hnil.
  destruct (decide (u_ref a = u_ref u)) as [Ea|Na].
  - assert (Hb: b ∈ filter (fun x => u_ref x <> u_ref u) (a :: b :: m')).
    { apply elem_of_list_filter. split; [congruence | right; left]. }
    rewrite Hnil in Hb. apply elem_of_nil in Hb. contradiction.
  - assert (Ha: a ∈ filter (fun x => u_ref x <> u_ref u) (a :: b :: m')).
    { apply elem_of_list_filter. split; [exact Na | left]. }
    rewrite Hnil in Ha. apply elem_of_nil in Ha. contradiction.
Qed.

Lemma greedy_none_matched cs p :
  (greedy cs [] p).1 = [] -> (greedy cs [] p).2 = p.
Proof.
  revert p. induction cs as [|c r IH]; intros p H; cbn in *; [reflexivity|].
  destruct (contains_some (u_assets c) p).
  - exfalso. destruct (is_empty_or_negative (a_sub p (u_assets c))); cbn in H; [discriminate|].
    revert H. apply greedy_matched_mono. discriminate.
  - destruct (is_empty_or_negative p); cbn in *; [reflexivity | apply IH; exact H].
Qed.

(** if the candidates (at least one) together cover a non-negative target, pick_many answers *)
Theorem pick_many_complete cs t scans :
  NoDup (map u_ref cs) ->
  (forall u, u ∈ cs -> nonneg (u_assets u)) -> nonneg t ->
  cs <> [] ->
  (forall k, get0 t k <= get0 (total cs) k) ->
  pick_many cs t scans <> [].
Proof.
  intros Hnd Hnn Ht Hcs Hcov. unfold pick_many.
  destruct (greedy cs [] t) as [m p] eqn:E.
  assert (Hp: is_empty_or_negative p = true).
  { pose proof (greedy_exhausts cs [] t Hnn) as H. rewrite E in H. apply H.
    intros k. rewrite <- get0_total. apply Hcov. }
  rewrite Hp. cbn [negb].
  assert (Hndm: NoDup (map u_ref m)).
  { pose proof (greedy_nodup cs [] t) as H. rewrite E in H. apply H. exact Hnd. }
  apply prune_nonempty; [exact Hndm|].
  intros ->.
  (* nothing matched: pending is still the target, so the target is empty; but then the
     first candidate would have been taken *)
  pose proof (greedy_none_matched cs t) as Hsame. rewrite E in Hsame. cbn in Hsame.
  specialize (Hsame eq_refl). subst p.
  assert (Hte: t ≈ a_empty).
  { intros k. rewrite get0_empty. apply is_empty_or_negative_spec with (k := k) in Hp.
    specialize (Ht k). lia. }
  destruct cs as [|c r]; [congruence|]. cbn in E.
  assert (Ecs: contains_some (u_assets c) t = true).
  { apply contains_some_get0. left. exact Hte. }
  rewrite Ecs in E.
  destruct (is_empty_or_negative (a_sub t (u_assets c))); [discriminate|].
  pose proof (greedy_matched_mono r [c] (a_sub t (u_assets c))) as H.
  rewrite E in H. apply H; [discriminate | reflexivity].
Qed.

(** * The selector as a whole *)

Lemma fetched_cands_elem st sp q ign fill u :
  u ∈ fetched_cands st sp q ign fill ->
  u ∈ st /\ meets q u = true /\ u_ref u ∉ ign /\
  (q_coll q = true -> is_only_naked (u_assets u) = true).
Proof.
  unfold fetched_cands, fetch. intros H.
  apply elem_of_list_filter in H as [Hm H].
  destruct (q_coll q) eqn:Ec.
  - apply elem_of_list_filter in H as [Hn H].
    apply elem_of_list_filter in H as [Hr H].
    apply elem_of_list_filter in Hr as [Hi _].
    repeat split; try assumption. intros _. exact Hn.
  - apply elem_of_list_filter in H as [Hr H].
    apply elem_of_list_filter in Hr as [Hi _].
    repeat split; try assumption. discriminate.
Qed.

Lemma select_elem st sp q ign o u :
  u ∈ select st sp q ign o -> u ∈ fetched_cands st sp q ign (o_fill o).
Proof.
  unfold select. destruct (q_many q); intros H.
  - apply pick_many_elem in H. eapply order_by_elem. exact H.
  - apply pick_single_elem in H as [H _]. eapply order_by_elem. exact H.
Qed.

(** C03, constraint soundness: whatever the orders, every selected UTxO exists, sits at the
    `from` address, is among the `ref`s, was not taken before, and is pure lovelace for collateral *)
Theorem select_sound st sp q ign o u :
  u ∈ select st sp q ign o ->
  u ∈ st /\ meets q u = true /\ u_ref u ∉ ign /\
  (q_coll q = true -> is_only_naked (u_assets u) = true).
Proof. intros H. apply select_elem in H. eapply fetched_cands_elem. exact H. Qed.

Lemma meets_spec q u :
  meets q u = true <->
  (match q_addr q with Some a => u_addr u = a | None => True end) /\
  (match q_refs q with [] => True | rs => u_ref u ∈ rs end).
Proof.
  unfold meets, mem. rewrite andb_true_iff.
  destruct (q_addr q); destruct (q_refs q); rewrite ?bool_decide_eq_true; tauto.
Qed.

(** C03, single-UTxO inputs: exactly one UTxO that alone covers min_amount *)
Theorem select_single st sp q ign o :
  q_many q = false ->
  (length (select st sp q ign o) <= 1)%nat /\
  forall u, u ∈ select st sp q ign o -> contains_total (u_assets u) (target_of q) = true.
Proof.
  intros Hm. unfold select. rewrite Hm. split; [apply pick_single_length|].
  intros u H. apply pick_single_elem in H as [_ H]. exact H.
Qed.

Lemma order_by_nodup ord l : NoDup ord -> NoDup (map u_ref (order_by ord l)).
Proof.
  unfold order_by. induction ord as [|r ord IH]; intros Hnd; [constructor|].
  apply NoDup_cons in Hnd as [Hr Hnd]. cbn.
  destruct (find (fun u => bool_decide (u_ref u = r)) l) as [u|] eqn:E; [|apply IH; exact Hnd].
  cbn. apply find_some_elem in E as [_ Hb]. apply bool_decide_eq_true in Hb. subst r.
  apply NoDup_cons. split; [|apply IH; exact Hnd].
  intros Hin. apply Hr. apply elem_of_list_fmap in Hin as [v [-> Hv]].
  eapply order_by_ref. exact Hv.
Qed.

(** C03, multi-UTxO inputs: the selected set covers min_amount in every asset class *)
Theorem select_many_covers st sp q ign o :
  q_many q = true -> store_nonneg st -> NoDup (o_sorted o) ->
  select st sp q ign o <> [] ->
  forall k, get0 (target_of q) k <= get0 (total (select st sp q ign o)) k.
Proof.
  intros Hm Hnn Hnd. unfold select. rewrite Hm. intros Hne.
  apply pick_many_sound; [apply order_by_nodup; exact Hnd | | exact Hne].
  intros u Hu. apply Hnn. apply order_by_elem in Hu.
  apply fetched_cands_elem in Hu as [Hu _]. exact Hu.
Qed.

(** * C04: no UTxO is bound to two regular input blocks *)

Fixpoint regular_sels (bs : list (string * query * oracles)) (out : list (string * list utxo))
  : list (list utxo_ref) :=
  match bs, out with
  | (_, q, _) :: bs', (_, s) :: out' =>
    if q_coll q then regular_sels bs' out' else map u_ref s :: regular_sels bs' out'
  | _, _ => []
  end.

Fixpoint chain_disjoint (l : list (list utxo_ref)) : Prop :=
  match l with
  | [] => True
  | x :: r => (forall a y, a ∈ x -> y ∈ r -> a ∉ y) /\ chain_disjoint r
  end.

Lemma resolve_blocks_disjoint st bs : forall sel out,
  resolve_blocks st sel bs = Ok out ->
  length out = length bs /\
  (forall x a, x ∈ regular_sels bs out -> a ∈ x -> a ∉ ign_input sel) /\
  chain_disjoint (regular_sels bs out).
Proof.
  induction bs as [|[[name q] o] bs IH]; intros sel out H; cbn in H.
  - injection H as <-. repeat split. intros x a Hx. apply elem_of_nil in Hx. contradiction.
  - destruct (narrow st q) as [sp| | |]; cbn in H; try discriminate.
    set (ign := if q_coll q then ign_coll sel else ign_input sel) in *.
    destruct (select st sp q ign o) as [|u0 s0] eqn:Es; [discriminate|].
    set (s := u0 :: s0) in *.
    set (sel' := if q_coll q then _ else _) in H.
    destruct (resolve_blocks st sel' bs) as [out'| | |] eqn:Er; cbn in H; try discriminate.
    injection H as <-.
    specialize (IH sel' out' Er) as [Hlen [Hign Hdis]].
    split; [cbn; f_equal; exact Hlen|].
    cbn [regular_sels]. destruct (q_coll q) eqn:Ec.
    + (* collateral: the regular ignore set is unchanged *)
      split; [|exact Hdis]. intros x a Hx Ha. specialize (Hign x a Hx Ha). exact Hign.
    + assert (Hs: forall a, a ∈ map u_ref s -> a ∉ ign_input sel).
      { intros a Ha. apply elem_of_list_fmap in Ha as [u [-> Hu]].
        assert (Hu': u ∈ select st sp q ign o) by (rewrite Es; exact Hu).
        apply select_sound in Hu' as [_ [_ [Hi _]]]. exact Hi. }
      split; [|split].
      * intros x a Hx Ha. apply elem_of_cons in Hx as [->|Hx]; [apply Hs; exact Ha|].
        specialize (Hign x a Hx Ha). cbn in Hign. intros Hin. apply Hign.
        apply elem_of_app. left. exact Hin.
      * intros a y Ha Hy Hay. specialize (Hign y a Hy Hay). cbn in Hign.
        apply Hign. apply elem_of_app. right. exact Ha.
      * exact Hdis.
Qed.

(** the selections bound to distinct non-collateral blocks are pairwise disjoint, for every
    store, every list of (overlapping) queries and every oracle *)
Theorem selections_disjoint st bs out :
  resolve_inputs st bs = Ok out -> chain_disjoint (regular_sels bs out).
Proof. intros H. apply resolve_blocks_disjoint in H as [_ [_ H]]. exact H. Qed.

(** a block that cannot be served with fresh UTxOs fails the whole resolution *)
Theorem no_reuse_fails st bs out :
  resolve_inputs st bs = Ok out ->
  length out = length bs /\ forall ns, ns ∈ out -> ns.2 <> [].
Proof.
  unfold resolve_inputs. generalize (mk_sel [] []). revert out.
  induction bs as [|[[name q] o] bs IH]; intros out sel H; cbn in H.
  - injection H as <-. split; [reflexivity|]. intros ns Hn. apply elem_of_nil in Hn. contradiction.
  - destruct (narrow st q) as [sp| | |]; cbn in H; try discriminate.
    destruct (select st sp q _ o) as [|u0 s0] eqn:Es; [discriminate|].
    match type of H with context [resolve_blocks st ?s bs] => destruct (resolve_blocks st s bs) as [out'| | |] eqn:Er end;
      cbn in H; try discriminate.
    injection H as <-. apply IH in Er as [Hlen Hne].
    split; [cbn; f_equal; exact Hlen|].
    intros ns Hn. apply elem_of_cons in Hn as [->|Hn]; [cbn; discriminate | apply Hne; exact Hn].
Qed.

(** non-vacuity: a concrete store and two overlapping blocks that resolve *)
Example resolve_example :
  let r1 := mk_ref [1%N] 0 in let r2 := mk_ref [2%N] 0 in
  let st := [mk_utxo r1 [9%N] {[ Naked := 5 ]}; mk_utxo r2 [9%N] {[ Naked := 7 ]}] in
  let q := mk_query (Some [9%N]) (Some {[ Naked := 4 ]}) [] false false in
  exists out, resolve_inputs st [("a"%string, q, mk_oracles [r1; r2] [r1; r2] []);
                                 ("b"%string, q, mk_oracles [r1; r2] [r2] [])] = Ok out
              /\ length out = 2%nat.
Proof. eexists. split; [vm_compute; reflexivity | reflexivity]. Qed.
