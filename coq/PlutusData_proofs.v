(** PlutusData_proofs.v — the codec law of property C09: the reader written from the Plutus
    Data specification inverts the encoder, for every value: any nesting, any constructor
    index below 2^64, any integer, any byte-string length. *)
From Tx3 Require Import Base Tir PlutusData.
From Coq Require Import ZifyN ZifyNat ZifyBool.
Ltac Zify.zify_post_hook ::= Z.div_mod_to_equations.
Local Open Scope N_scope.

(** * big-endian bytes *)

Lemma from_be_app l1 l2 acc : from_be (l1 ++ l2) acc = from_be l2 (from_be l1 acc).
Proof. revert acc. induction l1 as [|b l IH]; intros acc; cbn; [reflexivity | apply IH]. Qed.

Lemma be_bytes_length k n : length (be_bytes k n) = k.
Proof.
  revert n. induction k as [|k IH]; intros n; cbn; [reflexivity|].
  rewrite app_length, IH. cbn. lia.
Qed.

Lemma from_be_be_bytes k n acc :
  n < 256 ^ N.of_nat k -> from_be (be_bytes k n) acc = acc * 256 ^ N.of_nat k + n.
Proof.
  revert n acc. induction k as [|k IH]; intros n acc Hn.
  - cbn in *. lia.
  - cbn [be_bytes]. rewrite from_be_app. cbn [from_be].
    assert (Hpow: 256 ^ N.of_nat (S k) = 256 * 256 ^ N.of_nat k).
    { rewrite Nat2N.inj_succ, N.pow_succ_r by lia. reflexivity. }
    rewrite Hpow in Hn |- *.
    rewrite IH by (apply N.div_lt_upper_bound; lia).
    pose proof (N.div_mod n 256 ltac:(lia)). nia.
Qed.

(** * heads *)

Lemma take_app_exact {A} (l1 l2 : list A) k : length l1 = k -> take k (l1 ++ l2) = l1.
Proof. intros <-. rewrite take_app_le by lia. apply firstn_all. Qed.
Lemma drop_app_exact {A} (l1 l2 : list A) k : length l1 = k -> drop k (l1 ++ l2) = l2.
Proof. intros <-. apply drop_app. Qed.

(** the additional-information nibble the shortest head uses *)
Definition head_ai (n : N) : N :=
  if n <? 24 then n else if n <? 256 then 24 else if n <? 65536 then 25 else if n <? 4294967296 then 26 else 27.

Lemma dec_head_head m n rest :
  m < 8 -> n < 2 ^ 64 -> dec_head (head m n ++ rest) = Some (m, head_ai n, n, rest).
Proof.
  intros Hm Hn. unfold head, head_ai.
  destruct (N.ltb_spec n 24) as [H24|H24].
  - cbn [app dec_head].
    assert (E1: (m * 32 + n) / 32 = m) by lia. assert (E2: (m * 32 + n) mod 32 = n) by lia.
    rewrite E1, E2. destruct (N.ltb_spec n 24); [reflexivity | lia].
  - destruct (N.ltb_spec n 256) as [H8|H8].
    + cbn [app dec_head be_bytes].
      assert (E1: (m * 32 + 24) / 32 = m) by lia. assert (E2: (m * 32 + 24) mod 32 = 24) by lia.
      rewrite E1, E2. cbn. rewrite N.mod_small by lia. reflexivity.
    + destruct (N.ltb_spec n 65536) as [H16|H16].
      * assert (E1: (m * 32 + 25) / 32 = m) by lia. assert (E2: (m * 32 + 25) mod 32 = 25) by lia.
        cbn [app dec_head]. rewrite E1, E2. cbn [N.ltb N.eqb N.compare Pos.compare Pos.compare_cont Pos.eqb].
        change ((25 <? 24)) with false. change (25 =? 24) with false. change (25 =? 25) with true. cbn match.
        rewrite app_length, be_bytes_length.
        change ((2 <=? 2 + length rest)%nat) with true.
        rewrite take_app_exact, drop_app_exact by apply be_bytes_length.
        rewrite from_be_be_bytes by (cbn; lia). rewrite N.mul_0_l, N.add_0_l. reflexivity.
      * destruct (N.ltb_spec n 4294967296) as [H32|H32].
        -- assert (E1: (m * 32 + 26) / 32 = m) by lia. assert (E2: (m * 32 + 26) mod 32 = 26) by lia.
           cbn [app dec_head]. rewrite E1, E2.
           change ((26 <? 24)) with false. change (26 =? 24) with false. change (26 =? 25) with false.
           change (26 =? 26) with true. cbn match.
           rewrite app_length, be_bytes_length.
           change ((4 <=? 4 + length rest)%nat) with true.
           rewrite take_app_exact, drop_app_exact by apply be_bytes_length.
           rewrite from_be_be_bytes by (cbn; lia). rewrite N.mul_0_l, N.add_0_l. reflexivity.
        -- assert (E1: (m * 32 + 27) / 32 = m) by lia. assert (E2: (m * 32 + 27) mod 32 = 27) by lia.
           cbn [app dec_head]. rewrite E1, E2.
           change ((27 <? 24)) with false. change (27 =? 24) with false. change (27 =? 25) with false.
           change (27 =? 26) with false. change (27 =? 27) with true. cbn match.
           rewrite app_length, be_bytes_length.
           change ((8 <=? 8 + length rest)%nat) with true.
           rewrite take_app_exact, drop_app_exact by apply be_bytes_length.
           rewrite from_be_be_bytes by (cbn; lia). rewrite N.mul_0_l, N.add_0_l. reflexivity.
Qed.

Lemma head_ai_not_31 n : (head_ai n =? 31) = false.
Proof.
  unfold head_ai. repeat match goal with |- context [?a <? ?b] => destruct (N.ltb_spec a b) end;
    try reflexivity. apply N.eqb_neq. lia.
Qed.

Lemma head_nonempty m n : head m n <> [].
Proof. unfold head. repeat match goal with |- context [if ?c then _ else _] => destruct c end; discriminate. Qed.

(** * byte strings of any length *)

Lemma dec_def_bytes_spec b rest :
  N.of_nat (length b) < 2 ^ 64 ->
  dec_def_bytes ((head 2 (N.of_nat (length b)) ++ b) ++ rest) = Some (b, rest).
Proof.
  intros Hlen. unfold dec_def_bytes. rewrite <- app_assoc.
  rewrite dec_head_head by (try exact Hlen; lia).
  rewrite head_ai_not_31.
  rewrite app_length.
  destruct (N.leb_spec (N.of_nat (length b)) (N.of_nat (length b + length rest))) as [_|H]; [|lia].
  rewrite Nat2N.id. rewrite take_app_exact, drop_app_exact by reflexivity. reflexivity.
Qed.

Lemma chunks64_cons fuel b :
  b <> [] -> chunks64 (S fuel) b = take 64 b :: chunks64 fuel (drop 64 b).
Proof. destruct b; [congruence | reflexivity]. Qed.

(** decoding the chunk sequence of [b] appends [b] to the accumulator *)
Lemma dec_chunks_spec : forall fuel b acc rest dfuel,
  (length b < fuel)%nat -> (length b < dfuel)%nat ->
  dec_chunks dfuel
    (flat_map (fun c => head 2 (N.of_nat (length c)) ++ c) (chunks64 fuel b) ++ 255 :: rest) acc
  = Some (acc ++ b, rest).
Proof.
  induction fuel as [|fuel IH]; intros b acc rest dfuel Hf Hd; [lia|].
  destruct b as [|x b'] eqn:Eb.
  - cbn. destruct dfuel; [cbn in Hd; lia|]. cbn. rewrite app_nil_r. reflexivity.
  - assert (Hbpos: (0 < length b)%nat) by (rewrite Eb; cbn; lia).
    rewrite <- Eb in *. assert (Hne: b <> []) by (rewrite Eb; discriminate).
    rewrite chunks64_cons by exact Hne. cbn [flat_map].
    destruct dfuel as [|dfuel]; [lia|]. cbn [dec_chunks].
    set (c := take 64 b).
    assert (Hc: (length c <= 64)%nat) by (unfold c; rewrite firstn_length; lia).
    assert (Hcpos: (0 < length c)%nat).
    { unfold c. rewrite firstn_length. destruct b; [congruence|]. cbn. lia. }
    (* the first byte of a chunk head is never the break byte *)
    assert (Hhd: exists h t, head 2 (N.of_nat (length c)) = h :: t /\ h <> 255).
    { unfold head. destruct (N.ltb_spec (N.of_nat (length c)) 24).
      - eexists _, _. split; [reflexivity|]. lia.
      - destruct (N.ltb_spec (N.of_nat (length c)) 256); [|lia].
        eexists _, _. split; [reflexivity|]. lia. }
    destruct Hhd as [h [t [Eh Hh]]].
    rewrite <- !app_assoc. rewrite Eh. cbn [app].
    destruct (N.eq_dec h 255) as [|_]; [congruence|].
    replace (h :: t ++ c ++ flat_map (fun c0 => head 2 (N.of_nat (length c0)) ++ c0) (chunks64 fuel (drop 64 b)) ++ 255 :: rest)
      with ((head 2 (N.of_nat (length c)) ++ c) ++ (flat_map (fun c0 => head 2 (N.of_nat (length c0)) ++ c0) (chunks64 fuel (drop 64 b)) ++ 255 :: rest))
      by (rewrite Eh, <- app_assoc; reflexivity).
    assert (Hmatch: forall (X : option (list N * list N)),
             match h with 255 => X | _ => match dec_def_bytes ((head 2 (N.of_nat (length c)) ++ c) ++
                (flat_map (fun c0 => head 2 (N.of_nat (length c0)) ++ c0) (chunks64 fuel (drop 64 b)) ++ 255 :: rest)) with
                | Some (c1, r) => dec_chunks dfuel r (acc ++ c1) | None => None end end
             = match dec_def_bytes ((head 2 (N.of_nat (length c)) ++ c) ++
                (flat_map (fun c0 => head 2 (N.of_nat (length c0)) ++ c0) (chunks64 fuel (drop 64 b)) ++ 255 :: rest)) with
                | Some (c1, r) => dec_chunks dfuel r (acc ++ c1) | None => None end).
    { intros X. destruct h as [|p]; [reflexivity|].
      repeat (destruct p as [p|p|]; try reflexivity). congruence. }
    rewrite Hmatch. rewrite dec_def_bytes_spec by lia.
    rewrite IH.
    + rewrite <- app_assoc. unfold c. rewrite take_drop. reflexivity.
    + rewrite skipn_length. lia.
    + rewrite skipn_length. lia.
Qed.

Theorem dec_bytes_enc_bytes b rest :
  N.of_nat (length b) < 2 ^ 64 -> dec_bytes (enc_bytes b ++ rest) = Some (b, rest).
Proof.
  intros Hlen. unfold enc_bytes.
  destruct (Nat.leb_spec (length b) 64) as [Hle|Hgt].
  - unfold dec_bytes.
    assert (Hhd: exists h t, head 2 (N.of_nat (length b)) = h :: t /\ h <> 95).
    { unfold head. destruct (N.ltb_spec (N.of_nat (length b)) 24).
      - eexists _, _. split; [reflexivity|]. lia.
      - destruct (N.ltb_spec (N.of_nat (length b)) 256); [|lia].
        eexists _, _. split; [reflexivity|]. lia. }
    destruct Hhd as [h [t [Eh Hh]]].
    pose proof (dec_def_bytes_spec b rest Hlen) as Hd. rewrite Eh in *. cbn [app] in *.
    destruct h as [|p]; [exact Hd|].
    repeat (destruct p as [p|p|]; try exact Hd). congruence.
  - cbn [app dec_bytes]. rewrite <- app_assoc. cbn [app].
    rewrite dec_chunks_spec; [reflexivity | lia |].
    rewrite app_length. cbn [length].
    (* the encoded chunks are at least as long as the bytes they carry *)
    assert (Hlong: forall fuel (x : list N), (length x < fuel)%nat ->
              (length x <= length (flat_map (fun c => head 2 (N.of_nat (length c)) ++ c) (chunks64 fuel x)))%nat).
    { induction fuel as [|fuel IHf]; intros x Hx; [lia|].
      destruct x as [|y x'] eqn:Ex; [cbn; lia|].
      assert (Hxpos: (0 < length x)%nat) by (rewrite Ex; cbn; lia). rewrite <- Ex in *.
      rewrite chunks64_cons by (rewrite Ex; discriminate). cbn [flat_map].
      assert (Hsplit: length x = (length (take 64 x) + length (drop 64 x))%nat).
      { rewrite <- app_length, take_drop. reflexivity. }
      assert (Hd: (length (drop 64 x) < fuel)%nat) by (rewrite skipn_length; lia).
      specialize (IHf _ Hd). rewrite !app_length. lia. }
    specialize (Hlong (S (length b)) b ltac:(lia)). lia.
Qed.

(** * integers of any size *)

Lemma from_be_acc l a : from_be l a = a * 256 ^ N.of_nat (length l) + from_be l 0.
Proof.
  revert a. induction l as [|b l IH]; intros a; cbn [from_be length].
  - cbn. lia.
  - rewrite IH. rewrite (IH (0 * 256 + b)).
    rewrite Nat2N.inj_succ, N.pow_succ_r by lia. lia.
Qed.

Lemma to_be_min_fuel_spec fuel n acc :
  n < 256 ^ N.of_nat fuel ->
  from_be (to_be_min_fuel fuel n acc) 0 = n * 256 ^ N.of_nat (length acc) + from_be acc 0.
Proof.
  revert n acc. induction fuel as [|fuel IH]; intros n acc Hn.
  - cbn in Hn. assert (n = 0) by lia. subst. cbn. lia.
  - cbn [to_be_min_fuel]. destruct (N.eqb_spec n 0) as [->|Hnz]; [lia|].
    assert (Hpow: 256 ^ N.of_nat (S fuel) = 256 * 256 ^ N.of_nat fuel).
    { rewrite Nat2N.inj_succ, N.pow_succ_r by lia. reflexivity. }
    rewrite Hpow in Hn.
    rewrite IH by (apply N.div_lt_upper_bound; lia).
    cbn [length from_be]. rewrite (from_be_acc acc (0 * 256 + n mod 256)).
    rewrite Nat2N.inj_succ, N.pow_succ_r by lia.
    pose proof (N.div_mod n 256 ltac:(lia)). nia.
Qed.

Lemma to_be_min_fuel_length fuel n acc :
  (length (to_be_min_fuel fuel n acc) <= fuel + length acc)%nat.
Proof.
  revert n acc. induction fuel as [|fuel IH]; intros n acc; cbn [to_be_min_fuel]; [lia|].
  destruct (n =? 0); [lia|]. specialize (IH (n / 256) (n mod 256 :: acc)). cbn [length] in IH. lia.
Qed.

Lemma from_be_to_be_min n : from_be (to_be_min n) 0 = n.
Proof.
  unfold to_be_min. rewrite to_be_min_fuel_spec.
  - cbn. lia.
  - destruct (N.eq_dec n 0) as [->|Hnz]; [cbn; lia|].
    pose proof (N.log2_spec n ltac:(lia)) as [_ Hlt].
    eapply N.lt_le_trans; [exact Hlt|].
    rewrite Nat2N.inj_succ, N2Nat.id.
    change 256 with (2 ^ 8). rewrite <- N.pow_mul_r.
    apply N.pow_le_mono_r; lia.
Qed.

Definition int_ok (z : Z) : bool := (Z.abs z <? 2 ^ 1024)%Z.

Lemma to_be_min_short n : n < 2 ^ 1025 -> N.of_nat (length (to_be_min n)) < 2 ^ 64.
Proof.
  intros Hn. unfold to_be_min.
  pose proof (to_be_min_fuel_length (S (N.to_nat (N.log2 n))) n []) as Hl. cbn [length] in Hl.
  assert (Hlog: N.log2 n < 1025).
  { destruct (N.eq_dec n 0) as [->|Hnz]; [cbn; lia|]. apply N.log2_lt_pow2; lia. }
  assert (H64: 2000 < 2 ^ 64) by (vm_compute; reflexivity). lia.
Qed.

(** every integer (within +-2^1024, far beyond i128) is read back exactly *)
Theorem decode_int z rest f :
  int_ok z = true -> decode (S f) (enc_int z ++ rest) = Some (PInt z, rest).
Proof.
  unfold int_ok, enc_int, two64. intros Hok. apply Z.ltb_lt in Hok.
  assert (H64: (2 ^ 64 = 18446744073709551616)%Z) by reflexivity.
  destruct ((0 <=? z)%Z && (z <? 2 ^ 64)%Z) eqn:E1.
  - apply andb_true_iff in E1 as [Ha Hb]. apply Z.leb_le in Ha. apply Z.ltb_lt in Hb.
    cbn [decode]. rewrite dec_head_head by (try lia; change (2 ^ 64) with 18446744073709551616; lia).
    rewrite head_ai_not_31. rewrite Z2N.id by lia. reflexivity.
  - destruct ((z <? 0)%Z && (- 2 ^ 64 <=? z)%Z) eqn:E2.
    + apply andb_true_iff in E2 as [Ha Hb]. apply Z.ltb_lt in Ha. apply Z.leb_le in Hb.
      cbn [decode]. rewrite dec_head_head by (try lia; change (2 ^ 64) with 18446744073709551616; lia).
      rewrite head_ai_not_31. rewrite Z2N.id by lia. f_equal. f_equal. f_equal. lia.
    + destruct (Z.leb_spec 0 z) as [Hpos|Hneg].
      * cbn [decode]. rewrite <- app_assoc.
        rewrite dec_head_head by (vm_compute; reflexivity).
        change (head_ai 2 =? 31) with false. change (2 =? 2) with true. cbn match.
        rewrite dec_bytes_enc_bytes.
        -- rewrite from_be_to_be_min, Z2N.id by lia. reflexivity.
        -- apply to_be_min_short. change (2 ^ 1025) with (Z.to_N (2 ^ 1025)%Z). lia.
      * cbn [decode]. rewrite <- app_assoc.
        rewrite dec_head_head by (vm_compute; reflexivity).
        change (head_ai 3 =? 31) with false. change (3 =? 2) with false. change (3 =? 3) with true. cbn match.
        rewrite dec_bytes_enc_bytes.
        -- rewrite from_be_to_be_min, Z2N.id by lia. f_equal. f_equal. f_equal. lia.
        -- apply to_be_min_short. change (2 ^ 1025) with (Z.to_N (2 ^ 1025)%Z). lia.
Qed.

(** * every value *)

Section pdata_ind'.
  Variable P : pdata -> Prop.
  Hypothesis HC : forall i fs, Forall P fs -> P (PConstr i fs).
  Hypothesis HM : forall kvs, Forall (fun kv => P (fst kv) /\ P (snd kv)) kvs -> P (PMap kvs).
  Hypothesis HL : forall xs, Forall P xs -> P (PList xs).
  Hypothesis HI : forall z, P (PInt z).
  Hypothesis HB : forall b, P (PBytes b).
  Fixpoint pdata_ind' (d : pdata) : P d :=
    match d with
    | PConstr i fs => HC i fs ((fix go l : Forall P l :=
                                  match l with [] => Forall_nil_2 _ | x :: r => Forall_cons_2 _ _ _ (pdata_ind' x) (go r) end) fs)
    | PMap kvs => HM kvs ((fix go l : Forall (fun kv => P (fst kv) /\ P (snd kv)) l :=
                             match l with
                             | [] => Forall_nil_2 _
                             | x :: r => Forall_cons_2 _ _ _ (conj (pdata_ind' (fst x)) (pdata_ind' (snd x))) (go r)
                             end) kvs)
    | PList xs => HL xs ((fix go l : Forall P l :=
                            match l with [] => Forall_nil_2 _ | x :: r => Forall_cons_2 _ _ _ (pdata_ind' x) (go r) end) xs)
    | PInt z => HI z
    | PBytes b => HB b
    end.
End pdata_ind'.

(** well-formed: byte values below 256 are not needed by the codec; sizes must fit CBOR heads *)
Fixpoint ok_pdata (d : pdata) : bool :=
  match d with
  | PConstr i fs => (i <? 2 ^ 64) && (N.of_nat (length fs) <? 2 ^ 64) && forallb ok_pdata fs
  | PMap kvs => (N.of_nat (length kvs) <? 2 ^ 64) && forallb (fun kv => ok_pdata (fst kv) && ok_pdata (snd kv)) kvs
  | PList xs => (N.of_nat (length xs) <? 2 ^ 64) && forallb ok_pdata xs
  | PInt z => int_ok z
  | PBytes b => N.of_nat (length b) <? 2 ^ 64
  end.

Lemma enc_bytes_nonempty b : enc_bytes b <> [].
Proof.
  unfold enc_bytes. destruct (length b <=? 64)%nat; [|discriminate].
  pose proof (head_nonempty 2 (N.of_nat (length b))). destruct (head 2 (N.of_nat (length b))); [congruence | discriminate].
Qed.

Lemma encode_nonempty d : encode d <> [].
Proof.
  destruct d as [i fs|kvs|xs|z|b]; cbn [encode].
  - destruct (constr_tag i) as [t g]. destruct g.
    + pose proof (head_nonempty 6 t). destruct (head 6 t); [congruence | discriminate].
    + pose proof (head_nonempty 6 t). destruct (head 6 t); [congruence | discriminate].
  - pose proof (head_nonempty 5 (N.of_nat (length kvs))). destruct (head 5 _); [congruence | discriminate].
  - pose proof (head_nonempty 4 (N.of_nat (length xs))). destruct (head 4 _); [congruence | discriminate].
  - unfold enc_int. repeat match goal with |- context [if ?c then _ else _] => destruct c end.
    + pose proof (head_nonempty 0 (Z.to_N z)). destruct (head 0 _); [congruence | discriminate].
    + pose proof (head_nonempty 1 (Z.to_N (-1 - z))). destruct (head 1 _); [congruence | discriminate].
    + pose proof (head_nonempty 6 2). destruct (head 6 2); [congruence | discriminate].
    + pose proof (head_nonempty 6 3). destruct (head 6 3); [congruence | discriminate].
  - apply enc_bytes_nonempty.
Qed.

Lemma flat_map_encode_length xs : (length xs <= length (flat_map encode xs))%nat.
Proof.
  induction xs as [|x xs IH]; cbn; [lia|]. rewrite app_length.
  pose proof (encode_nonempty x). destruct (encode x); [congruence|]. cbn. lia.
Qed.
Lemma flat_map_encode2_length (kvs : list (pdata * pdata)) :
  (length kvs <= length (flat_map (fun kv => encode (fst kv) ++ encode (snd kv)) kvs))%nat.
Proof.
  induction kvs as [|x xs IH]; cbn; [lia|]. rewrite !app_length.
  pose proof (encode_nonempty (fst x)). destruct (encode (fst x)); [congruence|]. cbn. lia.
Qed.

Lemma dec_n_spec dec xs rest :
  Forall (fun x => forall r, dec (encode x ++ r) = Some (x, r)) xs ->
  dec_n dec (length xs) (flat_map encode xs ++ rest) = Some (xs, rest).
Proof.
  induction xs as [|x xs IH]; intros H; cbn [length flat_map dec_n app]; [reflexivity|].
  apply Forall_cons in H as [Hx Hxs]. rewrite <- app_assoc, Hx, (IH Hxs). reflexivity.
Qed.

Lemma dec_pairs_spec dec (kvs : list (pdata * pdata)) rest :
  Forall (fun kv => (forall r, dec (encode (fst kv) ++ r) = Some (fst kv, r)) /\
                    (forall r, dec (encode (snd kv) ++ r) = Some (snd kv, r))) kvs ->
  dec_pairs dec (length kvs) (flat_map (fun kv => encode (fst kv) ++ encode (snd kv)) kvs ++ rest) = Some (kvs, rest).
Proof.
  induction kvs as [|[k v] kvs IH]; intros H; cbn [length flat_map dec_pairs app fst snd]; [reflexivity|].
  apply Forall_cons in H as [[Hk Hv] Hr]. cbn [fst snd] in *.
  rewrite <- !app_assoc, Hk, Hv, (IH Hr). reflexivity.
Qed.

Lemma dec_array_spec dec xs rest :
  N.of_nat (length xs) < 2 ^ 64 ->
  Forall (fun x => forall r, dec (encode x ++ r) = Some (x, r)) xs ->
  dec_array dec ((head 4 (N.of_nat (length xs)) ++ flat_map encode xs) ++ rest) = Some (xs, rest).
Proof.
  intros Hlen H. unfold dec_array. rewrite <- app_assoc.
  rewrite dec_head_head by (try exact Hlen; lia). rewrite head_ai_not_31.
  rewrite app_length. pose proof (flat_map_encode_length xs).
  destruct (N.leb_spec (N.of_nat (length xs)) (N.of_nat (length (flat_map encode xs) + length rest))); [|lia].
  rewrite Nat2N.id. apply dec_n_spec. exact H.
Qed.

Lemma psize_child_list x xs : x ∈ xs -> (psize x <= fold_right (fun y s => psize y + s) 0 xs)%nat.
Proof.
  induction xs as [|y ys IH]; intros Hin; [apply elem_of_nil in Hin; contradiction|].
  cbn. apply elem_of_cons in Hin as [->|Hin]; [lia | specialize (IH Hin); lia].
Qed.

Theorem decode_encode : forall d,
  ok_pdata d = true ->
  forall f rest, (psize d <= f)%nat -> decode f (encode d ++ rest) = Some (d, rest).
Proof.
  induction d as [i fs IH|kvs IH|xs IH|z|b] using pdata_ind'; intros Hok f rest Hf.
  - (* constructor *)
    cbn [ok_pdata] in Hok. apply andb_true_iff in Hok as [Hok Hfs]. apply andb_true_iff in Hok as [Hi Hlen].
    apply N.ltb_lt in Hi. apply N.ltb_lt in Hlen.
    destruct f as [|f]; [cbn in Hf; lia|]. cbn [psize] in Hf.
    assert (Hch: Forall (fun x => forall r, decode f (encode x ++ r) = Some (x, r)) fs).
    { rewrite Forall_forall in IH |- *. intros x Hx r. apply IH; [exact Hx | | ].
      - rewrite forallb_forall in Hfs. apply Hfs. apply elem_of_list_In. exact Hx.
      - pose proof (psize_child_list x fs Hx). lia. }
    cbn [encode]. unfold constr_tag.
    destruct (N.ltb_spec i 7) as [H7|H7].
    + cbn [decode]. rewrite <- app_assoc.
      rewrite dec_head_head by (try lia; change (2 ^ 64) with 18446744073709551616; lia).
      rewrite head_ai_not_31.
      destruct (N.eqb_spec (121 + i) 2); [lia|]. destruct (N.eqb_spec (121 + i) 3); [lia|].
      destruct (N.leb_spec 121 (121 + i)); [|lia]. destruct (N.leb_spec (121 + i) 127); [|lia]. cbn [andb].
      rewrite dec_array_spec by assumption.
      f_equal. f_equal. f_equal. lia.
    + destruct (N.ltb_spec i 128) as [H128|H128].
      * cbn [decode]. rewrite <- app_assoc.
        rewrite dec_head_head by (try lia; change (2 ^ 64) with 18446744073709551616; lia).
        rewrite head_ai_not_31.
        destruct (N.eqb_spec (1280 + (i - 7)) 2); [lia|]. destruct (N.eqb_spec (1280 + (i - 7)) 3); [lia|].
        destruct (N.leb_spec 121 (1280 + (i - 7))); [|lia].
        destruct (N.leb_spec (1280 + (i - 7)) 127); [lia|]. cbn [andb].
        destruct (N.leb_spec 1280 (1280 + (i - 7))); [|lia].
        destruct (N.leb_spec (1280 + (i - 7)) 1400); [|lia]. cbn [andb].
        rewrite dec_array_spec by assumption.
        f_equal. f_equal. f_equal. lia.
      * cbn [decode]. rewrite <- !app_assoc.
        rewrite dec_head_head by (vm_compute; reflexivity).
        change (head_ai 102 =? 31) with false. change (102 =? 2) with false. change (102 =? 3) with false.
        change ((121 <=? 102) && (102 <=? 127)) with false. change ((1280 <=? 102) && (102 <=? 1400)) with false.
        change (102 =? 102) with true. cbn match.
        rewrite dec_head_head by (vm_compute; reflexivity).
        change (head_ai 2 =? 31) with false. cbn match.
        rewrite dec_head_head by (try exact Hi; lia).
        rewrite head_ai_not_31.
        rewrite app_assoc. rewrite dec_array_spec by assumption. reflexivity.
  - (* map *)
    cbn [ok_pdata] in Hok. apply andb_true_iff in Hok as [Hlen Hkv]. apply N.ltb_lt in Hlen.
    destruct f as [|f]; [cbn in Hf; lia|]. cbn [psize] in Hf.
    assert (Hsz: forall kv, kv ∈ kvs ->
              (psize (fst kv) + psize (snd kv) <= fold_right (fun kv s => psize (fst kv) + psize (snd kv) + s) 0 kvs)%nat).
    { clear. induction kvs as [|y ys IHk]; intros kv Hin; [apply elem_of_nil in Hin; contradiction|].
      cbn. apply elem_of_cons in Hin as [->|Hin]; [lia | specialize (IHk kv Hin); lia]. }
    assert (Hch: Forall (fun kv => (forall r, decode f (encode (fst kv) ++ r) = Some (fst kv, r)) /\
                                   (forall r, decode f (encode (snd kv) ++ r) = Some (snd kv, r))) kvs).
    { rewrite Forall_forall in IH |- *. intros kv Hx. destruct (IH kv Hx) as [IHk IHv].
      rewrite forallb_forall in Hkv. specialize (Hkv kv (proj1 (elem_of_list_In _ _) Hx)).
      apply andb_true_iff in Hkv as [Hk Hv]. specialize (Hsz kv Hx).
      split; intros r; [apply IHk | apply IHv]; try assumption; lia. }
    cbn [encode decode]. rewrite <- app_assoc.
    rewrite dec_head_head by (try exact Hlen; lia). rewrite head_ai_not_31.
    rewrite app_length. pose proof (flat_map_encode2_length kvs).
    destruct (N.leb_spec (N.of_nat (length kvs))
                (N.of_nat (length (flat_map (fun kv => encode (fst kv) ++ encode (snd kv)) kvs) + length rest))); [|lia].
    rewrite Nat2N.id. rewrite dec_pairs_spec by exact Hch. reflexivity.
  - (* list *)
    cbn [ok_pdata] in Hok. apply andb_true_iff in Hok as [Hlen Hxs]. apply N.ltb_lt in Hlen.
    destruct f as [|f]; [cbn in Hf; lia|]. cbn [psize] in Hf.
    assert (Hch: Forall (fun x => forall r, decode f (encode x ++ r) = Some (x, r)) xs).
    { rewrite Forall_forall in IH |- *. intros x Hx r. apply IH; [exact Hx | | ].
      - rewrite forallb_forall in Hxs. apply Hxs. apply elem_of_list_In. exact Hx.
      - pose proof (psize_child_list x xs Hx). lia. }
    cbn [encode decode].
    pose proof (dec_head_head 4 (N.of_nat (length xs)) (flat_map encode xs ++ rest) ltac:(lia) Hlen) as Hh.
    rewrite <- app_assoc. rewrite Hh. rewrite app_assoc.
    rewrite dec_array_spec by assumption. reflexivity.
  - (* integer *)
    destruct f as [|f]; [cbn in Hf; lia|]. cbn [encode]. apply decode_int. exact Hok.
  - (* bytes *)
    cbn [ok_pdata] in Hok. apply N.ltb_lt in Hok.
    destruct f as [|f]; [cbn in Hf; lia|]. cbn [encode decode].
    pose proof (dec_bytes_enc_bytes b rest Hok) as Hd.
    unfold enc_bytes in *. destruct (length b <=? 64)%nat.
    + rewrite <- app_assoc. rewrite dec_head_head by (try exact Hok; lia).
      rewrite app_assoc, Hd. reflexivity.
    + cbn [app] in *. change (dec_head (95 :: ?r)) with (Some (2, 31, 0, r)). cbn match.
      rewrite Hd. reflexivity.
Qed.

(** * records: constructor index and field order are preserved *)
Lemma omapM_Forall2 {A B} (f : A -> outcome B) l r :
  omapM f l = Ok r -> Forall2 (fun a b => f a = Ok b) l r.
Proof.
  revert r. induction l as [|a l IH]; intros r H; cbn in H.
  - injection H as <-. constructor.
  - destruct (f a) as [b| | |] eqn:Ea; cbn in H; try discriminate.
    destruct (omapM f l) as [bs| | |] eqn:El; cbn in H; try discriminate.
    injection H as <-. constructor; [exact Ea | apply IH; reflexivity].
Qed.

Theorem struct_fields_in_order c fs d :
  compile_data_expr (EStruct c fs) = Ok d ->
  exists ds, d = PConstr c ds /\ Forall2 (fun f x => compile_data_expr f = Ok x) fs ds.
Proof.
  cbn [compile_data_expr]. intros H.
  destruct (omapM compile_data_expr fs) as [ds| | |] eqn:E; cbn in H; try discriminate.
  injection H as <-. exists ds. split; [reflexivity | apply omapM_Forall2; exact E].
Qed.

Theorem constr_tag_convention i :
  (i < 7 -> constr_tag i = (121 + i, false)) /\
  (7 <= i < 128 -> constr_tag i = (1280 + (i - 7), false)) /\
  (128 <= i -> constr_tag i = (102, true)).
Proof.
  unfold constr_tag. repeat split; intros H.
  - destruct (N.ltb_spec i 7); [reflexivity | lia].
  - destruct (N.ltb_spec i 7); [lia|]. destruct (N.ltb_spec i 128); [reflexivity | lia].
  - destruct (N.ltb_spec i 7); [lia|]. destruct (N.ltb_spec i 128); [lia | reflexivity].
Qed.

Example ok_pdata_inhabited :
  ok_pdata (PConstr 130 [PInt (2 ^ 100); PBytes (repeat 1 70); PMap [(PInt (-1), PList [])]]) = true.
Proof. vm_compute. reflexivity. Qed.

(** the entries of a map and the elements of a list are converted one by one, in the order
    written, none merged and none dropped *)
Theorem map_entries_in_order kvs d :
  try_as_data (EMap kvs) = Ok d ->
  exists ps, d = PMap ps /\
    Forall2 (fun kv p => try_as_data (fst kv) = Ok (fst p) /\ try_as_data (snd kv) = Ok (snd p)) kvs ps.
Proof.
  cbn [try_as_data]. intros H.
  match type of H with (kvs' <- ?e ;; _) = _ => destruct e as [ps| | |] eqn:E; cbn [obind] in H; try discriminate end.
  injection H as <-. exists ps. split; [reflexivity|].
  revert ps E. induction kvs as [|kv r IH]; intros ps E.
  - injection E as <-. constructor.
  - destruct (try_as_data (fst kv)) as [k| | |] eqn:Ek; cbn [obind] in E; try discriminate.
    destruct (try_as_data (snd kv)) as [v| | |] eqn:Ev; cbn [obind] in E; try discriminate.
    match type of E with (r' <- ?e ;; _) = _ => destruct e as [ps'| | |] eqn:Er; cbn [obind] in E; try discriminate end.
    injection E as <-. constructor; [split; assumption|]. apply IH. reflexivity.
Qed.
Theorem list_elements_in_order xs d :
  try_as_data (EList xs) = Ok d -> exists ds, d = PList ds /\ Forall2 (fun x p => try_as_data x = Ok p) xs ds.
Proof.
  cbn [try_as_data]. intros H.
  destruct (omapM try_as_data xs) as [ds| | |] eqn:E; cbn in H; try discriminate.
  injection H as <-. exists ds. split; [reflexivity|apply omapM_Forall2; exact E].
Qed.
