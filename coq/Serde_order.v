(** Serde_order.v — the bytes of an encoded transaction do not depend on the order in which the
    hash maps of its directives yield their fields (property C18): two transactions that differ
    only in the iteration order of the `data` map of their ad-hoc directives have one encoding. *)
From stdpp Require Import sorting.
From Tx3 Require Import Base Tir Reduce Serde Front_proofs.

(** the same directive met under another iteration order of its field map; the IR type is a map,
    so no key is repeated *)
Definition adhoc_same (a b : adhoc) : Prop :=
  ad_name a = ad_name b /\ NoDup (map fst (ad_data a)) /\ ad_data a ≡ₚ ad_data b.

Definition with_adhoc (t : tx) (a : list adhoc) : tx :=
  mk_tx (tx_fees t) (tx_references t) (tx_inputs t) (tx_outputs t) (tx_validity t) (tx_mints t)
        (tx_burns t) a (tx_collateral t) (tx_signers t) (tx_metadata t).

Lemma adhoc_cval_same a b : adhoc_same a b -> adhoc_cval a = adhoc_cval b.
Proof.
  intros (Hn & Hnd & Hp). unfold adhoc_cval. rewrite Hn.
  rewrite (bt_of_list_perm_invariant (map (fun kv => (fst kv, to_cval (snd kv))) (ad_data a))
                                       (map (fun kv => (fst kv, to_cval (snd kv))) (ad_data b))); [reflexivity| |].
  - rewrite map_map. cbn [fst]. exact Hnd.
  - apply Permutation_map. exact Hp.
Qed.

Theorem to_bytes_iteration_order_independent (t : tx) (a2 : list adhoc) :
  Forall2 adhoc_same (tx_adhoc t) a2 -> to_bytes (with_adhoc t a2) = to_bytes t.
Proof.
  intros H. unfold to_bytes, tx_cval, with_adhoc. cbn [tx_fees tx_references tx_inputs tx_outputs tx_validity tx_mints tx_burns tx_adhoc tx_collateral tx_signers tx_metadata].
  assert (E : map adhoc_cval a2 = map adhoc_cval (tx_adhoc t)).
  { induction H as [|a b l1 l2 Hab _ IH]; [reflexivity|]. cbn [map]. rewrite IH, (adhoc_cval_same _ _ Hab). reflexivity. }
  rewrite E. reflexivity.
Qed.

(** the same inside expressions: an ad-hoc directive node is encoded through the key-ordered view *)
Lemma to_cval_adhoc_order_independent n (d1 d2 : list (string * expr)) :
  NoDup (map fst d1) -> d1 ≡ₚ d2 -> to_cval (EAdHoc n d1) = to_cval (EAdHoc n d2).
Proof.
  intros Hnd Hp. cbn [to_cval].
  rewrite (bt_of_list_perm_invariant (map (fun kv => (fst kv, to_cval (snd kv))) d1)
                                       (map (fun kv => (fst kv, to_cval (snd kv))) d2)); [reflexivity| |].
  - rewrite map_map. cbn [fst]. exact Hnd.
  - apply Permutation_map. exact Hp.
Qed.

(** non-vacuity: two orders of a two-field directive *)
Example adhoc_same_example :
  adhoc_same (mk_adhoc "d" [("b"%string, ENone); ("a"%string, ENone)]) (mk_adhoc "d" [("a"%string, ENone); ("b"%string, ENone)]).
Proof.
  split; [reflexivity|]. split.
  - cbn. repeat constructor; set_solver.
  - apply perm_swap.
Qed.
