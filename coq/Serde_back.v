(** Serde_back.v — the way back from ciborium's data model to the IR (what serde-derive's
    Deserialize does for these types), and the round trip at the level of the IR:
    reading back the laid-out value of an expression returns that expression, with directive
    fields in key order (the IR type keeps them in an unordered map). *)
From Tx3 Require Import Base Tir Reduce PlutusData Serde.
Local Open Scope Z_scope.

Definition string_of_bytes (b : bytes) : string := string_of_list_ascii (map Ascii.ascii_of_N b).
Lemma string_of_bytes_sbytes s : string_of_bytes (sbytes s) = s.
Proof.
  unfold string_of_bytes, sbytes. rewrite map_map.
  rewrite (map_ext _ id); [rewrite map_id; apply string_of_list_ascii_of_string|].
  intros a. apply Ascii.ascii_N_embedding.
Qed.

Definition name_eq (n : bytes) (s : string) : bool := bool_decide (n = sbytes s).

Definition of_ty (v : cval) : option ty :=
  match v with
  | CText s =>
    if name_eq s "Undefined" then Some TUndefined else if name_eq s "Unit" then Some TUnit
    else if name_eq s "Int" then Some TInt else if name_eq s "Bool" then Some TBool
    else if name_eq s "Bytes" then Some TBytes else if name_eq s "Address" then Some TAddress
    else if name_eq s "Utxo" then Some TUtxo else if name_eq s "UtxoRef" then Some TUtxoRef
    else if name_eq s "AnyAsset" then Some TAnyAsset else if name_eq s "List" then Some TList
    else if name_eq s "Map" then Some TMap else None
  | CMap [(CText n, CText c)] => if name_eq n "Custom" then Some (TCustom (string_of_bytes c)) else None
  | _ => None
  end.

Definition of_nat_z (z : Z) : option N := if 0 <=? z then Some (Z.to_N z) else None.

Definition of_ref (v : cval) : option utxo_ref :=
  match struct_of ["txid"; "index"]%string v with
  | Some [t; CInt i] => match as_bytes t, of_nat_z i with Some b, Some n => Some (mk_ref b n) | _, _ => None end
  | _ => None
  end.

Definition of_class (v : cval) : option asset_class :=
  match v with
  | CText s => if name_eq s "Naked" then Some Naked else None
  | CMap [(CText n, p)] =>
    if name_eq n "Named" then option_map Named (as_bytes p)
    else if name_eq n "Defined" then
      match p with CArr [a; b] => match as_bytes a, as_bytes b with Some x, Some y => Some (Defined x y) | _, _ => None end | _ => None end
    else None
  | _ => None
  end.

Definition omapO {A B} (f : A -> option B) : list A -> option (list B) :=
  fix go l := match l with [] => Some [] | x :: r => match f x, go r with Some y, Some ys => Some (y :: ys) | _, _ => None end end.

Fixpoint of_cval (fuel : nat) (v : cval) : option expr :=
  match fuel with
  | O => None
  | S f =>
    let one := of_cval f in
    let many := omapO (of_cval f) in
    let opt := fun (x : cval) => match x with CNull => Some None | _ => option_map Some (of_cval f x) end in
    let two := fun (p : cval) => match p with CArr [a; b] => match one a, one b with Some x, Some y => Some (x, y) | _, _ => None end | _ => None end in
    match v with
    | CText s => if name_eq s "None" then Some ENone else None
    | CMap [(CText n, p)] =>
      if name_eq n "List" then match p with CArr l => option_map EList (many l) | _ => None end
      else if name_eq n "Map" then match p with CArr l => option_map EMap (omapO two l) | _ => None end
      else if name_eq n "Tuple" then option_map (fun xy => ETuple (fst xy) (snd xy)) (two p)
      else if name_eq n "Struct" then
        match struct_of ["constructor"; "fields"]%string p with
        | Some [CInt c; CArr fs] => match of_nat_z c, many fs with Some k, Some xs => Some (EStruct k xs) | _, _ => None end
        | _ => None
        end
      else if name_eq n "Bytes" then option_map EBytes (as_bytes p)
      else if name_eq n "Number" then match p with CInt z => Some (ENumber z) | _ => None end
      else if name_eq n "Bool" then match p with CBool b => Some (EBool b) | _ => None end
      else if name_eq n "String" then match p with CText s => Some (EString s) | _ => None end
      else if name_eq n "Address" then option_map EAddress (as_bytes p)
      else if name_eq n "Hash" then option_map EHash (as_bytes p)
      else if name_eq n "UtxoRefs" then match p with CArr l => option_map EUtxoRefs (omapO of_ref l) | _ => None end
      else if name_eq n "UtxoSet" then
        match p with
        | CArr l =>
          option_map EUtxoSet
            (omapO (fun u =>
                      match struct_of ["ref"; "address"; "assets"; "datum"; "script"]%string u with
                      | Some [r; a; CMap kvs; d; s] =>
                        match of_ref r, as_bytes a,
                              omapO (fun kv : cval * cval => match of_class (fst kv), snd kv with Some c, CInt z => Some (c, z) | _, _ => None end) kvs,
                              opt d, opt s with
                        | Some r', Some a', Some kvs', Some d', Some s' => Some (r', a', kvs', d', s')
                        | _, _, _, _, _ => None
                        end
                      | _ => None
                      end) l)
        | _ => None
        end
      else if name_eq n "Assets" then
        match p with
        | CArr l =>
          option_map EAssets
            (omapO (fun x => match struct_of ["policy"; "asset_name"; "amount"]%string x with
                             | Some [a; b; c] => match one a, one b, one c with Some a', Some b', Some c' => Some (a', b', c') | _, _, _ => None end
                             | _ => None end) l)
        | _ => None
        end
      else if name_eq n "EvalParam" then
        match p with
        | CText s => if name_eq s "ExpectFees" then Some EExpectFees else None
        | CMap [(CText m, q)] =>
          if name_eq m "Set" then option_map EParamSet (one q)
          else if name_eq m "ExpectValue" then
            match q with CArr [CText nm; t] => option_map (EExpectValue (string_of_bytes nm)) (of_ty t) | _ => None end
          else if name_eq m "ExpectInput" then
            match q with
            | CArr [CText nm; qs] =>
              match struct_of ["address"; "min_amount"; "ref"; "many"; "collateral"]%string qs with
              | Some [a; mi; r; CBool many; CBool coll] =>
                match one a, one mi, one r with
                | Some a', Some m', Some r' => Some (EExpectInput (string_of_bytes nm) a' m' r' many coll)
                | _, _, _ => None
                end
              | _ => None
              end
            | _ => None
            end
          else None
        | _ => None
        end
      else if name_eq n "EvalBuiltIn" then
        match p with
        | CMap [(CText m, q)] =>
          if name_eq m "NoOp" then option_map EBNoOp (one q)
          else if name_eq m "Add" then option_map (fun xy => EAdd (fst xy) (snd xy)) (two q)
          else if name_eq m "Sub" then option_map (fun xy => ESub (fst xy) (snd xy)) (two q)
          else if name_eq m "Concat" then option_map (fun xy => EConcat (fst xy) (snd xy)) (two q)
          else if name_eq m "Negate" then option_map ENegate (one q)
          else if name_eq m "Property" then option_map (fun xy => EProperty (fst xy) (snd xy)) (two q)
          else None
        | _ => None
        end
      else if name_eq n "EvalCompiler" then
        match p with
        | CText s => if name_eq s "ComputeTipSlot" then Some ETipSlot else None
        | CMap [(CText m, q)] =>
          if name_eq m "BuildScriptAddress" then option_map EScriptAddr (one q)
          else if name_eq m "ComputeMinUtxo" then option_map EMinUtxo (one q)
          else if name_eq m "ComputeSlotToTime" then option_map ESlotToTime (one q)
          else if name_eq m "ComputeTimeToSlot" then option_map ETimeToSlot (one q)
          else None
        | _ => None
        end
      else if name_eq n "EvalCoerce" then
        match p with
        | CMap [(CText m, q)] =>
          if name_eq m "NoOp" then option_map ECNoOp (one q)
          else if name_eq m "IntoAssets" then option_map EIntoAssets (one q)
          else if name_eq m "IntoDatum" then option_map EIntoDatum (one q)
          else if name_eq m "IntoScript" then option_map EIntoScript (one q)
          else None
        | _ => None
        end
      else if name_eq n "AdHocDirective" then
        match struct_of ["name"; "data"]%string p with
        | Some [CText nm; CMap kvs] =>
          option_map (EAdHoc (string_of_bytes nm))
            (omapO (fun kv : cval * cval => match fst kv, one (snd kv) with CText k, Some x => Some (string_of_bytes k, x) | _, _ => None end) kvs)
        | _ => None
        end
      else None
    | _ => None
    end
  end.

(** the directive fields come back in key order; everything else comes back as it was *)
Fixpoint norm (e : expr) : expr :=
  match e with
  | EAdHoc n d => EAdHoc n (bt_of_list (map (fun kv => (fst kv, norm (snd kv))) d))
  | EParamSet x => EParamSet (norm x)
  | EExpectInput n a m r many coll => EExpectInput n (norm a) (norm m) (norm r) many coll
  | EUtxoSet us =>
    EUtxoSet (map (fun u : utxo_x => let '(r, a, assets, d, s) := u in (r, a, assets, option_map norm d, option_map norm s)) us)
  | _ => map_children norm e
  end.

(** * the round trip *)
From Tx3 Require Import Tir_proofs Serde_proofs.

(** bytes are bytes *)
Fixpoint wf_e (e : expr) : bool :=
  match e with
  | EBytes b | EAddress b | EHash b => wf_bytes b
  | EUtxoRefs rs => forallb (fun r => wf_bytes (r_txid r)) rs
  | EUtxoSet us =>
    forallb (fun u : utxo_x => let '(r, a, assets, d, s) := u in
               wf_bytes (r_txid r) && wf_bytes a
               && forallb (fun kv => match fst kv with Naked => true | Named n => wf_bytes n | Defined p n => wf_bytes p && wf_bytes n end) assets
               && match d with Some x => wf_e x | None => true end && match s with Some x => wf_e x | None => true end) us
  | EParamSet x => wf_e x
  | EExpectInput _ a m r _ _ => wf_e a && wf_e m && wf_e r
  | EAdHoc _ d => forallb (fun kv => wf_e (snd kv)) d
  | _ => forall_children wf_e e
  end.

Lemma name_eq_sbytes a b : name_eq (sbytes a) b = String.eqb a b.
Proof.
  unfold name_eq. destruct (String.eqb_spec a b) as [->|Hne].
  - apply bool_decide_eq_true. reflexivity.
  - apply bool_decide_eq_false. intros H. apply Hne. apply sbytes_inj. exact H.
Qed.
Lemma text_is_ctext a b : text_is (ctext a) b = String.eqb a b.
Proof.
  unfold text_is, ctext. destruct (String.eqb_spec a b) as [->|Hne].
  - apply bool_decide_eq_true. reflexivity.
  - apply bool_decide_eq_false. intros H. apply Hne. apply sbytes_inj. exact H.
Qed.

Ltac eval_tags :=
  repeat (progress (rewrite ?name_eq_sbytes, ?text_is_ctext;
                    cbn [String.eqb Ascii.eqb Bool.eqb andb struct_of fields_of option_map map fst snd])).

Lemma as_bytes_cbytes b : wf_bytes b = true -> as_bytes (cbytes b) = Some b.
Proof.
  unfold as_bytes, cbytes, wf_bytes. intros H. apply mapM_Some_2.
  induction b as [|x b IH]; cbn [map]; [constructor|].
  cbn [forallb] in H. apply andb_true_iff in H as [Hx Hb]. apply N.ltb_lt in Hx.
  constructor; [|apply IH; exact Hb].
  destruct (Z.leb_spec 0 (Z.of_N x)), (Z.ltb_spec (Z.of_N x) 256); try lia. cbn. rewrite N2Z.id. reflexivity.
Qed.

Lemma omapO_map {A B C} (g : B -> option C) (h : A -> B) (k : A -> C) xs :
  (forall x, x ∈ xs -> g (h x) = Some (k x)) -> omapO g (map h xs) = Some (map k xs).
Proof.
  induction xs as [|x xs IH]; intros H; [reflexivity|]. cbn [map omapO].
  rewrite (H x) by left. rewrite IH; [reflexivity|]. intros y Hy. apply H. right. exact Hy.
Qed.

Lemma of_nat_z_of_N c : of_nat_z (Z.of_N c) = Some c.
Proof. unfold of_nat_z. destruct (Z.leb_spec 0 (Z.of_N c)); [rewrite N2Z.id; reflexivity|lia]. Qed.

Lemma of_ty_ty t : of_ty (ty_cval t) = Some t.
Proof.
  destruct t; cbn [ty_cval]; unfold cvariant, ctext; cbn [of_ty]; eval_tags; try reflexivity.
  rewrite string_of_bytes_sbytes. reflexivity.
Qed.

Lemma of_ref_ref r : wf_bytes (r_txid r) = true -> of_ref (ref_cval r) = Some r.
Proof.
  intros H. destruct r as [t i]. unfold of_ref, ref_cval, cstruct. eval_tags.
  cbn [r_txid r_idx] in *. rewrite (as_bytes_cbytes _ H), of_nat_z_of_N. reflexivity.
Qed.

Definition wf_class_bytes (c : asset_class) : bool :=
  match c with Naked => true | Named n => wf_bytes n | Defined p n => wf_bytes p && wf_bytes n end.
Lemma of_class_class c : wf_class_bytes c = true -> of_class (class_cval c) = Some c.
Proof.
  destruct c as [|n|pp n]; cbn [class_cval wf_class_bytes]; unfold cvariant, ctext; cbn [of_class]; intros H; eval_tags.
  - reflexivity.
  - rewrite (as_bytes_cbytes _ H). reflexivity.
  - apply andb_true_iff in H as [H1 H2]. rewrite (as_bytes_cbytes _ H1), (as_bytes_cbytes _ H2). reflexivity.
Qed.

Lemma opt_to_cval f x :
  match to_cval x with CNull => Some None | _ => option_map Some (of_cval f (to_cval x)) end = option_map Some (of_cval f (to_cval x)).
Proof. destruct x; reflexivity. Qed.

(** structural induction that also reaches the datum and script expressions stored in UTxO sets *)
Definition deep_children (e : expr) : list expr :=
  all_children e ++
  match e with
  | EUtxoSet us => flat_map (fun u : utxo_x => let '(_, _, _, d, s) := u in from_option (fun x => [x]) [] d ++ from_option (fun x => [x]) [] s) us
  | _ => []
  end.

Section expr_deep_ind.
  Variable P : expr -> Prop.
  Hypothesis step : forall e, (forall c, c ∈ deep_children e -> P c) -> P e.
  Lemma Forall_elem' (l : list expr) : Forall P l -> forall c, c ∈ l -> P c.
  Proof. intros H c Hc. rewrite Forall_forall in H. apply H. exact Hc. Qed.
  Fixpoint expr_deep_ind (e : expr) : P e.
  Proof.
    apply step. destruct e; unfold deep_children, all_children; cbn [children param_children app];
      intros c Hc; rewrite ?app_nil_r in Hc;
      try (apply elem_of_nil in Hc; contradiction).
    - (* EList *)
      revert c Hc. apply Forall_elem'. induction xs as [|x xs IH]; constructor; [apply expr_deep_ind | exact IH].
    - (* EMap *)
      revert c Hc. apply Forall_elem'. induction kvs as [|[k v] kvs IH]; cbn; [constructor|].
      constructor; [apply expr_deep_ind|]. constructor; [apply expr_deep_ind | exact IH].
    - (* ETuple *)
      apply elem_of_cons in Hc as [->|Hc]; [apply expr_deep_ind|].
      apply elem_of_list_singleton in Hc as ->. apply expr_deep_ind.
    - (* EStruct *)
      revert c Hc. apply Forall_elem'. induction fields as [|x xs IH]; constructor; [apply expr_deep_ind | exact IH].
    - (* EUtxoSet *)
      induction us as [|[[[[r a] assets] d] s] us IH]; [inversion Hc|].
      cbn [flat_map] in Hc. apply elem_of_app in Hc as [Hc|Hc]; [|apply IH; exact Hc].
      apply elem_of_app in Hc as [Hc|Hc].
      + destruct d as [x|]; [|inversion Hc]. apply elem_of_list_singleton in Hc as ->. apply expr_deep_ind.
      + destruct s as [x|]; [|inversion Hc]. apply elem_of_list_singleton in Hc as ->. apply expr_deep_ind.
    - (* EAssets *)
      revert c Hc. apply Forall_elem'. induction xs as [|[[p n] a] xs IH]; cbn; [constructor|].
      constructor; [apply expr_deep_ind|]. constructor; [apply expr_deep_ind|].
      constructor; [apply expr_deep_ind | exact IH].
    - (* EParamSet *) apply elem_of_list_singleton in Hc as ->. apply expr_deep_ind.
    - (* EExpectInput *)
      apply elem_of_cons in Hc as [->|Hc]; [apply expr_deep_ind|].
      apply elem_of_cons in Hc as [->|Hc]; [apply expr_deep_ind|].
      apply elem_of_list_singleton in Hc as ->. apply expr_deep_ind.
    - apply elem_of_list_singleton in Hc as ->. apply expr_deep_ind.
    - apply elem_of_cons in Hc as [->|Hc]; [apply expr_deep_ind|].
      apply elem_of_list_singleton in Hc as ->. apply expr_deep_ind.
    - apply elem_of_cons in Hc as [->|Hc]; [apply expr_deep_ind|].
      apply elem_of_list_singleton in Hc as ->. apply expr_deep_ind.
    - apply elem_of_cons in Hc as [->|Hc]; [apply expr_deep_ind|].
      apply elem_of_list_singleton in Hc as ->. apply expr_deep_ind.
    - apply elem_of_list_singleton in Hc as ->. apply expr_deep_ind.
    - apply elem_of_cons in Hc as [->|Hc]; [apply expr_deep_ind|].
      apply elem_of_list_singleton in Hc as ->. apply expr_deep_ind.
    - apply elem_of_list_singleton in Hc as ->. apply expr_deep_ind.
    - apply elem_of_list_singleton in Hc as ->. apply expr_deep_ind.
    - apply elem_of_list_singleton in Hc as ->. apply expr_deep_ind.
    - apply elem_of_list_singleton in Hc as ->. apply expr_deep_ind.
    - apply elem_of_list_singleton in Hc as ->. apply expr_deep_ind.
    - apply elem_of_list_singleton in Hc as ->. apply expr_deep_ind.
    - apply elem_of_list_singleton in Hc as ->. apply expr_deep_ind.
    - apply elem_of_list_singleton in Hc as ->. apply expr_deep_ind.
    - (* EAdHoc *)
      revert c Hc. apply Forall_elem'. induction data as [|[k v] d IH]; cbn; constructor; [apply expr_deep_ind | exact IH].
  Defined.
End expr_deep_ind.

(** the key-ordered view commutes with a change of the values *)
Lemma bt_insert_map {A B} (g : A -> B) k v (l : list (string * A)) :
  bt_insert k (g v) (map (fun kv => (fst kv, g (snd kv))) l) = map (fun kv => (fst kv, g (snd kv))) (bt_insert k v l).
Proof.
  induction l as [|[k' v'] l IH]; cbn; [reflexivity|].
  destruct (bool_decide (k = k')); [reflexivity|]. destruct (string_ltb k k'); [reflexivity|].
  cbn. rewrite IH. reflexivity.
Qed.
Lemma bt_of_list_map {A B} (g : A -> B) (d : list (string * A)) :
  bt_of_list (map (fun kv => (fst kv, g (snd kv))) d) = map (fun kv => (fst kv, g (snd kv))) (bt_of_list d).
Proof.
  unfold bt_of_list.
  assert (G : forall acc, fold_left (fun acc kv => bt_insert (fst kv) (snd kv) acc) (map (fun kv => (fst kv, g (snd kv))) d) (map (fun kv => (fst kv, g (snd kv))) acc)
                          = map (fun kv => (fst kv, g (snd kv))) (fold_left (fun acc kv => bt_insert (fst kv) (snd kv) acc) d acc)).
  { induction d as [|[k v] d IH]; intros acc; cbn; [reflexivity|]. rewrite bt_insert_map. apply IH. }
  apply (G []).
Qed.
Lemma bt_insert_subset {A} k (v : A) l x : x ∈ bt_insert k v l -> x = (k, v) \/ x ∈ l.
Proof.
  induction l as [|[k' v'] l IH]; cbn; intros H.
  - apply elem_of_list_singleton in H. left. exact H.
  - destruct (bool_decide (k = k')).
    + apply elem_of_cons in H as [->|H]; [left; reflexivity|right; right; exact H].
    + destruct (string_ltb k k').
      * apply elem_of_cons in H as [->|H]; [left; reflexivity|right; exact H].
      * apply elem_of_cons in H as [->|H]; [right; left|]. destruct (IH H) as [->|Hin]; [left; reflexivity|right; right; exact Hin].
Qed.
Lemma bt_of_list_subset {A} (d : list (string * A)) x : x ∈ bt_of_list d -> x ∈ d.
Proof.
  unfold bt_of_list.
  assert (G : forall acc, x ∈ fold_left (fun acc kv => bt_insert (fst kv) (snd kv) acc) d acc -> x ∈ acc \/ x ∈ d).
  { induction d as [|[k v] d IH]; cbn; intros acc H; [left; exact H|].
    destruct (IH _ H) as [H1|H1]; [|right; right; exact H1].
    destruct (bt_insert_subset _ _ _ _ H1) as [->|H2]; [right; left|left; exact H2]. }
  intros H. destruct (G [] H) as [H1|H1]; [inversion H1|exact H1].
Qed.

Lemma common_bound' (P : nat -> expr -> Prop) (l : list expr) :
  (forall c, c ∈ l -> exists n, forall f, (n <= f)%nat -> P f c) ->
  exists n, forall f, (n <= f)%nat -> forall c, c ∈ l -> P f c.
Proof.
  induction l as [|x l IH]; intros H.
  - exists O. intros f _ c Hc. inversion Hc.
  - destruct (H x) as [n1 H1]; [left|]. destruct IH as [n2 H2]; [intros c Hc; apply H; right; exact Hc|].
    exists (Nat.max n1 n2). intros f Hf c Hc. apply elem_of_cons in Hc as [->|Hc]; [apply H1; lia|apply H2; [lia|exact Hc]].
Qed.

(** children of a well-formed expression are well formed *)
Lemma wf_e_children e c : wf_e e = true -> c ∈ deep_children e -> wf_e c = true.
Proof.
  intros Hw Hin. unfold deep_children, all_children in Hin.
  destruct e; cbn [children param_children app wf_e forall_children] in *; rewrite ?app_nil_r in Hin;
    try (apply elem_of_nil in Hin; contradiction).
  - rewrite forallb_forall in Hw. apply Hw. apply elem_of_list_In. exact Hin.
  - apply elem_of_list_In, in_flat_map in Hin as [[k v] [Hx Hin]]. rewrite forallb_forall in Hw. specialize (Hw _ Hx).
    cbn [fst snd] in Hw. apply andb_true_iff in Hw as [Hk Hv]. cbn in Hin. destruct Hin as [<-|[<-|[]]]; assumption.
  - apply andb_true_iff in Hw as [Ha Hb]. apply elem_of_cons in Hin as [->|Hin]; [exact Ha|]. apply elem_of_list_singleton in Hin as ->. exact Hb.
  - rewrite forallb_forall in Hw. apply Hw. apply elem_of_list_In. exact Hin.
  - (* EUtxoSet *)
    apply elem_of_list_In, in_flat_map in Hin as [[[[[r a] assets] d] s] [Hx Hin]]. rewrite forallb_forall in Hw. specialize (Hw _ Hx).
    cbn beta iota in Hw. repeat (apply andb_true_iff in Hw as [Hw ?]).
    apply in_app_or in Hin as [Hin|Hin]; [destruct d as [x|]|destruct s as [x|]]; cbn in Hin; try contradiction;
      destruct Hin as [<-|[]]; assumption.
  - apply elem_of_list_In, in_flat_map in Hin as [[[a b] c0] [Hx Hin]]. rewrite forallb_forall in Hw. specialize (Hw _ Hx).
    cbn [fst snd] in Hw. apply andb_true_iff in Hw as [Hw Hc0]. apply andb_true_iff in Hw as [Ha Hb].
    cbn in Hin. destruct Hin as [<-|[<-|[<-|[]]]]; assumption.
  - apply elem_of_list_singleton in Hin as ->. exact Hw.
  - apply andb_true_iff in Hw as [Hw Hr]. apply andb_true_iff in Hw as [Ha Hm].
    apply elem_of_cons in Hin as [->|Hin]; [exact Ha|]. apply elem_of_cons in Hin as [->|Hin]; [exact Hm|].
    apply elem_of_list_singleton in Hin as ->. exact Hr.
  - apply elem_of_list_singleton in Hin as ->. exact Hw.
  - apply andb_true_iff in Hw as [Ha Hb]. apply elem_of_cons in Hin as [->|Hin]; [exact Ha|]. apply elem_of_list_singleton in Hin as ->. exact Hb.
  - apply andb_true_iff in Hw as [Ha Hb]. apply elem_of_cons in Hin as [->|Hin]; [exact Ha|]. apply elem_of_list_singleton in Hin as ->. exact Hb.
  - apply andb_true_iff in Hw as [Ha Hb]. apply elem_of_cons in Hin as [->|Hin]; [exact Ha|]. apply elem_of_list_singleton in Hin as ->. exact Hb.
  - apply elem_of_list_singleton in Hin as ->. exact Hw.
  - apply andb_true_iff in Hw as [Ha Hb]. apply elem_of_cons in Hin as [->|Hin]; [exact Ha|]. apply elem_of_list_singleton in Hin as ->. exact Hb.
  - apply elem_of_list_singleton in Hin as ->. exact Hw.
  - apply elem_of_list_singleton in Hin as ->. exact Hw.
  - apply elem_of_list_singleton in Hin as ->. exact Hw.
  - apply elem_of_list_singleton in Hin as ->. exact Hw.
  - apply elem_of_list_singleton in Hin as ->. exact Hw.
  - apply elem_of_list_singleton in Hin as ->. exact Hw.
  - apply elem_of_list_singleton in Hin as ->. exact Hw.
  - apply elem_of_list_singleton in Hin as ->. exact Hw.
  - apply elem_of_list_In, in_map_iff in Hin as [[k v] [<- Hx]]. rewrite forallb_forall in Hw. apply (Hw _ Hx).
Qed.

Ltac kid := unfold deep_children, all_children; cbn [children param_children app]; rewrite ?app_nil_r;
            repeat (first [apply elem_of_list_here | apply elem_of_list_further]).

(** reading back the laid-out value of an expression returns the expression (directive fields in
    key order), at every sufficient fuel *)
Theorem of_cval_to_cval e : wf_e e = true ->
  exists f0, forall f, (f0 <= f)%nat -> of_cval f (to_cval e) = Some (norm e).
Proof.
  induction e using expr_deep_ind. intros Hw.
  destruct (common_bound' (fun f c => of_cval f (to_cval c) = Some (norm c)) (deep_children e)) as [n Hn].
  { intros c Hin. apply H; [exact Hin|eapply wf_e_children; eassumption]. }
  exists (S n). intros f Hf. destruct f as [|f]; [lia|]. assert (Hle : (n <= f)%nat) by lia.
  assert (Hk : forall c, c ∈ deep_children e -> of_cval f (to_cval c) = Some (norm c)) by (intros c Hin; apply Hn; assumption).
  clear H Hn Hf Hle n.
  destruct e; cbn [to_cval norm map_children]; unfold cvariant, ctext; cbn [of_cval]; eval_tags; cbn [wf_e forall_children] in Hw.
  - (* ENone *) reflexivity.
  - (* EList *) rewrite (omapO_map _ _ norm); [reflexivity|]. intros x Hx. apply Hk. kid. exact Hx.
  - (* EMap *)
    rewrite (omapO_map _ _ (fun kv => (norm (fst kv), norm (snd kv)))); [reflexivity|].
    intros [k v] Hx. cbn [fst snd].
    rewrite (Hk k), (Hk v); [reflexivity| |];
      unfold deep_children, all_children; cbn [children param_children app]; rewrite !app_nil_r;
      apply elem_of_list_In, in_flat_map; exists (k, v); (split; [apply elem_of_list_In; exact Hx|cbn; auto]).
  - (* ETuple *) rewrite (Hk e1) by kid. rewrite (Hk e2) by kid. reflexivity.
  - (* EStruct *)
    unfold cstruct. eval_tags. rewrite of_nat_z_of_N. rewrite (omapO_map _ _ norm); [reflexivity|]. intros x Hx. apply Hk. kid. exact Hx.
  - (* EBytes *) rewrite (as_bytes_cbytes _ Hw). reflexivity.
  - reflexivity.
  - reflexivity.
  - reflexivity.
  - (* EAddress *) rewrite (as_bytes_cbytes _ Hw). reflexivity.
  - (* EHash *) rewrite (as_bytes_cbytes _ Hw). reflexivity.
  - (* EUtxoRefs *)
    rewrite (omapO_map _ _ id); [rewrite map_id; reflexivity|]. intros r Hr. apply of_ref_ref.
    rewrite forallb_forall in Hw. apply Hw. apply elem_of_list_In. exact Hr.
  - (* EUtxoSet *)
    rewrite (omapO_map _ _ (fun u : utxo_x => let '(r, a, assets, d, s) := u in (r, a, assets, option_map norm d, option_map norm s))); [reflexivity|].
    intros [[[[r a] assets] d] s] Hx. rewrite forallb_forall in Hw. specialize (Hw _ (proj1 (elem_of_list_In _ _) Hx)).
    cbn beta iota in Hw. apply andb_true_iff in Hw as [Hw Hs]. apply andb_true_iff in Hw as [Hw Hd].
    apply andb_true_iff in Hw as [Hw Has]. apply andb_true_iff in Hw as [Hr Ha].
    unfold cstruct. eval_tags. rewrite (of_ref_ref _ Hr), (as_bytes_cbytes _ Ha).
    rewrite (omapO_map _ _ id).
    2:{ intros [c z] Hc. cbn [fst snd]. rewrite of_class_class; [reflexivity|].
        rewrite forallb_forall in Has. specialize (Has _ (proj1 (elem_of_list_In _ _) Hc)). cbn [fst] in Has.
        destruct c; cbn; assumption. }
    rewrite map_id.
    assert (Hopt : forall o, (forall x, o = Some x -> of_cval f (to_cval x) = Some (norm x)) ->
                   match copt (option_map to_cval o) with CNull => Some None | _ => option_map Some (of_cval f (copt (option_map to_cval o))) end
                   = Some (option_map norm o)).
    { intros [x|] Ho; cbn [option_map copt from_option]; [|reflexivity]. unfold id. rewrite opt_to_cval, (Ho x eq_refl). reflexivity. }
    rewrite (Hopt d), (Hopt s); [reflexivity| |].
    + intros x ->. apply Hk. unfold deep_children, all_children. cbn [children param_children app].
      apply elem_of_list_In, in_flat_map. exists (r, a, assets, d, Some x). split; [apply elem_of_list_In; exact Hx|].
      apply in_or_app. right. cbn. auto.
    + intros x ->. apply Hk. unfold deep_children, all_children. cbn [children param_children app].
      apply elem_of_list_In, in_flat_map. exists (r, a, assets, Some x, s). split; [apply elem_of_list_In; exact Hx|].
      apply in_or_app. left. cbn. auto.
  - (* EAssets *)
    rewrite (omapO_map _ _ (fun x => (norm (fst (fst x)), norm (snd (fst x)), norm (snd x)))); [reflexivity|].
    intros [[a b] c] Hx. unfold cstruct. eval_tags.
    rewrite (Hk a), (Hk b), (Hk c); [reflexivity| | |];
      unfold deep_children, all_children; cbn [children param_children app]; rewrite !app_nil_r;
      apply elem_of_list_In, in_flat_map; exists (a, b, c); (split; [apply elem_of_list_In; exact Hx|cbn; auto]).
  - (* EParamSet *) rewrite (Hk e) by kid. reflexivity.
  - (* EExpectValue *) rewrite of_ty_ty, string_of_bytes_sbytes. reflexivity.
  - (* EExpectInput *)
    unfold cstruct. eval_tags. rewrite (Hk e1) by kid. rewrite (Hk e2) by kid. rewrite (Hk e3) by kid.
    rewrite string_of_bytes_sbytes. reflexivity.
  - reflexivity.
  - rewrite (Hk e) by kid. reflexivity.
  - rewrite (Hk e1) by kid. rewrite (Hk e2) by kid. reflexivity.
  - rewrite (Hk e1) by kid. rewrite (Hk e2) by kid. reflexivity.
  - rewrite (Hk e1) by kid. rewrite (Hk e2) by kid. reflexivity.
  - rewrite (Hk e) by kid. reflexivity.
  - rewrite (Hk e1) by kid. rewrite (Hk e2) by kid. reflexivity.
  - rewrite (Hk e) by kid. reflexivity.
  - rewrite (Hk e) by kid. reflexivity.
  - reflexivity.
  - rewrite (Hk e) by kid. reflexivity.
  - rewrite (Hk e) by kid. reflexivity.
  - rewrite (Hk e) by kid. reflexivity.
  - rewrite (Hk e) by kid. reflexivity.
  - rewrite (Hk e) by kid. reflexivity.
  - rewrite (Hk e) by kid. reflexivity.
  - (* EAdHoc *)
    unfold cstruct. eval_tags. rewrite string_of_bytes_sbytes.
    rewrite (bt_of_list_map to_cval), map_map. cbn [fst snd].
    rewrite (omapO_map _ _ (fun kv => (fst kv, norm (snd kv)))).
    + rewrite (bt_of_list_map norm). reflexivity.
    + intros [k v] Hx. cbn [fst snd]. rewrite string_of_bytes_sbytes.
      rewrite (Hk v); [reflexivity|]. apply bt_of_list_subset in Hx.
      unfold deep_children, all_children. cbn [children param_children app]. rewrite !app_nil_r.
      apply elem_of_list_fmap. exists (k, v). split; [reflexivity|exact Hx].
Qed.

(** bytes -> data model -> expression: the whole way back *)
Theorem wire_expression_roundtrip e : wf_e e = true -> ok_cval (to_cval e) = true ->
  exists f0, forall f, (f0 <= f)%nat ->
    match decode_cval f (encode_cval (to_cval e)) with
    | Some (v, rest) => rest = [] /\ of_cval f v = Some (norm e)
    | None => False
    end.
Proof.
  intros Hw Hok. destruct (of_cval_to_cval e Hw) as [f0 Hf0].
  exists (Nat.max f0 (csize (to_cval e))). intros f Hf.
  pose proof (decode_encode_cval (to_cval e) Hok f [] ltac:(lia)) as Hd. rewrite app_nil_r in Hd. rewrite Hd.
  split; [reflexivity|]. apply Hf0. lia.
Qed.
