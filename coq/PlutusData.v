(** PlutusData.v — Plutus Data values, their CBOR encoding as tx3_cardano / pallas emit it,
    a decoder written from the Plutus Data CDDL (the "independent reader" of property C09),
    and the two conversions from IR expressions (compile_data_expr for datums, try_as_data
    for redeemers). Definitions only. *)
From Tx3 Require Export Base Tir.

Inductive pdata :=
| PConstr (idx : N) (fs : list pdata)
| PMap (kvs : list (pdata * pdata))
| PList (xs : list pdata)
| PInt (z : Z)
| PBytes (b : bytes).

(** * CBOR heads *)

(** big-endian bytes of [n] on exactly [k] bytes *)
Fixpoint be_bytes (k : nat) (n : N) : list N :=
  match k with
  | O => []
  | S k' => be_bytes k' (n / 256)%N ++ [(n mod 256)%N]
  end.
Fixpoint from_be (l : list N) (acc : N) : N :=
  match l with
  | [] => acc
  | b :: r => from_be r (acc * 256 + b)%N
  end.

(** head of major type [m] with argument [n] < 2^64, shortest form *)
Definition head (m n : N) : list N :=
  let mt := (m * 32)%N in
  if (n <? 24)%N then [(mt + n)%N]
  else if (n <? 256)%N then (mt + 24)%N :: be_bytes 1 n
  else if (n <? 65536)%N then (mt + 25)%N :: be_bytes 2 n
  else if (n <? 4294967296)%N then (mt + 26)%N :: be_bytes 4 n
  else (mt + 27)%N :: be_bytes 8 n.

(** minimal big-endian representation (empty for 0), for bignums *)
Fixpoint to_be_min_fuel (fuel : nat) (n : N) (acc : list N) : list N :=
  match fuel with
  | O => acc
  | S f => if (n =? 0)%N then acc else to_be_min_fuel f (n / 256)%N ((n mod 256)%N :: acc)
  end.
Definition to_be_min (n : N) : list N := to_be_min_fuel (S (N.to_nat (N.log2 n))) n [].

Fixpoint chunks64 (fuel : nat) (b : list N) : list (list N) :=
  match fuel with
  | O => []
  | S f => match b with
           | [] => []
           | _ => take 64 b :: chunks64 f (drop 64 b)
           end
  end.

(** pallas BoundedBytes: up to 64 bytes definite, longer ones as an indefinite string of 64-byte chunks *)
Definition enc_bytes (b : bytes) : list N :=
  if (length b <=? 64)%nat then head 2 (N.of_nat (length b)) ++ b
  else [95%N] ++ flat_map (fun c => head 2 (N.of_nat (length c)) ++ c) (chunks64 (S (length b)) b) ++ [255%N].

Definition two64 : Z := 2 ^ 64.

(** integers: CBOR int inside [-2^64, 2^64), bignum tags 2 / 3 outside *)
Definition enc_int (z : Z) : list N :=
  if (0 <=? z) && (z <? two64) then head 0 (Z.to_N z)
  else if (z <? 0) && (- two64 <=? z) then head 1 (Z.to_N (- 1 - z))
  else if 0 <=? z then head 6 2 ++ enc_bytes (to_be_min (Z.to_N z))
  else head 6 3 ++ enc_bytes (to_be_min (Z.to_N (- 1 - z))).

(** constructor tag convention of Plutus Data *)
Definition constr_tag (i : N) : N * bool :=
  if (i <? 7)%N then ((121 + i)%N, false)
  else if (i <? 128)%N then ((1280 + (i - 7))%N, false)
  else (102%N, true).

Fixpoint encode (d : pdata) : list N :=
  match d with
  | PConstr i fs =>
    let body := head 4 (N.of_nat (length fs)) ++ flat_map encode fs in
    let '(t, general) := constr_tag i in
    if general then head 6 t ++ head 4 2 ++ head 0 i ++ body else head 6 t ++ body
  | PMap kvs => head 5 (N.of_nat (length kvs)) ++ flat_map (fun kv => encode (fst kv) ++ encode (snd kv)) kvs
  | PList xs => head 4 (N.of_nat (length xs)) ++ flat_map encode xs
  | PInt z => enc_int z
  | PBytes b => enc_bytes b
  end.

(** * The reader, from the specification *)

(** one head: (major, additional info, argument, rest); info 31 = indefinite / break *)
Definition dec_head (l : list N) : option (N * N * N * list N) :=
  match l with
  | [] => None
  | b :: r =>
    let m := (b / 32)%N in let ai := (b mod 32)%N in
    if (ai <? 24)%N then Some (m, ai, ai, r)
    else if (ai =? 24)%N then
      match r with x :: r' => Some (m, ai, x, r') | _ => None end
    else if (ai =? 25)%N then
      if (2 <=? length r)%nat then Some (m, ai, from_be (take 2 r) 0, drop 2 r) else None
    else if (ai =? 26)%N then
      if (4 <=? length r)%nat then Some (m, ai, from_be (take 4 r) 0, drop 4 r) else None
    else if (ai =? 27)%N then
      if (8 <=? length r)%nat then Some (m, ai, from_be (take 8 r) 0, drop 8 r) else None
    else if (ai =? 31)%N then Some (m, ai, 0%N, r)
    else None
  end.

(** a definite byte string: head of major 2 then that many bytes *)
Definition dec_def_bytes (l : list N) : option (list N * list N) :=
  match dec_head l with
  | Some (2%N, ai, n, r) =>
    if (ai =? 31)%N then None
    else if (n <=? N.of_nat (length r))%N then Some (take (N.to_nat n) r, drop (N.to_nat n) r) else None
  | _ => None
  end.

(** chunks of an indefinite byte string, up to the break *)
Fixpoint dec_chunks (fuel : nat) (l : list N) (acc : list N) : option (list N * list N) :=
  match fuel with
  | O => None
  | S f =>
    match l with
    | 255%N :: r => Some (acc, r)
    | _ => match dec_def_bytes l with
           | Some (c, r) => dec_chunks f r (acc ++ c)
           | None => None
           end
    end
  end.

Definition dec_bytes (l : list N) : option (list N * list N) :=
  match l with
  | 95%N :: r => dec_chunks (S (length r)) r []
  | _ => dec_def_bytes l
  end.

Section Decode.
(** items of a definite / indefinite sequence; [fuel] bounds the total number of recursive calls *)
Variable dec : list N -> option (pdata * list N).

Fixpoint dec_n (n : nat) (l : list N) : option (list pdata * list N) :=
  match n with
  | O => Some ([], l)
  | S n' => match dec l with
            | Some (x, r) => match dec_n n' r with Some (xs, r') => Some (x :: xs, r') | None => None end
            | None => None
            end
  end.
Fixpoint dec_pairs (n : nat) (l : list N) : option (list (pdata * pdata) * list N) :=
  match n with
  | O => Some ([], l)
  | S n' => match dec l with
            | Some (k, r) =>
              match dec r with
              | Some (v, r2) => match dec_pairs n' r2 with Some (xs, r') => Some ((k, v) :: xs, r') | None => None end
              | None => None
              end
            | None => None
            end
  end.
Fixpoint dec_until_break (fuel : nat) (l : list N) : option (list pdata * list N) :=
  match fuel with
  | O => None
  | S f => match l with
           | 255%N :: r => Some ([], r)
           | _ => match dec l with
                  | Some (x, r) => match dec_until_break f r with Some (xs, r') => Some (x :: xs, r') | None => None end
                  | None => None
                  end
           end
  end.
Fixpoint dec_pairs_until_break (fuel : nat) (l : list N) : option (list (pdata * pdata) * list N) :=
  match fuel with
  | O => None
  | S f => match l with
           | 255%N :: r => Some ([], r)
           | _ => match dec l with
                  | Some (k, r) =>
                    match dec r with
                    | Some (v, r2) =>
                      match dec_pairs_until_break f r2 with Some (xs, r') => Some ((k, v) :: xs, r') | None => None end
                    | None => None
                    end
                  | None => None
                  end
           end
  end.

(** an array (definite or indefinite) of items *)
Definition dec_array (l : list N) : option (list pdata * list N) :=
  match dec_head l with
  | Some (4%N, ai, n, r) =>
    if (ai =? 31)%N then dec_until_break (S (length r)) r
    else if (n <=? N.of_nat (length r))%N then dec_n (N.to_nat n) r else None
  | _ => None
  end.
End Decode.

Fixpoint decode (fuel : nat) (l : list N) : option (pdata * list N) :=
  match fuel with
  | O => None
  | S f =>
    match dec_head l with
    | Some (0%N, ai, n, r) => if (ai =? 31)%N then None else Some (PInt (Z.of_N n), r)
    | Some (1%N, ai, n, r) => if (ai =? 31)%N then None else Some (PInt (- 1 - Z.of_N n), r)
    | Some (2%N, _, _, _) => match dec_bytes l with Some (b, r) => Some (PBytes b, r) | None => None end
    | Some (4%N, _, _, _) => match dec_array (decode f) l with Some (xs, r) => Some (PList xs, r) | None => None end
    | Some (5%N, ai, n, r) =>
      if (ai =? 31)%N then
        match dec_pairs_until_break (decode f) (S (length r)) r with Some (kvs, r') => Some (PMap kvs, r') | None => None end
      else if (n <=? N.of_nat (length r))%N then
        match dec_pairs (decode f) (N.to_nat n) r with Some (kvs, r') => Some (PMap kvs, r') | None => None end
      else None
    | Some (6%N, ai, t, r) =>
      if (ai =? 31)%N then None
      else if (t =? 2)%N then
        match dec_bytes r with Some (b, r') => Some (PInt (Z.of_N (from_be b 0)), r') | None => None end
      else if (t =? 3)%N then
        match dec_bytes r with Some (b, r') => Some (PInt (- 1 - Z.of_N (from_be b 0)), r') | None => None end
      else if (121 <=? t)%N && (t <=? 127)%N then
        match dec_array (decode f) r with Some (fs, r') => Some (PConstr (t - 121)%N fs, r') | None => None end
      else if (1280 <=? t)%N && (t <=? 1400)%N then
        match dec_array (decode f) r with Some (fs, r') => Some (PConstr (t - 1280 + 7)%N fs, r') | None => None end
      else if (t =? 102)%N then
        match dec_head r with
        | Some (4%N, ai2, 2%N, r1) =>
          if (ai2 =? 31)%N then None else
          match dec_head r1 with
          | Some (0%N, ai3, i, r2) =>
            if (ai3 =? 31)%N then None else
            match dec_array (decode f) r2 with Some (fs, r') => Some (PConstr i fs, r') | None => None end
          | _ => None
          end
        | _ => None
        end
      else None
    | _ => None
    end
  end.

(** * From IR expressions *)

Definition bool_data (b : bool) : pdata := PConstr (if b then 1 else 0)%N [].
Definition unit_data : pdata := PConstr 0 [].

(** TryIntoData for Expression (redeemers, and everything nested in a list or map) *)
Fixpoint try_as_data (e : expr) : outcome pdata :=
  match e with
  | ENone => Ok unit_data
  | EStruct c fs => fs' <- omapM try_as_data fs ;; Ok (PConstr c fs')
  | EBytes b | EString b | EAddress b | EHash b => Ok (PBytes b)
  | ENumber z => Ok (PInt z)
  | EBool b => Ok (bool_data b)
  | EList xs => xs' <- omapM try_as_data xs ;; Ok (PList xs')
  | EMap kvs =>
    kvs' <- (fix go (l : list (expr * expr)) : outcome (list (pdata * pdata)) :=
               match l with
               | [] => Ok []
               | kv :: r => k <- try_as_data (fst kv) ;; v <- try_as_data (snd kv) ;; r' <- go r ;; Ok ((k, v) :: r')
               end) kvs ;;
    Ok (PMap kvs')
  | _ => Err "CoerceError"
  end.

(** compile_data_expr (datums): the top level and struct fields go through compile_data_expr,
    list and map elements through try_as_data *)
Fixpoint compile_data_expr (e : expr) : outcome pdata :=
  match e with
  | EBytes b | EString b | EAddress b => Ok (PBytes b)
  | ENumber z => Ok (PInt z)
  | EBool b => Ok (bool_data b)
  | EStruct c fs => fs' <- omapM compile_data_expr fs ;; Ok (PConstr c fs')
  | EMap _ | EList _ => try_as_data e
  | _ => Err "CoerceError"
  end.

(** sizes, for the fuel of the decoder *)
Fixpoint psize (d : pdata) : nat :=
  match d with
  | PConstr _ fs => S (fold_right (fun x s => psize x + s)%nat O fs)
  | PMap kvs => S (fold_right (fun kv s => psize (fst kv) + psize (snd kv) + s)%nat O kvs)
  | PList xs => S (fold_right (fun x s => psize x + s)%nat O xs)
  | _ => 1%nat
  end.

Fixpoint wf_pdata (d : pdata) : bool :=
  match d with
  | PConstr i fs => (i <? 2 ^ 64)%N && forallb wf_pdata fs
  | PMap kvs => forallb (fun kv => wf_pdata (fst kv) && wf_pdata (snd kv)) kvs
  | PList xs => forallb wf_pdata xs
  | PInt _ => true
  | PBytes b => wf_bytes b
  end.
