(** Tir_proofs.v — induction over the IR through its children, and the generic facts about the
    one-level combinators that every traversal is written with. *)
From Tx3 Require Import Base Tir.

(** structural induction, phrased over [all_children] so that one proof script serves all
    thirty-odd constructors *)
Section expr_children_ind.
  Variable P : expr -> Prop.
  Hypothesis step : forall e, (forall c, c ∈ all_children e -> P c) -> P e.

  Lemma Forall_elem (l : list expr) : Forall P l -> forall c, c ∈ l -> P c.
  Proof. intros H c Hc. rewrite Forall_forall in H. apply H. exact Hc. Qed.

  Fixpoint expr_children_ind (e : expr) : P e.
  Proof.
    apply step. destruct e; unfold all_children; cbn [children param_children app];
      intros c Hc; rewrite ?app_nil_r in Hc;
      try (apply elem_of_nil in Hc; contradiction).
    - (* EList *)
      revert c Hc. apply Forall_elem. induction xs as [|x xs IH]; constructor; [apply expr_children_ind | exact IH].
    - (* EMap *)
      revert c Hc. apply Forall_elem. induction kvs as [|[k v] kvs IH]; cbn; [constructor|].
      constructor; [apply expr_children_ind|]. constructor; [apply expr_children_ind | exact IH].
    - (* ETuple *)
      apply elem_of_cons in Hc as [->|Hc]; [apply expr_children_ind|].
      apply elem_of_list_singleton in Hc as ->. apply expr_children_ind.
    - (* EStruct *)
      revert c Hc. apply Forall_elem. induction fields as [|x xs IH]; constructor; [apply expr_children_ind | exact IH].
    - (* EAssets *)
      revert c Hc. apply Forall_elem. induction xs as [|[[p n] a] xs IH]; cbn; [constructor|].
      constructor; [apply expr_children_ind|]. constructor; [apply expr_children_ind|].
      constructor; [apply expr_children_ind | exact IH].
    - (* EParamSet *) apply elem_of_list_singleton in Hc as ->. apply expr_children_ind.
    - (* EExpectInput *)
      apply elem_of_cons in Hc as [->|Hc]; [apply expr_children_ind|].
      apply elem_of_cons in Hc as [->|Hc]; [apply expr_children_ind|].
      apply elem_of_list_singleton in Hc as ->. apply expr_children_ind.
    - apply elem_of_list_singleton in Hc as ->. apply expr_children_ind.
    - apply elem_of_cons in Hc as [->|Hc]; [apply expr_children_ind|].
      apply elem_of_list_singleton in Hc as ->. apply expr_children_ind.
    - apply elem_of_cons in Hc as [->|Hc]; [apply expr_children_ind|].
      apply elem_of_list_singleton in Hc as ->. apply expr_children_ind.
    - apply elem_of_cons in Hc as [->|Hc]; [apply expr_children_ind|].
      apply elem_of_list_singleton in Hc as ->. apply expr_children_ind.
    - apply elem_of_list_singleton in Hc as ->. apply expr_children_ind.
    - apply elem_of_cons in Hc as [->|Hc]; [apply expr_children_ind|].
      apply elem_of_list_singleton in Hc as ->. apply expr_children_ind.
    - apply elem_of_list_singleton in Hc as ->. apply expr_children_ind.
    - apply elem_of_list_singleton in Hc as ->. apply expr_children_ind.
    - apply elem_of_list_singleton in Hc as ->. apply expr_children_ind.
    - apply elem_of_list_singleton in Hc as ->. apply expr_children_ind.
    - apply elem_of_list_singleton in Hc as ->. apply expr_children_ind.
    - apply elem_of_list_singleton in Hc as ->. apply expr_children_ind.
    - apply elem_of_list_singleton in Hc as ->. apply expr_children_ind.
    - apply elem_of_list_singleton in Hc as ->. apply expr_children_ind.
    - (* EAdHoc *)
      revert c Hc. apply Forall_elem. induction data as [|[k v] d IH]; cbn; constructor; [apply expr_children_ind | exact IH].
  Defined.
End expr_children_ind.

(** the fold combinators agree with the child list *)
Lemma forall_children_spec f e : forall_children f e = forallb f (children e).
Proof.
  destruct e; cbn; try reflexivity; rewrite ?andb_true_r; try reflexivity.
  - induction kvs as [|[k v] kvs IH]; cbn; [reflexivity|]. rewrite IH, andb_assoc. reflexivity.
  - induction xs as [|[[p n] a] xs IH]; cbn; [reflexivity|]. rewrite IH, !andb_assoc. reflexivity.
  - induction data as [|[k v] d IH]; cbn; [reflexivity|]. rewrite IH. reflexivity.
Qed.

Lemma flat_children_spec {A} (f : expr -> list A) e : flat_children f e = flat_map f (children e).
Proof.
  destruct e; cbn; rewrite ?app_nil_r; try reflexivity.
  - induction kvs as [|[k v] kvs IH]; cbn; [reflexivity|]. rewrite IH, app_assoc. reflexivity.
  - induction xs as [|[[p n] a] xs IH]; cbn; [reflexivity|]. rewrite IH, !app_assoc. reflexivity.
  - induction data as [|[k v] d IH]; cbn; [reflexivity|]. rewrite IH. reflexivity.
Qed.

Lemma children_map_children f e : children (map_children f e) = map f (children e).
Proof.
  destruct e; cbn; try reflexivity.
  - induction kvs as [|[k v] kvs IH]; cbn; [reflexivity|]. rewrite IH. reflexivity.
  - induction xs as [|[[p n] a] xs IH]; cbn; [reflexivity|]. rewrite IH. reflexivity.
  - induction data as [|[k v] d IH]; cbn; [reflexivity|]. rewrite IH. reflexivity.
Qed.

Lemma map_children_ext f g e :
  (forall c, c ∈ children e -> f c = g c) -> map_children f e = map_children g e.
Proof.
  destruct e; cbn; intros H; try reflexivity;
    repeat match goal with
    | |- context [f ?x] => rewrite (H x) by (repeat (try (left; reflexivity); right))
    end; try reflexivity.
  - f_equal. apply map_ext_in. intros c Hc. apply H. apply elem_of_list_In. exact Hc.
  - f_equal. apply map_ext_in. intros [k v] Hc. cbn.
    assert (Hk: k ∈ flat_map (fun kv : expr * expr => [kv.1; kv.2]) kvs).
    { apply elem_of_list_In, in_flat_map. exists (k, v). split; [exact Hc | left; reflexivity]. }
    assert (Hv: v ∈ flat_map (fun kv : expr * expr => [kv.1; kv.2]) kvs).
    { apply elem_of_list_In, in_flat_map. exists (k, v). split; [exact Hc | right; left; reflexivity]. }
    rewrite (H k Hk), (H v Hv). reflexivity.
  - f_equal. apply map_ext_in. intros c Hc. apply H. apply elem_of_list_In. exact Hc.
  - f_equal. apply map_ext_in. intros [[p n] a] Hc. cbn.
    assert (Hin: forall y, In y [p; n; a] -> y ∈ flat_map (fun x : expr * expr * expr => [x.1.1; x.1.2; x.2]) xs).
    { intros y Hy. apply elem_of_list_In, in_flat_map. exists (p, n, a). split; [exact Hc | exact Hy]. }
    rewrite (H p), (H n), (H a); [reflexivity | | |]; apply Hin; cbn; tauto.
  - f_equal. apply map_ext_in. intros [k v] Hc. cbn. f_equal. apply H.
    apply elem_of_list_fmap. exists (k, v). split; [reflexivity | apply elem_of_list_In; exact Hc].
Qed.

Lemma map_children_compose f g e :
  map_children f (map_children g e) = map_children (fun x => f (g x)) e.
Proof.
  destruct e; cbn; try reflexivity; rewrite ?map_map; reflexivity.
Qed.
