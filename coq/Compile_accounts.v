(** Compile_accounts.v — the list in which a Reward redeemer's index is looked up is the ledger's
    order of reward accounts (network, script credentials before key credentials, hash), and the
    index found for an account is its rank_by in that order (C08). The order lemmas are generic in
    the comparison; they are instantiated with Compile.acct_ltb on well-formed accounts (header
    0xE_ or 0xF_), where the comparison is total. *)
From stdpp Require Import sorting.
From Tx3 Require Import Base Tir Reduce PlutusData Compile Compile_proofs.

Section Generic.
Context {A : Type} `{EqDecision A}.
Variable ltb : A -> A -> bool.
Variable P : A -> Prop.                       (* the elements the order is total on *)
Hypothesis irrefl : forall a, ltb a a = false.
Hypothesis asym : forall a b, ltb a b = true -> ltb b a = false.
Hypothesis trans : forall a b c, ltb a b = true -> ltb b c = true -> ltb a c = true.
Hypothesis total : forall a b, P a -> P b -> ltb a b = false -> ltb b a = false -> a = b.

Fixpoint insert_by (x : A) (l : list A) : list A :=
  match l with [] => [x] | y :: r => if ltb x y then x :: l else y :: insert_by x r end.
Definition isort_by (l : list A) := fold_right insert_by [] l.

Definition le_by (a b : A) : Prop := ltb b a = false.

Lemma le_by_trans a b c : P a -> P b -> le_by a b -> le_by b c -> le_by a c.
Proof.
  unfold le_by. intros Pa Pb Hab Hbc. destruct (ltb c a) eqn:E; [|reflexivity]. exfalso.
  destruct (ltb a b) eqn:Eab.
  - rewrite (trans _ _ _ E Eab) in Hbc. discriminate.
  - rewrite <- (total _ _ Pa Pb Eab Hab) in Hbc. congruence.
Qed.

Lemma insert_by_elem x l y : y ∈ insert_by x l <-> y = x \/ y ∈ l.
Proof.
  induction l as [|z l IH]; cbn; [rewrite elem_of_list_singleton, elem_of_nil; tauto|].
  destruct (ltb x z); rewrite !elem_of_cons; [tauto|]. rewrite IH. tauto.
Qed.

Lemma isort_by_elem l y : y ∈ isort_by l <-> y ∈ l.
Proof.
  induction l as [|x l IH]; cbn; [reflexivity|]. rewrite insert_by_elem, IH, elem_of_cons. reflexivity.
Qed.

Lemma insert_by_sorted x l : P x -> Forall P l -> StronglySorted le_by l -> StronglySorted le_by (insert_by x l).
Proof.
  intros Px HP Hs. induction Hs as [|y l Hs IH Hall]; cbn; [repeat constructor|].
  inversion HP as [|? ? Py HP']; subst.
  destruct (ltb x y) eqn:E.
  - constructor; [constructor; assumption|]. constructor; [apply asym; exact E|].
    rewrite Forall_forall in Hall, HP'. apply Forall_forall. intros z Hz.
    apply (le_by_trans x y z Px Py); [apply asym; exact E | exact (Hall z Hz)].
  - constructor; [apply IH; exact HP'|].
    apply Forall_forall. intros z Hz. apply insert_by_elem in Hz as [->|Hz]; [exact E|].
    rewrite Forall_forall in Hall. exact (Hall z Hz).
Qed.

Theorem isort_by_sorted l : Forall P l -> StronglySorted le_by (isort_by l).
Proof.
  induction l as [|x l IH]; cbn; intros HP; [constructor|]. inversion HP as [|? ? Px HP']; subst.
  apply insert_by_sorted; [exact Px | | apply IH; exact HP'].
  apply Forall_forall. intros z Hz. rewrite Forall_forall in HP'. apply HP'. apply (proj1 (isort_by_elem l z)). exact Hz.
Qed.

Definition rank_by (x : A) (l : list A) : nat := length (filter (fun y => ltb y x = true) l).

Lemma rank_by_zero x l : Forall (le_by x) l -> rank_by x l = O.
Proof.
  unfold rank_by. induction 1 as [|y l Hy _ IH]; [reflexivity|].
  rewrite filter_cons. destruct (decide (ltb y x = true)) as [E|E]; [unfold le_by in Hy; congruence | exact IH].
Qed.

Theorem position_is_rank_by x l k :
  Forall P l -> StronglySorted le_by l ->
  position (fun y => bool_decide (y = x)) l = Some k -> k = rank_by x l.
Proof.
  intros HP Hs. revert k. induction Hs as [|y l Hs IH Hall]; intros k Hp; [discriminate|].
  inversion HP as [|? ? Py HP']; subst. cbn [position] in Hp.
  destruct (bool_decide_reflect (y = x)) as [->|Hne].
  - injection Hp as <-. unfold rank_by. rewrite filter_cons, irrefl.
    destruct (decide (false = true)); [discriminate|]. symmetry. apply rank_by_zero. exact Hall.
  - destruct (position _ l) as [k'|] eqn:Ep; [|discriminate]. injection Hp as <-.
    specialize (IH HP' k' eq_refl). unfold rank_by in *. rewrite filter_cons.
    assert (Hin : x ∈ l).
    { clear -Ep. revert k' Ep. induction l as [|z l IHl]; intros k' Ep; [discriminate|]. cbn in Ep.
      destruct (bool_decide_reflect (z = x)) as [->|_]; [left|]. destruct (position _ l) eqn:E; [|discriminate]. right. eapply IHl. reflexivity. }
    assert (Px : P x) by (rewrite Forall_forall in HP'; exact (HP' x Hin)).
    rewrite Forall_forall in Hall. specialize (Hall x Hin). unfold le_by in Hall.
    destruct (ltb y x) eqn:E.
    + destruct (decide (true = true)); [|congruence]. cbn [length]. f_equal. exact IH.
    + exfalso. apply Hne. apply total; assumption.
Qed.
End Generic.

(** * The instance: reward accounts in the ledger's order *)

Definition enc (a : bytes) : bytes :=
  let '(n, k, h) := acct_key a in n :: (if k then 1%N else 0%N) :: h.

Lemma acct_ltb_enc a b : acct_ltb a b = bytes_ltb (enc a) (enc b).
Proof.
  unfold acct_ltb, enc. destruct (acct_key a) as [[na ka] ha], (acct_key b) as [[nb kb] hb].
  cbn [bytes_ltb]. destruct (na <? nb)%N; [reflexivity|]. destruct (nb <? na)%N; [reflexivity|].
  destruct ka, kb; reflexivity.
Qed.

(** a well-formed reward account: 29 bytes would be the ledger's rule; what the order needs is
    the header byte of a stake address, 0xE_ (key) or 0xF_ (script) *)
Definition wf_acct (a : bytes) : Prop :=
  match a with h :: _ => (224 <= h < 256)%N | [] => False end.

Lemma header_key_injective :
  forallb (fun h1 => forallb (fun h2 =>
    implb ((N.land h1 15 =? N.land h2 15)%N && Bool.eqb (N.land h1 16 =? 0)%N (N.land h2 16 =? 0)%N) (h1 =? h2)%N)
    (map N.of_nat (seq 224 32))) (map N.of_nat (seq 224 32)) = true.
Proof. vm_compute. reflexivity. Qed.

Lemma in_header_range h : (224 <= h < 256)%N -> In h (map N.of_nat (seq 224 32)).
Proof.
  intros Hr. apply in_map_iff. exists (N.to_nat h). split; [lia|]. apply in_seq. lia.
Qed.

Lemma enc_injective a b : wf_acct a -> wf_acct b -> enc a = enc b -> a = b.
Proof.
  destruct a as [|h1 ha], b as [|h2 hb]; cbn [wf_acct]; try contradiction. intros H1 H2.
  unfold enc, acct_key. intros E. injection E as En Ek Eh. subst hb. f_equal.
  pose proof header_key_injective as HI. rewrite forallb_forall in HI.
  specialize (HI h1 (in_header_range h1 H1)). rewrite forallb_forall in HI.
  specialize (HI h2 (in_header_range h2 H2)).
  rewrite En, N.eqb_refl in HI. cbn [andb] in HI.
  assert (Hk : Bool.eqb (N.land h1 16 =? 0)%N (N.land h2 16 =? 0)%N = true).
  { destruct (N.land h1 16 =? 0)%N, (N.land h2 16 =? 0)%N; try reflexivity; discriminate. }
  rewrite Hk in HI. cbn [implb] in HI. apply N.eqb_eq. exact HI.
Qed.

Lemma acct_irrefl a : acct_ltb a a = false.
Proof. rewrite acct_ltb_enc. apply bytes_ltb_irrefl. Qed.
Lemma acct_asym a b : acct_ltb a b = true -> acct_ltb b a = false.
Proof. rewrite !acct_ltb_enc. apply bytes_ltb_asym. Qed.
Lemma acct_trans a b c : acct_ltb a b = true -> acct_ltb b c = true -> acct_ltb a c = true.
Proof. rewrite !acct_ltb_enc. apply bytes_ltb_trans. Qed.
Lemma acct_total a b : wf_acct a -> wf_acct b -> acct_ltb a b = false -> acct_ltb b a = false -> a = b.
Proof.
  rewrite !acct_ltb_enc. intros Ha Hb H1 H2. apply enc_injective; [exact Ha | exact Hb |].
  apply bytes_ltb_total; assumption.
Qed.

Lemma sort_accts_isort l : sort_accts l = isort_by acct_ltb l.
Proof. unfold sort_accts, isort_by. induction l as [|x l IH]; cbn; [reflexivity|]. rewrite IH.
  generalize (foldr (insert_by acct_ltb) [] l). intros m. induction m as [|y m IHm]; cbn; [reflexivity|].
  destruct (acct_ltb x y); [reflexivity|]. rewrite IHm. reflexivity.
Qed.

(** the list a Reward redeemer is looked up in is ascending in the ledger's order ... *)
Theorem sort_accts_sorted l : Forall wf_acct l -> StronglySorted (le_by acct_ltb) (sort_accts l).
Proof.
  rewrite sort_accts_isort. apply (isort_by_sorted acct_ltb wf_acct acct_asym acct_trans acct_total).
Qed.

Theorem sort_accts_perm l x : x ∈ sort_accts l <-> x ∈ l.
Proof. rewrite sort_accts_isort. apply isort_by_elem. Qed.

(** ... and the index found for an account is the number of accounts that the ledger puts before
    it: script credentials of its network first, then key credentials, each by hash *)
Theorem reward_index_is_ledger_rank l x k :
  Forall wf_acct l ->
  position (fun y => bool_decide (y = x)) (sort_accts l) = Some k ->
  k = rank_by acct_ltb x l.
Proof.
  intros Hwf Hp.
  assert (Hwf' : Forall wf_acct (sort_accts l)).
  { apply Forall_forall. intros y Hy. rewrite Forall_forall in Hwf. apply Hwf. apply (proj1 (sort_accts_perm l y)). exact Hy. }
  rewrite (position_is_rank_by acct_ltb wf_acct acct_irrefl acct_total x (sort_accts l) k Hwf' (sort_accts_sorted l Hwf) Hp).
  (* the rank_by counts the same elements in the sorted list and in the original one *)
  unfold rank_by. rewrite sort_accts_isort. clear. induction l as [|y l IH]; [reflexivity|].
  cbn [isort_by foldr]. change (foldr (insert_by acct_ltb) [] l) with (isort_by acct_ltb l).
  rewrite filter_cons.
  assert (G : forall m, length (filter (fun z => acct_ltb z x = true) (insert_by acct_ltb y m))
                        = (if decide (acct_ltb y x = true) then S (length (filter (fun z => acct_ltb z x = true) m))
                           else length (filter (fun z => acct_ltb z x = true) m))).
  { induction m as [|z m IHm]; cbn [insert_by].
    - rewrite filter_cons. destruct (decide (acct_ltb y x = true)); reflexivity.
    - destruct (acct_ltb y z).
      + rewrite filter_cons. destruct (decide (acct_ltb y x = true)); reflexivity.
      + rewrite !filter_cons. destruct (decide (acct_ltb z x = true)); cbn [length]; rewrite IHm;
          destruct (decide (acct_ltb y x = true)); reflexivity. }
  rewrite G, IH. destruct (decide (acct_ltb y x = true)); reflexivity.
Qed.

(** a script account comes before every key account of its network, whatever the hashes *)
Example script_before_key :
  acct_ltb (240 :: repeat 255 28)%N (224 :: repeat 0 28)%N = true /\ bytes_ltb (240 :: repeat 255 28)%N (224 :: repeat 0 28)%N = false.
Proof. vm_compute. split; reflexivity. Qed.

(** * The compiled Reward redeemers *)
From Tx3 Require Import PlutusData_proofs Compile_redeemers.

Section Withdrawals.
Variable mainnet : bool.
Variables addr_parse addr_of_string reward_of_addr : bytes -> option bytes.
Notation withdrawal_redeemers := (withdrawal_redeemers mainnet addr_parse addr_of_string reward_of_addr).
Notation reward_account_of := (reward_account_of mainnet addr_parse addr_of_string reward_of_addr).

(** every Reward redeemer of the witness set comes from a withdrawal directive with a redeemer,
    carries that redeemer's data, and its index is the rank of the directive's own account in
    the ledger's order of the body's reward accounts *)
Theorem withdrawal_redeemers_point_at_account t ws rs :
  Forall wf_acct (map fst (from_option id [] ws)) ->
  withdrawal_redeemers t ws = Ok rs ->
  forall r, r ∈ rs ->
  exists a red c cred d,
    a ∈ withdrawal_directives t /\ data_get "redeemer" (ad_data a) = Some red /\ red <> ENone /\
    data_get "credential" (ad_data a) = Some c /\ reward_account_of c = Ok cred /\
    encode_redeemer red = Ok d /\
    r = mk_ared 3 (Z.of_nat (rank_by acct_ltb cred (map fst (from_option id [] ws)))) d.
Proof.
  intros Hwf H r Hr. unfold Compile.withdrawal_redeemers in H.
  match type of H with (rs0 <- omapM ?f ?l ;; _) = _ => destruct (omapM f l) as [rss| | |] eqn:E; cbn [obind] in H; try discriminate end.
  injection H as <-. apply omapM_Forall2 in E.
  destruct (elem_of_concat_Forall2 _ _ _ _ E Hr) as (a & xs0 & Ha & Hf & Hin).
  destruct (data_get "redeemer" (ad_data a)) as [red|] eqn:Er; [|discriminate].
  destruct red eqn:Ered;
    try (injection Hf as <-; apply elem_of_nil in Hin; contradiction).
  all: destruct (data_get "credential" (ad_data a)) as [c|] eqn:Ec; [|discriminate];
    match type of Hf with (cred <- ?e ;; _) = _ => destruct e as [cred| | |] eqn:Ecred; cbn [obind] in Hf; try discriminate end;
    match type of Hf with match position ?p ?l with _ => _ end = _ => destruct (position p l) as [k|] eqn:Epos; [|discriminate] end;
    match type of Hf with (d <- ?e ;; _) = _ => destruct e as [d| | |] eqn:Ed; cbn [obind] in Hf; try discriminate end;
    injection Hf as <-; apply elem_of_list_singleton in Hin; subst r;
    rewrite (reward_index_is_ledger_rank _ _ _ Hwf Epos);
    eexists a, _, c, cred, d;
    (split; [exact Ha|]); (split; [exact Er|]); (split; [discriminate|]); (split; [exact Ec|]);
    (split; [exact Ecred|]); (split; [exact Ed | reflexivity]).
Qed.
End Withdrawals.
