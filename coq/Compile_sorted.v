(** Compile_sorted.v — the list in which a spend redeemer's index is looked up is the ledger's
    order: sorted by (transaction id, output index), a permutation of the body inputs, and the
    index found for an input is its rank - the number of inputs that precede it (C08). *)
From stdpp Require Import sorting.
From Tx3 Require Import Base Tir Reduce PlutusData Compile Compile_proofs.
Local Open Scope Z_scope.

Lemma ref_ltb_irrefl a : ref_ltb a a = false.
Proof. unfold ref_ltb. rewrite bytes_ltb_irrefl. apply Z.ltb_irrefl. Qed.

Lemma ref_ltb_asym a b : ref_ltb a b = true -> ref_ltb b a = false.
Proof.
  unfold ref_ltb. destruct (bytes_ltb (fst a) (fst b)) eqn:E1.
  - intros _. rewrite (bytes_ltb_asym _ _ E1). reflexivity.
  - destruct (bytes_ltb (fst b) (fst a)) eqn:E2; [discriminate|]. intros H. apply Z.ltb_lt in H. apply Z.ltb_ge. lia.
Qed.

Lemma ref_ltb_trans a b c : ref_ltb a b = true -> ref_ltb b c = true -> ref_ltb a c = true.
Proof.
  unfold ref_ltb.
  destruct (bytes_ltb (fst a) (fst b)) eqn:Eab.
  - intros _. destruct (bytes_ltb (fst b) (fst c)) eqn:Ebc.
    + intros _. rewrite (bytes_ltb_trans _ _ _ Eab Ebc). reflexivity.
    + destruct (bytes_ltb (fst c) (fst b)) eqn:Ecb; [discriminate|]. intros _.
      rewrite <- (bytes_ltb_total _ _ Ebc Ecb). rewrite Eab. reflexivity.
  - destruct (bytes_ltb (fst b) (fst a)) eqn:Eba; [discriminate|]. intros Hab.
    pose proof (bytes_ltb_total _ _ Eab Eba) as Heq.
    destruct (bytes_ltb (fst b) (fst c)) eqn:Ebc.
    + intros _. rewrite Heq. rewrite Ebc. reflexivity.
    + destruct (bytes_ltb (fst c) (fst b)) eqn:Ecb; [discriminate|]. intros Hbc.
      rewrite Heq, Ebc, Ecb. apply Z.ltb_lt in Hab. apply Z.ltb_lt in Hbc. apply Z.ltb_lt. lia.
Qed.

Lemma ref_ltb_total a b : ref_ltb a b = false -> ref_ltb b a = false -> a = b.
Proof.
  unfold ref_ltb. destruct a as [ta ia], b as [tb ib]. cbn [fst snd].
  destruct (bytes_ltb ta tb) eqn:E1; [discriminate|]. destruct (bytes_ltb tb ta) eqn:E2; [discriminate|].
  intros H1 H2. apply Z.ltb_ge in H1. apply Z.ltb_ge in H2.
  rewrite (bytes_ltb_total _ _ E1 E2). f_equal. lia.
Qed.

(** ascending order: no later element is smaller *)
Definition ref_le (a b : bytes * Z) : Prop := ref_ltb b a = false.

Lemma ref_le_trans a b c : ref_le a b -> ref_le b c -> ref_le a c.
Proof.
  unfold ref_le. intros Hab Hbc. destruct (ref_ltb c a) eqn:E; [|reflexivity]. exfalso.
  (* c < a <= b: then c < b or c = ... *)
  destruct (ref_ltb a b) eqn:Eab.
  - rewrite (ref_ltb_trans _ _ _ E Eab) in Hbc. discriminate.
  - rewrite <- (ref_ltb_total _ _ Eab Hab) in Hbc. congruence.
Qed.

Lemma insert_ref_sorted x l : StronglySorted ref_le l -> StronglySorted ref_le (insert_ref x l).
Proof.
  induction 1 as [|y l Hs IH Hall]; cbn; [repeat constructor|].
  destruct (ref_ltb x y) eqn:E.
  - constructor; [constructor; assumption|]. constructor; [apply ref_ltb_asym; exact E|].
    eapply Forall_impl; [exact Hall|]. intros z Hz. eapply ref_le_trans; [|exact Hz]. apply ref_ltb_asym. exact E.
  - constructor; [exact IH|].
    (* every element of insert_ref x l is >= y *)
    clear IH Hs. induction l as [|z l IHl]; cbn.
    + constructor; [exact E|constructor].
    + inversion Hall as [|? ? Hz Hall']; subst. destruct (ref_ltb x z).
      * constructor; [exact E|]. constructor; assumption.
      * constructor; [exact Hz|]. apply IHl. exact Hall'.
Qed.

Theorem sort_refs_sorted l : StronglySorted ref_le (sort_refs l).
Proof. unfold sort_refs. induction l as [|x l IH]; cbn; [constructor|]. apply insert_ref_sorted. exact IH. Qed.

(** in a sorted list without repetitions, the position of an element is the number of
    elements strictly before it in the order: its rank *)
Definition rank (x : bytes * Z) (l : list (bytes * Z)) : nat := length (filter (fun y => ref_ltb y x = true) l).

Lemma rank_ge_zero x l : Forall (ref_le x) l -> x ∉ l -> rank x l = O.
Proof.
  unfold rank. induction 1 as [|y l Hy _ IH]; intros Hn; [reflexivity|].
  rewrite filter_cons. destruct (decide (ref_ltb y x = true)) as [E|E].
  - exfalso. unfold ref_le in Hy. congruence.
  - apply IH. intros Hin. apply Hn. right. exact Hin.
Qed.

Theorem position_is_rank x l k :
  StronglySorted ref_le l -> NoDup l ->
  position (fun y => bool_decide (y = x)) l = Some k -> k = rank x l.
Proof.
  intros Hs. revert k. induction Hs as [|y l Hs IH Hall]; intros k Hnd Hp; [discriminate|].
  inversion Hnd as [|? ? Hny Hnd']; subst. cbn [position] in Hp.
  destruct (bool_decide_reflect (y = x)) as [->|Hne].
  - injection Hp as <-. unfold rank. rewrite filter_cons. rewrite ref_ltb_irrefl.
    destruct (decide (false = true)); [discriminate|]. symmetry. apply rank_ge_zero; assumption.
  - destruct (position _ l) as [k'|] eqn:Ep; [|discriminate]. injection Hp as <-.
    specialize (IH k' Hnd' eq_refl). unfold rank in *. rewrite filter_cons.
    (* x occurs later in the list, so y <= x and y <> x: y < x *)
    assert (Hin : x ∈ l).
    { clear -Ep. revert k' Ep. induction l as [|z l IHl]; intros k' Ep; [discriminate|]. cbn in Ep.
      destruct (bool_decide_reflect (z = x)) as [->|_]; [left|]. destruct (position _ l) eqn:E; [|discriminate]. right. eapply IHl. reflexivity. }
    rewrite Forall_forall in Hall. specialize (Hall x Hin). unfold ref_le in Hall.
    destruct (ref_ltb y x) eqn:E.
    + destruct (decide (true = true)); [|congruence]. cbn [length]. f_equal. exact IH.
    + exfalso. apply Hne. apply ref_ltb_total; assumption.
Qed.

(** outputs of one transaction rank by the number of their index (2 before 10), not by its text *)
Lemma ref_ltb_same_tx t i j : ref_ltb (t, i) (t, j) = (i <? j)%Z.
Proof. unfold ref_ltb. cbn [fst snd]. rewrite bytes_ltb_irrefl. reflexivity. Qed.
Lemma sort_refs_same_tx_pair t i j : (i < j)%Z -> sort_refs [(t, j); (t, i)] = [(t, i); (t, j)].
Proof.
  intros H. cbn [sort_refs fold_right insert_ref]. rewrite ref_ltb_same_tx.
  destruct (Z.ltb_spec j i); [lia|reflexivity].
Qed.
