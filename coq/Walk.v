(** Walk.v — the independent structural walk of property C06: every node of the IR that is
    still an unresolved parameter, whatever position it sits in (Param::Set payloads, query
    fields, index positions, directive fields included). It shares nothing with the
    traversals of Reduce.v except the datatype. *)
From Tx3 Require Export Tir.

Inductive ukind := UValue | UInput | UFees.
Global Instance ukind_eq_dec : EqDecision ukind.
Proof. solve_decision. Defined.

Fixpoint unresolved (e : expr) : list (ukind * string) :=
  match e with
  | EExpectValue n _ => [(UValue, n)]
  | EExpectInput n a m r _ _ => (UInput, n) :: unresolved a ++ unresolved m ++ unresolved r
  | EExpectFees => [(UFees, "fees"%string)]
  | EParamSet x => unresolved x
  | _ => flat_children unresolved e
  end.

Definition tx_unresolved (t : tx) : list (ukind * string) := flat_map unresolved (tx_slots t).
Definition names_of_kind (k : ukind) (l : list (ukind * string)) : list string :=
  map snd (filter (fun x => fst x = k) l).
Definition tx_unresolved_values (t : tx) : list string := names_of_kind UValue (tx_unresolved t).
Definition tx_unresolved_inputs (t : tx) : list string := names_of_kind UInput (tx_unresolved t).
