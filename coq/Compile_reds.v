(** Compile_reds.v — the redeemer list of the witness set is strictly ascending by (tag, index):
    one redeemer per purpose and item, in the order the ledger's map has (C10). *)
From stdpp Require Import sorting.
From Tx3 Require Import Base Assets Select Tir Reduce PlutusData Compile.
Local Open Scope Z_scope.

Definition red_lt (a b : ared) : Prop := red_ltb a b = true.
Definition same_key (a b : ared) : bool := (rd_tag a =? rd_tag b)%N && (rd_index a =? rd_index b).

Lemma red_ltb_spec a b : red_ltb a b = true <-> (rd_tag a < rd_tag b)%N \/ (rd_tag a = rd_tag b /\ rd_index a < rd_index b).
Proof.
  unfold red_ltb. destruct (N.ltb_spec (rd_tag a) (rd_tag b)); [split; auto|].
  destruct (N.ltb_spec (rd_tag b) (rd_tag a)).
  - split; [discriminate|]. intros [?|[? ?]]; lia.
  - rewrite Z.ltb_lt. split; [intros; right; split; [lia|assumption]|]. intros [?|[? ?]]; [lia|assumption].
Qed.
Lemma same_key_spec a b : same_key a b = true <-> rd_tag a = rd_tag b /\ rd_index a = rd_index b.
Proof. unfold same_key. rewrite andb_true_iff, N.eqb_eq, Z.eqb_eq. tauto. Qed.

Lemma red_lt_trans a b c : red_lt a b -> red_lt b c -> red_lt a c.
Proof. unfold red_lt. rewrite !red_ltb_spec. intros [?|[? ?]] [?|[? ?]]; [left|left|left|right; split]; lia. Qed.
Lemma red_lt_same_l a a' b : same_key a' a = true -> red_lt a b -> red_lt a' b.
Proof. unfold red_lt. rewrite same_key_spec, !red_ltb_spec. intros [? ?] [?|[? ?]]; [left|right; split]; lia. Qed.
Lemma red_tricho a b : same_key a b = false -> red_ltb a b = false -> red_lt b a.
Proof.
  unfold red_lt. intros Hk Hl. rewrite red_ltb_spec.
  destruct (N.lt_trichotomy (rd_tag a) (rd_tag b)) as [H|[H|H]].
  - exfalso. assert (red_ltb a b = true) by (apply red_ltb_spec; left; exact H). congruence.
  - destruct (Z.lt_trichotomy (rd_index a) (rd_index b)) as [H'|[H'|H']].
    + exfalso. assert (red_ltb a b = true) by (apply red_ltb_spec; right; split; assumption). congruence.
    + exfalso. assert (same_key a b = true) by (apply same_key_spec; split; assumption). congruence.
    + right. split; [symmetry; exact H|exact H'].
  - left. exact H.
Qed.

Lemma red_put_elem x l y : y ∈ red_put x l -> y = x \/ y ∈ l.
Proof.
  induction l as [|z l IH]; cbn [red_put]; intros H.
  - apply elem_of_list_singleton in H. left. exact H.
  - destruct ((rd_tag x =? rd_tag z)%N && (rd_index x =? rd_index z)).
    + apply elem_of_cons in H as [->|H]; [left; reflexivity|right; right; exact H].
    + destruct (red_ltb x z).
      * apply elem_of_cons in H as [->|H]; [left; reflexivity|right; exact H].
      * apply elem_of_cons in H as [->|H]; [right; left|]. destruct (IH H) as [->|Hl]; [left; reflexivity|right; right; exact Hl].
Qed.

Lemma red_put_sorted x l : StronglySorted red_lt l -> StronglySorted red_lt (red_put x l).
Proof.
  induction l as [|z l IH]; intros Hs; cbn [red_put].
  - repeat constructor.
  - apply StronglySorted_inv in Hs as [Hl Hz]. fold (same_key x z).
    destruct (same_key x z) eqn:Ek.
    + constructor; [exact Hl|]. rewrite Forall_forall in Hz |- *. intros y Hy. eapply red_lt_same_l; [exact Ek|apply Hz; exact Hy].
    + destruct (red_ltb x z) eqn:El.
      * constructor; [constructor; assumption|]. constructor; [exact El|].
        rewrite Forall_forall in Hz |- *. intros y Hy. eapply red_lt_trans; [exact El|apply Hz; exact Hy].
      * constructor; [apply IH; exact Hl|]. rewrite Forall_forall in Hz |- *. intros y Hy.
        destruct (red_put_elem _ _ _ Hy) as [->|Hin]; [apply red_tricho; assumption|apply Hz; exact Hin].
Qed.

Theorem redeemers_strictly_sorted (rs : list ared) :
  StronglySorted red_lt (fold_left (fun acc r => red_put r acc) rs []).
Proof.
  assert (H : forall acc, StronglySorted red_lt acc -> StronglySorted red_lt (fold_left (fun acc r => red_put r acc) rs acc)).
  { induction rs as [|r rs IH]; intros acc Ha; [exact Ha|]. cbn [fold_left]. apply IH. apply red_put_sorted. exact Ha. }
  apply H. constructor.
Qed.

(** hence no two redeemers share a purpose and an index *)
Corollary redeemers_keys_distinct (rs : list ared) :
  NoDup (map (fun r => (rd_tag r, rd_index r)) (fold_left (fun acc r => red_put r acc) rs [])).
Proof.
  pose proof (redeemers_strictly_sorted rs) as Hs. induction Hs as [|a l _ IH Ha]; [constructor|].
  cbn. constructor; [|exact IH]. intros Hin. apply elem_of_list_fmap in Hin as [b [Hk Hb]].
  rewrite Forall_forall in Ha. specialize (Ha _ Hb). unfold red_lt in Ha. apply red_ltb_spec in Ha.
  injection Hk as H1 H2. lia.
Qed.
