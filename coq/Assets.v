(** Assets.v — model of tx3_tir::model::assets::CanonicalAssets
    (crates/tx3-tir/src/model/assets.rs) and of the conversions to and from
    IR asset expressions (crates/tx3-tir/src/reduce/mod.rs, From impls).
    Definitions only; proofs are in Assets_proofs.v. *)
From Tx3 Require Export Base.

Inductive asset_class :=
| Naked
| Named (name : bytes)
| Defined (policy name : bytes).

Global Instance asset_class_eq_dec : EqDecision asset_class.
Proof. solve_decision. Defined.

Definition asset_class_enc (c : asset_class) : (unit + bytes) + (bytes * bytes) :=
  match c with
  | Naked => inl (inl tt)
  | Named n => inl (inr n)
  | Defined p n => inr (p, n)
  end.
Definition asset_class_dec (x : (unit + bytes) + (bytes * bytes)) : asset_class :=
  match x with
  | inl (inl _) => Naked
  | inl (inr n) => Named n
  | inr (p, n) => Defined p n
  end.
Lemma asset_class_dec_enc c : asset_class_dec (asset_class_enc c) = c.
Proof. destruct c; reflexivity. Qed.
Global Instance asset_class_countable : Countable asset_class :=
  inj_countable' asset_class_enc asset_class_dec asset_class_dec_enc.

(** The Rust map may hold zero entries, so they are representable here. *)
Notation assets := (gmap asset_class Z).

Definition get0 (a : assets) (k : asset_class) : Z := default 0 (a !! k).

(** Semantic equality: zero entries are immaterial. *)
Definition aequiv (a b : assets) : Prop := forall k, get0 a k = get0 b k.
Infix "≈" := aequiv (at level 70).

Definition nonzero_entry (kv : asset_class * Z) : Prop := kv.2 <> 0.
Global Instance nonzero_entry_dec kv : Decision (nonzero_entry kv).
Proof. unfold nonzero_entry. apply _. Defined.

Definition strip (a : assets) : assets := filter nonzero_entry a.

(** Constructors (none of them removes a zero amount). *)
Definition a_empty : assets := ∅.
Definition from_naked_amount (z : Z) : assets := {[ Naked := z ]}.
Definition from_named_asset (n : bytes) (z : Z) : assets :=
  match n with [] => from_naked_amount z | _ => {[ Named n := z ]} end.
Definition from_defined_asset (p n : bytes) (z : Z) : assets :=
  match p with [] => from_named_asset n z | _ => {[ Defined p n := z ]} end.
(** from_class_and_amount: the class is put in the form the other constructors use *)
Definition from_class_and_amount (c : asset_class) (z : Z) : assets :=
  match c with
  | Naked => from_naked_amount z
  | Named n => from_named_asset n z
  | Defined p n => from_defined_asset p n z
  end.
Definition from_asset (p n : option bytes) (z : Z) : assets :=
  match p, n with
  | Some p, Some n => from_defined_asset p n z
  | Some p, None => from_defined_asset p [] z
  | None, Some n => from_named_asset n z
  | None, None => from_naked_amount z
  end.

(** impl Neg: every amount negated, zero entries kept. *)
Definition a_neg (a : assets) : assets := Z.opp <$> a.

(** impl Add / Sub: entry-wise, then `retain(|_, v| v != 0)` over the whole map. *)
Definition a_add_raw (a b : assets) : assets :=
  union_with (fun x y => Some (x + y)) a b.
Definition sub_entry (x y : option Z) : option Z :=
  match x, y with
  | None, None => None
  | _, _ => Some (default 0 x - default 0 y)
  end.
Definition a_sub_raw (a b : assets) : assets := merge sub_entry a b.
Definition a_add (a b : assets) : assets := strip (a_add_raw a b).
Definition a_sub (a b : assets) : assets := strip (a_sub_raw a b).

(** saturating_add / saturating_sub (the running totals of input selection): entry-wise, every
    result clamped to the i128 range, zero entries removed. *)
Definition sat (z : Z) : Z := Z.max i128_min (Z.min i128_max z).

Definition a_sat_add (a b : assets) : assets :=
  strip (union_with (fun x y => Some (sat (x + y))) a b).
Definition sat_sub_entry (x y : option Z) : option Z :=
  match x, y with
  | None, None => None
  | _, _ => Some (sat (default 0 x - default 0 y))
  end.
Definition a_sat_sub (a b : assets) : assets := strip (merge sat_sub_entry a b).

(** No intermediate result leaves i128 (dev builds panic, release wraps). *)
Definition all_in_i128 (a : assets) : bool :=
  forallb (fun kv => in_i128 kv.2) (map_to_list a).
Definition add_no_ovf (a b : assets) : bool := all_in_i128 (a_add_raw a b).
Definition sub_no_ovf (a b : assets) : bool := all_in_i128 (a_sub_raw a b).
(** -i128::MIN overflows *)
Definition neg_no_ovf (a : assets) : bool := all_in_i128 (a_neg a).

(** contains_total: every non-zero entry of [other] is positive and covered by a
    non-negative entry of [self]. The Rust loop returns false at the first
    offending entry, so the result is the conjunction over entries, whatever
    the iteration order. *)
Definition ct_entry (self : assets) (kv : asset_class * Z) : bool :=
  let '(k, ob) := kv in
  if ob =? 0 then true
  else if ob <? 0 then false
  else match self !! k with
       | None => false
       | Some sa => if sa <? 0 then false else negb (sa <? ob)
       end.
Definition contains_total (self other : assets) : bool :=
  forallb (ct_entry self) (map_to_list other).

Definition a_is_empty (a : assets) : bool :=
  forallb (fun kv => kv.2 =? 0) (map_to_list a).
Definition is_empty_or_negative (a : assets) : bool :=
  forallb (fun kv => negb (0 <? kv.2)) (map_to_list a).

Definition cs_entry (self : assets) (kv : asset_class * Z) : bool :=
  let '(k, ob) := kv in
  if ob =? 0 then false
  else match self !! k with
       | None => false
       | Some sa => 0 <? sa
       end.
Definition contains_some (self other : assets) : bool :=
  if a_is_empty other then true
  else if a_is_empty self then false
  else existsb (cs_entry self) (map_to_list other).

Definition is_naked (c : asset_class) : bool := match c with Naked => true | _ => false end.
Definition is_only_naked (a : assets) : bool :=
  forallb (fun kv => is_naked kv.1) (map_to_list a).

(** `==` on CanonicalAssets. On the pinned tree this was #[derive(PartialEq)]
    (structural: zero entries distinguish values, finding F15-1); the repaired
    implementation compares every entry of each side with the other side's
    amount-or-zero. [eq_struct] is the derived one, kept for the refutation. *)
Definition eq_struct (a b : assets) : bool := bool_decide (a = b).
Definition covers (a b : assets) : bool :=
  forallb (fun kv => kv.2 =? get0 b kv.1) (map_to_list a).
Definition eq_impl (a b : assets) : bool := covers a b && covers b a.

(** Asset expressions after constant extraction
    (AssetExpr::expect_constant_policy / _name / _amount). *)
Inductive acomp := ANone | ABytes (b : bytes) | AString (b : bytes) | ANumber (z : Z) | AHash (b : bytes) | AOther.
Definition asset_expr : Type := acomp * acomp * acomp.

Definition expect_policy (c : acomp) : option bytes :=
  match c with ABytes b | AHash b => Some b | _ => None end.   (* a policy definition lowers to a Hash *)
Definition expect_name (c : acomp) : option bytes :=
  match c with ABytes b | AString b | AHash b => Some b | _ => None end.   (* a hash as a name is kept as bytes *)

Definition of_expr (e : asset_expr) : outcome assets :=
  let '(p, n, amt) := e in
  match amt with
  | ANumber z => Ok (from_asset (expect_policy p) (expect_name n) z)
  | _ => Panic "expect_constant_amount"
  end.

(** From<Vec<AssetExpr>>: left fold of `+` starting from empty. *)
Fixpoint of_exprs_from (acc : assets) (l : list asset_expr) : outcome assets :=
  match l with
  | [] => Ok acc
  | e :: r => a <- of_expr e ;; of_exprs_from (a_add acc a) r
  end.
Definition of_exprs (l : list asset_expr) : outcome assets := of_exprs_from a_empty l.

Definition class_policy (c : asset_class) : acomp :=
  match c with Defined p _ => ABytes p | _ => ANone end.
Definition class_name (c : asset_class) : acomp :=
  match c with Defined _ n => ABytes n | Named n => ABytes n | Naked => ANone end.
Definition entry_to_expr (kv : asset_class * Z) : asset_expr :=
  (class_policy kv.1, class_name kv.1, ANumber kv.2).
(** From<CanonicalAssets> for Vec<AssetExpr>: one expression per entry, in hash-map
    iteration order — [to_exprs_ord] takes that order as an argument. *)
Definition to_exprs_ord (ord : list (asset_class * Z)) : list asset_expr :=
  map entry_to_expr ord.
Definition to_exprs (a : assets) : list asset_expr := to_exprs_ord (map_to_list a).

(** Classes in the normal form that the constructors `from_*_asset` produce. *)
Definition wf_class (c : asset_class) : bool :=
  match c with
  | Naked => true
  | Named [] => false
  | Named _ => true
  | Defined [] _ => false
  | Defined _ _ => true
  end.
Definition wf_classes (a : assets) : bool :=
  forallb (fun kv => wf_class kv.1) (map_to_list a).

Definition nonneg (a : assets) : Prop := forall k, 0 <= get0 a k.
Definition nonnegb (a : assets) : bool := forallb (fun kv => 0 <=? kv.2) (map_to_list a).

Definition as_homogenous_asset (a : assets) : option (asset_class * Z) :=
  match map_to_list a with
  | [kv] => Some kv
  | _ => None
  end.

(** sum of a list of values, as `fold(empty, |acc, x| acc + x)` *)
Definition a_sum (l : list assets) : assets := fold_left a_add l a_empty.
