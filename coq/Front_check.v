(** Front_check.v — correspondence of Lower.v / Analyze.v with tx3_lang (parse, analyse, lower)
    on generated programs, and the clauses of C13 (accepted programs lower), C17 (the interface
    names what the IR requires) and C18 (one byte string per source) evaluated on the
    implementation's own outputs. *)
From Tx3 Require Import Base Tir Reduce Surface Lower Analyze.

Record tx_obs := mk_tx_obs {
  o_name : string;
  o_kind : N;                     (* lowering: 0 Ok, 1 Err, 2 panic, 9 not run *)
  o_tir : option tx;
  o_layout_same : bool;           (* the same program in another layout lowers to the same bytes *)
  o_repeat_same : bool;           (* repetitions in one process and in fresh processes: one byte string *)
  o_tii_params : list string;     (* keys of TII.transactions[tx].params *)
  o_tii_tir_same : bool;          (* the envelope in the TII decodes to the IR that lowering produced *)
  o_impl_params : list string }.  (* find_params (the implementation's) of the IR decoded from the TII *)

Record case := mk_case {
  c_prog : sprogram;
  c_parse_ok : bool;
  c_accepted : bool;              (* analysis reported no errors *)
  c_analysis_panic : bool;
  c_facade : N;                   (* Workspace::lower: 0 Ok, 1 Err, 2 panic *)
  c_tii : bool;                   (* a TII was emitted for this case *)
  c_tii_parties : list string;
  c_tii_env : list string;
  c_tii_same : bool;              (* the TII file of fresh processes is one byte string *)
  c_txs : list tx_obs }.

Definition kind_of {A} (x : outcome A) : N := match x with Ok _ => 0%N | Err _ => 1%N | _ => 2%N end.
Definition outside {A} (x : outcome A) : bool :=
  match x with Err "OutsideModel" | Err "OutOfFuel" => true | _ => false end.

(** the class of a lowering failure, named after the model's own verdict (the model mirrors the
    code's failure sites); 0 when lowering succeeds *)
Definition fail_class {A} (x : outcome A) : N :=
  match x with
  | Ok _ => 0
  | Panic "spread must be set for missing explicit field" => 132
  | Panic "asset constructor: args[0]" => 133
  | Panic "lowering Identifier: todo!()" => 134
  | Err "InvalidAst" => 135
  | Err "DecodeHexError" => 136
  | Err "MissingAnalyzePhase" => 137
  | Err "MissingRequiredField" => 138
  | Err "InvalidProperty" => 139
  | Err "InvalidSymbol" => 140
  | _ => 149
  end%N.

Definition dup_free (l : list string) : bool := nodupb l.

Definition tx_checks (c : case) (o : tx_obs) : list (N * bool) :=
  let m := lower (c_prog c) (o_name o) in
  let declared := o_tii_params o ++ c_tii_parties c ++ c_tii_env c in
  let required := match o_tir o with Some t => map fst (find_params t) | None => [] end in
  let lower_failed := negb (o_kind o =? 0)%N && negb (o_kind o =? 9)%N in
  let classified := (kind_of m =? o_kind o)%N && (132 <=? fail_class m)%N && (fail_class m <=? 140)%N in
  [ (* tie: the model's verdict and IR are the implementation's *)
    (2%N, if (o_kind o =? 9)%N || outside m then true else (kind_of m =? o_kind o)%N);
    (3%N, match m, o_tir o with
          | Ok t, Some t' => tx_eqb (tx_canon t) (tx_canon t')
          | Ok _, None => (o_kind o =? 9)%N
          | _, _ => true end);
    (* C13: an accepted program lowers; the failure is reported under its class *)
    (131%N, negb (c_accepted c && lower_failed && negb classified)) ] ++
  map (fun k => (k, negb (c_accepted c && lower_failed && (kind_of m =? o_kind o)%N && (fail_class m =? k)%N)))
      [132; 133; 134; 135; 136; 137; 138; 139; 140]%N ++
  [ (* C01 (layout): whitespace and comments never change the result *)
    (161%N, o_layout_same o);
    (* C17 *)
    (171%N, negb (c_tii c) || forallb (fun k => bool_decide (k ∈ declared)) required);
    (172%N, negb (c_tii c) || o_tii_tir_same o);
    (173%N, negb (c_tii c) || dup_free (map to_lower declared));
    (174%N, negb (c_tii c) || forallb (fun k => negb (existsb (fun r => bool_decide (to_lower r = to_lower k)) required)
                                                 || bool_decide (k ∈ required)) declared);
    (* the server keeps only the arguments that find_params reports: every declared key that the
       body uses (the model's walk of the IR) is reported by the implementation's find_params *)
    (175%N, negb (c_tii c) || forallb (fun k => negb (bool_decide (k ∈ declared)) || bool_decide (k ∈ o_impl_params o)) required);
    (5%N, negb (c_tii c) || (forallb (fun k => bool_decide (k ∈ o_impl_params o)) required
                             && forallb (fun k => bool_decide (k ∈ required)) (o_impl_params o)));
    (* C18 *)
    (181%N, o_repeat_same o) ].

Definition checks (c : case) : list (N * bool) :=
  [ (1%N, if c_analysis_panic c || negb (c_parse_ok c) then true else eqb (analyze_ok (c_prog c)) (c_accepted c));
    (* C13: the facade neither panics nor fails on an accepted program *)
    (130%N, negb (c_accepted c) || (c_facade c =? 0)%N
            || existsb (fun o => negb (o_kind o =? 0)%N) (c_txs c));
    (182%N, c_tii_same c) ]
  ++ flat_map (tx_checks c) (c_txs c).

Definition failed (c : case) : list N := map fst (filter (fun x => negb (snd x)) (checks c)).
Fixpoint run_from (i : N) (cs : list case) : list (N * list N) :=
  match cs with
  | [] => []
  | c :: r => match failed c with [] => run_from (i + 1)%N r | f => (i, f) :: run_from (i + 1)%N r end
  end.
Definition run (cs : list case) := run_from 0%N cs.
