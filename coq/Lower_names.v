(** Lower_names.v — every argument name the lowered IR requires is the lower-cased spelling of
    a name the program declares (an environment value, a party or a parameter of the
    transaction): the IR's key set is covered by what the interface publishes (C17). *)
From Tx3 Require Import Base Tir Reduce Surface Lower.

Lemma omapM_cons' {A B} (f : A -> outcome B) x xs :
  omapM f (x :: xs) = (y <- f x ;; ys <- omapM f xs ;; Ok (y :: ys)).
Proof. reflexivity. Qed.

Lemma omapM_Forall {A B} (f : A -> outcome B) (P : B -> Prop) xs ys :
  omapM f xs = Ok ys -> (forall x y, x ∈ xs -> f x = Ok y -> P y) -> Forall P ys.
Proof.
  revert ys. induction xs as [|x xs IH]; intros ys H HP.
  - injection H as <-. constructor.
  - rewrite omapM_cons' in H. destruct (f x) as [y| | |] eqn:E; try discriminate. cbn [obind] in H.
    destruct (omapM f xs) as [ys'| | |] eqn:E2; try discriminate. cbn [obind] in H. injection H as <-.
    constructor; [eapply HP; [left|exact E]|]. apply IH; [reflexivity|]. intros x' y' Hx. apply HP. right. exact Hx.
Qed.

Section Names.
Variable p : sprogram.
Variable t : stx.

Definition declared : list string := map fst (sp_env p) ++ sp_parties p ++ map fst (st_params t).

(** the names an IR expression requires are lower-cased declared names *)
Definition covered (e : expr) : Prop :=
  Forall (fun x => exists n, n ∈ declared /\ fst x = to_lower n) (params e).

Lemma assoc_in {A} n (l : list (string * A)) x : assoc n l = Some x -> n ∈ map fst l.
Proof.
  unfold assoc. destruct (find _ (rev l)) as [[k v]|] eqn:E; cbn; [|discriminate].
  intros _. apply find_some in E as [E1 E2]. apply bool_decide_eq_true in E2. cbn in E2. subst.
  apply in_rev in E1. apply elem_of_list_fmap. exists (n, v). split; [reflexivity|apply elem_of_list_In; exact E1].
Qed.

Lemma resolve_prog_names n s : resolve_prog p n = Some s ->
  match s with
  | SymEnv m _ => m ∈ map fst (sp_env p)
  | SymParty m => m ∈ sp_parties p
  | SymParam _ _ => False
  | _ => True
  end.
Proof.
  unfold resolve_prog.
  destruct (find_last _ (sp_types p)); [intros H; injection H as <-; exact I|].
  destruct (find_last _ (sp_assets p)); [intros H; injection H as <-; exact I|].
  destruct (bool_decide (n = "Ada"%string)); [intros H; injection H as <-; exact I|].
  destruct (assoc n (sp_policies p)); [intros H; injection H as <-; exact I|].
  destruct (bool_decide_reflect (n ∈ sp_parties p)) as [Hin|_]; [intros H; injection H as <-; exact Hin|].
  destruct (assoc n (sp_env p)) eqn:E; [intros H; injection H as <-; eapply assoc_in; exact E|].
  destruct (bool_decide _); [intros H; injection H as <-; exact I|discriminate].
Qed.

Lemma resolve_names n s : resolve p t n = Some s ->
  match s with
  | SymParam m _ => m ∈ map fst (st_params t)
  | SymEnv m _ => m ∈ map fst (sp_env p)
  | SymParty m => m ∈ sp_parties p
  | _ => True
  end.
Proof.
  unfold resolve.
  destruct (index_of_last_from _ _ _ _); [intros H; injection H as <-; exact I|].
  destruct (find_last _ (st_inputs t)); [intros H; injection H as <-; exact I|].
  destruct (assoc n (st_locals t)); [intros H; injection H as <-; exact I|].
  destruct (assoc n (st_params t)) eqn:E; [intros H; injection H as <-; eapply assoc_in; exact E|].
  destruct (bool_decide _); [intros H; injection H as <-; exact I|].
  intros H. pose proof (resolve_prog_names _ _ H) as Hn. destruct s; try exact I; try exact Hn. destruct Hn.
Qed.

Lemma covered_nil e : params e = [] -> covered e.
Proof. unfold covered. intros ->. constructor. Qed.

Lemma covered_value m ty : m ∈ declared -> covered (EExpectValue (to_lower m) ty).
Proof. intros H. unfold covered. cbn. constructor; [|constructor]. exists m. split; [exact H|reflexivity]. Qed.

Lemma in_declared_env m : m ∈ map fst (sp_env p) -> m ∈ declared.
Proof. intros H. unfold declared. apply elem_of_app. left. exact H. Qed.
Lemma in_declared_party m : m ∈ sp_parties p -> m ∈ declared.
Proof. intros H. unfold declared. apply elem_of_app. right. apply elem_of_app. left. exact H. Qed.
Lemma in_declared_param m : m ∈ map fst (st_params t) -> m ∈ declared.
Proof. intros H. unfold declared. apply elem_of_app. right. apply elem_of_app. right. exact H. Qed.

Lemma covered_app2 (mk : expr -> expr -> expr) a b :
  (forall x y, params (mk x y) = params x ++ params y) -> covered a -> covered b -> covered (mk a b).
Proof. intros Hm Ha Hb. unfold covered in *. rewrite Hm. apply Forall_app. split; assumption. Qed.

Lemma covered_flat (es : list expr) : Forall covered es -> Forall (fun x => exists n, n ∈ declared /\ fst x = to_lower n) (flat_map params es).
Proof.
  induction 1 as [|e es He _ IH]; cbn; [constructor|]. apply Forall_app. split; [exact He|exact IH].
Qed.

Theorem lower_expr_covered : forall fuel d c e ir, lower_expr p t fuel d c e = Ok ir -> covered ir.
Proof.
  induction fuel as [|f IH]; intros d c e ir H; [discriminate|].
  destruct e; cbn [lower_expr] in H.
  - injection H as <-. apply covered_nil. reflexivity.
  - injection H as <-. apply covered_nil. reflexivity.
  - injection H as <-. apply covered_nil. reflexivity.
  - injection H as <-. apply covered_nil. reflexivity.
  - discriminate.
  - injection H as <-. apply covered_nil. reflexivity.
  - injection H as <-. apply covered_nil. reflexivity.
  - (* SId *)
    destruct d as [|d']; [discriminate|].
    destruct (resolve p t n) as [sym|] eqn:Er; [|discriminate].
    pose proof (resolve_names _ _ Er) as Hn.
    destruct sym; try discriminate.
    + injection H as <-. apply covered_nil. reflexivity.
    + injection H as <-. apply covered_value. apply in_declared_param. exact Hn.
    + injection H as <-. apply covered_value. apply in_declared_env. exact Hn.
    + injection H as <-. apply covered_value. apply in_declared_party. exact Hn.
    + injection H as <-. destruct (is_address c); apply covered_nil; reflexivity.
    + eapply IH; exact H.
    + (* input *)
      destruct (match in_from i with Some x => lower_expr p t f d' ctx_address x | None => Ok ENone end) as [a| | |] eqn:Ea; try discriminate. cbn [obind] in H.
      destruct (match in_min i with Some x => lower_expr p t f d' ctx_asset x | None => Ok ENone end) as [m| | |] eqn:Em; try discriminate. cbn [obind] in H.
      destruct (match in_ref i with Some x => lower_expr p t f d' c x | None => Ok ENone end) as [r| | |] eqn:Erf; try discriminate. cbn [obind] in H.
      destruct (match in_redeemer i with Some x => lower_expr p t f d' ctx_datum x | None => Ok ENone end) as [rd| | |] eqn:Erd; try discriminate. cbn [obind] in H.
      assert (Hopt : forall c' o y, match o with Some x => lower_expr p t f d' c' x | None => Ok ENone end = Ok y -> covered y).
      { intros c' [x|] y Hy; [eapply IH; exact Hy|injection Hy as <-; apply covered_nil; reflexivity]. }
      assert (Hq : covered (EExpectInput (to_lower (in_name i)) a m r (in_many i) false)).
      { unfold covered. cbn [params]. repeat (apply Forall_app; split); eapply Hopt; eassumption. }
      injection H as <-. destruct (is_asset c); [exact Hq|]. destruct (is_datum c); exact Hq.
    + injection H as <-. apply covered_nil. reflexivity.
  - (* SAddE *)
    destruct (lower_expr p t f d c e1) as [x| | |] eqn:E1; try discriminate. cbn [obind] in H.
    destruct (lower_expr p t f d c e2) as [y| | |] eqn:E2; try discriminate. cbn [obind] in H. injection H as <-.
    apply (covered_app2 EAdd); [reflexivity|eapply IH; exact E1|eapply IH; exact E2].
  - (* SSubE *)
    destruct (lower_expr p t f d c e1) as [x| | |] eqn:E1; try discriminate. cbn [obind] in H.
    destruct (lower_expr p t f d c e2) as [y| | |] eqn:E2; try discriminate. cbn [obind] in H. injection H as <-.
    apply (covered_app2 ESub); [reflexivity|eapply IH; exact E1|eapply IH; exact E2].
  - (* SNegE *)
    destruct (lower_expr p t f d c e) as [x| | |] eqn:E1; try discriminate. cbn [obind] in H. injection H as <-.
    unfold covered. cbn. eapply IH; exact E1.
  - (* SPropE *)
    destruct (lower_expr p t f d c e) as [obj| | |] eqn:E1; try discriminate. cbn [obind] in H.
    pose proof (IH _ _ _ _ E1) as Hobj.
    destruct (target_type p t d e) as [ty|]; [|discriminate].
    assert (Hnum : forall i, covered (EProperty obj (ENumber i))).
    { intros i. apply (covered_app2 EProperty); [reflexivity|exact Hobj|apply covered_nil; reflexivity]. }
    destruct ty; try discriminate;
      try (match type of H with match ?x with _ => _ end = _ => destruct x; [injection H as <-; apply Hnum|discriminate] end).
    (* list *)
    destruct (target_type p t d (SId field)) as [[]|]; try discriminate.
    destruct (lower_expr p t f d c (SId field)) as [i| | |] eqn:E2; try discriminate. cbn [obind] in H. injection H as <-.
    apply (covered_app2 EProperty); [reflexivity|exact Hobj|eapply IH; exact E2].
  - (* SIndex *)
    destruct (lower_expr p t f d c e1) as [obj| | |] eqn:E1; try discriminate. cbn [obind] in H.
    pose proof (IH _ _ _ _ E1) as Hobj.
    assert (Hnum : forall i, covered (EProperty obj (ENumber i))).
    { intros i. apply (covered_app2 EProperty); [reflexivity|exact Hobj|apply covered_nil; reflexivity]. }
    destruct (target_type p t d e1) as [ty|] eqn:Ety; [|discriminate].
    destruct ty; try discriminate;
      try (destruct e2; try discriminate;
           match type of H with match ?x with _ => _ end = _ => destruct x; [injection H as <-; apply Hnum|discriminate] end).
    destruct (target_type p t d e2) as [[]|]; try discriminate.
    destruct (lower_expr p t f d c e2) as [i| | |] eqn:E2; try discriminate. cbn [obind] in H. injection H as <-.
    apply (covered_app2 EProperty); [reflexivity|exact Hobj|eapply IH; exact E2].
  - (* SStruct *)
    destruct d as [|d']; [discriminate|].
    destruct (resolve p t ty) as [sym|]; [|discriminate]. destruct sym; try discriminate.
    destruct (index_of _ (td_cases td)) as [ci|]; [|discriminate].
    destruct (option_map snd (find _ (td_cases td))) as [decl|]; [|discriminate].
    match type of H with obind ?G _ = _ => destruct G as [fs| | |] eqn:Eg; try discriminate end.
    cbn [obind] in H. injection H as <-.
    unfold covered. cbn [params flat_children]. apply covered_flat.
    clear ci. revert fs Eg. generalize O. induction decl as [|[fname fty] decl IHd]; intros i fs Eg.
    + injection Eg as <-. constructor.
    + match type of Eg with obind ?V _ = _ => destruct V as [v| | |] eqn:Ev; try discriminate end. cbn [obind] in Eg.
      match type of Eg with obind ?G _ = _ => destruct G as [rest| | |] eqn:Er2; try discriminate end. cbn [obind] in Eg.
      injection Eg as <-. constructor; [|eapply IHd; exact Er2].
      destruct (option_map snd (find _ fields)) as [ve|]; [eapply IH; exact Ev|].
      destruct spread as [s|]; [|discriminate].
      destruct (lower_expr p t f (S d') c s) as [st| | |] eqn:Es; try discriminate. cbn [obind] in Ev. injection Ev as <-.
      apply (covered_app2 EProperty); [reflexivity|eapply IH; exact Es|apply covered_nil; reflexivity].
  - (* SListE *)
    destruct (omapM (lower_expr p t f d c) xs) as [ys| | |] eqn:E1; try discriminate. cbn [obind] in H. injection H as <-.
    unfold covered. cbn [params flat_children]. apply covered_flat.
    eapply omapM_Forall; [exact E1|]. intros x y _ Hy. eapply IH; exact Hy.
  - (* SMapE *)
    match type of H with obind ?G _ = _ => destruct G as [ps| | |] eqn:Eg; try discriminate end.
    cbn [obind] in H. injection H as <-.
    unfold covered. cbn [params flat_children].
    revert ps Eg. induction kvs as [|[k v] kvs IHk]; intros ps Eg.
    + injection Eg as <-. constructor.
    + cbn [fst snd] in Eg.
      destruct (lower_expr p t f d c k) as [k'| | |] eqn:Ek; try discriminate. cbn [obind] in Eg.
      destruct (lower_expr p t f d c v) as [v'| | |] eqn:Ev; try discriminate. cbn [obind] in Eg.
      match type of Eg with obind ?G _ = _ => destruct G as [r'| | |] eqn:Er2; try discriminate end. cbn [obind] in Eg.
      injection Eg as <-. cbn [flat_map fst snd]. repeat (apply Forall_app; split).
      * eapply IH; exact Ek.
      * eapply IH; exact Ev.
      * apply IHk. reflexivity.
  - (* SConcat *)
    destruct (lower_expr p t f d c e1) as [x| | |] eqn:E1; try discriminate. cbn [obind] in H.
    destruct (lower_expr p t f d c e2) as [y| | |] eqn:E2; try discriminate. cbn [obind] in H. injection H as <-.
    apply (covered_app2 EConcat); [reflexivity|eapply IH; exact E1|eapply IH; exact E2].
  - (* SAnyAssetE *)
    destruct (lower_expr p t f d ctx_datum e1) as [x| | |] eqn:E1; try discriminate. cbn [obind] in H.
    destruct (lower_expr p t f d ctx_datum e2) as [y| | |] eqn:E2; try discriminate. cbn [obind] in H.
    destruct (lower_expr p t f d ctx_datum e3) as [z| | |] eqn:E3; try discriminate. cbn [obind] in H. injection H as <-.
    unfold covered. cbn [params flat_children flat_map fst snd]. rewrite app_nil_r.
    repeat (apply Forall_app; split); eapply IH; eassumption.
  - (* SCall *)
    assert (Hone : forall (mk : expr -> expr) r, (forall x, params (mk x) = params x) ->
              match args with [a] => x <- lower_expr p t f d c a ;; Ok (mk x) | _ => lower_error "InvalidAst" end = Ok r -> covered r).
    { intros mk r Hm Hr. destruct args as [|a' [|b rr]]; try discriminate.
      destruct (lower_expr p t f d c a') as [x| | |] eqn:E1; try discriminate. cbn [obind] in Hr. injection Hr as <-.
      unfold covered. rewrite Hm. eapply IH; exact E1. }
    destruct (bool_decide (f0 = "min_utxo"%string)); [eapply (Hone EMinUtxo); [reflexivity|exact H]|].
    destruct (bool_decide (f0 = "tip_slot"%string)).
    { destruct args; [injection H as <-; apply covered_nil; reflexivity|discriminate]. }
    destruct (bool_decide (f0 = "slot_to_time"%string)); [eapply (Hone ESlotToTime); [reflexivity|exact H]|].
    destruct (bool_decide (f0 = "time_to_slot"%string)); [eapply (Hone ETimeToSlot); [reflexivity|exact H]|].
    destruct d as [|d']; [discriminate|].
    destruct (resolve p t f0) as [sym|]; [|discriminate]. destruct sym; try discriminate.
    assert (Hpart : forall x y, match x with SUnit => Ok ENone | _ => lower_expr p t f (S d') c x end = Ok y -> covered y).
    { intros x y Hy. destruct x; try (eapply IH; exact Hy). injection Hy as <-. apply covered_nil. reflexivity. }
    match type of H with obind ?G _ = _ => destruct G as [x| | |] eqn:E1; try discriminate end. cbn [obind] in H.
    match type of H with obind ?G _ = _ => destruct G as [y| | |] eqn:E2; try discriminate end. cbn [obind] in H.
    destruct args as [|a r]; [discriminate|].
    destruct (lower_expr p t f (S d') c a) as [z| | |] eqn:E3; try discriminate. cbn [obind] in H. injection H as <-.
    unfold covered. cbn [params flat_children flat_map fst snd]. rewrite app_nil_r.
    repeat (apply Forall_app; split); [eapply Hpart; exact E1|eapply Hpart; exact E2|eapply IH; exact E3].
Qed.
End Names.

(** * whole transactions *)

(** kernel conversion hint only (see Lower_proofs.v) *)
Strategy opaque [lower_expr].

Section TxNames.
Variable p : sprogram.
Variable t : stx.

Notation cov := (covered p t).

Lemma lower_opt_cov c o y : lower_opt p t c o = Ok y -> cov y.
Proof.
  destruct o as [e|]; cbn [lower_opt]; intros H; [eapply lower_expr_covered; exact H|].
  injection H as <-. apply covered_nil. reflexivity.
Qed.

Lemma option_mapM_cov c o r : option_mapM (lower_expr p t lfuel ldepth c) o = Ok r ->
  match r with Some y => cov y | None => True end.
Proof.
  destruct o as [e|]; cbn [option_mapM]; intros H; [|injection H as <-; exact I].
  destruct (lower_expr p t lfuel ldepth c e) as [y| | |] eqn:E; try discriminate. cbn [obind] in H. injection H as <-.
  eapply lower_expr_covered; exact E.
Qed.

Lemma str_insert_in k v l x : x ∈ str_insert k v l -> x = (k, v) \/ x ∈ l.
Proof.
  induction l as [|[k' v'] l IH]; cbn; intros H.
  - apply elem_of_list_singleton in H. left. exact H.
  - destruct (bool_decide (k = k')).
    + apply elem_of_cons in H as [->|H]; [left; reflexivity|right; right; exact H].
    + destruct (String.ltb k k').
      * apply elem_of_cons in H as [->|H]; [left; reflexivity|right; exact H].
      * apply elem_of_cons in H as [->|H]; [right; left|]. destruct (IH H) as [->|Hin]; [left; reflexivity|right; right; exact Hin].
Qed.

Lemma data_map_in l x : x ∈ data_map l -> x ∈ l.
Proof.
  unfold data_map. assert (G : forall acc, x ∈ fold_left (fun acc kv => str_insert (fst kv) (snd kv) acc) l acc -> x ∈ acc \/ x ∈ l).
  { induction l as [|[k v] l IH]; cbn; intros acc H; [left; exact H|].
    destruct (IH _ H) as [H1|H1]; [|right; right; exact H1].
    destruct (str_insert_in _ _ _ _ H1) as [->|H2]; [right; left|left; exact H2]. }
  intros H. destruct (G [] H) as [H1|H1]; [inversion H1|exact H1].
Qed.

Lemma data_map_cov l : Forall (fun kv => cov (snd kv)) l -> Forall cov (map snd (data_map l)).
Proof.
  intros H. apply Forall_forall. intros e He. apply elem_of_list_fmap in He as [[k v] [-> Hin]].
  apply data_map_in in Hin. rewrite Forall_forall in H. apply (H _ Hin).
Qed.

Lemma directive_cov d a : lower_directive p t d = Ok a -> Forall cov (map snd (ad_data a)).
Proof.
  destruct d; cbn [lower_directive]; intros H.
  - destruct from as [fe|]; [|discriminate].
    destruct (lower_expr p t lfuel ldepth ctx_default fe) as [cred| | |] eqn:E1; try discriminate. cbn [obind] in H.
    destruct amount as [ae|]; [|discriminate].
    destruct (lower_expr p t lfuel ldepth ctx_default ae) as [amt| | |] eqn:E2; try discriminate. cbn [obind] in H.
    destruct (lower_opt p t ctx_default redeemer) as [red| | |] eqn:E3; try discriminate. cbn [obind] in H.
    injection H as <-. cbn [ad_data]. apply data_map_cov.
    repeat constructor; cbn [snd]; [eapply lower_expr_covered; exact E1|eapply lower_expr_covered; exact E2|eapply lower_opt_cov; exact E3].
  - destruct (option_mapM (lower_expr p t lfuel ldepth ctx_default) version) as [v| | |] eqn:E1; try discriminate. cbn [obind] in H.
    destruct (option_mapM (lower_expr p t lfuel ldepth ctx_default) script) as [sc| | |] eqn:E2; try discriminate. cbn [obind] in H.
    injection H as <-. cbn [ad_data]. apply data_map_cov.
    apply option_mapM_cov in E1. apply option_mapM_cov in E2.
    apply Forall_app. split; [destruct v|destruct sc]; cbn; repeat constructor; assumption.
  - destruct (option_mapM (lower_expr p t lfuel ldepth ctx_default) script) as [sc| | |] eqn:E2; try discriminate. cbn [obind] in H.
    injection H as <-. cbn [ad_data]. apply data_map_cov. apply option_mapM_cov in E2.
    destruct sc; cbn; repeat constructor; assumption.
  - destruct (lower_expr p t lfuel ldepth ctx_default coin) as [c| | |] eqn:E1; try discriminate. cbn [obind] in H.
    injection H as <-. cbn. repeat constructor. eapply lower_expr_covered; exact E1.
  - destruct (option_mapM (lower_expr p t lfuel ldepth ctx_address) to) as [a1| | |] eqn:E1; try discriminate. cbn [obind] in H.
    destruct (option_mapM (lower_expr p t lfuel ldepth ctx_asset) amount) as [a2| | |] eqn:E2; try discriminate. cbn [obind] in H.
    destruct (option_mapM (lower_expr p t lfuel ldepth ctx_datum) datum) as [a3| | |] eqn:E3; try discriminate. cbn [obind] in H.
    destruct (option_mapM (lower_expr p t lfuel ldepth ctx_default) version) as [a4| | |] eqn:E4; try discriminate. cbn [obind] in H.
    destruct (option_mapM (lower_expr p t lfuel ldepth ctx_default) script) as [a5| | |] eqn:E5; try discriminate. cbn [obind] in H.
    injection H as <-. cbn [ad_data]. apply data_map_cov.
    apply option_mapM_cov in E1, E2, E3, E4, E5.
    repeat (apply Forall_app; split); [destruct a1|destruct a2|destruct a3|destruct a4|destruct a5]; cbn; repeat constructor; assumption.
  - destruct (lower_expr p t lfuel ldepth ctx_default drep) as [dr| | |] eqn:E1; try discriminate. cbn [obind] in H.
    destruct (lower_expr p t lfuel ldepth ctx_default stake) as [st| | |] eqn:E2; try discriminate. cbn [obind] in H.
    injection H as <-. cbn [ad_data]. apply data_map_cov.
    repeat constructor; cbn [snd]; eapply lower_expr_covered; eassumption.
Qed.

Lemma Forall_flat_map {A B} (P : B -> Prop) (f : A -> list B) l : (forall x, x ∈ l -> Forall P (f x)) -> Forall P (flat_map f l).
Proof.
  induction l as [|a l IH]; cbn; intros H; [constructor|]. apply Forall_app. split; [apply H; left|].
  apply IH. intros x Hx. apply H. right. exact Hx.
Qed.

Theorem lower_tx_covered ir : lower_tx p t = Ok ir -> Forall cov (tx_slots ir).
Proof.
  unfold lower_tx. intros H.
  destruct (omapM _ (st_references t)) as [refs| | |] eqn:E1; try discriminate. cbn [obind] in H.
  destruct (omapM (lower_input_block p t) (st_inputs t)) as [ins| | |] eqn:E2; try discriminate. cbn [obind] in H.
  destruct (omapM (lower_output_block p t) (st_outputs t)) as [outs| | |] eqn:E3; try discriminate. cbn [obind] in H.
  match type of H with obind ?V _ = _ => destruct V as [val| | |] eqn:E4; try discriminate end. cbn [obind] in H.
  destruct (omapM (lower_mint p t) (st_mints t)) as [mints| | |] eqn:E5; try discriminate. cbn [obind] in H.
  destruct (omapM (lower_mint p t) (st_burns t)) as [burns| | |] eqn:E6; try discriminate. cbn [obind] in H.
  destruct (omapM (lower_directive p t) (st_directives t)) as [adh| | |] eqn:E7; try discriminate. cbn [obind] in H.
  destruct (omapM (lower_collateral p t) (st_collateral t)) as [coll| | |] eqn:E8; try discriminate. cbn [obind] in H.
  match type of H with obind ?V _ = _ => destruct V as [sig| | |] eqn:E9; try discriminate end. cbn [obind] in H.
  match type of H with obind ?V _ = _ => destruct V as [md| | |] eqn:E10; try discriminate end. cbn [obind] in H.
  injection H as <-. unfold tx_slots. cbn [tx_inputs tx_outputs tx_mints tx_burns tx_fees tx_adhoc tx_signers tx_validity tx_metadata tx_references tx_collateral].
  assert (Hmint : forall ms rs, omapM (lower_mint p t) ms = Ok rs -> Forall cov (flat_map (fun m => [m_amount m; m_redeemer m]) rs)).
  { intros ms rs Hm. apply Forall_flat_map. intros m Hin.
    assert (HF : Forall (fun m => cov (m_amount m) /\ cov (m_redeemer m)) rs).
    { eapply omapM_Forall; [exact Hm|]. intros x y _ Hy. unfold lower_mint in Hy.
      destruct (lower_opt p t ctx_default (sm_amount x)) as [a| | |] eqn:Ea; try discriminate. cbn [obind] in Hy.
      destruct (lower_opt p t ctx_default (sm_redeemer x)) as [r| | |] eqn:Er; try discriminate. cbn [obind] in Hy.
      injection Hy as <-. cbn. split; eapply lower_opt_cov; eassumption. }
    rewrite Forall_forall in HF. destruct (HF _ Hin). repeat constructor; assumption. }
  repeat (apply Forall_app; split).
  - (* inputs *)
    apply Forall_flat_map. intros i Hin.
    assert (HF : Forall (fun i => cov (i_utxos i) /\ cov (i_redeemer i)) ins).
    { eapply omapM_Forall; [exact E2|]. intros x y _ Hy. unfold lower_input_block in Hy.
      destruct (lower_opt p t ctx_address (in_from x)) as [a| | |] eqn:Ea; try discriminate. cbn [obind] in Hy.
      destruct (lower_opt p t ctx_asset (in_min x)) as [m| | |] eqn:Em; try discriminate. cbn [obind] in Hy.
      destruct (lower_opt p t ctx_default (in_ref x)) as [r| | |] eqn:Er; try discriminate. cbn [obind] in Hy.
      destruct (lower_opt p t ctx_datum (in_redeemer x)) as [rd| | |] eqn:Erd; try discriminate. cbn [obind] in Hy.
      injection Hy as <-. cbn [i_utxos i_redeemer]. split; [|eapply lower_opt_cov; exact Erd].
      unfold covered. cbn [params]. repeat (apply Forall_app; split); eapply lower_opt_cov; eassumption. }
    rewrite Forall_forall in HF. destruct (HF _ Hin). repeat constructor; assumption.
  - (* outputs *)
    apply Forall_flat_map. intros o Hin.
    assert (HF : Forall (fun o => cov (out_address o) /\ cov (out_datum o) /\ cov (out_amount o)) outs).
    { eapply omapM_Forall; [exact E3|]. intros x y _ Hy. unfold lower_output_block in Hy.
      destruct (lower_opt p t ctx_address (so_to x)) as [a| | |] eqn:Ea; try discriminate. cbn [obind] in Hy.
      destruct (lower_opt p t ctx_datum (so_datum x)) as [dd| | |] eqn:Ed; try discriminate. cbn [obind] in Hy.
      destruct (lower_opt p t ctx_asset (so_amount x)) as [m| | |] eqn:Em; try discriminate. cbn [obind] in Hy.
      injection Hy as <-. cbn. repeat split; eapply lower_opt_cov; eassumption. }
    rewrite Forall_forall in HF. destruct (HF _ Hin) as (? & ? & ?). repeat constructor; assumption.
  - eapply Hmint; exact E5.
  - eapply Hmint; exact E6.
  - repeat constructor.
  - (* directives *)
    apply Forall_flat_map. intros a Hin.
    assert (HF : Forall (fun a => Forall cov (map snd (ad_data a))) adh).
    { eapply omapM_Forall; [exact E7|]. intros x y _ Hy. eapply directive_cov; exact Hy. }
    rewrite Forall_forall in HF. apply (HF _ Hin).
  - (* signers *)
    destruct (st_signers t) as [ss|]; [|injection E9 as <-; constructor].
    destruct (omapM (lower_expr p t lfuel ldepth ctx_default) ss) as [xs| | |] eqn:Es; try discriminate. cbn [obind] in E9.
    injection E9 as <-. cbn. eapply omapM_Forall; [exact Es|]. intros x y _ Hy. eapply lower_expr_covered; exact Hy.
  - (* validity *)
    destruct (st_validity t) as [[a b]|]; [|injection E4 as <-; constructor].
    destruct (lower_opt p t ctx_default a) as [s| | |] eqn:Ea; try discriminate. cbn [obind] in E4.
    destruct (lower_opt p t ctx_default b) as [u| | |] eqn:Eb; try discriminate. cbn [obind] in E4.
    injection E4 as <-. cbn. repeat constructor; eapply lower_opt_cov; eassumption.
  - (* metadata *)
    apply Forall_flat_map. intros m Hin.
    destruct (st_metadata t) as [kvs|]; [|injection E10 as <-; inversion Hin].
    assert (HF : Forall (fun m => cov (md_key m) /\ cov (md_value m)) md).
    { eapply omapM_Forall; [exact E10|]. intros x y _ Hy. cbn beta in Hy.
      destruct (lower_expr p t lfuel ldepth ctx_default (fst x)) as [k| | |] eqn:Ek; try discriminate. cbn [obind] in Hy.
      destruct (lower_expr p t lfuel ldepth ctx_default (snd x)) as [v| | |] eqn:Ev; try discriminate. cbn [obind] in Hy.
      injection Hy as <-. cbn. split; eapply lower_expr_covered; eassumption. }
    rewrite Forall_forall in HF. destruct (HF _ Hin). repeat constructor; assumption.
  - (* references *)
    eapply omapM_Forall; [exact E1|]. intros x y _ Hy. eapply lower_expr_covered; exact Hy.
  - (* collateral *)
    eapply omapM_Forall; [exact E8|]. intros x y _ Hy. unfold lower_collateral in Hy.
    destruct (lower_opt p t ctx_default (fst (fst x))) as [a| | |] eqn:Ea; try discriminate. cbn [obind] in Hy.
    destruct (lower_opt p t ctx_default (snd (fst x))) as [m| | |] eqn:Em; try discriminate. cbn [obind] in Hy.
    destruct (lower_opt p t ctx_default (snd x)) as [r| | |] eqn:Er; try discriminate. cbn [obind] in Hy.
    injection Hy as <-. unfold covered. cbn [params]. repeat (apply Forall_app; split); eapply lower_opt_cov; eassumption.
Qed.

(** the argument keys a lowered transaction reports are lower-cased declared names *)
Theorem lowered_params_are_declared ir : lower_tx p t = Ok ir ->
  forall k, k ∈ map fst (tx_params ir) -> exists n, n ∈ declared p t /\ k = to_lower n.
Proof.
  intros H k Hk. apply lower_tx_covered in H.
  apply elem_of_list_fmap in Hk as [[k' ty] [-> Hin]]. unfold tx_params in Hin.
  apply elem_of_list_In, in_flat_map in Hin as [e [He Hp]].
  rewrite Forall_forall in H. specialize (H e (proj2 (elem_of_list_In _ _) He)).
  unfold covered in H. rewrite Forall_forall in H. apply (H (k', ty)). apply elem_of_list_In. exact Hp.
Qed.
End TxNames.
