(** Lower_proofs.v — the analyzer's acceptance implies that lowering succeeds (C13), for the
    models of both (Analyze.v, Lower.v). *)
From Tx3 Require Import Base Tir Reduce Surface Lower Analyze.

Lemma omapM_cons {A B} (f : A -> outcome B) x xs :
  omapM f (x :: xs) = (y <- f x ;; ys <- omapM f xs ;; Ok (y :: ys)).
Proof. reflexivity. Qed.
Lemma omapM_ok {A B} (f : A -> outcome B) (xs : list A) :
  (forall x, x ∈ xs -> exists y, f x = Ok y) -> exists ys, omapM f xs = Ok ys.
Proof.
  induction xs as [|x xs IH]; intros H; [eexists; reflexivity|].
  rewrite omapM_cons.
  destruct (H x) as [y Hy]; [left|]. rewrite Hy. cbn [obind].
  destruct IH as [ys Hys]; [intros z Hz; apply H; right; exact Hz|].
  rewrite Hys. cbn [obind]. eexists; reflexivity.
Qed.

Lemma forallb_elem {A} (f : A -> bool) l x : forallb f l = true -> x ∈ l -> f x = true.
Proof. intros H Hin. rewrite forallb_forall in H. apply H. apply elem_of_list_In. exact Hin. Qed.

Lemma find_elem {A} (f : A -> bool) l x : find f l = Some x -> x ∈ l /\ f x = true.
Proof. intros H. apply find_some in H as [H1 H2]. split; [apply elem_of_list_In; exact H1|exact H2]. Qed.

Lemma index_of_find {A} (f : A -> bool) l x : find f l = Some x -> exists i, index_of f l = Some i.
Proof.
  induction l as [|a l IH]; cbn; [discriminate|]. destruct (f a); [eexists; reflexivity|].
  intros H. destruct (IH H) as [i Hi]. rewrite Hi. eexists; reflexivity.
Qed.

Lemma forall_pairs_elem {A B} (f : A -> bool) (g : B -> bool) l x :
  forall_pairs f g l = true -> x ∈ l -> f (fst x) = true /\ g (snd x) = true.
Proof.
  induction l as [|a l IH]; cbn; intros H Hin; [inversion Hin|].
  apply andb_true_iff in H as [H H3]. apply andb_true_iff in H as [H1 H2].
  apply elem_of_cons in Hin as [->|Hin]; [split; assumption|]. apply IH; assumption.
Qed.

Lemma elem_of_rev {A} (x : A) l : x ∈ rev l -> x ∈ l.
Proof. rewrite !elem_of_list_In. apply in_rev. Qed.

Section Proofs.
Variable p : sprogram.
Variable t : stx.

(** the static type does not depend on the resolution depth as long as the expression is
    resolved at that depth *)
Lemma target_type_deep : forall fuel d e, deep p t fuel d e = true -> target_type p t d e = target_type p t ldepth e.
Proof.
  induction fuel as [|f IH]; intros d e H; [discriminate|].
  destruct e; cbn [deep] in H; cbn [target_type]; try reflexivity.
  - (* SId *) destruct d; [discriminate|]. reflexivity.
  - apply andb_true_iff in H as [H1 H2]. apply IH; exact H1.
  - apply andb_true_iff in H as [H1 H2]. apply IH; exact H1.
  - apply IH; exact H.
  - (* SPropE *)
    apply andb_true_iff in H as [H H3]. apply andb_true_iff in H as [H1 H2].
    destruct d; [discriminate|]. rewrite (IH _ _ H2). reflexivity.
  - (* SIndex *) apply andb_true_iff in H as [H1 H2]. apply IH; exact H2.
  - (* SListE *) destruct xs as [|x xs]; [reflexivity|]. cbn in H. apply andb_true_iff in H as [H1 H2].
    rewrite (IH _ _ H1). reflexivity.
  - (* SMapE *) destruct kvs as [|[k v] kvs]; [reflexivity|]. cbn in H.
    apply andb_true_iff in H as [H H3]. apply andb_true_iff in H as [H1 H2].
    rewrite (IH _ _ H1), (IH _ _ H2). reflexivity.
  - (* SConcat *) apply andb_true_iff in H as [H1 H2]. apply IH; exact H1.
Qed.

Hypothesis Hprog : program_ok p = true.
Hypothesis Hlocals : forallb (fun l => expr_ok p t (snd l)) (st_locals t) = true.
Hypothesis Hinputs :
  forallb (fun i => opt_ok p t (in_from i) && opt_ok p t (in_min i) && opt_ok p t (in_ref i) && opt_ok p t (in_redeemer i)) (st_inputs t) = true.

Lemma assoc_elem {A} n (l : list (string * A)) x : assoc n l = Some x -> (n, x) ∈ l.
Proof.
  unfold assoc. destruct (find _ (rev l)) as [[k v]|] eqn:E; cbn; [|discriminate].
  intros H. injection H as <-. apply find_elem in E as [E1 E2]. apply bool_decide_eq_true in E2. cbn in E2. subst.
  apply elem_of_rev. exact E1.
Qed.

Lemma resolve_local n x : resolve p t n = Some (SymLocal x) -> expr_ok p t x = true.
Proof.
  unfold resolve.
  destruct (index_of_last_from _ _ _ _); [discriminate|].
  destruct (find_last _ (st_inputs t)); [discriminate|].
  destruct (assoc n (st_locals t)) eqn:E.
  - intros H. injection H as <-. apply assoc_elem in E.
    apply (forallb_elem _ _ _ Hlocals) in E. exact E.
  - destruct (assoc n (st_params t)); [discriminate|].
    destruct (bool_decide _); [discriminate|].
    unfold resolve_prog. repeat (match goal with |- context [match ?x with _ => _ end] => destruct x end; try discriminate).
Qed.

Lemma resolve_input n i : resolve p t n = Some (SymInput i) ->
  opt_ok p t (in_from i) = true /\ opt_ok p t (in_min i) = true /\ opt_ok p t (in_ref i) = true /\ opt_ok p t (in_redeemer i) = true.
Proof.
  unfold resolve.
  destruct (index_of_last_from _ _ _ _); [discriminate|].
  destruct (find_last _ (st_inputs t)) eqn:E.
  - intros H. injection H as <-. unfold find_last in E. apply find_elem in E as [E1 _]. apply elem_of_rev in E1.
    apply (forallb_elem _ _ _ Hinputs) in E1.
    repeat (apply andb_true_iff in E1 as [E1 ?]). repeat split; assumption.
  - destruct (assoc n (st_locals t)); [discriminate|].
    destruct (assoc n (st_params t)); [discriminate|].
    destruct (bool_decide _); [discriminate|].
    unfold resolve_prog. repeat (match goal with |- context [match ?x with _ => _ end] => destruct x end; try discriminate).
Qed.

(** asset definitions are literals *)
Lemma resolve_asset n pol name : resolve p t n = Some (SymAsset pol name) ->
  (pol = SUnit /\ name = SUnit) \/ (lit_bytes pol = true /\ lit_bytes name = true).
Proof.
  unfold resolve.
  destruct (index_of_last_from _ _ _ _); [discriminate|].
  destruct (find_last _ (st_inputs t)); [discriminate|].
  destruct (assoc n (st_locals t)); [discriminate|].
  destruct (assoc n (st_params t)); [discriminate|].
  destruct (bool_decide _); [discriminate|].
  unfold resolve_prog.
  destruct (find_last _ (sp_types p)); [discriminate|].
  destruct (find_last _ (sp_assets p)) as [[[an ap] aname]|] eqn:E.
  - intros H. injection H as <- <-. right. unfold find_last in E. apply find_elem in E as [E1 _]. apply elem_of_rev in E1.
    unfold program_ok in Hprog. apply andb_true_iff in Hprog as [Hp _]. apply andb_true_iff in Hp as [_ Hp].
    apply (forallb_elem _ _ _ Hp) in E1. cbn in E1. apply andb_true_iff in E1. exact E1.
  - destruct (bool_decide (n = "Ada"%string)); [intros H; injection H as <- <-; left; split; reflexivity|].
    repeat (match goal with |- context [match ?x with _ => _ end] => destruct x end; try discriminate).
Qed.

Ltac ok_bind H := let y := fresh "y" in let Hy := fresh "Hy" in destruct H as [y Hy]; rewrite Hy; cbn [obind].

Theorem lower_expr_total : forall fuel d c e,
  expr_ok p t e = true -> deep p t fuel d e = true -> exists ir, lower_expr p t fuel d c e = Ok ir.
Proof.
  induction fuel as [|f IH]; intros d c e Hok Hd; [discriminate|].
  destruct e; cbn [deep] in Hd; cbn [expr_ok] in Hok; try discriminate; cbn [lower_expr].
  - eexists; reflexivity.
  - eexists; reflexivity.
  - eexists; reflexivity.
  - eexists; reflexivity.
  - eexists; reflexivity.
  - eexists; reflexivity.
  - (* SId *)
    destruct d as [|d']; [discriminate|].
    unfold value_kind in Hok.
    destruct (resolve p t n) as [sym|] eqn:Er; [|discriminate].
    destruct sym; try discriminate; try (eexists; reflexivity).
    + (* local *) apply IH; [eapply resolve_local; exact Er|exact Hd].
    + (* input *)
      destruct (resolve_input _ _ Er) as (H1 & H2 & H3 & H4).
      repeat (apply andb_true_iff in Hd as [Hd ?]).
      assert (Hf : forall c' o, opt_ok p t o = true -> (match o with Some x => deep p t f d' x | None => true end) = true ->
                                exists y, match o with Some x => lower_expr p t f d' c' x | None => Ok ENone end = Ok y).
      { intros c' [x|] Ho Hdx; [apply IH; assumption|eexists; reflexivity]. }
      destruct (Hf ctx_address _ H1) as [y1 ->]; [assumption|]. cbn [obind].
      destruct (Hf ctx_asset _ H2) as [y2 ->]; [assumption|]. cbn [obind].
      destruct (Hf c _ H3) as [y3 ->]; [assumption|]. cbn [obind].
      destruct (Hf ctx_datum _ H4) as [y4 ->]; [assumption|]. cbn [obind].
      eexists; reflexivity.
  - (* SAddE *) apply andb_true_iff in Hok as [? ?]. apply andb_true_iff in Hd as [? ?].
    destruct (IH d c e1) as [y1 ->]; [assumption..|]. cbn [obind].
    destruct (IH d c e2) as [y2 ->]; [assumption..|]. cbn [obind]. eexists; reflexivity.
  - (* SSubE *) apply andb_true_iff in Hok as [? ?]. apply andb_true_iff in Hd as [? ?].
    destruct (IH d c e1) as [y1 ->]; [assumption..|]. cbn [obind].
    destruct (IH d c e2) as [y2 ->]; [assumption..|]. cbn [obind]. eexists; reflexivity.
  - (* SNegE *) destruct (IH d c e) as [y1 ->]; [assumption..|]. cbn [obind]. eexists; reflexivity.
  - (* SPropE *)
    apply andb_true_iff in Hok as [Hok Hp]. apply andb_true_iff in Hok as [Ho Hf].
    apply andb_true_iff in Hd as [Hd Hdf]. apply andb_true_iff in Hd as [Hd0 Hdo].
    destruct (IH d c e) as [y1 ->]; [assumption..|]. cbn [obind].
    rewrite (target_type_deep _ _ _ Hdo) in *.
    destruct (target_type p t ldepth e) as [ty|] eqn:Ety; [|discriminate].
    destruct ty; cbn [has_property] in Hp; try discriminate.
    + destruct (index_of _ (properties p SUtxoRef)); [eexists; reflexivity|discriminate].
    + destruct (index_of _ (properties p SAnyAsset)); [eexists; reflexivity|discriminate].
    + (* list *)
      apply bool_decide_eq_true in Hp.
      assert (Hdf' : deep p t f d (SId field) = true).
      { unfold field_type in Hdf. cbn [properties] in Hdf. unfold assoc in Hdf. cbn in Hdf. exact Hdf. }
      rewrite (target_type_deep _ _ _ Hdf'). rewrite Hp.
      assert (Hv : expr_ok p t (SId field) = true).
      { unfold field_type in Hf. cbn [properties] in Hf. unfold assoc in Hf. cbn in Hf. exact Hf. }
      destruct (IH d c (SId field) Hv Hdf') as [y2 ->]. cbn [obind]. eexists; reflexivity.
    + destruct (index_of _ (properties p (SCustom n))); [eexists; reflexivity|discriminate].
  - (* SIndex *)
    apply andb_true_iff in Hok as [Hok Hp]. apply andb_true_iff in Hok as [Ho Hi].
    apply andb_true_iff in Hd as [Hdo Hdi].
    destruct (IH d c e1) as [y1 ->]; [assumption..|]. cbn [obind].
    rewrite (target_type_deep _ _ _ Hdo) in *.
    destruct (target_type p t ldepth e1) as [ty|] eqn:Ety; [|discriminate].
    destruct ty; cbn [has_property] in Hp; try discriminate.
    + destruct e2; try discriminate. destruct (index_of _ (properties p SUtxoRef)); [eexists; reflexivity|discriminate].
    + destruct e2; try discriminate. destruct (index_of _ (properties p SAnyAsset)); [eexists; reflexivity|discriminate].
    + apply bool_decide_eq_true in Hp. rewrite (target_type_deep _ _ _ Hdi). rewrite Hp.
      assert (Hv : expr_ok p t e2 = true).
      { destruct e2; exact Hi. }
      destruct (IH d c e2 Hv Hdi) as [y2 ->]. cbn [obind]. eexists; reflexivity.
    + destruct e2; try discriminate. destruct (index_of _ (properties p (SCustom n))); [eexists; reflexivity|discriminate].
  - (* SStruct *)
    apply andb_true_iff in Hd as [Hd _].
    apply andb_true_iff in Hd as [Hd Hds]. apply andb_true_iff in Hd as [Hd0 Hdf].
    destruct d as [|d']; [discriminate|].
    destruct (resolve p t ty) as [sym|]; [|discriminate]. destruct sym; try discriminate.
    destruct (find _ (td_cases td)) as [[cn decl]|] eqn:Ec; cbn [option_map] in *; [|discriminate].
    destruct (index_of_find _ _ _ Ec) as [ci ->].
    apply andb_true_iff in Hok as [Hfs Hsp].
    assert (Hgo : forall i, exists fs,
      (fix go (i : nat) (l : list (string * sty)) {struct l} : outcome (list expr) :=
         match l with
         | [] => Ok []
         | (fname, _) :: r =>
           v <- match option_map snd (find (fun kv => bool_decide (fst kv = fname)) fields) with
                | Some ve => lower_expr p t f (S d') c ve
                | None => match spread with
                          | Some s => st <- lower_expr p t f (S d') c s ;; Ok (EProperty st (ENumber (Z.of_nat i)))
                          | None => Panic "spread must be set for missing explicit field"
                          end
                end ;;
           rest <- go (S i) r ;; Ok (v :: rest)
         end) i decl = Ok fs).
    { assert (Hsub : forall fd, fd ∈ decl -> fd ∈ decl) by auto.
      revert Hsub. generalize decl at 1 3. intros l. induction l as [|[fname fty] l IHl]; intros Hsub i; [eexists; reflexivity|].
      assert (Hv : exists v, match option_map snd (find (fun kv => bool_decide (fst kv = fname)) fields) with
                | Some ve => lower_expr p t f (S d') c ve
                | None => match spread with
                          | Some s => st <- lower_expr p t f (S d') c s ;; Ok (EProperty st (ENumber (Z.of_nat i)))
                          | None => Panic "spread must be set for missing explicit field"
                          end
                end = Ok v).
      { destruct (find _ fields) as [[k ve]|] eqn:Ef; cbn [option_map snd].
        - apply find_elem in Ef as [Ef _].
          apply IH; [apply (forall_pairs_elem _ _ _ _ Hfs Ef)|apply (forallb_elem _ _ _ Hdf Ef)].
        - destruct spread as [s|].
          + destruct (IH (S d') c s) as [y ->]; [assumption..|]. cbn [obind]. eexists; reflexivity.
          + exfalso. assert (Hin : (fname, fty) ∈ decl) by (apply Hsub; left).
            apply (forallb_elem _ _ _ Hsp) in Hin. cbn in Hin. rewrite Ef in Hin. discriminate. }
      destruct Hv as [v ->]. cbn [obind].
      destruct (IHl (fun fd H => Hsub fd (elem_of_list_further _ _ _ H)) (S i)) as [rest ->]. cbn [obind].
      eexists; reflexivity. }
    cbn [snd]. destruct (Hgo O) as [fs ->]. cbn [obind]. eexists; reflexivity.
  - (* SListE *)
    destruct (omapM_ok (lower_expr p t f d c) xs) as [ys ->].
    { intros x Hx. apply IH; [apply (forallb_elem _ _ _ Hok Hx)|apply (forallb_elem _ _ _ Hd Hx)]. }
    cbn [obind]. eexists; reflexivity.
  - (* SMapE *)
    assert (Hgo : exists ps,
      (fix go (l : list (sexpr * sexpr)) : outcome (list (expr * expr)) :=
         match l with
         | [] => Ok []
         | kv :: r => k <- lower_expr p t f d c (fst kv) ;; v <- lower_expr p t f d c (snd kv) ;; r' <- go r ;; Ok ((k, v) :: r')
         end) kvs = Ok ps).
    { induction kvs as [|[k v] kvs IHk]; [eexists; reflexivity|].
      cbn [forall_pairs fst snd] in Hok. apply andb_true_iff in Hok as [Hok Hr]. apply andb_true_iff in Hok as [Hk Hv].
      cbn [forallb fst snd] in Hd. apply andb_true_iff in Hd as [Hd Hdr]. apply andb_true_iff in Hd as [Hdk Hdv].
      cbn [fst snd].
      destruct (IH d c k) as [y1 ->]; [assumption..|]. cbn [obind].
      destruct (IH d c v) as [y2 ->]; [assumption..|]. cbn [obind].
      destruct (IHk Hr Hdr) as [ps ->]. cbn [obind]. eexists; reflexivity. }
    destruct Hgo as [ps ->]. cbn [obind]. eexists; reflexivity.
  - (* SConcat *) apply andb_true_iff in Hok as [? ?]. apply andb_true_iff in Hd as [? ?].
    destruct (IH d c e1) as [y1 ->]; [assumption..|]. cbn [obind].
    destruct (IH d c e2) as [y2 ->]; [assumption..|]. cbn [obind]. eexists; reflexivity.
  - (* SAnyAssetE *)
    apply andb_true_iff in Hok as [Hok ?]. apply andb_true_iff in Hok as [? ?].
    apply andb_true_iff in Hd as [Hd ?]. apply andb_true_iff in Hd as [? ?].
    destruct (IH d ctx_datum e1) as [y1 ->]; [assumption..|]. cbn [obind].
    destruct (IH d ctx_datum e2) as [y2 ->]; [assumption..|]. cbn [obind].
    destruct (IH d ctx_datum e3) as [y3 ->]; [assumption..|]. cbn [obind]. eexists; reflexivity.
  - (* SCall *)
    apply andb_true_iff in Hok as [Hok Har]. apply andb_true_iff in Hok as [Hsc Hargs].
    apply andb_true_iff in Hd as [Hd0 Hdargs].
    assert (Harg : forall a, a ∈ args -> exists y, lower_expr p t f d c a = Ok y).
    { intros a Ha. apply IH; [apply (forallb_elem _ _ _ Hargs Ha)|apply (forallb_elem _ _ _ Hdargs Ha)]. }
    destruct (bool_decide (f0 = "min_utxo"%string)).
    { cbn [orb] in Har. destruct args as [|a [|b r]]; try discriminate.
      destruct (Harg a) as [y ->]; [left|]. cbn [obind]. eexists; reflexivity. }
    destruct (bool_decide (f0 = "tip_slot"%string)) eqn:Etip.
    { destruct (bool_decide (f0 = "slot_to_time"%string)) eqn:E1.
      { apply bool_decide_eq_true in Etip. apply bool_decide_eq_true in E1. congruence. }
      destruct (bool_decide (f0 = "time_to_slot"%string)) eqn:E2.
      { apply bool_decide_eq_true in Etip. apply bool_decide_eq_true in E2. congruence. }
      cbn [orb] in Har. destruct args; [eexists; reflexivity|discriminate]. }
    destruct (bool_decide (f0 = "slot_to_time"%string)).
    { cbn [orb] in Har. destruct args as [|a [|b r]]; try discriminate.
      destruct (Harg a) as [y ->]; [left|]. cbn [obind]. eexists; reflexivity. }
    destruct (bool_decide (f0 = "time_to_slot"%string)).
    { cbn [orb] in Har. destruct args as [|a [|b r]]; try discriminate.
      destruct (Harg a) as [y ->]; [left|]. cbn [obind]. eexists; reflexivity. }
    cbn [orb] in Har.
    destruct d as [|d']; [discriminate|].
    destruct (resolve p t f0) as [sym|] eqn:Er; [|discriminate]. destruct sym; try discriminate.
    apply andb_true_iff in Har as [Hh Hne]. apply andb_true_iff in Hh as [Hh1 Hh2].
    destruct args as [|a r]; [discriminate|].
    assert (Hf : f <> O).
    { cbn [forallb] in Hdargs. apply andb_true_iff in Hdargs as [Hda _]. intros ->. discriminate. }
    destruct f as [|f']; [congruence|].
    assert (Hpart : forall x, (x = SUnit \/ lit_bytes x = true) -> hex_ok x = true ->
                    exists y, match x with SUnit => Ok ENone | _ => lower_expr p t (S f') (S d') c x end = Ok y).
    { intros x [->|Hl] Hh; [eexists; reflexivity|]. destruct x; try discriminate; eexists; reflexivity. }
    destruct (resolve_asset _ _ _ Er) as [[-> ->]|[Hl1 Hl2]].
    + cbn [obind]. destruct (Harg a) as [y ->]; [left|]. cbn [obind]. eexists; reflexivity.
    + destruct (Hpart policy) as [y1 ->]; [right; exact Hl1|exact Hh1|]. cbn [obind].
      destruct (Hpart name) as [y2 ->]; [right; exact Hl2|exact Hh2|]. cbn [obind].
      destruct (Harg a) as [y ->]; [left|]. cbn [obind]. eexists; reflexivity.
Qed.
End Proofs.

(** * whole transactions *)

(** kernel conversion hint only: compare applications of these fuelled functions argument-wise
    before unfolding them (their fuel is a closed numeral at the top level) *)
Strategy opaque [deep lower_expr].

Section TxProofs.
Variable p : sprogram.
Variable t : stx.
Hypothesis Hprog : program_ok p = true.
Hypothesis Hok : tx_ok p t = true.

Lemma tx_ok_parts : tx_shallow_ok p t = true /\ tx_deep_ok p t = true.
Proof. unfold tx_ok in Hok. apply andb_true_iff in Hok. exact Hok. Qed.

Ltac split_bools H :=
  repeat (let H2 := fresh "Hx" in apply andb_true_iff in H as [H H2]);
  repeat match goal with Hc : (_ && _)%bool = true |- _ => let H2 := fresh "Hx" in apply andb_true_iff in Hc as [Hc H2] end.

Lemma shallow_locals : forallb (fun l => expr_ok p t (snd l)) (st_locals t) = true.
Proof.
  destruct tx_ok_parts as [H _]. unfold tx_shallow_ok in H.
  do 9 (apply andb_true_iff in H as [H _]). apply andb_true_iff in H as [_ H]. exact H.
Qed.

Lemma shallow_inputs :
  forallb (fun i => opt_ok p t (in_from i) && opt_ok p t (in_min i) && opt_ok p t (in_ref i) && opt_ok p t (in_redeemer i)) (st_inputs t) = true.
Proof.
  destruct tx_ok_parts as [H _]. unfold tx_shallow_ok in H.
  do 8 (apply andb_true_iff in H as [H _]). apply andb_true_iff in H as [_ H].
  apply forallb_forall. intros i Hi. rewrite forallb_forall in H. specialize (H i Hi).
  apply andb_true_iff in H as [H _]. exact H.
Qed.

Lemma top_ok c e : expr_ok p t e = true -> deep_top p t e = true -> exists ir, lower_expr p t lfuel ldepth c e = Ok ir.
Proof. unfold deep_top. intros H1 H2. exact (lower_expr_total p t Hprog shallow_locals shallow_inputs lfuel ldepth c e H1 H2). Qed.

Lemma lower_opt_ok c o : opt_ok p t o = true -> deep_opt p t o = true -> exists ir, lower_opt p t c o = Ok ir.
Proof. destruct o as [e|]; cbn [lower_opt opt_ok deep_opt]; intros H1 H2; [apply top_ok; assumption|eexists; reflexivity]. Qed.

Lemma option_mapM_ok c o : opt_ok p t o = true -> deep_opt p t o = true ->
  exists r, option_mapM (lower_expr p t lfuel ldepth c) o = Ok r.
Proof.
  destruct o as [e|]; cbn [option_mapM opt_ok deep_opt]; intros H1 H2; [|eexists; reflexivity].
  destruct (top_ok c e H1 H2) as [y ->]. cbn [obind]. eexists; reflexivity.
Qed.

Lemma shallow_split :
  tx_shallow_ok p t = true ->
  forallb (fun i => opt_ok p t (in_from i) && opt_ok p t (in_min i) && opt_ok p t (in_ref i) && opt_ok p t (in_redeemer i)
                       && match in_datum_is i with Some ty => ty_ok (in_scope p t) ty | None => true end) (st_inputs t) = true
  /\ forallb (fun o => opt_ok p t (so_to o) && opt_ok p t (so_amount o) && opt_ok p t (so_datum o)
                       && negb (so_optional o && match so_datum o with Some _ => true | None => false end)) (st_outputs t) = true
  /\ forallb (fun m => opt_ok p t (sm_amount m) && opt_ok p t (sm_redeemer m)) (st_mints t ++ st_burns t) = true
  /\ forallb (directive_ok p t) (st_directives t) = true
  /\ match st_validity t with Some (a, b) => opt_ok p t a && opt_ok p t b | None => true end = true
  /\ match st_metadata t with Some kvs => forallb (metadata_ok p t) kvs | None => true end = true
  /\ match st_signers t with Some ss => forallb (expr_ok p t) ss | None => true end = true
  /\ forallb (fun r => expr_ok p t (snd r)) (st_references t) = true
  /\ forallb (fun c => opt_ok p t (fst (fst c)) && opt_ok p t (snd (fst c)) && opt_ok p t (snd c)) (st_collateral t) = true.
Proof.
  unfold tx_shallow_ok. intros Hs.
  apply andb_true_iff in Hs as [Hs Hs0]. apply andb_true_iff in Hs as [Hs Hs1]. apply andb_true_iff in Hs as [Hs Hs3].
  apply andb_true_iff in Hs as [Hs Hs4]. apply andb_true_iff in Hs as [Hs Hs5]. apply andb_true_iff in Hs as [Hs Hs6].
  apply andb_true_iff in Hs as [Hs Hs7]. apply andb_true_iff in Hs as [Hs Hs8]. apply andb_true_iff in Hs as [Hs Hs9].
  repeat split; assumption.
Qed.

Lemma deep_split :
  tx_deep_ok p t = true ->
  forallb (fun i => deep_opt p t (in_from i) && deep_opt p t (in_min i) && deep_opt p t (in_ref i) && deep_opt p t (in_redeemer i)) (st_inputs t) = true
  /\ forallb (fun o => deep_opt p t (so_to o) && deep_opt p t (so_amount o) && deep_opt p t (so_datum o)) (st_outputs t) = true
  /\ forallb (fun m => deep_opt p t (sm_amount m) && deep_opt p t (sm_redeemer m)) (st_mints t ++ st_burns t) = true
  /\ forallb (fun d => forallb (deep_opt p t) (directive_exprs d)) (st_directives t) = true
  /\ match st_validity t with Some (a, b) => deep_opt p t a && deep_opt p t b | None => true end = true
  /\ match st_metadata t with Some kvs => forallb (fun kv => deep_top p t (fst kv) && deep_top p t (snd kv)) kvs | None => true end = true
  /\ match st_signers t with Some ss => forallb (deep_top p t) ss | None => true end = true
  /\ forallb (fun r => deep_top p t (snd r)) (st_references t) = true
  /\ forallb (fun c => deep_opt p t (fst (fst c)) && deep_opt p t (snd (fst c)) && deep_opt p t (snd c)) (st_collateral t) = true.
Proof.
  unfold tx_deep_ok. intros Hd.
  apply andb_true_iff in Hd as [Hd Hd0]. apply andb_true_iff in Hd as [Hd Hd1]. apply andb_true_iff in Hd as [Hd Hd3].
  apply andb_true_iff in Hd as [Hd Hd4]. apply andb_true_iff in Hd as [Hd Hd5]. apply andb_true_iff in Hd as [Hd Hd6].
  apply andb_true_iff in Hd as [Hd Hd7]. apply andb_true_iff in Hd as [Hd Hd8]. apply andb_true_iff in Hd as [Hd Hd9].
  repeat split; assumption.
Qed.

Lemma refs_total : exists r, omapM (fun r => lower_expr p t lfuel ldepth ctx_default (snd r)) (st_references t) = Ok r.
Proof.
  destruct tx_ok_parts as [Hs Hd]. apply shallow_split in Hs as (_ & _ & _ & _ & _ & _ & _ & Hs1 & _).
  apply deep_split in Hd as (_ & _ & _ & _ & _ & _ & _ & Hd1 & _).
  apply omapM_ok. intros r Hr. apply top_ok; [eapply (forallb_elem _ _ _ Hs1 Hr)|eapply (forallb_elem _ _ _ Hd1 Hr)].
Qed.

Lemma inputs_total : exists r, omapM (lower_input_block p t) (st_inputs t) = Ok r.
Proof.
  destruct tx_ok_parts as [Hs Hd]. apply shallow_split in Hs as (Hs9 & _). apply deep_split in Hd as (Hd9 & _).
  apply omapM_ok. intros i Hi. unfold lower_input_block.
  pose proof (forallb_elem _ _ _ Hs9 Hi) as Ha. cbn beta in Ha. split_bools Ha.
  pose proof (forallb_elem _ _ _ Hd9 Hi) as Hb. cbn beta in Hb. split_bools Hb.
  destruct (lower_opt_ok ctx_address (in_from i)) as [y1 ->]; [assumption..|]. cbn [obind].
  destruct (lower_opt_ok ctx_asset (in_min i)) as [y2 ->]; [assumption..|]. cbn [obind].
  destruct (lower_opt_ok ctx_default (in_ref i)) as [y3 ->]; [assumption..|]. cbn [obind].
  destruct (lower_opt_ok ctx_datum (in_redeemer i)) as [y4 ->]; [assumption..|]. cbn [obind].
  eexists; reflexivity.
Qed.

Lemma outputs_total : exists r, omapM (lower_output_block p t) (st_outputs t) = Ok r.
Proof.
  destruct tx_ok_parts as [Hs Hd]. apply shallow_split in Hs as (_ & Hs8 & _). apply deep_split in Hd as (_ & Hd8 & _).
  apply omapM_ok. intros o Ho. unfold lower_output_block.
  pose proof (forallb_elem _ _ _ Hs8 Ho) as Ha. cbn beta in Ha. split_bools Ha.
  pose proof (forallb_elem _ _ _ Hd8 Ho) as Hb. cbn beta in Hb. split_bools Hb.
  destruct (lower_opt_ok ctx_address (so_to o)) as [y1 ->]; [assumption..|]. cbn [obind].
  destruct (lower_opt_ok ctx_datum (so_datum o)) as [y2 ->]; [assumption..|]. cbn [obind].
  destruct (lower_opt_ok ctx_asset (so_amount o)) as [y3 ->]; [assumption..|]. cbn [obind].
  eexists; reflexivity.
Qed.

Lemma validity_total : exists v, match st_validity t with
         | Some (since, until) =>
           s <- lower_opt p t ctx_default since ;; u <- lower_opt p t ctx_default until ;; Ok (Some (mk_validity s u))
         | None => Ok None
         end = Ok v.
Proof.
  destruct tx_ok_parts as [Hs Hd]. apply shallow_split in Hs as (_ & _ & _ & _ & Hs5 & _). apply deep_split in Hd as (_ & _ & _ & _ & Hd5 & _).
  destruct (st_validity t) as [[a b]|]; [|eexists; reflexivity].
  split_bools Hs5. split_bools Hd5.
  destruct (lower_opt_ok ctx_default a) as [y1 ->]; [assumption..|]. cbn [obind].
  destruct (lower_opt_ok ctx_default b) as [y2 ->]; [assumption..|]. cbn [obind]. eexists; reflexivity.
Qed.

Lemma mints_total ms :
  forallb (fun m => opt_ok p t (sm_amount m) && opt_ok p t (sm_redeemer m)) ms = true ->
  forallb (fun m => deep_opt p t (sm_amount m) && deep_opt p t (sm_redeemer m)) ms = true ->
  exists r, omapM (lower_mint p t) ms = Ok r.
Proof.
  intros H1 H2. apply omapM_ok. intros m Hm. unfold lower_mint.
  pose proof (forallb_elem _ _ _ H1 Hm) as Ha. cbn beta in Ha. split_bools Ha.
  pose proof (forallb_elem _ _ _ H2 Hm) as Hb. cbn beta in Hb. split_bools Hb.
  destruct (lower_opt_ok ctx_default (sm_amount m)) as [y1 ->]; [assumption..|]. cbn [obind].
  destruct (lower_opt_ok ctx_default (sm_redeemer m)) as [y2 ->]; [assumption..|]. cbn [obind]. eexists; reflexivity.
Qed.

Lemma directive_total d :
  directive_ok p t d = true -> forallb (deep_opt p t) (directive_exprs d) = true -> exists r, lower_directive p t d = Ok r.
Proof.
  intros Ha Hb.
  destruct d; cbn [directive_ok] in Ha; cbn [directive_exprs forallb] in Hb; cbn [lower_directive];
    [destruct from as [fe|], amount as [ae|]; try (rewrite ?andb_false_r in Ha; discriminate Ha)|..];
    cbn [opt_ok deep_opt] in *; split_bools Ha; split_bools Hb.
  - (* withdrawal *)
    destruct (top_ok ctx_default fe) as [y1 ->]; [assumption..|]. cbn [obind].
    destruct (top_ok ctx_default ae) as [y2 ->]; [assumption..|]. cbn [obind].
    destruct (lower_opt_ok ctx_default redeemer) as [y3 ->]; [assumption..|]. cbn [obind]. eexists; reflexivity.
  - destruct (option_mapM_ok ctx_default version) as [y1 ->]; [assumption..|]. cbn [obind].
    destruct (option_mapM_ok ctx_default script) as [y2 ->]; [assumption..|]. cbn [obind]. eexists; reflexivity.
  - destruct (option_mapM_ok ctx_default script) as [y2 ->]; [assumption..|]. cbn [obind]. eexists; reflexivity.
  - destruct (top_ok ctx_default coin) as [y1 ->]; [assumption..|]. cbn [obind]. eexists; reflexivity.
  - destruct (option_mapM_ok ctx_address to) as [y1 ->]; [assumption..|]. cbn [obind].
    destruct (option_mapM_ok ctx_asset amount) as [y2 ->]; [assumption..|]. cbn [obind].
    destruct (option_mapM_ok ctx_datum datum) as [y3 ->]; [assumption..|]. cbn [obind].
    destruct (option_mapM_ok ctx_default version) as [y4 ->]; [assumption..|]. cbn [obind].
    destruct (option_mapM_ok ctx_default script) as [y5 ->]; [assumption..|]. cbn [obind]. eexists; reflexivity.
  - destruct (top_ok ctx_default drep) as [y1 ->]; [assumption..|]. cbn [obind].
    destruct (top_ok ctx_default stake) as [y2 ->]; [assumption..|]. cbn [obind]. eexists; reflexivity.
Qed.

Lemma directives_total : exists r, omapM (lower_directive p t) (st_directives t) = Ok r.
Proof.
  destruct tx_ok_parts as [Hs Hd]. apply shallow_split in Hs as (_ & _ & _ & Hs6 & _). apply deep_split in Hd as (_ & _ & _ & Hd6 & _).
  apply omapM_ok. intros d Hdir. apply directive_total; [apply (forallb_elem _ _ _ Hs6 Hdir)|apply (forallb_elem _ _ _ Hd6 Hdir)].
Qed.

Lemma collateral_total : exists r, omapM (lower_collateral p t) (st_collateral t) = Ok r.
Proof.
  destruct tx_ok_parts as [Hs Hd]. apply shallow_split in Hs as (_ & _ & _ & _ & _ & _ & _ & _ & Hs0).
  apply deep_split in Hd as (_ & _ & _ & _ & _ & _ & _ & _ & Hd0).
  apply omapM_ok. intros c Hc. unfold lower_collateral.
  pose proof (forallb_elem _ _ _ Hs0 Hc) as Ha. cbn beta in Ha. split_bools Ha.
  pose proof (forallb_elem _ _ _ Hd0 Hc) as Hb. cbn beta in Hb. split_bools Hb.
  destruct (lower_opt_ok ctx_default (fst (fst c))) as [y1 ->]; [assumption..|]. cbn [obind].
  destruct (lower_opt_ok ctx_default (snd (fst c))) as [y2 ->]; [assumption..|]. cbn [obind].
  destruct (lower_opt_ok ctx_default (snd c)) as [y3 ->]; [assumption..|]. cbn [obind]. eexists; reflexivity.
Qed.

Lemma signers_total : exists s, match st_signers t with
         | Some ss => xs <- omapM (lower_expr p t lfuel ldepth ctx_default) ss ;; Ok (Some xs)
         | None => Ok None
         end = Ok s.
Proof.
  destruct tx_ok_parts as [Hs Hd]. apply shallow_split in Hs as (_ & _ & _ & _ & _ & _ & Hs3 & _).
  apply deep_split in Hd as (_ & _ & _ & _ & _ & _ & Hd3 & _).
  destruct (st_signers t) as [ss|]; [|eexists; reflexivity].
  destruct (omapM_ok (lower_expr p t lfuel ldepth ctx_default) ss) as [xs ->].
  { intros x Hx. apply top_ok; [apply (forallb_elem _ _ _ Hs3 Hx)|apply (forallb_elem _ _ _ Hd3 Hx)]. }
  cbn [obind]. eexists; reflexivity.
Qed.

Lemma metadata_total : exists m, match st_metadata t with
        | Some kvs => omapM (fun kv => k <- lower_expr p t lfuel ldepth ctx_default (fst kv) ;; v <- lower_expr p t lfuel ldepth ctx_default (snd kv) ;;
                                       Ok (mk_metadata k v)) kvs
        | None => Ok []
        end = Ok m.
Proof.
  destruct tx_ok_parts as [Hs Hd]. apply shallow_split in Hs as (_ & _ & _ & _ & _ & Hs4 & _).
  apply deep_split in Hd as (_ & _ & _ & _ & _ & Hd4 & _).
  destruct (st_metadata t) as [kvs|]; [|eexists; reflexivity].
  apply omapM_ok. intros kv Hkv.
  pose proof (forallb_elem _ _ _ Hs4 Hkv) as Ha. unfold metadata_ok in Ha. split_bools Ha.
  pose proof (forallb_elem _ _ _ Hd4 Hkv) as Hb. cbn beta in Hb. split_bools Hb.
  destruct (top_ok ctx_default (fst kv)) as [y1 ->]; [assumption..|]. cbn [obind].
  destruct (top_ok ctx_default (snd kv)) as [y2 ->]; [assumption..|]. cbn [obind]. eexists; reflexivity.
Qed.

Theorem lower_tx_total : exists ir, lower_tx p t = Ok ir.
Proof.
  unfold lower_tx.
  destruct refs_total as [refs ->]. cbn [obind].
  destruct inputs_total as [ins ->]. cbn [obind].
  destruct outputs_total as [outs ->]. cbn [obind].
  destruct validity_total as [val ->]. cbn [obind].
  destruct tx_ok_parts as [Hs Hd]. apply shallow_split in Hs as (_ & _ & Hs7 & _). apply deep_split in Hd as (_ & _ & Hd7 & _).
  rewrite forallb_app in Hs7, Hd7. apply andb_true_iff in Hs7 as [Hm1 Hb1]. apply andb_true_iff in Hd7 as [Hm2 Hb2].
  destruct (mints_total _ Hm1 Hm2) as [mints ->]. cbn [obind].
  destruct (mints_total _ Hb1 Hb2) as [burns ->]. cbn [obind].
  destruct directives_total as [adh ->]. cbn [obind].
  destruct collateral_total as [coll ->]. cbn [obind].
  destruct signers_total as [sig ->]. cbn [obind].
  destruct metadata_total as [md ->]. cbn [obind].
  eexists; reflexivity.
Qed.
End TxProofs.

(** C13 for the model: a program the analyzer accepts lowers, transaction by transaction *)
Theorem accepted_programs_lower p :
  analyze_ok p = true -> forall t, t ∈ sp_txs p -> exists ir, lower_tx p t = Ok ir.
Proof.
  unfold analyze_ok. intros H t Ht. apply andb_true_iff in H as [Hp Ht'].
  apply lower_tx_total; [exact Hp|]. apply (forallb_elem _ _ _ Ht' Ht).
Qed.
