(** Reduce_queries.v — every input placeholder the independent walk finds is reported by
    find_queries, for templates whose queries do not contain queries (what lowering produces: a
    query's fields are address, amount and reference expressions) (C06). *)
From Tx3 Require Import Base Tir Tir_proofs Reduce Walk Reduce_proofs.

Fixpoint no_q (e : expr) : bool :=
  match e with
  | EExpectInput _ _ _ _ _ _ => false
  | EParamSet x => no_q x
  | EExpectValue _ _ | EExpectFees => true
  | _ => forall_children no_q e
  end.

Fixpoint queries_flat (e : expr) : bool :=
  match e with
  | EExpectInput _ a m r _ _ => no_q a && no_q m && no_q r
  | EParamSet _ | EExpectValue _ _ | EExpectFees => true
  | _ => forall_children queries_flat e
  end.

Lemma no_q_generic e : is_param e = false -> no_q e = forall_children no_q e.
Proof. destruct e; cbn; intros H; try discriminate; reflexivity. Qed.
Lemma queries_flat_generic e : is_param e = false -> queries_flat e = forall_children queries_flat e.
Proof. destruct e; cbn; intros H; try discriminate; reflexivity. Qed.

Lemma no_q_unresolved e n : no_q e = true -> (UInput, n) ∉ unresolved e.
Proof.
  induction e as [e IH] using expr_children_ind. intros Hq Hin.
  destruct (is_param e) eqn:Ep.
  - destruct e; cbn in Ep; try discriminate; cbn in Hq, Hin.
    + eapply IH; [|exact Hq|exact Hin]. unfold all_children. cbn. left.
    + apply elem_of_list_singleton in Hin. discriminate.
    + apply elem_of_list_singleton in Hin. discriminate.
  - rewrite unresolved_generic in Hin by exact Ep. rewrite no_q_generic in Hq by exact Ep.
    rewrite flat_children_spec in Hin. rewrite forall_children_spec in Hq.
    apply elem_of_flat_map in Hin as [c [Hc Hin]].
    eapply IH; [apply child_all; exact Hc| |exact Hin]. rewrite forallb_forall in Hq. apply Hq. apply elem_of_list_In. exact Hc.
Qed.

Theorem queries_complete e n :
  sets_closed e = true -> queries_flat e = true -> (UInput, n) ∈ unresolved e -> n ∈ map fst (queries e).
Proof.
  induction e as [e IH] using expr_children_ind. intros Hs Hf Hin.
  destruct (is_param e) eqn:Ep.
  - destruct e; cbn in Ep; try discriminate; cbn in Hs, Hf, Hin |- *.
    + destruct (unresolved e); [|discriminate]. apply elem_of_nil in Hin. contradiction.
    + apply elem_of_list_singleton in Hin. discriminate.
    + apply elem_of_cons in Hin as [Hin|Hin]; [injection Hin as ->; left|].
      exfalso. apply andb_true_iff in Hf as [Hf H3]. apply andb_true_iff in Hf as [H1 H2].
      rewrite !elem_of_app in Hin. destruct Hin as [Hin|[Hin|Hin]];
        [exact (no_q_unresolved _ _ H1 Hin)|exact (no_q_unresolved _ _ H2 Hin)|exact (no_q_unresolved _ _ H3 Hin)].
    + apply elem_of_list_singleton in Hin. discriminate.
  - rewrite unresolved_generic in Hin by exact Ep. rewrite queries_generic by exact Ep.
    rewrite sets_closed_generic in Hs by exact Ep. rewrite queries_flat_generic in Hf by exact Ep.
    rewrite flat_children_spec in Hin. rewrite flat_children_spec. rewrite forall_children_spec in Hs, Hf.
    apply elem_of_flat_map in Hin as [c [Hc Hin]].
    assert (Hn : n ∈ map fst (queries c)).
    { rewrite forallb_forall in Hs, Hf. apply IH; [apply child_all; exact Hc| | |exact Hin];
        [apply Hs|apply Hf]; apply elem_of_list_In; exact Hc. }
    apply elem_of_list_fmap in Hn as [[n' q] [-> Hp]].
    apply elem_of_list_fmap. exists (n', q). split; [reflexivity|]. apply elem_of_flat_map. exists c. split; assumption.
Qed.
