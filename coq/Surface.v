(** Surface.v — the syntax tree of the generator for the core of the tx3 language, and
    Lower.v's input. It is the generator's own tree (what it prints as source text), not the
    parser's AST. *)
From Tx3 Require Export Base Tir.

Inductive sty :=
| SInt | SBool | SBytes | SAddress | SUtxoRef | SAnyAsset | SUnitT
| SList (t : sty) | SMap (k v : sty) | SCustom (n : string).

Inductive sexpr :=
| SNum (z : Z)
| SBoolLit (b : bool)
| SStr (s : bytes)
| SHex (b : bytes)                       (* written 0x..; always an even number of digits here *)
| SHexOdd                                  (* 0x followed by an odd number of digits *)
| SUnit
| SRefLit (txid : bytes) (idx : N)       (* 0x..#n *)
| SId (n : string)
| SAddE (a b : sexpr)
| SSubE (a b : sexpr)
| SNegE (a : sexpr)                      (* prefix ! *)
| SPropE (e : sexpr) (field : string)
| SIndex (e idx : sexpr)
| SStruct (ty : string) (case : option string) (fields : list (string * sexpr)) (spread : option sexpr)
| SListE (xs : list sexpr)
| SMapE (kvs : list (sexpr * sexpr))
| SConcat (a b : sexpr)
| SAnyAssetE (p n a : sexpr)
| SCall (f : string) (args : list sexpr).

Record stypedef := mk_stypedef {
  td_name : string;
  td_cases : list (string * list (string * sty)) }.     (* a record is a type with the single case "Default" *)
Global Instance sty_eq_dec : EqDecision sty.
Proof. solve_decision. Defined.

Record sinput := mk_sinput {
  in_name : string; in_many : bool;
  in_from : option sexpr; in_min : option sexpr; in_ref : option sexpr; in_redeemer : option sexpr;
  in_datum_is : option sty }.
Record soutput := mk_soutput {
  so_name : option string; so_optional : bool;
  so_to : option sexpr; so_amount : option sexpr; so_datum : option sexpr }.
Record smint := mk_smint { sm_amount : option sexpr; sm_redeemer : option sexpr }.

Inductive sdirective :=
| DWithdrawal (from amount : option sexpr) (redeemer : option sexpr)
| DPlutusWitness (version script : option sexpr)
| DNativeWitness (script : option sexpr)
| DDonation (coin : sexpr)
| DPublish (to amount datum version script : option sexpr)
| DVoteDelegation (drep stake : sexpr).

Record stx := mk_stx {
  st_name : string;
  st_params : list (string * sty);
  st_locals : list (string * sexpr);
  st_references : list (string * sexpr);
  st_inputs : list sinput;
  st_collateral : list (option sexpr * option sexpr * option sexpr);    (* from, min_amount, ref *)
  st_outputs : list soutput;
  st_mints : list smint;
  st_burns : list smint;
  st_validity : option (option sexpr * option sexpr);                   (* since_slot, until_slot *)
  st_signers : option (list sexpr);
  st_metadata : option (list (sexpr * sexpr));
  st_directives : list sdirective }.

Record sprogram := mk_sprogram {
  sp_env : list (string * sty);
  sp_parties : list string;
  sp_policies : list (string * bytes);                  (* policy P = 0x..; *)
  sp_assets : list (string * sexpr * sexpr);            (* asset A = policy . name; *)
  sp_types : list stypedef;
  sp_txs : list stx }.
