(** Peg.v — an interpreter for pest grammars (the subset tx3.pest uses): ordered choice,
    sequences and repetitions with pest's implicit WHITESPACE / COMMENT skipping outside
    atomic rules, predicates, strings, ranges, built-in classes. The grammar itself is not
    written here: coq/gen/Grammar.v is generated from /repo's tx3.pest on every run. *)
From Tx3 Require Export Base.

Inductive pexp :=
| PStr (s : list N)
| PRange (lo hi : N)
| PIdent (name : string)
| PSeq (a b : pexp)
| PChoice (a b : pexp)
| POpt (a : pexp)
| PRep (a : pexp)
| PRepOnce (a : pexp)
| PNeg (a : pexp)
| PPos (a : pexp).

Inductive rkind := RNormal | RSilent | RAtomic | RCompound | RNonAtomic.
Definition grammar := list (string * (rkind * pexp)).

Inductive res := RMatch (rest : list N) (pos : N) | RFail | RFuel.

Definition glookup (g : grammar) (n : string) : option (rkind * pexp) :=
  option_map snd (find (fun r => bool_decide (fst r = n)) g).

Fixpoint strip_prefix (s inp : list N) : option (list N) :=
  match s, inp with
  | [], _ => Some inp
  | x :: s', y :: inp' => if (x =? y)%N then strip_prefix s' inp' else None
  | _ :: _, [] => None
  end.

(** number of bytes of the UTF-8 sequence introduced by a lead byte *)
Definition utf8_len (b : N) : nat :=
  if (b <? 128)%N then 1 else if (b <? 224)%N then 2 else if (b <? 240)%N then 3 else 4.

Definition in_range (lo hi x : N) : bool := (lo <=? x)%N && (x <=? hi)%N.
Definition is_alpha (x : N) : bool := in_range 65 90 x || in_range 97 122 x.
Definition is_digit (x : N) : bool := in_range 48 57 x.
Definition is_hex (x : N) : bool := is_digit x || in_range 65 70 x || in_range 97 102 x.

Definition one (p : N -> bool) (inp : list N) (pos : N) : res :=
  match inp with x :: r => if p x then RMatch r (pos + 1) else RFail | [] => RFail end.

Section Run.
Variable g : grammar.

Fixpoint run (fuel : nat) (atomic : bool) (e : pexp) (inp : list N) (pos : N) {struct fuel} : res :=
  match fuel with
  | O => RFuel
  | S f =>
    (* implicit skipping: any number of WHITESPACE or COMMENT, each run as an atomic rule *)
    let skip := fun (inp : list N) (pos : N) =>
      if atomic then RMatch inp pos
      else run f true (PRep (PChoice (PIdent "WHITESPACE") (PIdent "COMMENT"))) inp pos in
    match e with
    | PStr s => match strip_prefix s inp with Some r => RMatch r (pos + N.of_nat (length s)) | None => RFail end
    | PRange lo hi => one (in_range lo hi) inp pos
    | PIdent n =>
      if bool_decide (n = "ANY"%string) then
        match inp with
        | x :: _ => let k := utf8_len x in if (k <=? length inp)%nat then RMatch (drop k inp) (pos + N.of_nat k) else RFail
        | [] => RFail
        end
      else if bool_decide (n = "SOI"%string) then (if (pos =? 0)%N then RMatch inp pos else RFail)
      else if bool_decide (n = "EOI"%string) then (match inp with [] => RMatch inp pos | _ => RFail end)
      else if bool_decide (n = "ASCII_ALPHA"%string) then one is_alpha inp pos
      else if bool_decide (n = "ASCII_DIGIT"%string) then one is_digit inp pos
      else if bool_decide (n = "ASCII_ALPHANUMERIC"%string) then one (fun x => is_alpha x || is_digit x) inp pos
      else if bool_decide (n = "ASCII_HEX_DIGIT"%string) then one is_hex inp pos
      else
        match glookup g n with
        | Some (k, body) =>
          let a := match k with RAtomic | RCompound => true | RNonAtomic => false | _ => atomic end in
          run f a body inp pos
        | None =>
          (* WHITESPACE / COMMENT may be absent from a grammar: then nothing is skipped *)
          RFail
        end
    | PSeq a b =>
      match run f atomic a inp pos with
      | RMatch r1 p1 =>
        match skip r1 p1 with
        | RMatch r2 p2 => run f atomic b r2 p2
        | x => x
        end
      | x => x
      end
    | PChoice a b =>
      match run f atomic a inp pos with
      | RFail => run f atomic b inp pos
      | x => x
      end
    | POpt a =>
      match run f atomic a inp pos with
      | RFail => RMatch inp pos
      | x => x
      end
    | PRep a =>
      (* zero or more: a first match, then repeatedly skip and match again; an iteration that consumes nothing ends the loop *)
      match run f atomic a inp pos with
      | RMatch r1 p1 =>
        if (p1 =? pos)%N then RMatch r1 p1 else
        match skip r1 p1 with
        | RMatch r2 p2 =>
          match run f atomic (PRepOnce a) r2 p2 with
          | RMatch r3 p3 => RMatch r3 p3
          | RFail => RMatch r1 p1          (* the skipped text is given back *)
          | RFuel => RFuel
          end
        | RFail => RMatch r1 p1
        | RFuel => RFuel
        end
      | RFail => RMatch inp pos
      | RFuel => RFuel
      end
    | PRepOnce a =>
      match run f atomic a inp pos with
      | RMatch r1 p1 =>
        if (p1 =? pos)%N then RMatch r1 p1 else
        match skip r1 p1 with
        | RMatch r2 p2 =>
          match run f atomic (PRepOnce a) r2 p2 with
          | RMatch r3 p3 => RMatch r3 p3
          | RFail => RMatch r1 p1
          | RFuel => RFuel
          end
        | RFail => RMatch r1 p1
        | RFuel => RFuel
        end
      | x => x
      end
    | PNeg a =>
      match run f atomic a inp pos with
      | RMatch _ _ => RFail
      | RFail => RMatch inp pos
      | RFuel => RFuel
      end
    | PPos a =>
      match run f atomic a inp pos with
      | RMatch _ _ => RMatch inp pos
      | x => x
      end
    end
  end.
End Run.

(** does the text belong to the language of rule [start]? (Some true / Some false / None = out of fuel) *)
Definition accepts (g : grammar) (fuel : nat) (start : string) (inp : list N) : option bool :=
  match run g fuel false (PIdent start) inp 0 with
  | RMatch _ _ => Some true
  | RFail => Some false
  | RFuel => None
  end.

(** * well-formedness: every rule referenced is defined, no rule can call itself before
    consuming input (left recursion), no repetition of an expression that can match the
    empty string. These are the conditions under which recursive descent cannot loop. *)
Definition builtin (n : string) : bool :=
  bool_decide (n ∈ ["ANY"; "SOI"; "EOI"; "ASCII_ALPHA"; "ASCII_DIGIT"; "ASCII_ALPHANUMERIC"; "ASCII_HEX_DIGIT"]%string).
Definition builtin_nullable (n : string) : bool := bool_decide (n = "SOI"%string) || bool_decide (n = "EOI"%string).

Fixpoint refs (e : pexp) : list string :=
  match e with
  | PIdent n => [n]
  | PSeq a b | PChoice a b => refs a ++ refs b
  | POpt a | PRep a | PRepOnce a | PNeg a | PPos a => refs a
  | _ => []
  end.

(** [nl] = rules known to be nullable *)
Fixpoint nullable (nl : list string) (e : pexp) : bool :=
  match e with
  | PStr s => match s with [] => true | _ => false end
  | PRange _ _ => false
  | PIdent n => builtin_nullable n || bool_decide (n ∈ nl)
  | PSeq a b => nullable nl a && nullable nl b
  | PChoice a b => nullable nl a || nullable nl b
  | POpt _ | PRep _ | PNeg _ | PPos _ => true
  | PRepOnce a => nullable nl a
  end.

Fixpoint iterate {A} (n : nat) (f : A -> A) (x : A) : A := match n with O => x | S k => iterate k f (f x) end.

Definition nullable_rules (g : grammar) : list string :=
  iterate (length g) (fun nl => map fst (filter (fun r => nullable nl (snd (snd r))) g)) [].

(** rules an expression may call at its first position; sequences also skip implicit
    white space, which consumes input or nothing, so it is transparent here *)
Fixpoint first_calls (nl : list string) (e : pexp) : list string :=
  match e with
  | PIdent n => [n]
  | PSeq a b => first_calls nl a ++ (if nullable nl a then first_calls nl b else [])
  | PChoice a b => first_calls nl a ++ first_calls nl b
  | POpt a | PRep a | PRepOnce a | PNeg a | PPos a => first_calls nl a
  | _ => []
  end.

Fixpoint bad_rep (nl : list string) (e : pexp) : bool :=
  match e with
  | PRep a | PRepOnce a => nullable nl a || bad_rep nl a
  | PSeq a b | PChoice a b => bad_rep nl a || bad_rep nl b
  | POpt a | PNeg a | PPos a => bad_rep nl a
  | _ => false
  end.

(** rules reachable from [n] through first-position calls, within [fuel] steps *)
Fixpoint reach (g : grammar) (nl : list string) (fuel : nat) (seen : list string) (n : string) : list string :=
  match fuel with
  | O => seen
  | S f =>
    match glookup g n with
    | Some (_, body) =>
      fold_left (fun acc m => if bool_decide (m ∈ acc) then acc else reach g nl f (m :: acc) m) (first_calls nl body) seen
    | None => seen
    end
  end.

Definition left_recursive (g : grammar) (nl : list string) (n : string) : bool :=
  bool_decide (n ∈ reach g nl (length g + 1) [] n).

Definition wf_grammar (g : grammar) : bool :=
  let nl := nullable_rules g in
  forallb (fun r => forallb (fun n => builtin n || bool_decide (is_Some (glookup g n))) (refs (snd (snd r)))) g
  && forallb (fun r => negb (bad_rep nl (snd (snd r)))) g
  && forallb (fun r => negb (left_recursive g nl (fst r))) g.
