(** Reduce.v — model of tx3_tir::reduce (Apply, Composite, Arithmetic, Concatenable,
    Indexable, Coerceable), of the compiler-op visitor (tx3_tir::model::v1beta0 Node::apply,
    tx3_tir::compile Visitor for Compiler) and of tx3_cardano's reduce_op, written after the
    code as it stands on the current tree (quirks included). Definitions only. *)
From Tx3 Require Export Tir.

(** * apply_args / apply_inputs / apply_fees: never fail *)

Definition args_map := list (string * arg_value).
Definition lookup_arg {A} (n : string) (m : list (string * A)) : option A :=
  option_map snd (find (fun kv => bool_decide (fst kv = n)) m).

Fixpoint apply_args (args : args_map) (e : expr) : expr :=
  match e with
  | EExpectValue n t =>
    match lookup_arg n args with
    | Some v => EParamSet (arg_value_into_expr v)
    | None => e
    end
  | EExpectInput n a m r many coll =>
    EExpectInput n (apply_args args a) (apply_args args m) (apply_args args r) many coll
  | EParamSet _ | EExpectFees => e          (* Param::Set is opaque to every apply_* *)
  | _ => map_children (apply_args args) e
  end.

Definition inputs_map := list (string * list utxo_x).

Fixpoint apply_inputs (ins : inputs_map) (e : expr) : expr :=
  match e with
  | EExpectInput n a m r many coll =>
    match lookup_arg n ins with
    | Some us => EParamSet (EUtxoSet us)
    | None => e                                (* an unresolved query is not descended into *)
    end
  | EParamSet _ | EExpectValue _ _ | EExpectFees => e
  | _ => map_children (apply_inputs ins) e
  end.

Definition fee_assets (fee : Z) : expr := EAssets [(ENone, ENone, ENumber fee)].

Fixpoint apply_fees (fee : Z) (e : expr) : expr :=
  match e with
  | EExpectFees => EParamSet (fee_assets fee)
  | EExpectInput n a m r many coll =>
    EExpectInput n (apply_fees fee a) (apply_fees fee m) (apply_fees fee r) many coll
  | EParamSet _ | EExpectValue _ _ => e
  | _ => map_children (apply_fees fee) e
  end.

(** * is_constant / params / queries *)

Fixpoint is_constant (e : expr) : bool :=
  match e with
  | EParamSet x => is_constant x
  | EExpectValue _ _ | EExpectInput _ _ _ _ _ _ | EExpectFees => false
  | EScriptAddr _ | EMinUtxo _ | ETipSlot | ESlotToTime _ | ETimeToSlot _ => false
  | _ => forall_children is_constant e
  end.

(** parameters in traversal order; the Rust BTreeMap keeps the last type for a repeated name *)
Fixpoint params (e : expr) : list (string * ty) :=
  match e with
  | EExpectValue n t => [(n, t)]
  | EExpectInput _ a m r _ _ => params a ++ params m ++ params r     (* queries can have nested params *)
  | EParamSet _ | EExpectFees => []
  | _ => flat_children params e
  end.

Record query_x := mk_query_x { qx_addr : expr; qx_min : expr; qx_ref : expr; qx_many : bool; qx_coll : bool }.

Fixpoint queries (e : expr) : list (string * query_x) :=
  match e with
  | EExpectInput n a m r many coll => [(n, mk_query_x a m r many coll)]   (* not the queries nested inside *)
  | EParamSet _ | EExpectValue _ _ | EExpectFees => []
  | _ => flat_children queries e
  end.

(** * Evaluation of built-ins *)

Definition as_number (e : expr) : option Z := match e with ENumber z => Some z | _ => None end.

(** `xs.get(n as usize)` on a 64-bit target: the cast wraps modulo 2^64; the bound test is
    done on Z so that no large unary number is ever built *)
Definition nth_usize {A} (xs : list A) (z : Z) : option A :=
  let i := z mod 2^64 in
  if i <? Z.of_nat (length xs) then nth_error xs (Z.to_nat i) else None.

Definition to_acomp (e : expr) : acomp :=
  match e with
  | ENone => ANone | EBytes b => ABytes b | EString s => AString s | ENumber z => ANumber z | EHash h => AHash h | _ => AOther
  end.
Definition to_asset_exprs (xs : list (expr * expr * expr)) : list asset_expr :=
  map (fun x => (to_acomp (fst (fst x)), to_acomp (snd (fst x)), to_acomp (snd x))) xs.
Definition acomp_to_expr (c : acomp) : expr :=
  match c with ANone => ENone | ABytes b | AHash b => EBytes b | AString s => EString s | ANumber z => ENumber z | AOther => ENone end.
(** From<CanonicalAssets> for Vec<AssetExpr>; [ord] = hash-map iteration order (canonical: sorted) *)
Definition assets_to_exprs (ord : list (asset_class * Z)) : list (expr * expr * expr) :=
  map (fun kv => (acomp_to_expr (class_policy kv.1), acomp_to_expr (class_name kv.1), ENumber kv.2)) ord.

(** canonical order of a multi-asset value: the comparison result is canonicalised the same
    way by the harness (sorted by class) *)
Definition class_key (c : asset_class) : list N * list N * N :=
  match c with Naked => ([], [], 0%N) | Named n => ([], n, 1%N) | Defined p n => (p, n, 2%N) end.
Fixpoint bytes_ltb (a b : list N) : bool :=
  match a, b with
  | [], [] => false
  | [], _ => true
  | _, [] => false
  | x :: a', y :: b' => if (x <? y)%N then true else if (y <? x)%N then false else bytes_ltb a' b'
  end.
(** order of the derived Ord on AssetClass: Naked < Named < Defined, then fields lexicographically *)
Definition class_ltb (a b : asset_class) : bool :=
  match a, b with
  | Naked, Naked => false
  | Naked, _ => true
  | _, Naked => false
  | Named x, Named y => bytes_ltb x y
  | Named _, Defined _ _ => true
  | Defined _ _, Named _ => false
  | Defined p1 n1, Defined p2 n2 =>
    if bytes_ltb p1 p2 then true else if bytes_ltb p2 p1 then false else bytes_ltb n1 n2
  end.
Fixpoint insert_sorted (kv : asset_class * Z) (l : list (asset_class * Z)) : list (asset_class * Z) :=
  match l with
  | [] => [kv]
  | x :: r => if class_ltb kv.1 x.1 then kv :: l else x :: insert_sorted kv r
  end.
Definition sorted_entries (a : assets) : list (asset_class * Z) :=
  fold_right insert_sorted [] (map_to_list a).

Definition assets_expr (a : assets) : expr := EAssets (assets_to_exprs (sorted_entries a)).

(** CanonicalAssets::checked_add / checked_neg: an amount outside i128 is an error *)
Definition chk_assets (site : string) (a : assets) : outcome assets :=
  if all_in_i128 a then Ok a else Err "InvalidBinaryOp".

(** assets_into_canonical: every amount must be a number, and the sum over the list is
    checked at every step *)
Fixpoint expr_assets_from (acc : assets) (l : list asset_expr) : outcome assets :=
  match l with
  | [] => Ok acc
  | e :: r =>
    match snd e with
    | ANumber _ => a <- of_expr e ;; s <- chk_assets "sum" (a_add_raw acc a) ;; expr_assets_from (strip s) r
    | _ => Err "InvalidUnaryOp"
    end
  end.
Definition expr_assets (xs : list (expr * expr * expr)) : outcome assets :=
  expr_assets_from a_empty (to_asset_exprs xs).

Definition neg_expr (e : expr) : outcome expr :=
  match e with
  | ENone => Ok ENone
  | ENumber x => if in_i128 (- x) then Ok (ENumber (- x)) else Err "InvalidUnaryOp"      (* checked_neg *)
  | EAssets xs => a <- expr_assets xs ;; n <- chk_assets "neg" (a_neg a) ;; Ok (assets_expr n)
  | _ => Err "InvalidUnaryOp"
  end.

Definition add_assets (xs : list (expr * expr * expr)) (other : expr) : outcome expr :=
  y <- match other with
       | EAssets ys => expr_assets ys
       | ENone => Ok a_empty
       | _ => Err "InvalidBinaryOp"
       end ;;
  x <- expr_assets xs ;;
  t <- chk_assets "add" (a_add_raw x y) ;;
  Ok (assets_expr (strip t)).

Definition add_number (x : Z) (other : expr) : outcome expr :=
  match other with
  | ENumber y => if in_i128 (x + y) then Ok (ENumber (x + y)) else Err "InvalidBinaryOp"   (* checked_add *)
  | ENone => Ok (ENumber x)
  | _ => Err "InvalidBinaryOp"
  end.

Definition add_expr (a b : expr) : outcome expr :=
  match a with
  | ENone => Ok b
  | ENumber x => add_number x b
  | EAssets xs => add_assets xs b
  | _ => Err "InvalidBinaryOp"
  end.

Definition sub_expr (a b : expr) : outcome expr :=
  match a with
  | ENone => neg_expr b
  | ENumber x => nb <- neg_expr b ;; add_number x nb
  | EAssets xs => nb <- neg_expr b ;; add_assets xs nb
  | _ => Err "InvalidBinaryOp"
  end.

(** decimal rendering of an i128 (`to_string`), as bytes *)
Fixpoint digits_fuel (fuel : nat) (n : N) (acc : list N) : list N :=
  match fuel with
  | O => acc
  | S f => let d := (n mod 10 + 48)%N in
           if (n <? 10)%N then d :: acc else digits_fuel f (n / 10)%N (d :: acc)
  end.
Definition z_to_string (z : Z) : bytes :=
  if z <? 0 then 45%N :: digits_fuel 40 (Z.to_N (- z)) [] else digits_fuel 40 (Z.to_N z) [].

Definition concat_expr (a b : expr) : outcome expr :=
  match a with
  | ENone => Ok b
  | EString x =>
    match b with
    | EString y => Ok (EString (x ++ y))
    | ENumber y => Ok (EString (x ++ z_to_string y))
    | ENone => Ok (EString x)
    | _ => Err "InvalidBinaryOp"
    end
  | EBytes x =>
    match b with
    | EBytes y => Ok (EBytes (x ++ y))
    | ENone => Ok (EBytes x)
    | _ => Err "InvalidBinaryOp"
    end
  | EList x =>
    match b with
    | EList y => Ok (EList (x ++ y))
    | _ => Err "InvalidBinaryOp"
    end
  | _ => Err "InvalidBinaryOp"
  end.

Section WithEqb.
(** Expression == Expression (derived PartialEq), used by Map indexing *)
Definition index_expr (e idx : expr) : option expr :=
  match e with
  | EMap kvs =>
    option_map (fun kv => ETuple (fst kv) (snd kv)) (find (fun kv => expr_eqb (fst kv) idx) kvs)
  | EList xs => match as_number idx with Some n => nth_usize xs n | None => None end
  | ETuple a b =>
    match as_number idx with
    | Some n => if n =? 0 then Some a else if n =? 1 then Some b else None
    | None => None
    end
  | EStruct _ fs =>
    match idx with ENumber n => nth_usize fs n | _ => None end
  | _ => None
  end.
End WithEqb.

Definition index_or_err (e idx : expr) : outcome expr :=
  match index_expr e idx with Some x => Ok x | None => Err "PropertyIndexNotFound" end.

(** fold of the UTxO values, in set order (the sum does not depend on it) *)
Definition utxo_assets (u : utxo_x) : assets := list_to_map (snd (fst (fst u))).
Definition utxos_total (us : list utxo_x) : outcome assets :=
  fold_left (fun acc u => a <- acc ;;
                          x <- chk_assets "into_assets" (a_add_raw a (utxo_assets u)) ;;
                          Ok (strip x))
            us (Ok a_empty).

Definition into_assets (e : expr) : outcome expr :=
  match e with
  | ENone => Ok ENone
  | EAssets x => Ok (EAssets x)
  | EUtxoSet us => t <- utxos_total us ;; Ok (assets_expr t)
  | _ => Err "CannotCoerceIntoAssets"
  end.

(** [pick]: which element `HashSet::into_iter().next()` yields (oracle: an index) *)
Definition into_datum (pick : nat) (e : expr) : outcome expr :=
  match e with
  | ENone => Ok ENone
  | EUtxoSet us =>
    Ok (match nth_error us pick with
        | Some u => from_option id ENone (snd (fst u))
        | None => match us with
                  | u :: _ => from_option id ENone (snd (fst u))
                  | [] => ENone
                  end
        end)
  | EList _ | EMap _ | ETuple _ _ | EStruct _ _ | EBytes _ | ENumber _ | EString _ => Ok e
  | EAddress x | EHash x => Ok (EBytes x)
  | _ => Err "CannotCoerceIntoDatum"
  end.

(** * Canonical form for comparison: the order of an all-constant asset list is immaterial
    (it is hash-map iteration order whenever the list is the result of arithmetic) *)
Definition const_key (e : expr) : option (list N) :=
  match e with
  | ENone => Some [0%N]
  | EBytes b => Some (1%N :: b)
  | EString b => Some (2%N :: b)
  | ENumber z => Some [3%N; if z <? 0 then 0%N else 1%N; Z.abs_N z]
  | _ => None
  end.
Definition entry_key (x : expr * expr * expr) : option (list N * list N * list N) :=
  match const_key (fst (fst x)), const_key (snd (fst x)), const_key (snd x) with
  | Some a, Some b, Some c => Some (a, b, c)
  | _, _, _ => None
  end.
Definition key3_ltb (a b : list N * list N * list N) : bool :=
  if bytes_ltb a.1.1 b.1.1 then true else if bytes_ltb b.1.1 a.1.1 then false
  else if bytes_ltb a.1.2 b.1.2 then true else if bytes_ltb b.1.2 a.1.2 then false
  else bytes_ltb a.2 b.2.
Fixpoint insert_entry (k : list N * list N * list N) (x : expr * expr * expr)
         (l : list ((list N * list N * list N) * (expr * expr * expr))) :=
  match l with
  | [] => [(k, x)]
  | y :: r => if key3_ltb k (fst y) then (k, x) :: l else y :: insert_entry k x r
  end.
Definition sort_if_const (xs : list (expr * expr * expr)) : list (expr * expr * expr) :=
  if forallb (fun x => bool_decide (is_Some (entry_key x))) xs then
    map snd (fold_right (fun x acc => match entry_key x with Some k => insert_entry k x acc | None => acc end) [] xs)
  else xs.

Fixpoint canon (e : expr) : expr :=
  match e with
  | EParamSet x => EParamSet (canon x)
  | EExpectInput n a m r many coll => EExpectInput n (canon a) (canon m) (canon r) many coll
  | EAssets xs =>
    EAssets (sort_if_const (map (fun x => (canon (fst (fst x)), canon (snd (fst x)), canon (snd x))) xs))
  | _ => map_children canon e
  end.
Definition tx_canon (t : tx) : tx := tx_map canon t.

(** * reduce *)

Definition OutOfFuel {A} : outcome A := Err "OutOfFuel".

Section Reduce.
Variable pick : nat.

(** reduce_self of an op whose components are all constant; returns the op's NoOp result *)
Definition reduce_self (e : expr) : outcome expr :=
  match e with
  | EAdd a b => r <- add_expr a b ;; Ok (EBNoOp r)
  | ESub a b => r <- sub_expr a b ;; Ok (EBNoOp r)
  | EConcat a b => r <- concat_expr a b ;; Ok (EBNoOp r)
  | ENegate a => r <- neg_expr a ;; Ok (EBNoOp r)
  | EProperty a i => r <- index_or_err a i ;; Ok (EBNoOp r)
  | EIntoAssets a => r <- into_assets a ;; Ok (ECNoOp r)
  | EIntoDatum a => r <- into_datum pick a ;; Ok (ECNoOp r)
  | EIntoScript _ => Err "InvalidUnaryOp"        (* nothing produces this coercion yet *)
  | _ => Ok e
  end.

Definition is_builtin (e : expr) : bool :=
  match e with EBNoOp _ | EAdd _ _ | ESub _ _ | EConcat _ _ | ENegate _ | EProperty _ _ => true | _ => false end.
Definition is_coerce (e : expr) : bool :=
  match e with ECNoOp _ | EIntoAssets _ | EIntoDatum _ | EIntoScript _ => true | _ => false end.

(** Apply::reduce of a Composite: reduce_nested, then reduce_self when every component is constant *)
Definition composite_reduce (rec : expr -> outcome expr) (e : expr) : outcome expr :=
  x <- mapM_children rec e ;;
  if forall_children is_constant x then reduce_self x else Ok x.

(** Expression::reduce. The code reduces a built-in / coercion / query a second time when the
    first pass did not produce a NoOp, i.e. it recurses on its own output: fuel makes that a
    structural recursion; exhaustion is the distinct error OutOfFuel. *)
Fixpoint reduce (fuel : nat) (e : expr) : outcome expr :=
  match fuel with
  | O => OutOfFuel
  | S f =>
    match e with
    | EParamSet x => Ok x                                    (* the applied value, as is *)
    | EExpectInput n a m r many coll =>
      (* Param::reduce reduces the query; Expression::reduce then reduces the Param again *)
      a1 <- reduce f a ;; m1 <- reduce f m ;; r1 <- reduce f r ;;
      a2 <- reduce f a1 ;; m2 <- reduce f m1 ;; r2 <- reduce f r1 ;;
      Ok (EExpectInput n a2 m2 r2 many coll)
    | EExpectValue _ _ | EExpectFees => Ok e
    | EBNoOp _ | EAdd _ _ | ESub _ _ | EConcat _ _ | ENegate _ | EProperty _ _ =>
      x <- composite_reduce (reduce f) e ;;
      match x with
      | EBNoOp r => Ok r
      | _ => y <- composite_reduce (reduce f) x ;; Ok y
      end
    | ECNoOp _ | EIntoAssets _ | EIntoDatum _ | EIntoScript _ =>
      x <- composite_reduce (reduce f) e ;;
      match x with
      | ECNoOp r => Ok r
      | _ => y <- composite_reduce (reduce f) x ;; Ok y
      end
    | EList _ | EMap _ | ETuple _ _ => mapM_children (reduce f) e
    | _ => composite_reduce (reduce f) e      (* Struct, Assets, compiler ops, directives; leaves *)
    end
  end.
End Reduce.

(** * The compiler-op visitor *)

Record cfg := mk_cfg {
  cfg_mainnet : bool;
  cfg_slot : Z;            (* cursor.slot (u64) *)
  cfg_time : Z;            (* cursor.timestamp (u128) *)
  cfg_min_utxo : Z -> outcome Z    (* compute_min_utxo by output index: depends on the compiler's last body (Loop.v) *)
}.

Fixpoint expr_into_number (fuel : nat) (e : expr) : outcome Z :=
  match e with
  | ENumber x => Ok x
  | EAssets [(_, _, amt)] =>
    match fuel with O => Err "CoerceError" | S f => expr_into_number f amt end
  | _ => Err "CoerceError"
  end.

Definition script_address (mainnet : bool) (h : bytes) : bytes :=
  (if mainnet then 113%N else 112%N) :: h.       (* 0x71 / 0x70: script payment part, no delegation *)

Definition reduce_op (c : cfg) (e : expr) : outcome expr :=
  match e with
  | EScriptAddr x =>
    match x with
    | EBytes h | EHash h =>
      if (length h =? 28)%nat then Ok (EAddress (script_address (cfg_mainnet c) h))
      else Err "CoerceError"                     (* coercion::bytes_into_hash *)
    | _ => Err "CoerceError"
    end
  | EMinUtxo x => i <- expr_into_number 64 x ;; l <- cfg_min_utxo c i ;; Ok (fee_assets l)
  | ETipSlot => Ok (ENumber (cfg_slot c))
  | ESlotToTime x =>
    s <- expr_into_number 64 x ;;
    if s <? 0 then Err "CoerceError"
    else (* ops::checked_slot_to_time: every step stays within i128 or the op is refused *)
      if in_i128 (cfg_time c) && in_i128 ((s - cfg_slot c) * 1000) && in_i128 (cfg_time c + (s - cfg_slot c) * 1000)
      then Ok (ENumber (cfg_time c + (s - cfg_slot c) * 1000))
      else Err "CoerceError"
  | ETimeToSlot x =>
    t <- expr_into_number 64 x ;;
    if t <? 0 then Err "CoerceError"
    else if in_i128 (cfg_time c) && in_i128 (t - cfg_time c) && in_i128 (cfg_slot c + Z.quot (t - cfg_time c) 1000)
         then Ok (ENumber (cfg_slot c + Z.quot (t - cfg_time c) 1000))
         else Err "CoerceError"
  | _ => Ok e
  end.

Definition is_compiler_op (e : expr) : bool :=
  match e with EScriptAddr _ | EMinUtxo _ | ETipSlot | ESlotToTime _ | ETimeToSlot _ => true | _ => false end.

(** Visitor for Compiler: an EvalCompiler node has its operands folded (Apply::reduce of the
    CompilerOp) and is then evaluated by reduce_op; every other node is returned as is *)
Definition visitor_reduce (pick : nat) (c : cfg) (v : expr) : outcome expr :=
  if is_compiler_op v then
    v' <- composite_reduce pick (reduce pick 200) v ;; reduce_op c v'
  else Ok v.

(** Node::apply for Expression: visit every child (Param children included), then hand the
    node to the visitor *)
Fixpoint visit (pick : nat) (c : cfg) (e : expr) : outcome expr :=
  v <- match e with
       | EParamSet x => x' <- visit pick c x ;; Ok (EParamSet x')
       | EExpectInput n a m r many coll =>
         a' <- visit pick c a ;; m' <- visit pick c m ;; r' <- visit pick c r ;;
         Ok (EExpectInput n a' m' r' many coll)
       | _ => mapM_children (visit pick c) e
       end ;;
  visitor_reduce pick c v.

(** * Whole transactions *)

Definition tx_apply_args (args : args_map) := tx_map (apply_args args).
Definition tx_apply_inputs (ins : inputs_map) := tx_map (apply_inputs ins).
Definition tx_apply_fees (fee : Z) := tx_map (apply_fees fee).
Definition tx_is_constant (t : tx) : bool := forallb is_constant (tx_slots t).
Definition tx_params (t : tx) : list (string * ty) := flat_map params (tx_slots t).
(** Tx::queries visits collateral before references; only the key set and the per-key query
    matter, and keys are unique per slot kind in lowered programs *)
Definition tx_queries (t : tx) : list (string * query_x) := flat_map queries (tx_slots t).
Definition reduce_fuel : nat := 200.
Definition tx_reduce (pick : nat) (t : tx) : outcome tx := tx_mapM (reduce pick reduce_fuel) t.
Definition tx_visit (pick : nat) (c : cfg) (t : tx) : outcome tx := tx_mapM (visit pick c) t.

(** BTreeMap view: sorted, de-duplicated keys; a later entry wins *)
Fixpoint string_ltb (a b : string) : bool :=
  match a, b with
  | EmptyString, EmptyString => false
  | EmptyString, _ => true
  | _, EmptyString => false
  | String x a', String y b' =>
    let nx := Ascii.N_of_ascii x in let ny := Ascii.N_of_ascii y in
    if (nx <? ny)%N then true else if (ny <? nx)%N then false else string_ltb a' b'
  end.
Fixpoint bt_insert {A} (k : string) (v : A) (l : list (string * A)) : list (string * A) :=
  match l with
  | [] => [(k, v)]
  | (k', v') :: r =>
    if bool_decide (k = k') then (k, v) :: r
    else if string_ltb k k' then (k, v) :: l else (k', v') :: bt_insert k v r
  end.
Definition bt_of_list {A} (l : list (string * A)) : list (string * A) :=
  fold_left (fun acc kv => bt_insert (fst kv) (snd kv) acc) l [].

Definition find_params (t : tx) : list (string * ty) := bt_of_list (tx_params t).
Definition find_queries (t : tx) : list (string * query_x) := bt_of_list (tx_queries t).

(** tx3_resolver::safe_apply_args: the first reported parameter (in key order) without an
    argument is refused by name *)
Definition safe_apply_args (t : tx) (args : args_map) : outcome tx :=
  match find (fun kv => negb (bool_decide (is_Some (lookup_arg (fst kv) args)))) (find_params t) with
  | Some (k, _) => Err ("MissingTxArg:" ++ k)
  | None => Ok (tx_apply_args args t)
  end.
