(** Loop_errors.v — a pass that fails, fails the resolution (property C05): whenever any pass
    the loop executes - the first or a later one - ends in an error (or a panic, or an
    overflow), resolve_tx's loop answers with exactly that failure. No transaction built by an
    earlier pass, priced with an older fee, is handed back in its place. *)
From Tx3 Require Import Base Loop.

Section Errors.
Variables (a b m : N) (S : Type) (build : S -> N -> outcome (N * N * S)).

Definition is_failure {A} (x : outcome A) : Prop := match x with Ok _ => False | _ => True end.
Definition same_failure {A B} (x : outcome A) (y : outcome B) : Prop :=
  match x, y with
  | Err s, Err s' | Panic s, Panic s' | Overflow s, Overflow s' => s = s'
  | _, _ => False
  end.

(** the passes the loop executes from (st, last) with [n] passes left, and one of them failing *)
Inductive pass_fails : nat -> S -> option compiled -> outcome (option compiled * S) -> Prop :=
| pf_now n st last x :
    eval_pass a b m S build st last = x -> is_failure x -> pass_fails (Datatypes.S n) st last x
| pf_later n st last better st' x :
    eval_pass a b m S build st last = Ok (Some better, st') ->
    pass_fails n st' (Some better) x -> pass_fails (Datatypes.S n) st last x.

Theorem failing_pass_fails_resolution n st last x :
  pass_fails n st last x -> same_failure x (resolve_loop a b m S build n st last).
Proof.
  induction 1 as [n st last x Hx Hf|n st last better st' x Hp _ IH].
  - cbn [resolve_loop]. rewrite Hx. destruct x; cbn in *; tauto.
  - cbn [resolve_loop]. rewrite Hp. cbn [obind]. exact IH.
Qed.

(** in particular the loop never answers Ok once a pass has failed *)
Corollary failing_pass_no_transaction n st last x r :
  pass_fails n st last x -> resolve_loop a b m S build n st last <> Ok r.
Proof.
  intros H E. apply failing_pass_fails_resolution in H. rewrite E in H. destruct x; exact H.
Qed.

(** a failing build is a failing pass: input selection that finds no match in pass k *)
Lemma build_error_is_pass_error st last s :
  build st (fee_of last) = Err s -> eval_pass a b m S build st last = Err s.
Proof. intros H. unfold eval_pass, compile. rewrite H. reflexivity. Qed.
End Errors.

(** non-vacuity: a pass function that succeeds while the fee is 0 and fails afterwards (funds
    that cover the amount but not the fee): the second pass fails, the resolution fails *)
Definition short_build (st : unit) (fee : N) : outcome (N * N * unit) :=
  if (fee =? 0)%N then Ok (100%N, 0%N, tt) else Err "InputNotResolved".
Example second_pass_fails :
  pass_fails 1 0 0 unit short_build 5 tt None (Err "InputNotResolved")
  /\ resolve_loop 1 0 0 unit short_build 5 tt None = Err "InputNotResolved".
Proof.
  split; [|reflexivity].
  eapply pf_later; [reflexivity|]. apply pf_now; [reflexivity|exact I].
Qed.
