(** C16_check.v — correspondence of Interop.v with tx3_resolver::interop::from_json and
    trp::parse_resolve_request, and the clauses of C16 on the implementation's answers. *)
From Tx3 Require Import Base Tir Interop.
Local Open Scope string_scope.

Definition str_of (l : list N) : string := string_of_list_ascii (map Ascii.ascii_of_N l).

Definition argv_eqb (a b : arg_value) : bool :=
  match a, b with
  | ArgInt x, ArgInt y => (x =? y)%Z
  | ArgBool x, ArgBool y => Bool.eqb x y
  | ArgString x, ArgString y | ArgBytes x, ArgBytes y | ArgAddress x, ArgAddress y => bool_decide (x = y)
  | ArgUtxoRef x, ArgUtxoRef y => bool_decide (x = y)
  | _, _ => false
  end.

Record case := mk_case {
  c_json : json;
  c_ty : ty;
  c_b64 : list (string * option bytes);       (* base64 crate's answers on the strings at hand *)
  c_bech32 : list (string * option bytes);    (* bech32 crate's answers *)
  c_kind : N;                                 (* 0 Ok, 1 Err, 2 panic *)
  c_value : option arg_value;
  c_expect : option arg_value;                (* the value this JSON encodes, when the generator built it as a valid encoding *)
  c_illformed : bool }.                       (* built as an ill-formed value *)

Definition oracle (m : list (string * option bytes)) (s : string) : option bytes :=
  match find (fun kv => bool_decide (fst kv = s)) m with Some kv => snd kv | None => None end.

Definition kind_of {A} (x : outcome A) : N := match x with Ok _ => 0%N | Err _ => 1%N | _ => 2%N end.

Definition checks (c : case) : list (N * bool) :=
  let m := from_json (oracle (c_b64 c)) (oracle (c_bech32 c)) (c_json c) (c_ty c) in
  [ (1%N, (kind_of m =? c_kind c)%N);
    (2%N, match m, c_value c with
          | Ok v, Some v' => argv_eqb v v'
          | Ok _, None => false
          | _, _ => true
          end);
    (101%N, match c_expect c with
            | Some v => match c_value c with Some v' => argv_eqb v v' | None => false end
            | None => true
            end);
    (102%N, if c_illformed c then (c_kind c =? 1)%N else true);
    (103%N, negb (c_kind c =? 2)%N) ].

Definition failed (c : case) : list N := map fst (filter (fun x => negb (snd x)) (checks c)).
Fixpoint run_from (i : N) (cs : list case) : list (N * list N) :=
  match cs with
  | [] => []
  | c :: r => match failed c with [] => run_from (i + 1)%N r | f => (i, f) :: run_from (i + 1)%N r end
  end.
Definition run (cs : list case) := run_from 0%N cs.

(** * requests *)
Record rcase := mk_rcase {
  r_params : list (string * ty);                 (* find_params of the decoded IR *)
  r_args : list (string * json);
  r_env : list (string * json);
  r_envelope_ok : bool;                          (* the generator left the envelope intact *)
  r_kind : N;
  r_map : list (string * arg_value) }.           (* the returned argument map (key order) *)

Definition no_oracle (_ : string) : option bytes := None.

Definition map_eqb (a b : list (string * arg_value)) : bool :=
  (length a =? length b)%nat &&
  forallb (fun kv => match lookup_s (fst kv) b with Some v => argv_eqb (snd kv) v | None => false end) a.

(** the specification of the assembled map, key by key: a declared key supplied under args wins,
    else the one under env; nothing else *)
Definition spec_value (c : rcase) (k : string) : option json :=
  match lookup_s k (r_args c) with Some v => Some v | None => lookup_s k (r_env c) end.

Definition rchecks (c : rcase) : list (N * bool) :=
  let m := assemble no_oracle no_oracle (r_params c) (r_args c) (r_env c) in
  if r_envelope_ok c then
    [ (1%N, (kind_of m =? r_kind c)%N);
      (2%N, match m with Ok mm => map_eqb mm (r_map c) | _ => true end);
      (* C16: exactly the declared parameters the request supplies, under args or env *)
      (101%N, if (r_kind c =? 0)%N then
                forallb (fun kt =>
                           match spec_value c (fst kt), lookup_s (fst kt) (r_map c) with
                           | Some j, Some v => match from_json no_oracle no_oracle j (snd kt) with Ok v' => argv_eqb v v' | _ => false end
                           | None, None => true
                           | _, _ => false
                           end) (r_params c)
                && forallb (fun kv => bool_decide (is_Some (lookup_s (fst kv) (r_params c)))) (r_map c)
              else true);
      (103%N, negb (r_kind c =? 2)%N) ]
  else
    [ (102%N, (r_kind c =? 1)%N);                 (* a corrupted envelope is refused *)
      (103%N, negb (r_kind c =? 2)%N) ].

Definition rfailed (c : rcase) : list N := map fst (filter (fun x => negb (snd x)) (rchecks c)).
Fixpoint rrun_from (i : N) (cs : list rcase) : list (N * list N) :=
  match cs with
  | [] => []
  | c :: r => match rfailed c with [] => rrun_from (i + 1)%N r | f => (i, f) :: rrun_from (i + 1)%N r end
  end.
Definition rrun (cs : list rcase) := rrun_from 0%N cs.
