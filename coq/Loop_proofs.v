(** Loop_proofs.v — properties C05 (the fee in the body is the fee reported) and C20
    (resolution does not depend on the compiler instance's past), for every pass function,
    every parameter setting and every prior state. *)
From Tx3 Require Import Base Loop.
From Coq Require Import ZifyN ZifyNat ZifyBool.
Local Open Scope N_scope.

Section Proofs.
Variables (a b m : N) (S : Type) (build : S -> N -> outcome (N * N * S)).
Notation compile := (compile a b m S build).
Notation eval_pass := (eval_pass a b m S build).
Notation resolve_loop := (resolve_loop a b m S build).
Notation resolve := (resolve a b m S build).

Lemma compile_fee st f r st' :
  compile st f = Ok (r, st') -> c_fee r = a * c_len r + b + m /\ c_body_fee r = f.
Proof.
  unfold Loop.compile. destruct (build st f) as [[[len pid] s']| | |]; cbn [obind]; intros H; try discriminate.
  destruct (a * len + b + m <? 2 ^ 64); [|discriminate].
  injection H as <- <-. cbn. split; reflexivity.
Qed.

Lemma compiled_eqb_spec x y :
  compiled_eqb x y = true -> c_len x = c_len y /\ c_pid x = c_pid y /\ c_fee x = c_fee y.
Proof.
  unfold compiled_eqb. rewrite !andb_true_iff, !N.eqb_eq. tauto.
Qed.

(** invariant of the loop: the current result, if any, satisfies the fee formula *)
Definition formula_ok (last : option compiled) : Prop :=
  match last with Some r => c_fee r = a * c_len r + b + m | None => True end.

(** C05, the fee formula: whatever is returned was priced by the linear formula on its own length *)
Theorem resolve_loop_formula n st last r st' e :
  formula_ok last -> resolve_loop n st last = Ok (Some r, st', e) -> c_fee r = a * c_len r + b + m.
Proof.
  revert st last. induction n as [|n IH]; intros st last Hl H; cbn in H.
  - injection H as -> _ _. exact Hl.
  - unfold Loop.eval_pass in H.
    destruct (compile st (fee_of last)) as [[c s1]| | |] eqn:Ec; cbn in H; try discriminate.
    apply compile_fee in Ec as [Hf _].
    destruct last as [l|].
    + destruct (compiled_eqb c l); cbn in H.
      * injection H as -> _ _. exact Hl.
      * eapply IH; [|exact H]. exact Hf.
    + cbn in H. eapply IH; [|exact H]. exact Hf.
Qed.

(** C05, the fixed point: when the loop exits because a pass repeated its predecessor, the
    returned transaction carries in its body exactly the fee reported for it *)
Theorem converged_is_fixed_point n st last r st' :
  resolve_loop n st last = Ok (Some r, st', true) ->
  exists r', c_body_fee r' = c_fee r /\ c_len r' = c_len r /\ c_pid r' = c_pid r /\ c_fee r' = c_fee r.
Proof.
  revert st last. induction n as [|n IH]; intros st last H; cbn in H; [discriminate|].
  unfold Loop.eval_pass in H.
  destruct (compile st (fee_of last)) as [[c s1]| | |] eqn:Ec; cbn in H; try discriminate.
  destruct last as [l|].
  - destruct (compiled_eqb c l) eqn:Eq; cbn in H.
    + injection H as -> _. apply compile_fee in Ec as [_ Hb]. cbn in Hb.
      apply compiled_eqb_spec in Eq as [H1 [H2 H3]]. exists c. repeat split; congruence.
    + eapply IH. exact H.
  - cbn in H. eapply IH. exact H.
Qed.

(** the payload carries its body, hence the fee written there: two builds with the same
    payload identity were told the same fee *)
Definition pid_determines_fee : Prop :=
  forall s1 f1 s2 f2 l1 p1 t1 l2 p2 t2,
    build s1 f1 = Ok (l1, p1, t1) -> build s2 f2 = Ok (l2, p2, t2) -> p1 = p2 -> f1 = f2.

Definition produced (r : compiled) : Prop :=
  exists s l t, build s (c_body_fee r) = Ok (l, c_pid r, t).

Lemma compile_produced st f r st' : compile st f = Ok (r, st') -> produced r.
Proof.
  unfold Loop.compile. destruct (build st f) as [[[len pid] s']| | |] eqn:E; cbn [obind]; intros H; try discriminate.
  destruct (a * len + b + m <? 2 ^ 64); [|discriminate].
  injection H as <- <-. exists st, len, s'. cbn. exact E.
Qed.

(** C05: under that (physical) fact, a converged resolution returns a transaction whose body
    fee IS the reported fee *)
Theorem converged_body_fee n st last r st' :
  pid_determines_fee ->
  (forall l, last = Some l -> produced l) ->
  resolve_loop n st last = Ok (Some r, st', true) -> c_body_fee r = c_fee r.
Proof.
  intros Hpid. revert st last. induction n as [|n IH]; intros st last Hl H; cbn in H; [discriminate|].
  unfold Loop.eval_pass in H.
  destruct (compile st (fee_of last)) as [[c s1]| | |] eqn:Ec; cbn in H; try discriminate.
  destruct last as [l|].
  - destruct (compiled_eqb c l) eqn:Eq; cbn in H.
    + injection H as -> _.
      pose proof (compile_produced _ _ _ _ Ec) as [sa [la [ta Ha]]].
      destruct (Hl r eq_refl) as [sb [lb [tb Hb]]].
      apply compiled_eqb_spec in Eq as [_ [Hp _]].
      apply compile_fee in Ec as [_ Hbf]. cbn in Hbf.
      rewrite Hbf in Ha. rewrite Hp in Ha.
      symmetry. exact (Hpid _ _ _ _ _ _ _ _ _ _ Ha Hb eq_refl).
    + eapply IH; [|exact H]. intros l' E. injection E as <-. eapply compile_produced. exact Ec.
  - cbn in H. eapply IH; [|exact H]. intros l' E. injection E as <-. eapply compile_produced. exact Ec.
Qed.

(** the loop never runs more passes than allowed *)
Theorem passes_bounded n st last : (passes_run a b m S build n st last <= n)%nat.
Proof.
  revert st last. induction n as [|n IH]; intros st last; cbn [passes_run]; [lia|].
  destruct (eval_pass st last) as [[[better|] s1]| | |]; try lia.
  specialize (IH s1 (Some better)). lia.
Qed.

(** * C20: the state is read only through [build] *)

(** if what a pass builds does not depend on the state it finds (a template without min_utxo),
    the whole resolution is independent of the instance's past *)
Theorem history_independent_no_state_read n :
  (forall s1 s2 f, match build s1 f, build s2 f with
                   | Ok (l1, p1, _), Ok (l2, p2, _) => l1 = l2 /\ p1 = p2
                   | Err _, Err _ | Panic _, Panic _ | Overflow _, Overflow _ => True
                   | _, _ => False
                   end) ->
  forall s1 s2 last,
    match resolve_loop n s1 last, resolve_loop n s2 last with
    | Ok (r1, _, e1), Ok (r2, _, e2) => r1 = r2 /\ e1 = e2
    | Err _, Err _ | Panic _, Panic _ | Overflow _, Overflow _ => True
    | _, _ => False
    end.
Proof.
  intros Hind. induction n as [|n IH]; intros s1 s2 last; cbn [Loop.resolve_loop]; [split; reflexivity|].
  unfold Loop.eval_pass, Loop.compile. specialize (Hind s1 s2 (fee_of last)).
  destruct (build s1 (fee_of last)) as [[[l1 p1] t1]| | |], (build s2 (fee_of last)) as [[[l2 p2] t2]| | |];
    cbn [obind]; try exact Hind; try contradiction.
  destruct Hind as [-> ->].
  destruct (a * l2 + b + m <? 2 ^ 64); cbn [obind]; [|exact I].
  destruct last as [l|]; cbn [obind].
  - destruct (compiled_eqb _ l); cbn [obind]; [split; reflexivity | apply IH].
  - apply IH.
Qed.
End Proofs.

(** with the reset in front of the loop, every template — reading the instance's state or not —
    resolves the same from every prior state, hence after every history of earlier resolutions,
    succeeded, failed or interrupted *)
Theorem history_independent_after_reset a b m S build fresh max_rounds (s1 s2 : S) :
  resolve a b m S build fresh max_rounds s1 = resolve a b m S build fresh max_rounds s2.
Proof. reflexivity. Qed.


(** * C05, full statement refuted for an arbitrary size function: a pass function whose payload
    length oscillates with the fee makes the loop stop on the round cap and return a
    transaction whose body fee differs from the reported fee *)
Definition osc_build (st : unit) (fee : N) : outcome (N * N * unit) :=
  (* length 11 for an even fee, 10 for an odd one; the identity of the payload is its (len, fee) *)
  let len := if N.even fee then 11 else 10 in Ok (len, len * 1000 + fee, tt).

Lemma resolve_fixed_point_refuted :
  exists r st e, resolve 1 0 0 unit osc_build tt 3 tt = Ok (Some r, st, e) /\ e = false /\ c_body_fee r <> c_fee r.
Proof.
  eexists _, _, _. split; [vm_compute; reflexivity|]. split; [reflexivity|]. vm_compute. discriminate.
Qed.

(** non-vacuity of the convergence theorem: a constant-size pass converges on the second pass *)
Example converges_somewhere :
  exists r st, resolve 44 155381 200000 unit (fun _ fee => Ok (300, fee, tt)) tt 3 tt = Ok (Some r, st, true)
               /\ c_body_fee r = c_fee r /\ c_fee r = 44 * 300 + 155381 + 200000.
Proof. eexists _, _. vm_compute. repeat split. Qed.
