(** Base.v — shared conventions of the tx3 model.
    bytes = list N (each < 256, enforced by [wf_bytes] where it matters),
    outcome with explicit Panic / Overflow, integer ranges and Rust casts. *)
From stdpp Require Export gmap list numbers strings.
From Coq Require Export ZArith Lia.
Open Scope Z_scope.

Arguments N.add : simpl never.
Arguments N.sub : simpl never.
Arguments N.mul : simpl never.
Arguments Z.add : simpl never.
Arguments Z.sub : simpl never.
Arguments Z.mul : simpl never.
Arguments Z.opp : simpl never.
Arguments Z.pow : simpl never.
Arguments Z.modulo : simpl never.
Arguments Z.div : simpl never.

Definition bytes := list N.
Definition wf_bytes (b : bytes) : bool := forallb (fun x => (x <? 256)%N) b.

(** Outcome of a model function mirroring a fallible Rust function.
    [Err] carries a small error code (which variant, never the message);
    [Panic] and [Overflow] carry the site name. *)
Inductive outcome (A : Type) :=
| Ok (a : A)
| Err (e : string)
| Panic (site : string)
| Overflow (site : string).
Arguments Ok {A} a.
Arguments Err {A} e.
Arguments Panic {A} site.
Arguments Overflow {A} site.

Definition obind {A B} (x : outcome A) (f : A -> outcome B) : outcome B :=
  match x with
  | Ok a => f a
  | Err e => Err e
  | Panic s => Panic s
  | Overflow s => Overflow s
  end.
Definition outcome_map {A B} (f : A -> B) (x : outcome A) : outcome B :=
  obind x (fun a => Ok (f a)).
Notation "x <- e1 ;; e2" := (obind e1 (fun x => e2))
  (at level 100, e1 at next level, right associativity).

Definition omapM {A B} (f : A -> outcome B) : list A -> outcome (list B) :=
  fix go (l : list A) : outcome (list B) :=
    match l with
    | [] => Ok []
    | x :: xs => y <- f x ;; ys <- go xs ;; Ok (y :: ys)
    end.

Definition is_ok {A} (x : outcome A) : bool := match x with Ok _ => true | _ => false end.
Definition is_panic {A} (x : outcome A) : bool :=
  match x with Panic _ | Overflow _ => true | _ => false end.

(** Coarse view used when comparing with the implementation: 0 Ok, 1 Err, 2 Panic/Overflow *)
Definition okind {A} (x : outcome A) : N :=
  match x with Ok _ => 0%N | Err _ => 1%N | _ => 2%N end.

(** Integer ranges *)
Definition i128_min : Z := - 2^127.
Definition i128_max : Z := 2^127 - 1.
Definition in_i128 (z : Z) : bool := (i128_min <=? z) && (z <=? i128_max).
Definition in_i64 (z : Z) : bool := (- 2^63 <=? z) && (z <? 2^63).
Definition in_u64 (z : Z) : bool := (0 <=? z) && (z <? 2^64).
Definition in_u32 (z : Z) : bool := (0 <=? z) && (z <? 2^32).

(** Rust `as` casts from i128 *)
Definition wrap_u64 (z : Z) : Z := z mod 2^64.
Definition wrap_u32 (z : Z) : Z := z mod 2^32.
Definition as_i64 (z : Z) : Z :=
  let w := z mod 2^64 in if w <? 2^63 then w else w - 2^64.
Definition wrap_i128 (z : Z) : Z :=
  let w := z mod 2^128 in if w <? 2^127 then w else w - 2^128.

(** checked i128 arithmetic (dev profile panics on overflow) *)
Definition chk_i128 (site : string) (z : Z) : outcome Z :=
  if in_i128 z then Ok z else Overflow site.

Lemma wrap_u64_id z : in_u64 z = true -> wrap_u64 z = z.
Proof.
  unfold in_u64, wrap_u64. intros H. apply andb_true_iff in H as [H1 H2].
  apply Z.leb_le in H1. apply Z.ltb_lt in H2. apply Z.mod_small. lia.
Qed.

Lemma as_i64_id z : in_i64 z = true -> as_i64 z = z.
Proof.
  unfold in_i64, as_i64. intros H. apply andb_true_iff in H as [H1 H2].
  apply Z.leb_le in H1. apply Z.ltb_lt in H2.
  assert (E: 2^64 = 2 * 2^63) by reflexivity.
  destruct (Z.ltb_spec (z mod 2^64) (2^63)) as [Hlt|Hge].
  - destruct (Z.le_gt_cases 0 z) as [Hz|Hz].
    + apply Z.mod_small. lia.
    + exfalso. assert (z mod 2^64 = z + 2^64).
      { symmetry. apply (Z.mod_unique z (2^64) (-1) (z + 2^64)); lia. }
      lia.
  - destruct (Z.le_gt_cases 0 z) as [Hz|Hz].
    + rewrite Z.mod_small in Hge by lia. lia.
    + assert (z mod 2^64 = z + 2^64).
      { symmetry. apply (Z.mod_unique z (2^64) (-1) (z + 2^64)); lia. }
      lia.
Qed.

(** lower-casing of ASCII names (Rust `to_lowercase` restricted to ASCII identifiers) *)
Definition lower_ascii (c : Ascii.ascii) : Ascii.ascii :=
  let n := Ascii.N_of_ascii c in
  if ((65 <=? n) && (n <=? 90))%N then Ascii.ascii_of_N (n + 32) else c.
Fixpoint to_lower (s : string) : string :=
  match s with
  | EmptyString => EmptyString
  | String c r => String (lower_ascii c) (to_lower r)
  end.
