(** C01_args.v — the integer fragment with parameters: for every choice of integer arguments,
    lowering, applying the arguments and reducing yields exactly the integer that the
    independent semantics assigns to the source expression (C01). *)
From Tx3 Require Import Base Assets Tir Reduce Surface Lower Denote C01_proofs.
Local Open Scope Z_scope.

Section Args.
Variable p : sprogram.
Variable t : stx.
Variable args : args_map.

(** the value of an integer expression over literals and Int parameters *)
Fixpoint pval (e : sexpr) : option Z :=
  match e with
  | SNum z => Some z
  | SId n =>
    match resolve p t n with
    | Some (SymParam m SInt) => match lookup_arg (to_lower m) args with Some (ArgInt z) => Some z | _ => None end
    | _ => None
    end
  | SAddE a b =>
    match pval a, pval b with
    | Some x, Some y => if in_i128 (x + y) then Some (x + y) else None
    | _, _ => None end
  | SSubE a b =>
    match pval a, pval b with
    | Some x, Some y => if in_i128 (- y) && in_i128 (x + - y) then Some (x - y) else None
    | _, _ => None end
  | SNegE a => match pval a with Some x => if in_i128 (- x) then Some (- x) else None | None => None end
  | _ => None
  end.

(** the IR the expression lowers to, after the arguments are applied *)
Fixpoint air_of (e : sexpr) : expr :=
  match e with
  | SNum z => ENumber z
  | SId n =>
    match resolve p t n with
    | Some (SymParam m SInt) => match lookup_arg (to_lower m) args with Some (ArgInt z) => EParamSet (ENumber z) | _ => ENone end
    | _ => ENone
    end
  | SAddE a b => EAdd (air_of a) (air_of b)
  | SSubE a b => ESub (air_of a) (air_of b)
  | SNegE a => ENegate (air_of a)
  | _ => ENone
  end.

Lemma lower_apply : forall f d c e v, pval e = Some v -> (sdepth e <= f)%nat ->
  exists ir, lower_expr p t f (S d) c e = Ok ir /\ apply_args args ir = air_of e.
Proof.
  induction f as [|f IH]; intros d c e v Hv Hf; [destruct e; cbn in Hf; lia|].
  destruct e; cbn [pval] in Hv; try discriminate; cbn [lower_expr air_of].
  - eexists; split; reflexivity.
  - (* SId *)
    destruct (resolve p t n) as [sym|]; [|discriminate]. destruct sym; try discriminate. destruct t0; try discriminate.
    destruct (lookup_arg (to_lower n0) args) as [a|] eqn:El; [|discriminate]. destruct a; try discriminate.
    eexists; split; [reflexivity|]. cbn [apply_args lower_ty]. rewrite El. reflexivity.
  - destruct (pval e1) as [x|] eqn:E1; [|discriminate]. destruct (pval e2) as [y|] eqn:E2; [|discriminate].
    cbn [sdepth] in Hf. destruct (IH d c e1 x E1) as [i1 [-> A1]]; [lia|]. cbn [obind].
    destruct (IH d c e2 y E2) as [i2 [-> A2]]; [lia|]. cbn [obind].
    eexists; split; [reflexivity|]. cbn [apply_args map_children]. rewrite A1, A2. reflexivity.
  - destruct (pval e1) as [x|] eqn:E1; [|discriminate]. destruct (pval e2) as [y|] eqn:E2; [|discriminate].
    cbn [sdepth] in Hf. destruct (IH d c e1 x E1) as [i1 [-> A1]]; [lia|]. cbn [obind].
    destruct (IH d c e2 y E2) as [i2 [-> A2]]; [lia|]. cbn [obind].
    eexists; split; [reflexivity|]. cbn [apply_args map_children]. rewrite A1, A2. reflexivity.
  - destruct (pval e) as [x|] eqn:E1; [|discriminate].
    cbn [sdepth] in Hf. destruct (IH d c e x E1) as [i1 [-> A1]]; [lia|]. cbn [obind].
    eexists; split; [reflexivity|]. cbn [apply_args map_children]. rewrite A1. reflexivity.
Qed.

Lemma reduce_air : forall pick f e v, pval e = Some v -> (sdepth e <= f)%nat -> reduce pick f (air_of e) = Ok (ENumber v).
Proof.
  induction f as [|f IH]; intros e v Hv Hf; [destruct e; cbn in Hf; lia|].
  destruct e; cbn [pval] in Hv; try discriminate; cbn [air_of].
  - injection Hv as <-. reflexivity.
  - destruct (resolve p t n) as [sym|]; [|discriminate]. destruct sym; try discriminate. destruct t0; try discriminate.
    destruct (lookup_arg (to_lower n0) args) as [a|]; [|discriminate]. destruct a; try discriminate.
    injection Hv as <-. reflexivity.
  - destruct (pval e1) as [x|] eqn:E1; [|discriminate]. destruct (pval e2) as [y|] eqn:E2; [|discriminate].
    destruct (in_i128 (x + y)) eqn:Er; [|discriminate]. injection Hv as <-.
    cbn [sdepth] in Hf. cbn [reduce]. unfold composite_reduce. cbn [mapM_children].
    rewrite (IH e1 x E1) by lia. cbn [obind]. rewrite (IH e2 y E2) by lia. cbn [obind].
    cbn [forall_children is_constant andb]. cbn [reduce_self add_expr add_number]. rewrite Er. reflexivity.
  - destruct (pval e1) as [x|] eqn:E1; [|discriminate]. destruct (pval e2) as [y|] eqn:E2; [|discriminate].
    destruct (in_i128 (- y)) eqn:Er1; [|discriminate]. destruct (in_i128 (x + - y)) eqn:Er2; [|discriminate].
    injection Hv as <-.
    cbn [sdepth] in Hf. cbn [reduce]. unfold composite_reduce. cbn [mapM_children].
    rewrite (IH e1 x E1) by lia. cbn [obind]. rewrite (IH e2 y E2) by lia. cbn [obind].
    cbn [forall_children is_constant andb]. cbn [reduce_self sub_expr neg_expr]. rewrite Er1. cbn [obind add_number]. rewrite Er2.
    cbn [obind]. replace (x + - y) with (x - y) by lia. reflexivity.
  - destruct (pval e) as [x|] eqn:E1; [|discriminate].
    destruct (in_i128 (- x)) eqn:Er; [|discriminate]. injection Hv as <-.
    cbn [sdepth] in Hf. cbn [reduce]. unfold composite_reduce. cbn [mapM_children].
    rewrite (IH e x E1) by lia. cbn [obind].
    cbn [forall_children is_constant]. cbn [reduce_self neg_expr]. rewrite Er. reflexivity.
Qed.

(** the independent semantics, with the same arguments *)
Lemma eval_pval : forall env f c e v, de_args env = args -> pval e = Some v -> (sdepth e <= f)%nat ->
  eval p t env f c e = Some (VInt v).
Proof.
  intros env. induction f as [|f IH]; intros c e v Ha Hv Hf; [destruct e; cbn in Hf; lia|].
  destruct e; cbn [pval] in Hv; try discriminate; cbn [eval].
  - injection Hv as <-. reflexivity.
  - destruct (resolve p t n) as [sym|]; [|discriminate]. destruct sym; try discriminate. destruct t0; try discriminate.
    unfold arg_of, dlookup. rewrite Ha. unfold lookup_arg in Hv.
    destruct (option_map snd (find _ args)) as [a|]; [|discriminate]. destruct a; try discriminate.
    injection Hv as <-. reflexivity.
  - destruct (pval e1) as [x|] eqn:E1; [|discriminate]. destruct (pval e2) as [y|] eqn:E2; [|discriminate].
    destruct (in_i128 (x + y)); [|discriminate]. injection Hv as <-.
    cbn [sdepth] in Hf. rewrite (IH c e1 x Ha E1), (IH c e2 y Ha E2) by lia. reflexivity.
  - destruct (pval e1) as [x|] eqn:E1; [|discriminate]. destruct (pval e2) as [y|] eqn:E2; [|discriminate].
    destruct (in_i128 (- y) && in_i128 (x + - y)); [|discriminate]. injection Hv as <-.
    cbn [sdepth] in Hf. rewrite (IH c e1 x Ha E1), (IH c e2 y Ha E2) by lia. reflexivity.
  - destruct (pval e) as [x|] eqn:E1; [|discriminate].
    destruct (in_i128 (- x)); [|discriminate]. injection Hv as <-.
    cbn [sdepth] in Hf. rewrite (IH c e x Ha E1) by lia. reflexivity.
Qed.

(** for every choice of integer arguments: lower, apply, reduce = denotation *)
Theorem int_params_pipeline_is_denotation : forall env pick f d c e v,
  de_args env = args -> pval e = Some v -> (sdepth e <= f)%nat ->
  exists ir, lower_expr p t f (S d) c e = Ok ir
             /\ reduce pick f (apply_args args ir) = Ok (ENumber v)
             /\ eval p t env f c e = Some (VInt v).
Proof.
  intros env pick f d c e v Ha Hv Hf.
  destruct (lower_apply f d c e v Hv Hf) as [ir [Hl Hap]]. exists ir.
  split; [exact Hl|]. split; [rewrite Hap; apply reduce_air; assumption|eapply eval_pval; eassumption].
Qed.
End Args.
