(** Front_proofs.v — theorems about the front-end model: the key order of maps is a function
    of their content (C18), lower-cased argument names do not collide when the analyzer's
    check passes (C17). *)
From Tx3 Require Import Base Tir Reduce Surface Lower Analyze.
From stdpp Require Import sorting.

(** * string_ltb is a strict total order *)
Lemma string_ltb_irrefl a : string_ltb a a = false.
Proof.
  induction a as [|x a IH]; cbn; [reflexivity|].
  destruct (N.ltb_spec (Ascii.N_of_ascii x) (Ascii.N_of_ascii x)); [lia|]. exact IH.
Qed.
Lemma string_ltb_asym a b : string_ltb a b = true -> string_ltb b a = false.
Proof.
  revert b. induction a as [|x a IH]; intros [|y b] H; cbn in *; try reflexivity; try discriminate.
  destruct (N.ltb_spec (Ascii.N_of_ascii x) (Ascii.N_of_ascii y)), (N.ltb_spec (Ascii.N_of_ascii y) (Ascii.N_of_ascii x));
    try lia; try reflexivity; try discriminate.
  apply IH. exact H.
Qed.
Lemma string_ltb_trans a b c : string_ltb a b = true -> string_ltb b c = true -> string_ltb a c = true.
Proof.
  revert b c. induction a as [|x a IH]; intros [|y b] [|z c] H1 H2; cbn in *; try reflexivity; try discriminate.
  destruct (N.ltb_spec (Ascii.N_of_ascii x) (Ascii.N_of_ascii y)), (N.ltb_spec (Ascii.N_of_ascii y) (Ascii.N_of_ascii z)),
           (N.ltb_spec (Ascii.N_of_ascii x) (Ascii.N_of_ascii z)), (N.ltb_spec (Ascii.N_of_ascii y) (Ascii.N_of_ascii x)),
           (N.ltb_spec (Ascii.N_of_ascii z) (Ascii.N_of_ascii y)), (N.ltb_spec (Ascii.N_of_ascii z) (Ascii.N_of_ascii x));
    try lia; try reflexivity; try discriminate.
  eapply IH; eassumption.
Qed.
Lemma N_of_ascii_inj x y : Ascii.N_of_ascii x = Ascii.N_of_ascii y -> x = y.
Proof. intros H. rewrite <- (Ascii.ascii_N_embedding x), <- (Ascii.ascii_N_embedding y). f_equal. exact H. Qed.
Lemma string_ltb_total a b : string_ltb a b = false -> string_ltb b a = false -> a = b.
Proof.
  revert b. induction a as [|x a IH]; intros [|y b] H1 H2; cbn in *; try reflexivity; try discriminate.
  destruct (N.ltb_spec (Ascii.N_of_ascii x) (Ascii.N_of_ascii y)), (N.ltb_spec (Ascii.N_of_ascii y) (Ascii.N_of_ascii x));
    try lia; try discriminate.
  assert (x = y) by (apply N_of_ascii_inj; lia). subst. f_equal. apply IH; assumption.
Qed.

(** * the BTreeMap view is sorted, and a function of the set of entries *)
Section BT.
Context {A : Type}.
Definition key_lt (a b : string * A) : Prop := string_ltb (fst a) (fst b) = true.

Global Instance key_lt_antisymm : AntiSymm (=) key_lt.
Proof. intros x y H1 H2. unfold key_lt in *. apply string_ltb_asym in H1. congruence. Qed.
Global Instance key_lt_trans : Transitive key_lt.
Proof. intros x y z. unfold key_lt. apply string_ltb_trans. Qed.

Lemma bt_insert_sorted (k : string) (v : A) l :
  StronglySorted key_lt l -> StronglySorted key_lt (bt_insert k v l).
Proof.
  induction 1 as [|[k' v'] l Hs IH Hall]; cbn; [repeat constructor|].
  destruct (bool_decide_reflect (k = k')) as [->|Hne].
  - constructor; [exact Hs|]. exact Hall.
  - destruct (string_ltb k k') eqn:E.
    + constructor; [constructor; assumption|]. constructor; [exact E|].
      eapply Forall_impl; [exact Hall|]. intros [k2 v2] H2. unfold key_lt in *. cbn in *.
      eapply string_ltb_trans; eassumption.
    + constructor; [exact IH|].
      (* every element of the insertion is above k' *)
      assert (Hk : string_ltb k' k = true).
      { destruct (string_ltb k' k) eqn:E2; [reflexivity|]. exfalso. apply Hne. apply string_ltb_total; assumption. }
      clear IH Hs. induction l as [|[k2 v2] l IHl]; cbn.
      * constructor; [exact Hk|constructor].
      * inversion Hall as [|? ? H2 Hall']; subst.
        destruct (bool_decide (k = k2)); [constructor; [exact Hk|exact Hall']|].
        destruct (string_ltb k k2); [constructor; [exact Hk|]; constructor; assumption|].
        constructor; [exact H2|]. apply IHl. exact Hall'.
Qed.

Lemma bt_insert_perm (k : string) (v : A) l :
  k ∉ map fst l -> bt_insert k v l ≡ₚ (k, v) :: l.
Proof.
  induction l as [|[k' v'] l IH]; cbn; intros Hn; [reflexivity|].
  destruct (bool_decide_reflect (k = k')) as [->|Hne]; [exfalso; apply Hn; left|].
  destruct (string_ltb k k'); [reflexivity|].
  rewrite IH; [apply perm_swap|]. intros Hin. apply Hn. right. exact Hin.
Qed.

Lemma fold_insert_sorted (l acc : list (string * A)) :
  StronglySorted key_lt acc ->
  StronglySorted key_lt (fold_left (fun acc kv => bt_insert (fst kv) (snd kv) acc) l acc).
Proof. revert acc. induction l as [|x l IH]; cbn; intros acc H; [exact H|]. apply IH. apply bt_insert_sorted. exact H. Qed.

Lemma fold_insert_perm (l acc : list (string * A)) :
  NoDup (map fst (acc ++ l)) ->
  fold_left (fun acc kv => bt_insert (fst kv) (snd kv) acc) l acc ≡ₚ acc ++ l.
Proof.
  revert acc. induction l as [|[k v] l IH]; cbn; intros acc Hnd; [rewrite app_nil_r; reflexivity|].
  assert (Hk : k ∉ map fst acc).
  { rewrite map_app in Hnd. apply NoDup_app in Hnd as (_ & Hd & _). intros Hin. apply (Hd k Hin). cbn. left. }
  rewrite IH.
  - rewrite bt_insert_perm by exact Hk. cbn. rewrite Permutation_middle. reflexivity.
  - rewrite map_app. rewrite (fmap_Permutation fst _ _ (bt_insert_perm k v acc Hk)). cbn.
    rewrite map_app in Hnd. cbn in Hnd.
    eapply NoDup_Permutation_proper; [|exact Hnd]. rewrite Permutation_middle. reflexivity.
Qed.

Theorem bt_of_list_sorted (l : list (string * A)) : StronglySorted key_lt (bt_of_list l).
Proof. apply fold_insert_sorted. constructor. Qed.

(** the key-ordered view of a map does not depend on the order its entries are visited in
    (the iteration order of a hash map) *)
Theorem bt_of_list_perm_invariant (l1 l2 : list (string * A)) :
  NoDup (map fst l1) -> l1 ≡ₚ l2 -> bt_of_list l1 = bt_of_list l2.
Proof.
  intros Hnd Hp.
  apply (StronglySorted_unique key_lt); try apply bt_of_list_sorted.
  unfold bt_of_list. rewrite !fold_insert_perm; cbn; [exact Hp| |exact Hnd].
  eapply NoDup_Permutation_proper; [|exact Hnd]. apply fmap_Permutation. symmetry. exact Hp.
Qed.
End BT.

(** * lower-cased names *)
Lemma lower_ascii_idem c : lower_ascii (lower_ascii c) = lower_ascii c.
Proof.
  unfold lower_ascii.
  destruct ((65 <=? Ascii.N_of_ascii c)%N && (Ascii.N_of_ascii c <=? 90)%N) eqn:E; [|rewrite E; reflexivity].
  apply andb_true_iff in E as [H1 H2]. apply N.leb_le in H1. apply N.leb_le in H2.
  rewrite Ascii.N_ascii_embedding by lia.
  destruct (N.leb_spec 65 (Ascii.N_of_ascii c + 32)), (N.leb_spec (Ascii.N_of_ascii c + 32) 90); cbn; try reflexivity; lia.
Qed.
Theorem to_lower_idem s : to_lower (to_lower s) = to_lower s.
Proof. induction s as [|c s IH]; cbn; [reflexivity|]. rewrite lower_ascii_idem, IH. reflexivity. Qed.

Lemma mem_elem {A} `{EqDecision A} (x : A) l : mem x l = true <-> x ∈ l.
Proof. unfold mem. apply bool_decide_eq_true. Qed.
Lemma nodupb_NoDup {A} `{EqDecision A} (l : list A) : nodupb l = true -> NoDup l.
Proof.
  induction l as [|x l IH]; cbn; intros H; [constructor|].
  apply andb_true_iff in H as [H1 H2]. constructor; [|apply IH; exact H2].
  intros Hin. apply mem_elem in Hin. rewrite Hin in H1. discriminate H1.
Qed.
Lemma NoDup_fmap_inj {A B} (f : A -> B) (l : list A) x y :
  NoDup (map f l) -> x ∈ l -> y ∈ l -> f x = f y -> x = y.
Proof.
  induction l as [|a l IH]; cbn; intros Hnd Hx Hy He; [inversion Hx|].
  inversion Hnd as [|? ? Hn Hnd']; subst.
  apply elem_of_cons in Hx as [->|Hx]; apply elem_of_cons in Hy as [->|Hy]; try reflexivity.
  - exfalso. apply Hn. rewrite He. apply elem_of_list_fmap. exists y. split; [reflexivity|exact Hy].
  - exfalso. apply Hn. rewrite <- He. apply elem_of_list_fmap. exists x. split; [reflexivity|exact Hx].
  - apply IH; assumption.
Qed.

(** when the analyzer's duplicate check passes, two distinct declared argument names never
    share a key of the argument map *)
Theorem arg_keys_injective p t n1 n2 :
  arg_names_ok p t = true ->
  let declared := map fst (sp_env p) ++ sp_parties p ++ map fst (st_params t) in
  n1 ∈ declared -> n2 ∈ declared -> to_lower n1 = to_lower n2 -> n1 = n2.
Proof.
  unfold arg_names_ok. cbv zeta. intros H H1 H2 He.
  apply nodupb_NoDup in H.
  eapply (NoDup_fmap_inj to_lower); eauto.
Qed.
