(** Peg_proofs.v — facts about the PEG interpreter: whatever it matches is a prefix of its
    input, so every position it reaches lies inside the text (C19); its verdicts do not depend
    on the amount of fuel once there is enough (C12). *)
From Tx3 Require Import Base Peg.

Definition adv (inp : list N) (pos : N) (rest : list N) (pos' : N) : Prop :=
  exists c, inp = (c ++ rest)%list /\ pos' = (pos + N.of_nat (length c))%N.

Lemma adv_refl inp pos : adv inp pos inp pos.
Proof. exists []. split; [reflexivity|]. cbn. lia. Qed.
Lemma adv_trans a p b q c r : adv a p b q -> adv b q c r -> adv a p c r.
Proof.
  intros [x [-> ->]] [y [-> ->]]. exists (x ++ y)%list. split; [rewrite app_assoc; reflexivity|].
  rewrite app_length. lia.
Qed.

Lemma strip_prefix_adv s inp r pos : strip_prefix s inp = Some r -> adv inp pos r (pos + N.of_nat (length s)).
Proof.
  revert inp. induction s as [|x s IH]; intros inp H; cbn in H.
  - injection H as <-. exists []. split; [reflexivity|]. cbn. lia.
  - destruct inp as [|y inp]; [discriminate|]. destruct (N.eqb_spec x y); [|discriminate]. subst.
    destruct (IH _ H) as [c [-> Hc]]. exists (y :: c). split; [reflexivity|]. cbn [length]. lia.
Qed.

Lemma one_adv p inp pos r pos' : one p inp pos = RMatch r pos' -> adv inp pos r pos'.
Proof.
  unfold one. destruct inp as [|x inp]; [discriminate|]. destruct (p x); [|discriminate].
  intros H. injection H as <- <-. exists [x]. split; [reflexivity|]. cbn. lia.
Qed.

Section Proofs.
Variable g : grammar.

(** everything the interpreter consumes is a prefix of its input, and the position it reports
    is the number of bytes consumed: no position outside the text is ever produced *)
Theorem run_adv : forall fuel atomic e inp pos rest pos',
  run g fuel atomic e inp pos = RMatch rest pos' -> adv inp pos rest pos'.
Proof.
  induction fuel as [|f IH]; intros atomic e inp pos rest pos' H; [discriminate|].
  assert (Hskip : forall i p r q,
            (if atomic then RMatch i p else run g f true (PRep (PChoice (PIdent "WHITESPACE") (PIdent "COMMENT"))) i p) = RMatch r q ->
            adv i p r q).
  { intros i p r q Hs. destruct atomic; [injection Hs as <- <-; apply adv_refl|eapply IH; exact Hs]. }
  destruct e; cbn [run] in H.
  - (* PStr *) destruct (strip_prefix s inp) eqn:E; [|discriminate]. injection H as <- <-. eapply strip_prefix_adv; exact E.
  - (* PRange *) eapply one_adv; exact H.
  - (* PIdent *)
    repeat match type of H with
           | (if bool_decide ?c then _ else _) = _ => destruct (bool_decide c)
           end;
    try (eapply one_adv; exact H).
    + (* ANY *) destruct inp as [|x inp]; [discriminate|].
      destruct (utf8_len x <=? length (x :: inp))%nat eqn:E; [|discriminate]. injection H as <- <-.
      apply Nat.leb_le in E. exists (take (utf8_len x) (x :: inp)). split; [symmetry; apply take_drop|].
      rewrite take_length. f_equal. f_equal. lia.
    + (* SOI *) destruct (pos =? 0)%N; [|discriminate]. injection H as <- <-. apply adv_refl.
    + (* EOI *) destruct inp; [|discriminate]. injection H as <- <-. apply adv_refl.
    + destruct (glookup g name) as [[k body]|]; [|discriminate]. eapply IH; exact H.
  - (* PSeq *)
    destruct (run g f atomic e1 inp pos) as [r1 p1| |] eqn:E1; try discriminate.
    match type of H with match ?s with _ => _ end = _ => destruct s as [r2 p2| |] eqn:E2; try discriminate end.
    eapply adv_trans; [eapply IH; exact E1|]. eapply adv_trans; [eapply Hskip; exact E2|]. eapply IH; exact H.
  - (* PChoice *)
    destruct (run g f atomic e1 inp pos) as [r1 p1| |] eqn:E1; try discriminate.
    + injection H as <- <-. eapply IH; exact E1.
    + eapply IH; exact H.
  - (* POpt *)
    destruct (run g f atomic e inp pos) as [r1 p1| |] eqn:E1; try discriminate.
    + injection H as <- <-. eapply IH; exact E1.
    + injection H as <- <-. apply adv_refl.
  - (* PRep *)
    destruct (run g f atomic e inp pos) as [r1 p1| |] eqn:E1; try discriminate.
    + pose proof (IH _ _ _ _ _ _ E1) as A1.
      destruct (p1 =? pos)%N; [injection H as <- <-; exact A1|].
      match type of H with match ?s with _ => _ end = _ => destruct s as [r2 p2| |] eqn:E2; try discriminate end.
      * destruct (run g f atomic (PRepOnce e) r2 p2) as [r3 p3| |] eqn:E3; try discriminate.
        -- injection H as <- <-. eapply adv_trans; [exact A1|]. eapply adv_trans; [eapply Hskip; exact E2|]. eapply IH; exact E3.
        -- injection H as <- <-. exact A1.
      * injection H as <- <-. exact A1.
    + injection H as <- <-. apply adv_refl.
  - (* PRepOnce *)
    destruct (run g f atomic e inp pos) as [r1 p1| |] eqn:E1; try discriminate.
    pose proof (IH _ _ _ _ _ _ E1) as A1.
    destruct (p1 =? pos)%N; [injection H as <- <-; exact A1|].
    match type of H with match ?s with _ => _ end = _ => destruct s as [r2 p2| |] eqn:E2; try discriminate end.
    + destruct (run g f atomic (PRepOnce e) r2 p2) as [r3 p3| |] eqn:E3; try discriminate.
      * injection H as <- <-. eapply adv_trans; [exact A1|]. eapply adv_trans; [eapply Hskip; exact E2|]. eapply IH; exact E3.
      * injection H as <- <-. exact A1.
    + injection H as <- <-. exact A1.
  - (* PNeg *)
    destruct (run g f atomic e inp pos) as [r1 p1| |]; try discriminate. injection H as <- <-. apply adv_refl.
  - (* PPos *)
    destruct (run g f atomic e inp pos) as [r1 p1| |]; try discriminate. injection H as <- <-. apply adv_refl.
Qed.

Corollary run_position_within_text : forall fuel e inp rest pos',
  run g fuel false e inp 0 = RMatch rest pos' -> (pos' <= N.of_nat (length inp))%N.
Proof.
  intros fuel e inp rest pos' H. destruct (run_adv _ _ _ _ _ _ _ H) as [c [-> ->]]. rewrite app_length. lia.
Qed.
End Proofs.

(** * verdicts do not depend on the fuel once there is enough *)
Section Mono.
Variable g : grammar.

Theorem run_mono : forall f atomic e inp pos r,
  run g f atomic e inp pos = r -> r <> RFuel -> forall f', (f <= f')%nat -> run g f' atomic e inp pos = r.
Proof.
  induction f as [|f IH]; intros atomic e inp pos r H Hr f' Hle; [cbn in H; congruence|].
  destruct f' as [|f'']; [lia|]. assert (Hf : (f <= f'')%nat) by lia.
  assert (IH' : forall a e i p x, run g f a e i p = x -> x <> RFuel -> run g f'' a e i p = x).
  { intros a e0 i p x Hx Hn. eapply IH; eassumption. }
  (* the implicit skip, at both fuels *)
  assert (Hskip : forall i p x,
            (if atomic then RMatch i p else run g f true (PRep (PChoice (PIdent "WHITESPACE") (PIdent "COMMENT"))) i p) = x -> x <> RFuel ->
            (if atomic then RMatch i p else run g f'' true (PRep (PChoice (PIdent "WHITESPACE") (PIdent "COMMENT"))) i p) = x).
  { intros i p x Hx Hn. destruct atomic; [exact Hx|apply IH'; assumption]. }
  destruct e; cbn [run] in H |- *.
  - exact H.
  - exact H.
  - (* PIdent *)
    repeat match goal with
           | |- (if bool_decide ?c then _ else _) = _ => destruct (bool_decide c)
           end; try exact H.
    destruct (glookup g name) as [[k body]|]; [|exact H]. apply IH'; assumption.
  - (* PSeq *)
    destruct (run g f atomic e1 inp pos) as [r1 p1| |] eqn:E1.
    + rewrite (IH' _ _ _ _ _ E1 ltac:(discriminate)).
      match type of H with match ?s with _ => _ end = _ => destruct s as [r2 p2| |] eqn:E2 end.
      * rewrite (Hskip _ _ _ E2 ltac:(discriminate)). apply IH'; assumption.
      * rewrite (Hskip _ _ _ E2 ltac:(discriminate)). exact H.
      * congruence.
    + rewrite (IH' _ _ _ _ _ E1 ltac:(discriminate)). exact H.
    + congruence.
  - (* PChoice *)
    destruct (run g f atomic e1 inp pos) as [r1 p1| |] eqn:E1.
    + rewrite (IH' _ _ _ _ _ E1 ltac:(discriminate)). exact H.
    + rewrite (IH' _ _ _ _ _ E1 ltac:(discriminate)). apply IH'; assumption.
    + congruence.
  - (* POpt *)
    destruct (run g f atomic e inp pos) as [r1 p1| |] eqn:E1.
    + rewrite (IH' _ _ _ _ _ E1 ltac:(discriminate)). exact H.
    + rewrite (IH' _ _ _ _ _ E1 ltac:(discriminate)). exact H.
    + congruence.
  - (* PRep *)
    destruct (run g f atomic e inp pos) as [r1 p1| |] eqn:E1.
    + rewrite (IH' _ _ _ _ _ E1 ltac:(discriminate)).
      destruct (p1 =? pos)%N; [exact H|].
      match type of H with match ?s with _ => _ end = _ => destruct s as [r2 p2| |] eqn:E2 end.
      * rewrite (Hskip _ _ _ E2 ltac:(discriminate)).
        destruct (run g f atomic (PRepOnce e) r2 p2) as [r3 p3| |] eqn:E3.
        -- rewrite (IH' _ _ _ _ _ E3 ltac:(discriminate)). exact H.
        -- rewrite (IH' _ _ _ _ _ E3 ltac:(discriminate)). exact H.
        -- congruence.
      * rewrite (Hskip _ _ _ E2 ltac:(discriminate)). exact H.
      * congruence.
    + rewrite (IH' _ _ _ _ _ E1 ltac:(discriminate)). exact H.
    + congruence.
  - (* PRepOnce *)
    destruct (run g f atomic e inp pos) as [r1 p1| |] eqn:E1.
    + rewrite (IH' _ _ _ _ _ E1 ltac:(discriminate)).
      destruct (p1 =? pos)%N; [exact H|].
      match type of H with match ?s with _ => _ end = _ => destruct s as [r2 p2| |] eqn:E2 end.
      * rewrite (Hskip _ _ _ E2 ltac:(discriminate)).
        destruct (run g f atomic (PRepOnce e) r2 p2) as [r3 p3| |] eqn:E3.
        -- rewrite (IH' _ _ _ _ _ E3 ltac:(discriminate)). exact H.
        -- rewrite (IH' _ _ _ _ _ E3 ltac:(discriminate)). exact H.
        -- congruence.
      * rewrite (Hskip _ _ _ E2 ltac:(discriminate)). exact H.
      * congruence.
    + rewrite (IH' _ _ _ _ _ E1 ltac:(discriminate)). exact H.
    + congruence.
  - (* PNeg *)
    destruct (run g f atomic e inp pos) as [r1 p1| |] eqn:E1.
    + rewrite (IH' _ _ _ _ _ E1 ltac:(discriminate)). exact H.
    + rewrite (IH' _ _ _ _ _ E1 ltac:(discriminate)). exact H.
    + congruence.
  - (* PPos *)
    destruct (run g f atomic e inp pos) as [r1 p1| |] eqn:E1.
    + rewrite (IH' _ _ _ _ _ E1 ltac:(discriminate)). exact H.
    + rewrite (IH' _ _ _ _ _ E1 ltac:(discriminate)). exact H.
    + congruence.
Qed.

(** hence a text has at most one verdict: two runs that both answer give the same answer *)
Corollary accepts_deterministic : forall f1 f2 start inp b1 b2,
  accepts g f1 start inp = Some b1 -> accepts g f2 start inp = Some b2 -> b1 = b2.
Proof.
  unfold accepts. intros f1 f2 start inp b1 b2 H1 H2.
  destruct (Nat.le_ge_cases f1 f2) as [Hle|Hle].
  - destruct (run g f1 false (PIdent start) inp 0) as [r p| |] eqn:E1; try discriminate.
    + rewrite (run_mono _ _ _ _ _ _ E1 ltac:(discriminate) f2 Hle) in H2. congruence.
    + rewrite (run_mono _ _ _ _ _ _ E1 ltac:(discriminate) f2 Hle) in H2. congruence.
  - destruct (run g f2 false (PIdent start) inp 0) as [r p| |] eqn:E2; try discriminate.
    + rewrite (run_mono _ _ _ _ _ _ E2 ltac:(discriminate) f1 Hle) in H1. congruence.
    + rewrite (run_mono _ _ _ _ _ _ E2 ltac:(discriminate) f1 Hle) in H1. congruence.
Qed.
End Mono.
