(** C09_check.v — byte-for-byte correspondence of PlutusData.v with the datum / redeemer bytes
    tx3_cardano emits, and the property clause: the specification's reader, run on the
    implementation's bytes, recovers the denoted value. *)
From Tx3 Require Import Base Tir PlutusData.

Record case := mk_case {
  c_expr : expr;
  c_denote : option pdata;          (* what the generated source program denotes (front-end leg) *)
  c_datum_kind : N;                 (* 0 Ok, 1 Err, 2 panic *)
  c_datum : option (list N);
  c_red_kind : N;
  c_red : option (list N) }.

Definition kind_of {A} (x : outcome A) : N :=
  match x with Ok _ => 0%N | Err _ => 1%N | _ => 2%N end.
Definition bytes_eq (a b : list N) : bool := bool_decide (a = b).

Fixpoint pdata_eqb (a b : pdata) {struct a} : bool :=
  match a, b with
  | PConstr i xs, PConstr j ys =>
    (i =? j)%N && (fix go (xs ys : list pdata) : bool :=
                     match xs, ys with
                     | [], [] => true
                     | x :: xs', y :: ys' => pdata_eqb x y && go xs' ys'
                     | _, _ => false
                     end) xs ys
  | PMap xs, PMap ys =>
    (fix go (xs ys : list (pdata * pdata)) : bool :=
       match xs, ys with
       | [], [] => true
       | x :: xs', y :: ys' => pdata_eqb (fst x) (fst y) && pdata_eqb (snd x) (snd y) && go xs' ys'
       | _, _ => false
       end) xs ys
  | PList xs, PList ys =>
    (fix go (xs ys : list pdata) : bool :=
       match xs, ys with
       | [], [] => true
       | x :: xs', y :: ys' => pdata_eqb x y && go xs' ys'
       | _, _ => false
       end) xs ys
  | PInt x, PInt y => x =? y
  | PBytes x, PBytes y => bytes_eq x y
  | _, _ => false
  end.

Definition agrees (m : outcome pdata) (kind : N) (bs : option (list N)) : bool :=
  (kind_of m =? kind)%N &&
  match m, bs with
  | Ok d, Some b => bytes_eq (encode d) b
  | Ok _, None => false
  | _, _ => true
  end.

(** the reader of the specification on the implementation's bytes *)
Definition reads_as (bs : list N) (d : pdata) : bool :=
  match decode (S (length bs)) bs with
  | Some (d', []) => pdata_eqb d' d
  | _ => false
  end.

Definition checks (c : case) : list (N * bool) :=
  let e := c_expr c in
  [ (1%N, agrees (compile_data_expr e) (c_datum_kind c) (c_datum c));
    (2%N, agrees (try_as_data e) (c_red_kind c) (c_red c));
    (101%N, match c_datum c, compile_data_expr e with
            | Some b, Ok d => reads_as b (from_option id d (c_denote c))
            | Some b, _ => match c_denote c with Some d => reads_as b d | None => true end
            | None, _ => match c_denote c with Some _ => false | None => true end
            end);
    (102%N, match c_red c, try_as_data e with
            | Some b, Ok d => reads_as b d
            | _, _ => true
            end);
    (103%N, negb (c_datum_kind c =? 2)%N && negb (c_red_kind c =? 2)%N) ].

Definition failed (c : case) : list N :=
  map fst (filter (fun x => negb (snd x)) (checks c)).
Fixpoint run_from (i : N) (cs : list case) : list (N * list N) :=
  match cs with
  | [] => []
  | c :: r => match failed c with [] => run_from (i + 1)%N r | f => (i, f) :: run_from (i + 1)%N r end
  end.
Definition run (cs : list case) := run_from 0%N cs.
