(** Assets_proofs.v — the algebra of multi-asset values (property C15). *)
From Tx3 Require Import Base Assets.

Local Open Scope Z_scope.

(** * get0 of every operation *)

Lemma get0_empty k : get0 a_empty k = 0.
Proof. unfold get0, a_empty. rewrite lookup_empty. reflexivity. Qed.

Lemma get0_singleton c z k :
  get0 ({[ c := z ]} : assets) k = if decide (c = k) then z else 0.
Proof.
  unfold get0. destruct (decide (c = k)) as [->|Hne].
  - rewrite lookup_singleton. reflexivity.
  - rewrite lookup_singleton_ne by exact Hne. reflexivity.
Qed.

Lemma get0_strip a k : get0 (strip a) k = get0 a k.
Proof.
  unfold get0, strip.
  destruct (a !! k) as [v|] eqn:Ha.
  - destruct (decide (v = 0)) as [->|Hv].
    + destruct (filter nonzero_entry a !! k) as [w|] eqn:Hf; [|reflexivity].
      apply map_filter_lookup_Some in Hf as [Hl Hp]. rewrite Ha in Hl.
      injection Hl as <-. exfalso. apply Hp. reflexivity.
    + assert (Hf: filter nonzero_entry a !! k = Some v).
      { apply map_filter_lookup_Some. split; [exact Ha| exact Hv]. }
      rewrite Hf. reflexivity.
  - destruct (filter nonzero_entry a !! k) as [w|] eqn:Hf; [|reflexivity].
    apply map_filter_lookup_Some in Hf as [Hl _]. rewrite Ha in Hl. discriminate.
Qed.

Lemma strip_equiv a : strip a ≈ a.
Proof. intros k. apply get0_strip. Qed.

Lemma get0_add_raw a b k : get0 (a_add_raw a b) k = get0 a k + get0 b k.
Proof.
  unfold get0, a_add_raw. rewrite lookup_union_with.
  destruct (a !! k), (b !! k); cbn; lia.
Qed.

Lemma get0_sub_raw a b k : get0 (a_sub_raw a b) k = get0 a k - get0 b k.
Proof.
  unfold get0, a_sub_raw. rewrite lookup_merge.
  destruct (a !! k), (b !! k); cbn; lia.
Qed.

Lemma get0_add a b k : get0 (a_add a b) k = get0 a k + get0 b k.
Proof. unfold a_add. rewrite get0_strip. apply get0_add_raw. Qed.

Lemma get0_sub a b k : get0 (a_sub a b) k = get0 a k - get0 b k.
Proof. unfold a_sub. rewrite get0_strip. apply get0_sub_raw. Qed.

Lemma get0_neg a k : get0 (a_neg a) k = - get0 a k.
Proof.
  unfold get0, a_neg. rewrite lookup_fmap. destruct (a !! k); cbn; lia.
Qed.

(** * aequiv is an equivalence and every operation respects it *)

Global Instance aequiv_equiv : Equivalence aequiv.
Proof.
  split.
  - intros a k. reflexivity.
  - intros a b H k. symmetry. apply H.
  - intros a b c H1 H2 k. rewrite H1. apply H2.
Qed.

Global Instance a_add_proper : Proper (aequiv ==> aequiv ==> aequiv) a_add.
Proof. intros a a' Ha b b' Hb k. rewrite !get0_add, Ha, Hb. reflexivity. Qed.
Global Instance a_sub_proper : Proper (aequiv ==> aequiv ==> aequiv) a_sub.
Proof. intros a a' Ha b b' Hb k. rewrite !get0_sub, Ha, Hb. reflexivity. Qed.
Global Instance a_neg_proper : Proper (aequiv ==> aequiv) a_neg.
Proof. intros a a' Ha k. rewrite !get0_neg, Ha. reflexivity. Qed.

(** * The commutative group laws *)

Lemma add_comm a b : a_add a b ≈ a_add b a.
Proof. intros k. rewrite !get0_add. lia. Qed.

Lemma add_assoc a b c : a_add (a_add a b) c ≈ a_add a (a_add b c).
Proof. intros k. rewrite !get0_add. lia. Qed.

Lemma add_empty_l a : a_add a_empty a ≈ a.
Proof. intros k. rewrite get0_add, get0_empty. lia. Qed.

Lemma add_empty_r a : a_add a a_empty ≈ a.
Proof. intros k. rewrite get0_add, get0_empty. lia. Qed.

Lemma sub_def a b : a_sub a b ≈ a_add a (a_neg b).
Proof. intros k. rewrite get0_sub, get0_add, get0_neg. lia. Qed.

Lemma sub_add_cancel a b : a_add (a_sub a b) b ≈ a.
Proof. intros k. rewrite get0_add, get0_sub. lia. Qed.

Lemma add_sub_cancel a b : a_sub (a_add a b) b ≈ a.
Proof. intros k. rewrite get0_sub, get0_add. lia. Qed.

Lemma neg_involutive a : a_neg (a_neg a) ≈ a.
Proof. intros k. rewrite !get0_neg. lia. Qed.

Lemma neg_add a b : a_neg (a_add a b) ≈ a_add (a_neg a) (a_neg b).
Proof. intros k. rewrite get0_neg, !get0_add, !get0_neg. lia. Qed.

Lemma add_neg_inverse a : a_add a (a_neg a) ≈ a_empty.
Proof. intros k. rewrite get0_add, get0_neg, get0_empty. lia. Qed.

Lemma sub_self a : a_sub a a ≈ a_empty.
Proof. intros k. rewrite get0_sub, get0_empty. lia. Qed.

(** results of add / sub hold no zero entries *)
Lemma strip_no_zero a k v : strip a !! k = Some v -> v <> 0.
Proof. unfold strip. intros H. apply map_filter_lookup_Some in H as [_ Hp]. exact Hp. Qed.

(** * Equality *)

Lemma covers_spec a b :
  covers a b = true <-> forall k v, a !! k = Some v -> v = get0 b k.
Proof.
  unfold covers. rewrite forallb_forall. split.
  - intros H k v Hk. specialize (H (k, v)). cbn in H.
    apply Z.eqb_eq, H. apply elem_of_list_In, elem_of_map_to_list. exact Hk.
  - intros H [k v] Hin. cbn. apply Z.eqb_eq, H.
    apply elem_of_map_to_list, elem_of_list_In. exact Hin.
Qed.

(** the repaired `==` is exactly semantic equality *)
Theorem eq_impl_semantic a b : eq_impl a b = true <-> a ≈ b.
Proof.
  unfold eq_impl. rewrite andb_true_iff, !covers_spec. split.
  - intros [H1 H2] k. unfold get0 at 1.
    destruct (a !! k) as [v|] eqn:Ha; cbn.
    + apply H1. exact Ha.
    + unfold get0. destruct (b !! k) as [w|] eqn:Hb; cbn; [|reflexivity].
      specialize (H2 k w Hb). unfold get0 in H2. rewrite Ha in H2. cbn in H2. lia.
  - intros H. split.
    + intros k v Hk. rewrite <- H. unfold get0. rewrite Hk. reflexivity.
    + intros k v Hk. rewrite H. unfold get0. rewrite Hk. reflexivity.
Qed.

(** the derived (structural) `==` of the pinned tree was not: finding F15-1 *)
Lemma eq_struct_semantic_refuted :
  exists a b, a ≈ b /\ eq_struct a b = false.
Proof.
  exists (from_naked_amount 0), a_empty. split.
  - intros k. unfold from_naked_amount. rewrite get0_singleton, get0_empty.
    destruct (decide (Naked = k)); reflexivity.
  - vm_compute. reflexivity.
Qed.

(** without zero entries, semantic equality is structural equality *)
Lemma strip_id a : (forall k v, a !! k = Some v -> v <> 0) -> strip a = a.
Proof.
  intros H. apply map_eq. intros k. unfold strip.
  destruct (a !! k) as [v|] eqn:Ha.
  - apply map_filter_lookup_Some. split; [exact Ha | exact (H k v Ha)].
  - apply map_filter_lookup_None. left. exact Ha.
Qed.

Lemma aequiv_strip_eq a b : a ≈ b <-> strip a = strip b.
Proof.
  split.
  - intros H. apply map_eq. intros k.
    specialize (H k). unfold get0 in H. unfold strip.
    destruct (filter nonzero_entry a !! k) as [v|] eqn:Hfa.
    + apply map_filter_lookup_Some in Hfa as [Ha Hv]. unfold nonzero_entry in Hv; cbn in Hv.
      rewrite Ha in H; cbn in H. symmetry. apply map_filter_lookup_Some.
      destruct (b !! k) as [w|]; cbn in H; [|congruence].
      subst w. split; [reflexivity | exact Hv].
    + symmetry. apply map_filter_lookup_None.
      apply map_filter_lookup_None in Hfa as [Ha | Ha].
      * rewrite Ha in H; cbn in H. destruct (b !! k) as [w|] eqn:Hb; [|left; reflexivity].
        right. intros x Hx. injection Hx as <-. unfold nonzero_entry; cbn. cbn in H. lia.
      * destruct (a !! k) as [v|] eqn:Hak.
        -- assert (v = 0).
           { destruct (decide (v = 0)) as [|Hn]; [assumption|].
             exfalso. apply (Ha v eq_refl). exact Hn. }
           subst v. cbn in H.
           destruct (b !! k) as [w|] eqn:Hb; [|left; reflexivity].
           right. intros x Hx. injection Hx as <-. unfold nonzero_entry; cbn. cbn in H. lia.
        -- cbn in H. destruct (b !! k) as [w|] eqn:Hb; [|left; reflexivity].
           right. intros x Hx. injection Hx as <-. unfold nonzero_entry; cbn. cbn in H. lia.
  - intros H k. rewrite <- (get0_strip a), <- (get0_strip b), H. reflexivity.
Qed.

(** * Observers respect aequiv (zero entries are immaterial to every observer) *)

Lemma a_is_empty_spec a : a_is_empty a = true <-> a ≈ a_empty.
Proof.
  unfold a_is_empty. rewrite forallb_forall. split.
  - intros H k. rewrite get0_empty. unfold get0.
    destruct (a !! k) as [v|] eqn:Ha; [|reflexivity]. cbn.
    specialize (H (k, v)). cbn in H. apply Z.eqb_eq, H.
    apply elem_of_list_In, elem_of_map_to_list. exact Ha.
  - intros H [k v] Hin. cbn. apply Z.eqb_eq.
    apply elem_of_list_In, elem_of_map_to_list in Hin.
    specialize (H k). rewrite get0_empty in H. unfold get0 in H. rewrite Hin in H. exact H.
Qed.

Lemma is_empty_or_negative_spec a :
  is_empty_or_negative a = true <-> forall k, get0 a k <= 0.
Proof.
  unfold is_empty_or_negative. rewrite forallb_forall. split.
  - intros H k. unfold get0. destruct (a !! k) as [v|] eqn:Ha; cbn; [|lia].
    specialize (H (k, v)). cbn in H.
    assert (Hin: In (k, v) (map_to_list a)) by (apply elem_of_list_In, elem_of_map_to_list; exact Ha).
    specialize (H Hin). apply negb_true_iff, Z.ltb_ge in H. exact H.
  - intros H [k v] Hin. cbn. apply negb_true_iff, Z.ltb_ge.
    apply elem_of_list_In, elem_of_map_to_list in Hin.
    specialize (H k). unfold get0 in H. rewrite Hin in H. exact H.
Qed.

(** contains_total, characterised through get0 only *)
Lemma contains_total_get0 self other :
  contains_total self other = true <->
  forall k, get0 other k <> 0 -> 0 < get0 other k /\ get0 other k <= get0 self k.
Proof.
  unfold contains_total. rewrite forallb_forall. split.
  - intros H k Hnz. unfold get0 in Hnz |- *.
    destruct (other !! k) as [ob|] eqn:Ho; cbn in *; [|lia].
    assert (Hin: In (k, ob) (map_to_list other)) by (apply elem_of_list_In, elem_of_map_to_list; exact Ho).
    specialize (H _ Hin). unfold ct_entry in H.
    destruct (Z.eqb_spec ob 0) as [|_]; [lia|].
    destruct (Z.ltb_spec ob 0) as [|Hpos]; [discriminate|].
    destruct (self !! k) as [sa|]; [|discriminate]. cbn.
    destruct (Z.ltb_spec sa 0); [discriminate|].
    apply negb_true_iff, Z.ltb_ge in H. lia.
  - intros H [k ob] Hin. unfold ct_entry.
    apply elem_of_list_In, elem_of_map_to_list in Hin.
    destruct (Z.eqb_spec ob 0) as [|Hnz]; [reflexivity|].
    specialize (H k). unfold get0 in H. rewrite Hin in H. cbn in H.
    specialize (H Hnz) as [Hpos Hle].
    destruct (Z.ltb_spec ob 0); [lia|].
    destruct (self !! k) as [sa|]; cbn in Hle; [|lia].
    destruct (Z.ltb_spec sa 0); [lia|].
    apply negb_true_iff, Z.ltb_ge. lia.
Qed.

(** it is exactly the component-wise >= order on non-negative amounts *)
Theorem contains_total_spec self other :
  nonneg self -> nonneg other ->
  (contains_total self other = true <-> forall k, get0 other k <= get0 self k).
Proof.
  intros Hs Ho. rewrite contains_total_get0. split.
  - intros H k. destruct (decide (get0 other k = 0)) as [E|Hn].
    + rewrite E. apply Hs.
    + apply (H k Hn).
  - intros H k Hn. split; [|apply H]. specialize (Ho k). lia.
Qed.

(** outside that domain: a negative requirement is never contained *)
Lemma contains_total_neg self other k :
  get0 other k < 0 -> contains_total self other = false.
Proof.
  intros Hneg. destruct (contains_total self other) eqn:E; [|reflexivity].
  pose proof (proj1 (contains_total_get0 self other) E k) as E'. lia.
Qed.

Lemma bool_iff_eq (x y : bool) : (x = true <-> y = true) -> x = y.
Proof. destruct x, y; intros [H1 H2]; try reflexivity; [symmetry; apply H1 | apply H2]; reflexivity. Qed.

Global Instance contains_total_proper : Proper (aequiv ==> aequiv ==> eq) contains_total.
Proof.
  intros a a' Ha b b' Hb. apply bool_iff_eq. rewrite !contains_total_get0.
  split; intros H k; [rewrite <- Hb, <- Ha | rewrite Hb, Ha]; apply H.
Qed.

Global Instance a_is_empty_proper : Proper (aequiv ==> eq) a_is_empty.
Proof.
  intros a a' Ha. apply bool_iff_eq. rewrite !a_is_empty_spec.
  split; intros H; [rewrite <- Ha | rewrite Ha]; exact H.
Qed.

Global Instance is_empty_or_negative_proper : Proper (aequiv ==> eq) is_empty_or_negative.
Proof.
  intros a a' Ha. apply bool_iff_eq. rewrite !is_empty_or_negative_spec.
  split; intros H k; [rewrite <- Ha | rewrite Ha]; apply H.
Qed.

Lemma existsb_cs_spec self other :
  existsb (cs_entry self) (map_to_list other) = true <->
  exists k, get0 other k <> 0 /\ 0 < get0 self k.
Proof.
  rewrite existsb_exists. split.
  - intros [[k ob] [Hin H]]. apply elem_of_list_In, elem_of_map_to_list in Hin.
    exists k. unfold cs_entry in H. unfold get0. rewrite Hin. cbn.
    destruct (Z.eqb_spec ob 0); [discriminate|].
    destruct (self !! k) as [sa|]; [|discriminate]. cbn.
    apply Z.ltb_lt in H. split; assumption.
  - intros [k [Hnz Hpos]]. unfold get0 in Hnz, Hpos.
    destruct (other !! k) as [ob|] eqn:Ho; cbn in Hnz; [|lia].
    exists (k, ob). split.
    + apply elem_of_list_In, elem_of_map_to_list. exact Ho.
    + unfold cs_entry. destruct (Z.eqb_spec ob 0); [lia|].
      destruct (self !! k) as [sa|]; cbn in Hpos; [|lia]. apply Z.ltb_lt. exact Hpos.
Qed.

Lemma contains_some_get0 self other :
  contains_some self other = true <->
  (other ≈ a_empty \/ exists k, get0 other k <> 0 /\ 0 < get0 self k).
Proof.
  unfold contains_some.
  destruct (a_is_empty other) eqn:Eo.
  - apply a_is_empty_spec in Eo. split; [intros _; left; exact Eo | reflexivity].
  - assert (Hno: ~ other ≈ a_empty).
    { intros H. apply a_is_empty_spec in H. congruence. }
    destruct (a_is_empty self) eqn:Es.
    + apply a_is_empty_spec in Es. split; [discriminate|].
      intros [H | [k [_ Hpos]]]; [contradiction|].
      rewrite Es, get0_empty in Hpos. lia.
    + rewrite existsb_cs_spec. split; [intros H; right; exact H|].
      intros [H|H]; [contradiction | exact H].
Qed.

Global Instance contains_some_proper : Proper (aequiv ==> aequiv ==> eq) contains_some.
Proof.
  intros a a' Ha b b' Hb. apply bool_iff_eq. rewrite !contains_some_get0.
  split; intros [H | [k [H1 H2]]].
  - left. rewrite <- Hb. exact H.
  - right. exists k. rewrite <- Hb, <- Ha. split; assumption.
  - left. rewrite Hb. exact H.
  - right. exists k. rewrite Hb, Ha. split; assumption.
Qed.

Global Instance eq_impl_proper : Proper (aequiv ==> aequiv ==> eq) eq_impl.
Proof.
  intros a a' Ha b b' Hb. apply bool_iff_eq. rewrite !eq_impl_semantic.
  split; intros H; [rewrite <- Ha, <- Hb | rewrite Ha, Hb]; exact H.
Qed.

(** * Conversion to the IR's asset-expression list and back *)

Lemma from_asset_of_class c z :
  wf_class c = true ->
  from_asset (expect_policy (class_policy c)) (expect_name (class_name c)) z = {[ c := z ]}.
Proof.
  destruct c as [|n|p n]; cbn.
  - reflexivity.
  - destruct n; [discriminate | reflexivity].
  - destruct p; [discriminate | reflexivity].
Qed.

Definition entries_sum (l : list (asset_class * Z)) (k : asset_class) : Z :=
  fold_right (fun kv acc => (if decide (kv.1 = k) then kv.2 else 0) + acc) 0 l.

Lemma entries_sum_cons c z l k :
  entries_sum ((c, z) :: l) k = (if decide (c = k) then z else 0) + entries_sum l k.
Proof. reflexivity. Qed.

Lemma of_exprs_from_entries acc l :
  forallb (fun kv => wf_class kv.1) l = true ->
  exists a', of_exprs_from acc (to_exprs_ord l) = Ok a' /\
             forall k, get0 a' k = get0 acc k + entries_sum l k.
Proof.
  revert acc. induction l as [|[c z] l IH]; intros acc Hwf; cbn [to_exprs_ord map of_exprs_from].
  - exists acc. split; [reflexivity|]. intros k. cbn. lia.
  - cbn in Hwf. apply andb_true_iff in Hwf as [Hc Hl].
    unfold entry_to_expr, of_expr. cbn [fst snd obind].
    rewrite from_asset_of_class by exact Hc.
    destruct (IH (a_add acc {[ c := z ]}) Hl) as [a' [E Hget]].
    exists a'. split; [exact E|].
    intros k. rewrite Hget, get0_add, get0_singleton. unfold entries_sum. cbn. lia.
Qed.

Lemma entries_sum_not_in l k :
  k ∉ l.*1 -> entries_sum l k = 0.
Proof.
  induction l as [|[c z] l IH]; intros Hn; [reflexivity|].
  rewrite entries_sum_cons. cbn in Hn.
  apply not_elem_of_cons in Hn as [Hne Hn].
  destruct (decide (c = k)); [congruence|]. rewrite IH by exact Hn. lia.
Qed.

Lemma entries_sum_nodup l k v :
  NoDup l.*1 -> (k, v) ∈ l -> entries_sum l k = v.
Proof.
  induction l as [|[c z] l IH]; intros Hnd Hin.
  - apply elem_of_nil in Hin. contradiction.
  - rewrite entries_sum_cons. cbn in Hnd. apply NoDup_cons in Hnd as [Hnotin Hnd].
    apply elem_of_cons in Hin as [Heq | Hin].
    + injection Heq as <- <-. destruct (decide (k = k)); [|congruence].
      rewrite entries_sum_not_in by exact Hnotin. lia.
    + destruct (decide (c = k)) as [->|Hne].
      * exfalso. apply Hnotin. apply elem_of_list_fmap. exists (k, v). split; [reflexivity|exact Hin].
      * rewrite (IH Hnd Hin). lia.
Qed.

Lemma entries_sum_map a l k :
  l ≡ₚ map_to_list a -> entries_sum l k = get0 a k.
Proof.
  intros Hp. unfold get0.
  assert (Hnd: NoDup l.*1).
  { rewrite Hp. apply NoDup_fst_map_to_list. }
  destruct (a !! k) as [v|] eqn:Ha; cbn.
  - apply entries_sum_nodup; [exact Hnd|]. rewrite Hp. apply elem_of_map_to_list. exact Ha.
  - apply entries_sum_not_in. intros Hin.
    apply elem_of_list_fmap in Hin as [[k' v] [Hk Hin]]. cbn in Hk. subst k'.
    rewrite Hp in Hin. apply elem_of_map_to_list in Hin. congruence.
Qed.

(** whatever order the hash map is iterated in, the round trip preserves the value *)
Theorem exprs_roundtrip a ord :
  wf_classes a = true -> ord ≡ₚ map_to_list a ->
  exists a', of_exprs (to_exprs_ord ord) = Ok a' /\ a' ≈ a.
Proof.
  intros Hwf Hp.
  assert (Hwf': forallb (fun kv => wf_class kv.1) ord = true).
  { apply forallb_forall. intros x Hx. unfold wf_classes in Hwf.
    rewrite forallb_forall in Hwf. apply Hwf.
    apply elem_of_list_In. rewrite <- Hp. apply elem_of_list_In. exact Hx. }
  destruct (of_exprs_from_entries a_empty ord Hwf') as [a' [E Hget]].
  exists a'. split; [exact E|].
  intros k. rewrite Hget, get0_empty, (entries_sum_map a ord k Hp). lia.
Qed.

(** a map holding a class outside the constructors' normal form does not round-trip; no
    constructor builds one (Assets_wf.built_wf), the premise above is about raw maps *)
Lemma exprs_roundtrip_non_normal_refuted :
  exists a a', of_exprs (to_exprs a) = Ok a' /\ ~ a' ≈ a.
Proof.
  exists ({[ Named [] := 1 ]} : assets), (from_naked_amount 1).
  split; [vm_compute; reflexivity|].
  intros H. specialize (H Naked). vm_compute in H. discriminate.
Qed.

(** * Sums (used by coin selection and by into_assets) *)

Lemma get0_fold_add l acc k :
  get0 (fold_left a_add l acc) k = get0 acc k + fold_right (fun a s => get0 a k + s) 0 l.
Proof.
  revert acc. induction l as [|x l IH]; intros acc; cbn; [lia|].
  rewrite IH, get0_add. lia.
Qed.

Lemma a_sum_perm l l' : l ≡ₚ l' -> a_sum l ≈ a_sum l'.
Proof.
  intros Hp k. unfold a_sum. rewrite !get0_fold_add. f_equal.
  induction Hp as [|x l l' _ IH|x y l|l l' l'' _ IH1 _ IH2]; cbn; lia.
Qed.

(** * Non-vacuity: concrete values meeting the hypotheses *)
Example nonneg_inhabited :
  nonnegb ({[ Naked := 5; Defined [1%N] [2%N] := 3 ]} : assets) = true.
Proof. vm_compute. reflexivity. Qed.

Example wf_classes_inhabited :
  wf_classes ({[ Naked := 5; Defined [1%N] [] := 3; Named [7%N] := -2 ]} : assets) = true.
Proof. vm_compute. reflexivity. Qed.

Lemma nonnegb_spec a : nonnegb a = true <-> nonneg a.
Proof.
  unfold nonnegb, nonneg. rewrite forallb_forall. split.
  - intros H k. unfold get0. destruct (a !! k) as [v|] eqn:Ha; cbn; [|lia].
    apply Z.leb_le. apply (H (k, v)). apply elem_of_list_In, elem_of_map_to_list. exact Ha.
  - intros H [k v] Hin. cbn. apply Z.leb_le.
    apply elem_of_list_In, elem_of_map_to_list in Hin. specialize (H k).
    unfold get0 in H. rewrite Hin in H. exact H.
Qed.

(** * the ledger's balance equation for a template written as inputs + mint - burn - fees - others:
    what is consumed and minted equals what is produced, burned and paid as fee, class by class *)
Theorem balance_preserved consumed mint burn fee others :
  let change := a_sub (a_sub (a_sub (a_add consumed mint) burn) fee) others in
  a_add consumed mint ≈ a_add (a_add (a_add change others) burn) fee.
Proof. intros change k. unfold change. rewrite !get0_add, !get0_sub, !get0_add. lia. Qed.
