(** C01_proofs.v — the pipeline of the models computes what the source denotes, for the closed
    integer fragment (literals, +, -, unary !): lowering followed by reduction yields exactly
    the integer that the independent semantics assigns, association included. *)
From Tx3 Require Import Base Assets Tir Reduce Surface Lower Denote.
Local Open Scope Z_scope.

(** the integer a closed arithmetic expression denotes, when every intermediate result is
    representable (i128); None outside the fragment *)
Fixpoint ival (e : sexpr) : option Z :=
  match e with
  | SNum z => Some z
  | SAddE a b =>
    match ival a, ival b with
    | Some x, Some y => if in_i128 (x + y) then Some (x + y) else None
    | _, _ => None end
  | SSubE a b =>
    match ival a, ival b with
    | Some x, Some y => if in_i128 (- y) && in_i128 (x + - y) then Some (x - y) else None
    | _, _ => None end
  | SNegE a => match ival a with Some x => if in_i128 (- x) then Some (- x) else None | None => None end
  | _ => None
  end.

Fixpoint ir_of (e : sexpr) : expr :=
  match e with
  | SNum z => ENumber z
  | SAddE a b => EAdd (ir_of a) (ir_of b)
  | SSubE a b => ESub (ir_of a) (ir_of b)
  | SNegE a => ENegate (ir_of a)
  | _ => ENone
  end.

Fixpoint sdepth (e : sexpr) : nat :=
  match e with
  | SAddE a b | SSubE a b => S (Nat.max (sdepth a) (sdepth b))
  | SNegE a => S (sdepth a)
  | _ => 1%nat
  end.

Section Proofs.
Variable p : sprogram.
Variable t : stx.

Lemma lower_int : forall f d c e v, ival e = Some v -> (sdepth e <= f)%nat -> lower_expr p t f d c e = Ok (ir_of e).
Proof.
  induction f as [|f IH]; intros d c e v Hv Hf; [destruct e; cbn in Hf; lia|].
  destruct e; cbn [ival] in Hv; try discriminate; cbn [lower_expr ir_of].
  - reflexivity.
  - destruct (ival e1) as [x|] eqn:E1; [|discriminate]. destruct (ival e2) as [y|] eqn:E2; [|discriminate].
    cbn [sdepth] in Hf. rewrite (IH d c e1 x E1) by lia. cbn [obind]. rewrite (IH d c e2 y E2) by lia. reflexivity.
  - destruct (ival e1) as [x|] eqn:E1; [|discriminate]. destruct (ival e2) as [y|] eqn:E2; [|discriminate].
    cbn [sdepth] in Hf. rewrite (IH d c e1 x E1) by lia. cbn [obind]. rewrite (IH d c e2 y E2) by lia. reflexivity.
  - destruct (ival e) as [x|] eqn:E1; [|discriminate].
    cbn [sdepth] in Hf. rewrite (IH d c e x E1) by lia. reflexivity.
Qed.

Lemma reduce_int : forall pick f e v, ival e = Some v -> (sdepth e <= f)%nat -> reduce pick f (ir_of e) = Ok (ENumber v).
Proof.
  induction f as [|f IH]; intros e v Hv Hf; [destruct e; cbn in Hf; lia|].
  destruct e; cbn [ival] in Hv; try discriminate; cbn [ir_of].
  - injection Hv as <-. reflexivity.
  - destruct (ival e1) as [x|] eqn:E1; [|discriminate]. destruct (ival e2) as [y|] eqn:E2; [|discriminate].
    destruct (in_i128 (x + y)) eqn:Er; [|discriminate]. injection Hv as <-.
    cbn [sdepth] in Hf. cbn [reduce]. unfold composite_reduce. cbn [mapM_children].
    rewrite (IH e1 x E1) by lia. cbn [obind]. rewrite (IH e2 y E2) by lia. cbn [obind].
    cbn [forall_children is_constant andb]. cbn [reduce_self add_expr add_number]. rewrite Er. reflexivity.
  - destruct (ival e1) as [x|] eqn:E1; [|discriminate]. destruct (ival e2) as [y|] eqn:E2; [|discriminate].
    destruct (in_i128 (- y)) eqn:Er1; [|discriminate]. destruct (in_i128 (x + - y)) eqn:Er2; [|discriminate].
    injection Hv as <-.
    cbn [sdepth] in Hf. cbn [reduce]. unfold composite_reduce. cbn [mapM_children].
    rewrite (IH e1 x E1) by lia. cbn [obind]. rewrite (IH e2 y E2) by lia. cbn [obind].
    cbn [forall_children is_constant andb]. cbn [reduce_self sub_expr neg_expr]. rewrite Er1. cbn [obind add_number]. rewrite Er2.
    cbn [obind]. replace (x + - y) with (x - y) by lia. reflexivity.
  - destruct (ival e) as [x|] eqn:E1; [|discriminate].
    destruct (in_i128 (- x)) eqn:Er; [|discriminate]. injection Hv as <-.
    cbn [sdepth] in Hf. cbn [reduce]. unfold composite_reduce. cbn [mapM_children].
    rewrite (IH e x E1) by lia. cbn [obind].
    cbn [forall_children is_constant]. cbn [reduce_self neg_expr]. rewrite Er. reflexivity.
Qed.

Lemma eval_int : forall env f c e v, ival e = Some v -> (sdepth e <= f)%nat -> eval p t env f c e = Some (VInt v).
Proof.
  induction f as [|f IH]; intros c e v Hv Hf; [destruct e; cbn in Hf; lia|].
  destruct e; cbn [ival] in Hv; try discriminate; cbn [eval].
  - injection Hv as <-. reflexivity.
  - destruct (ival e1) as [x|] eqn:E1; [|discriminate]. destruct (ival e2) as [y|] eqn:E2; [|discriminate].
    destruct (in_i128 (x + y)); [|discriminate]. injection Hv as <-.
    cbn [sdepth] in Hf. rewrite (IH c e1 x E1), (IH c e2 y E2) by lia. reflexivity.
  - destruct (ival e1) as [x|] eqn:E1; [|discriminate]. destruct (ival e2) as [y|] eqn:E2; [|discriminate].
    destruct (in_i128 (- y) && in_i128 (x + - y)); [|discriminate]. injection Hv as <-.
    cbn [sdepth] in Hf. rewrite (IH c e1 x E1), (IH c e2 y E2) by lia. reflexivity.
  - destruct (ival e) as [x|] eqn:E1; [|discriminate].
    destruct (in_i128 (- x)); [|discriminate]. injection Hv as <-.
    cbn [sdepth] in Hf. rewrite (IH c e x E1) by lia. reflexivity.
Qed.

(** lowering + reduction and the independent semantics agree on closed integer arithmetic *)
Theorem int_pipeline_is_denotation : forall env pick f d c e v,
  ival e = Some v -> (sdepth e <= f)%nat ->
  exists ir, lower_expr p t f d c e = Ok ir /\ reduce pick f ir = Ok (ENumber v) /\ eval p t env f c e = Some (VInt v).
Proof.
  intros env pick f d c e v Hv Hf. exists (ir_of e).
  split; [eapply lower_int; eassumption|]. split; [apply reduce_int; assumption|apply eval_int; assumption].
Qed.
End Proofs.

(** subtraction chains associate to the left in the tree the generator prints without
    parentheses, and the pipeline keeps that association: (a - b) - c, not a - (b - c) *)
Example sub_chain_left : ival (SSubE (SSubE (SNum 10) (SNum 4)) (SNum 3)) = Some 3 /\ ival (SSubE (SNum 10) (SSubE (SNum 4) (SNum 3))) = Some 9.
Proof. split; reflexivity. Qed.
