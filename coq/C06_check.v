(** C06_check.v — correspondence of Reduce.v with tx3_tir::reduce / the compiler-op visitor on
    generated templates and stage schedules (tie of C06 and C07), and the clauses of both
    properties evaluated on the implementation's own results. *)
From Tx3 Require Import Base Assets Select Tir Reduce Walk.

Inductive stage := SA | SI | SF | SC | SR.

Record run_obs := mk_run {
  ro_schedule : list stage;
  ro_kind : N;                    (* 0 Ok, 1 Err, 2 panic *)
  ro_final : option tx }.

Record case := mk_case {
  c_tx : tx;
  c_args : args_map;
  c_ins : inputs_map;
  c_fee : Z;
  c_mainnet : bool; c_slot : Z; c_time : Z; c_min_utxo : Z;
  c_params : list (string * ty);          (* find_params of the implementation (key order) *)
  c_query_names : list string;            (* keys of find_queries *)
  c_constant : bool;                      (* is_constant of the template *)
  c_runs : list run_obs;
  c_missing : list (string * string);     (* removed parameter -> key named by MissingTxArg ("" = other outcome) *)
  c_reduce_idem : bool }.                 (* reduce(reduce x) == reduce x on every intermediate, per implementation *)

Definition cfg_of (c : case) : cfg :=
  mk_cfg (c_mainnet c) (c_slot c) (c_time c) (fun _ => Ok (c_min_utxo c)).

Definition run_stage (c : case) (s : stage) (t : tx) : outcome tx :=
  match s with
  | SA => Ok (tx_apply_args (c_args c) t)
  | SI => Ok (tx_apply_inputs (c_ins c) t)
  | SF => Ok (tx_apply_fees (c_fee c) t)
  | SC => tx_visit 0 (cfg_of c) t
  | SR => tx_reduce 0 t
  end.

Fixpoint run_schedule (c : case) (ss : list stage) (t : tx) : outcome tx :=
  match ss with
  | [] => Ok t
  | s :: r => t' <- run_stage c s t ;; run_schedule c r t'
  end.

Definition kind_of {A} (x : outcome A) : N :=
  match x with Ok _ => 0%N | Err _ => 1%N | _ => 2%N end.

Definition run_agrees (c : case) (ro : run_obs) : bool :=
  let m := run_schedule c (ro_schedule ro) (c_tx c) in
  (kind_of m =? ro_kind ro)%N &&
  match m, ro_final ro with
  | Ok t, Some t' => tx_eqb (tx_canon t) (tx_canon t')
  | Ok _, None => false
  | _, _ => true
  end.

Definition is_full (ss : list stage) : bool :=
  existsb (fun s => match s with SA => true | _ => false end) ss
  && existsb (fun s => match s with SI => true | _ => false end) ss
  && existsb (fun s => match s with SF => true | _ => false end) ss
  && existsb (fun s => match s with SC => true | _ => false end) ss
  && match last ss with Some SR => true | _ => false end.

(** C07 speaks of "any order in which each built-in's operands are available": the compiler
    stage is in order when no operand of a compiler op still holds an unfilled parameter *)
Fixpoint no_op (e : expr) : bool :=
  match e with
  | EScriptAddr _ | EMinUtxo _ | ETipSlot | ESlotToTime _ | ETimeToSlot _ => false
  | EParamSet x => no_op x
  | EExpectInput _ a m r _ _ => no_op a && no_op m && no_op r
  | _ => forall_children no_op e
  end.
(** a compiler op inside a query that is still open is evaluated only when the compiler stage
    precedes the input stage (apply_inputs replaces the whole query): such schedules are left
    out, the outcome may rightly depend on that order *)
Fixpoint ops_ready (e : expr) : bool :=
  match e with
  | EScriptAddr a | EMinUtxo a | ESlotToTime a | ETimeToSlot a =>
    match unresolved a with [] => ops_ready a | _ => false end
  | EParamSet x => ops_ready x
  | EExpectInput _ a m r _ _ => no_op a && no_op m && no_op r
  | _ => forall_children ops_ready e
  end.
Fixpoint before_compiler (ss : list stage) : option (list stage) :=
  match ss with
  | [] => None
  | SC :: _ => Some []
  | s :: r => option_map (cons s) (before_compiler r)
  end.
(** a full schedule whose compiler stage comes when every operand is available (judged on the
    model's state at that point) *)
Definition eligible (c : case) (ss : list stage) : bool :=
  is_full ss &&
  match before_compiler ss with
  | Some pre => match run_schedule c pre (c_tx c) with
                | Ok t1 => forallb ops_ready (tx_slots t1)
                | _ => false
                end
  | None => false
  end.

(** apply_inputs discards a query wholesale, so an error inside a query (an index out of range,
    a script address over a hash of the wrong length) shows only in the orders that evaluate
    the query before it is replaced: the comparison of outcomes is made for templates whose
    queries evaluate without error under the given arguments *)
Definition query_benign (c : case) (q : query_x) : bool :=
  forallb (fun e => is_ok (r <- visit 0 (cfg_of c) (apply_fees (c_fee c) (apply_args (c_args c) e)) ;; reduce 0 reduce_fuel r))
          [qx_addr q; qx_min q; qx_ref q].
Definition queries_benign (c : case) : bool := forallb (fun nq => query_benign c (snd nq)) (tx_queries (c_tx c)).

Definition names_of {A} (l : list (string * A)) : list string := map fst l.
Definition subset_s (a b : list string) : bool := forallb (fun x => bool_decide (x ∈ b)) a.

(** the first reported parameter, in key order, that the reduced argument map lacks *)
Definition expected_missing (c : case) (removed : string) : string :=
  match find (fun kv => bool_decide (fst kv = removed) ||
                        negb (bool_decide (is_Some (lookup_arg (fst kv) (c_args c))))) (c_params c) with
  | Some kv => fst kv
  | None => ""%string
  end.

Definition checks (c : case) : list (N * bool) :=
  let t := c_tx c in
  let full_ok := omap (fun ro => if is_full (ro_schedule ro) && (ro_kind ro =? 0)%N then ro_final ro else None) (c_runs c) in
  [ (1%N, bool_decide (find_params t = c_params c));
    (2%N, bool_decide (names_of (find_queries t) = c_query_names c));
    (3%N, eqb (tx_is_constant t) (c_constant c));
    (4%N, forallb (run_agrees c) (c_runs c));
    (* C06 on the implementation's results, with the independent walk *)
    (101%N, subset_s (tx_unresolved_values t) (names_of (c_params c)));
    (102%N, subset_s (tx_unresolved_inputs t) (c_query_names c));
    (103%N, forallb (fun f => match tx_unresolved f with [] => true | _ => false end) full_ok);
    (104%N, forallb (fun p => bool_decide (snd p = expected_missing c (fst p))) (c_missing c));
    (* C07 on the implementation's results *)
    (201%N, match map tx_canon full_ok with [] => true | f :: r => forallb (tx_eqb f) r end);
    (202%N, c_reduce_idem c);
    (* every order in which the operands are available yields a transaction, or none does *)
    (203%N, match (if queries_benign c then filter (fun ro => eligible c (ro_schedule ro)) (c_runs c) else []) with
            | [] => true
            | r0 :: rest => forallb (fun r => Bool.eqb (ro_kind r =? 0)%N (ro_kind r0 =? 0)%N) rest
            end) ].

Definition failed (c : case) : list N :=
  map fst (filter (fun x => negb (snd x)) (checks c)).

Fixpoint run_from (i : N) (cs : list case) : list (N * list N) :=
  match cs with
  | [] => []
  | c :: r =>
    match failed c with
    | [] => run_from (i + 1)%N r
    | f => (i, f) :: run_from (i + 1)%N r
    end
  end.
Definition run (cs : list case) := run_from 0%N cs.
