(** NoPanic.v — the model of the back end has no reachable panic: for every transaction IR whose
    UTxO references carry 32-bit indices (what the Rust type holds), every oracle for pallas'
    address functions and every set of cost models, compile_tx returns a transaction or an
    error - never Panic or Overflow. Together with the per-case tie (the implementation's
    outcome kind equals the model's) every panic of the implementation is a disagreement
    (C14). The same is shown for the reducer and the compiler-op visitor. *)
From Tx3 Require Import Base Assets Select Tir Tir_proofs Reduce Reduce_proofs PlutusData PlutusData_proofs Interop Compile Compile_proofs Compile_sorted.

Definition np {A} (x : outcome A) : Prop := match x with Panic _ | Overflow _ => False | _ => True end.

Lemma np_bind {A B} (m : outcome A) (k : A -> outcome B) :
  np m -> (forall a, m = Ok a -> np (k a)) -> np (obind m k).
Proof. destruct m; cbn; intros H1 H2; try exact I; try contradiction. apply H2. reflexivity. Qed.

Lemma np_omapM {A B} (f : A -> outcome B) l : (forall x, x ∈ l -> np (f x)) -> np (omapM f l).
Proof.
  induction l as [|x l IH]; intros H; [exact I|].
  change (omapM f (x :: l)) with (y <- f x ;; ys <- omapM f l ;; Ok (y :: ys)).
  apply np_bind; [apply H; left|]. intros y _. apply np_bind; [apply IH; intros z Hz; apply H; right; exact Hz|].
  intros ys _. exact I.
Qed.

Lemma np_option_mapM {A B} (f : A -> outcome B) o : (forall x, np (f x)) -> np (option_mapM f o).
Proof. intros H. destruct o; cbn; [|exact I]. apply np_bind; [apply H|]. intros; exact I. Qed.

Create HintDb np discriminated.

Ltac np_tac :=
  repeat (intros; first
    [ exact I
    | assumption
    | solve [auto with np]
    | apply np_bind; [|intros ? ?]
    | apply np_omapM; intros ? ?
    | apply np_option_mapM; intros ?
    | progress cbv beta
    | match goal with
      | |- np (match ?x with _ => _ end) => destruct x eqn:?
      | |- np (if ?c then _ else _) => destruct c eqn:?
      | |- np (let (_, _) := ?p in _) => destruct p
      end ]).

(** * numbers, bytes, plutus data *)
Lemma np_expr_into_number : forall f e, np (expr_into_number f e).
Proof. induction f as [|f IH]; intros e; destruct e; cbn; try exact I; destruct xs as [|[[a b] c] [|? ?]]; try exact I; apply IH. Qed.
Global Hint Resolve np_expr_into_number : np.

Lemma np_try_as_data : forall e, np (try_as_data e).
Proof.
  induction e using expr_children_ind. destruct e; cbn [try_as_data]; try exact I.
  - (* EList *) apply np_bind; [|intros; exact I]. apply np_omapM. intros x Hx. apply H. unfold all_children. cbn. rewrite app_nil_r. exact Hx.
  - (* EMap *) apply np_bind; [|intros; exact I].
    assert (Hk : forall kv, kv ∈ kvs -> np (try_as_data (fst kv)) /\ np (try_as_data (snd kv))).
    { intros [k v] Hin. split; apply H; unfold all_children; cbn; rewrite app_nil_r; apply elem_of_list_In, in_flat_map;
        exists (k, v); (split; [apply elem_of_list_In; exact Hin|cbn; auto]). }
    clear H. induction kvs as [|kv r IH]; [exact I|].
    destruct (Hk kv ltac:(left)) as [H1 H2].
    apply np_bind; [exact H1|]. intros k _. apply np_bind; [exact H2|]. intros v _.
    apply np_bind; [apply IH; intros kv' Hin; apply Hk; right; exact Hin|]. intros; exact I.
  - (* EStruct *) apply np_bind; [|intros; exact I]. apply np_omapM. intros x Hx. apply H. unfold all_children. cbn. rewrite app_nil_r. exact Hx.
Qed.
Global Hint Resolve np_try_as_data : np.

Lemma np_compile_data_expr : forall e, np (compile_data_expr e).
Proof.
  induction e using expr_children_ind. destruct e; cbn [compile_data_expr]; try exact I; try apply np_try_as_data.
  apply np_bind; [|intros; exact I]. apply np_omapM. intros x Hx. apply H. unfold all_children. cbn. rewrite app_nil_r. exact Hx.
Qed.
Global Hint Resolve np_compile_data_expr : np.

Lemma np_value_to_utxo_ref j : np (value_to_utxo_ref j).
Proof. unfold value_to_utxo_ref. np_tac. Qed.
Global Hint Resolve np_value_to_utxo_ref : np.

Section Back.
Variable mainnet : bool.
Variables addr_parse addr_of_string keyhash_of_addr reward_of_addr : bytes -> option bytes.
Variable native_script_ok : bytes -> bool.

Ltac unf f := unfold f; np_tac.

Lemma np_hash_from n b : np (hash_from n b). Proof. unf hash_from. Qed.
Hint Resolve np_hash_from : np.
Lemma np_expr_into_bytes e : np (expr_into_bytes e). Proof. unf expr_into_bytes. Qed.
Hint Resolve np_expr_into_bytes : np.
Lemma np_expr_into_assets e : np (expr_into_assets e). Proof. unf expr_into_assets. Qed.
Hint Resolve np_expr_into_assets : np.
Lemma np_number_into_u64 z : np (number_into_u64 z). Proof. unf number_into_u64. Qed.
Lemma np_number_into_i64 z : np (number_into_i64 z). Proof. unf number_into_i64. Qed.
Hint Resolve np_number_into_u64 np_number_into_i64 : np.
Lemma np_policy_into_address h : np (policy_into_address mainnet h). Proof. unf policy_into_address. Qed.
Hint Resolve np_policy_into_address : np.
Lemma np_expr_into_address e : np (expr_into_address mainnet addr_parse addr_of_string e). Proof. unf expr_into_address. Qed.
Hint Resolve np_expr_into_address : np.
Lemma np_expr_into_utxo_refs e : np (expr_into_utxo_refs e). Proof. unf expr_into_utxo_refs. Qed.
Hint Resolve np_expr_into_utxo_refs : np.
Lemma np_tx_input_of r : np (tx_input_of r). Proof. unf tx_input_of. Qed.
Hint Resolve np_tx_input_of : np.
Lemma np_refs_lenient es : np (refs_lenient es). Proof. unf refs_lenient. Qed.
Hint Resolve np_refs_lenient : np.
Lemma np_compile_value x : np (compile_value x). Proof. unfold compile_value. destruct x as [[p n] a]. np_tac. Qed.
Hint Resolve np_compile_value : np.

Lemma np_aggregate_values vs : np (aggregate_values vs).
Proof.
  unfold aggregate_values. apply np_bind; [|intros; destruct (totals_fit _ _); exact I].
  assert (H : forall a, np a -> np (fold_left (fun acc v => a0 <- acc ;; let x := match v with VCoin x | VMulti x _ => x end in
                                                 if (a0 + x <? 2 ^ 64)%Z then Ok (a0 + x)%Z else Err "CoerceError") vs a)).
  { induction vs as [|v vs IH]; intros a Ha; [exact Ha|]. cbn [fold_left]. apply IH. apply np_bind; [exact Ha|]. np_tac. }
  apply H. exact I.
Qed.
Hint Resolve np_aggregate_values : np.
Lemma np_encode_datum e : np (encode_datum e). Proof. unf encode_datum. Qed.
Hint Resolve np_encode_datum : np.
Lemma np_compile_output_block o : np (compile_output_block mainnet addr_parse addr_of_string o). Proof. unf compile_output_block. Qed.
Hint Resolve np_compile_output_block : np.
Lemma np_compile_adhoc_script v sc : np (compile_adhoc_script native_script_ok v sc). Proof. unf compile_adhoc_script. Qed.
Hint Resolve np_compile_adhoc_script : np.
Lemma np_compile_publish d : np (compile_publish mainnet addr_parse addr_of_string native_script_ok d). Proof. unf compile_publish. Qed.
Hint Resolve np_compile_publish : np.
Lemma np_compile_outputs t : np (compile_outputs mainnet addr_parse addr_of_string native_script_ok t). Proof. unf compile_outputs. Qed.
Hint Resolve np_compile_outputs : np.
Lemma np_compile_mint_asset b x : np (compile_mint_asset b x). Proof. unfold compile_mint_asset. destruct x as [[p n] a]. np_tac. Qed.
Hint Resolve np_compile_mint_asset : np.
Lemma np_compile_mint_side b ms : np (compile_mint_side b ms). Proof. unf compile_mint_side. Qed.
Hint Resolve np_compile_mint_side : np.
Lemma np_compile_mint_block t : np (compile_mint_block t). Proof. unf compile_mint_block. Qed.
Hint Resolve np_compile_mint_block : np.
Lemma np_keyhash_of_expr e : np (keyhash_of_expr keyhash_of_addr e). Proof. unf keyhash_of_expr. Qed.
Hint Resolve np_keyhash_of_expr : np.
Lemma np_compile_validity_field e : np (compile_validity_field e). Proof. unf compile_validity_field. Qed.
Hint Resolve np_compile_validity_field : np.
Lemma np_reward_account_of e : np (reward_account_of mainnet addr_parse addr_of_string reward_of_addr e). Proof. unf reward_account_of. Qed.
Hint Resolve np_reward_account_of : np.
Lemma np_compile_withdrawal d : np (compile_withdrawal mainnet addr_parse addr_of_string reward_of_addr d). Proof. unf compile_withdrawal. Qed.
Hint Resolve np_compile_withdrawal : np.
Lemma np_compile_withdrawals t : np (compile_withdrawals mainnet addr_parse addr_of_string reward_of_addr t). Proof. unf compile_withdrawals. Qed.
Hint Resolve np_compile_withdrawals : np.
Lemma np_compile_donation t : np (compile_donation t). Proof. unf compile_donation. Qed.
Hint Resolve np_compile_donation : np.
Lemma np_expr_into_metadatum e : np (expr_into_metadatum e). Proof. unf expr_into_metadatum. Qed.
Hint Resolve np_expr_into_metadatum : np.
Lemma np_compile_metadata t : np (compile_metadata t). Proof. unf compile_metadata. Qed.
Hint Resolve np_compile_metadata : np.
Lemma np_encode_redeemer e : np (encode_redeemer e). Proof. unf encode_redeemer. Qed.
Hint Resolve np_encode_redeemer : np.
Lemma np_mint_redeemers ms minted : np (mint_redeemers ms minted). Proof. unf mint_redeemers. Qed.
Hint Resolve np_mint_redeemers : np.
Lemma np_withdrawal_redeemers t ws : np (withdrawal_redeemers mainnet addr_parse addr_of_string reward_of_addr t ws). Proof. unf withdrawal_redeemers. Qed.
Hint Resolve np_withdrawal_redeemers : np.
Lemma np_native_witnesses t : np (native_witnesses native_script_ok t). Proof. unf native_witnesses. Qed.
Hint Resolve np_native_witnesses : np.
End Back.

(** * the one panic site of the model: looking an input's own reference up in the body *)
Lemma position_some {A} (p : A -> bool) l x : In x l -> p x = true -> exists k, position p l = Some k.
Proof.
  induction l as [|y l IH]; intros Hin Hp; [destruct Hin|]. cbn [position].
  destruct (p y) eqn:Ey; [eexists; reflexivity|]. destruct Hin as [->|Hin]; [congruence|].
  destruct (IH Hin Hp) as [k ->]. eexists; reflexivity.
Qed.

(** indices are u32 in the implementation *)
Definition idx32 (t : tx) : bool :=
  forallb (fun i => match expr_into_utxo_refs (i_utxos i) with
                    | Ok (r :: _) => (r_idx r <? 2 ^ 32)%N
                    | _ => true
                    end) (tx_inputs t).

Lemma own_ref_in_body t ins i r rest :
  refs_lenient (map i_utxos (tx_inputs t)) = Ok ins ->
  In i (tx_inputs t) -> expr_into_utxo_refs (i_utxos i) = Ok (r :: rest) ->
  In (r_txid r, Z.of_N (r_idx r)) ins.
Proof.
  unfold refs_lenient. intros H Hi Hr. apply omapM_Forall2 in H.
  assert (Hin : In r (flat_map (fun e => match expr_into_utxo_refs e with Ok rs => rs | _ => [] end) (map i_utxos (tx_inputs t)))).
  { apply in_flat_map. exists (i_utxos i). split; [apply in_map; exact Hi|]. rewrite Hr. left. reflexivity. }
  clear -H Hin. induction H as [|a b l l' Hab _ IH]; [destruct Hin|].
  destruct Hin as [->|Hin]; [|right; apply IH; exact Hin].
  left. unfold tx_input_of, hash_from in Hab. destruct (length (r_txid r) =? 32)%nat; cbn in Hab; [|discriminate].
  injection Hab as <-. reflexivity.
Qed.

Lemma np_spend_redeemers t ins :
  idx32 t = true -> refs_lenient (map i_utxos (tx_inputs t)) = Ok ins -> np (spend_redeemers t ins).
Proof.
  intros Hw Hins. unfold spend_redeemers. apply np_bind; [|intros; exact I].
  apply np_omapM. intros i Hi. apply elem_of_list_In in Hi.
  apply np_bind; [apply np_expr_into_utxo_refs|]. intros refs Hrefs.
  destruct refs as [|r rest]; [exact I|].
  destruct (i_redeemer i) eqn:Er; try exact I.
  all: assert (Hin : In (r_txid r, Z.of_N (r_idx r)) (sort_refs ins))
         by (apply elem_of_list_In; rewrite sort_refs_perm; apply elem_of_list_In; eapply own_ref_in_body; eassumption);
       assert (Hp : (fun x : bytes * Z => bool_decide (fst x = r_txid r) && (snd x mod 2 ^ 32 =? Z.of_N (r_idx r))%Z) (r_txid r, Z.of_N (r_idx r)) = true)
         by (cbn [fst snd]; rewrite bool_decide_eq_true_2 by reflexivity; cbn [andb];
             unfold idx32 in Hw; rewrite forallb_forall in Hw; specialize (Hw _ Hi); rewrite Hrefs in Hw;
             apply N.ltb_lt in Hw; apply Z.eqb_eq; apply Z.mod_small; lia);
       destruct (position_some _ _ _ Hin Hp) as [k ->];
       apply np_bind; [apply np_encode_redeemer|intros; exact I].
Qed.

(** * the whole back end *)
Section Whole.
Variable mainnet : bool.
Variables addr_parse addr_of_string keyhash_of_addr reward_of_addr : bytes -> option bytes.
Variable native_script_ok : bytes -> bool.

Theorem compile_tx_never_panics has_cost_model t :
  idx32 t = true ->
  np (compile_tx mainnet addr_parse addr_of_string keyhash_of_addr reward_of_addr native_script_ok has_cost_model t).
Proof.
  intros Hw. unfold compile_tx.
  apply np_bind; [destruct (tx_validity t); [apply np_compile_validity_field|exact I]|]. intros start _.
  apply np_bind; [destruct (tx_validity t); [apply np_compile_validity_field|exact I]|]. intros ttl _.
  apply np_bind; [apply np_refs_lenient|]. intros ins Hins.
  apply np_bind; [apply np_compile_outputs|]. intros outs _.
  apply np_bind; [apply np_expr_into_number|]. intros feen _.
  apply np_bind; [apply np_number_into_u64|]. intros fee _.
  apply np_bind; [apply np_compile_mint_block|]. intros minted _.
  apply np_bind; [apply np_refs_lenient|]. intros refs _.
  apply np_bind; [apply np_compile_withdrawals|]. intros ws _.
  apply np_bind; [apply np_refs_lenient|]. intros coll _.
  apply np_bind.
  { destruct (tx_signers t); [|exact I]. apply np_bind; [apply np_omapM; intros; apply np_keyhash_of_expr|intros; exact I]. }
  intros signers _.
  apply np_bind; [apply np_compile_donation|]. intros don _.
  apply np_bind; [apply np_spend_redeemers; assumption|]. intros sp _.
  apply np_bind; [apply np_mint_redeemers|]. intros mr _.
  apply np_bind; [apply np_mint_redeemers|]. intros br _.
  apply np_bind; [apply np_withdrawal_redeemers|]. intros wr _.
  apply np_bind; [apply np_native_witnesses|]. intros nat_ws _.
  apply np_bind; [apply np_compile_metadata|]. intros md _.
  cbv zeta. apply np_bind; [|intros; exact I].
  destruct (fold_left _ _ _); [exact I|]. destruct (has_cost_model _); exact I.
Qed.
End Whole.

(** * the reducer and the compiler-op visitor *)
Lemma np_omapM2 {A} (g : A -> outcome A) l : (forall x, np (g x)) -> np (omapM2 g l).
Proof.
  intros H. induction l as [|[a b] l IH]; [exact I|].
  change (omapM2 g ((a, b) :: l)) with (a' <- g a ;; b' <- g b ;; r' <- omapM2 g l ;; Ok ((a', b') :: r')).
  np_tac.
Qed.
Lemma np_omapM3 {A} (g : A -> outcome A) l : (forall x, np (g x)) -> np (omapM3 g l).
Proof.
  intros H. induction l as [|[[a b] c] l IH]; [exact I|].
  change (omapM3 g ((a, b, c) :: l)) with (a' <- g a ;; b' <- g b ;; c' <- g c ;; r' <- omapM3 g l ;; Ok ((a', b', c') :: r')).
  np_tac.
Qed.
Lemma np_omapMkv {K A} (g : A -> outcome A) (l : list (K * A)) : (forall x, np (g x)) -> np (omapMkv g l).
Proof.
  intros H. induction l as [|[k a] l IH]; [exact I|].
  change (omapMkv g ((k, a) :: l)) with (a' <- g a ;; r' <- omapMkv g l ;; Ok ((k, a') :: r')).
  np_tac.
Qed.
Lemma np_omapM_all {A B} (f : A -> outcome B) l : (forall x, np (f x)) -> np (omapM f l).
Proof. intros H. apply np_omapM. intros x _. apply H. Qed.

Lemma np_mapM_children g e : (forall c, np (g c)) -> np (mapM_children g e).
Proof.
  intros H. destruct e; cbn [mapM_children]; try exact I;
    repeat first [exact I | apply H | apply np_omapM_all; exact H | apply np_omapM2; exact H | apply np_omapM3; exact H
                 | apply np_omapMkv; exact H | apply np_bind; [|intros ? ?]].
Qed.

Lemma np_of_expr_number p n z : np (of_expr (p, n, ANumber z)).
Proof. exact I. Qed.

Lemma np_chk_assets s a : np (chk_assets s a).
Proof. unfold chk_assets. destruct (all_in_i128 a); exact I. Qed.
Global Hint Resolve np_chk_assets : np.

Lemma np_expr_assets_from : forall l acc, np (expr_assets_from acc l).
Proof.
  induction l as [|[[p n] amt] l IH]; intros acc; [exact I|]. cbn [expr_assets_from snd].
  destruct amt; try exact I. apply np_bind; [exact I|]. intros a _. apply np_bind; [apply np_chk_assets|]. intros s _. apply IH.
Qed.
Lemma np_expr_assets xs : np (expr_assets xs).
Proof. apply np_expr_assets_from. Qed.
Global Hint Resolve np_expr_assets : np.

Lemma np_neg_expr e : np (neg_expr e). Proof. unfold neg_expr. np_tac. Qed.
Global Hint Resolve np_neg_expr : np.
Lemma np_add_number x e : np (add_number x e). Proof. unfold add_number. np_tac. Qed.
Global Hint Resolve np_add_number : np.
Lemma np_add_assets xs e : np (add_assets xs e). Proof. unfold add_assets. np_tac. Qed.
Global Hint Resolve np_add_assets : np.
Lemma np_add_expr a b : np (add_expr a b). Proof. unfold add_expr. np_tac. Qed.
Lemma np_sub_expr a b : np (sub_expr a b). Proof. unfold sub_expr. np_tac. Qed.
Lemma np_concat_expr a b : np (concat_expr a b). Proof. unfold concat_expr. np_tac. Qed.
Lemma np_index_or_err a b : np (index_or_err a b). Proof. unfold index_or_err. np_tac. Qed.
Global Hint Resolve np_add_expr np_sub_expr np_concat_expr np_index_or_err : np.

Lemma np_utxos_total us : np (utxos_total us).
Proof.
  unfold utxos_total.
  assert (H : forall a, np a -> np (fold_left (fun acc u => a0 <- acc ;; x <- chk_assets "into_assets" (a_add_raw a0 (utxo_assets u)) ;; Ok (strip x)) us a)).
  { induction us as [|u us IH]; intros a Ha; [exact Ha|]. cbn [fold_left]. apply IH. np_tac. }
  apply H. exact I.
Qed.
Global Hint Resolve np_utxos_total : np.
Lemma np_into_assets e : np (into_assets e). Proof. unfold into_assets. np_tac. Qed.
Lemma np_into_datum pick e : np (into_datum pick e). Proof. unfold into_datum. np_tac. Qed.
Global Hint Resolve np_into_assets np_into_datum : np.
Lemma np_reduce_self pick e : np (reduce_self pick e). Proof. unfold reduce_self. np_tac. Qed.
Global Hint Resolve np_reduce_self : np.

Lemma np_composite_reduce pick g e : (forall c, np (g c)) -> np (composite_reduce pick g e).
Proof. intros H. unfold composite_reduce. apply np_bind; [apply np_mapM_children; exact H|]. intros x _. destruct (forall_children is_constant x); [apply np_reduce_self|exact I]. Qed.

Theorem reduce_never_panics pick : forall f e, np (reduce pick f e).
Proof.
  induction f as [|f IH]; intros e; [exact I|].
  assert (Hc : forall e0, np (composite_reduce pick (reduce pick f) e0)) by (intros; apply np_composite_reduce; exact IH).
  assert (Hb : forall e0, np (x <- composite_reduce pick (reduce pick f) e0 ;;
                              match x with EBNoOp r => Ok r | _ => y <- composite_reduce pick (reduce pick f) x ;; Ok y end)).
  { intros e0. apply np_bind; [apply Hc|]. intros x _. destruct x; try exact I; (apply np_bind; [apply Hc|intros; exact I]). }
  assert (Hco : forall e0, np (x <- composite_reduce pick (reduce pick f) e0 ;;
                               match x with ECNoOp r => Ok r | _ => y <- composite_reduce pick (reduce pick f) x ;; Ok y end)).
  { intros e0. apply np_bind; [apply Hc|]. intros x _. destruct x; try exact I; (apply np_bind; [apply Hc|intros; exact I]). }
  destruct e; cbn [reduce]; try exact I; try apply Hc; try apply Hb; try apply Hco; try (apply np_mapM_children; exact IH).
  (* EExpectInput *)
  repeat (apply np_bind; [apply IH|intros ? _]). exact I.
Qed.

Lemma np_reduce_op c e : (forall i, np (cfg_min_utxo c i)) -> np (reduce_op c e).
Proof. intros H. unfold reduce_op. np_tac. Qed.

Lemma np_visitor_reduce pick c v : (forall i, np (cfg_min_utxo c i)) -> np (visitor_reduce pick c v).
Proof.
  intros H. unfold visitor_reduce. destruct (is_compiler_op v); [|exact I].
  apply np_bind; [apply np_composite_reduce; apply reduce_never_panics|]. intros v' _. apply np_reduce_op. exact H.
Qed.

Lemma np_omapM2_in (g : expr -> outcome expr) l : (forall kv, kv ∈ l -> np (g (fst kv)) /\ np (g (snd kv))) -> np (omapM2 g l).
Proof.
  induction l as [|[a b] l IH]; intros H; [exact I|]. destruct (H (a, b) ltac:(left)) as [Ha Hb].
  change (omapM2 g ((a, b) :: l)) with (a' <- g a ;; b' <- g b ;; r' <- omapM2 g l ;; Ok ((a', b') :: r')).
  apply np_bind; [exact Ha|]. intros ? _. apply np_bind; [exact Hb|]. intros ? _.
  apply np_bind; [apply IH; intros kv Hkv; apply H; right; exact Hkv|]. intros; exact I.
Qed.
Lemma np_omapM3_in (g : expr -> outcome expr) l :
  (forall x, x ∈ l -> np (g (fst (fst x))) /\ np (g (snd (fst x))) /\ np (g (snd x))) -> np (omapM3 g l).
Proof.
  induction l as [|[[a b] c] l IH]; intros H; [exact I|]. destruct (H (a, b, c) ltac:(left)) as (Ha & Hb & Hc).
  change (omapM3 g ((a, b, c) :: l)) with (a' <- g a ;; b' <- g b ;; c' <- g c ;; r' <- omapM3 g l ;; Ok ((a', b', c') :: r')).
  apply np_bind; [exact Ha|]. intros ? _. apply np_bind; [exact Hb|]. intros ? _. apply np_bind; [exact Hc|]. intros ? _.
  apply np_bind; [apply IH; intros x Hx; apply H; right; exact Hx|]. intros; exact I.
Qed.
Lemma np_omapMkv_in (g : expr -> outcome expr) (l : list (string * expr)) : (forall kv, kv ∈ l -> np (g (snd kv))) -> np (omapMkv g l).
Proof.
  induction l as [|[k a] l IH]; intros H; [exact I|].
  change (omapMkv g ((k, a) :: l)) with (a' <- g a ;; r' <- omapMkv g l ;; Ok ((k, a') :: r')).
  apply np_bind; [apply (H (k, a)); left|]. intros ? _. apply np_bind; [apply IH; intros kv Hkv; apply H; right; exact Hkv|]. intros; exact I.
Qed.

Lemma np_mapM_children_in g e : (forall c, c ∈ children e -> np (g c)) -> np (mapM_children g e).
Proof.
  intros H. destruct e; cbn [mapM_children]; try exact I; cbn [children] in H.
  - (* EList *) apply np_bind; [apply np_omapM; exact H|intros; exact I].
  - (* EMap *) apply np_bind; [|intros; exact I]. apply np_omapM2_in. intros [k v] Hin.
    split; apply H; apply elem_of_list_In, in_flat_map; exists (k, v); (split; [apply elem_of_list_In; exact Hin|cbn; auto]).
  - (* ETuple *) apply np_bind; [apply H; left|]. intros ? _. apply np_bind; [apply H; right; left|intros; exact I].
  - (* EStruct *) apply np_bind; [apply np_omapM; exact H|intros; exact I].
  - (* EAssets *) apply np_bind; [|intros; exact I]. apply np_omapM3_in. intros [[a b] c] Hin.
    repeat split; apply H; apply elem_of_list_In, in_flat_map; exists (a, b, c); (split; [apply elem_of_list_In; exact Hin|cbn; auto]).
  - apply np_bind; [apply H; left|intros; exact I].
  - apply np_bind; [apply H; left|]. intros ? _. apply np_bind; [apply H; right; left|intros; exact I].
  - apply np_bind; [apply H; left|]. intros ? _. apply np_bind; [apply H; right; left|intros; exact I].
  - apply np_bind; [apply H; left|]. intros ? _. apply np_bind; [apply H; right; left|intros; exact I].
  - apply np_bind; [apply H; left|intros; exact I].
  - apply np_bind; [apply H; left|]. intros ? _. apply np_bind; [apply H; right; left|intros; exact I].
  - apply np_bind; [apply H; left|intros; exact I].
  - apply np_bind; [apply H; left|intros; exact I].
  - apply np_bind; [apply H; left|intros; exact I].
  - apply np_bind; [apply H; left|intros; exact I].
  - apply np_bind; [apply H; left|intros; exact I].
  - apply np_bind; [apply H; left|intros; exact I].
  - apply np_bind; [apply H; left|intros; exact I].
  - apply np_bind; [apply H; left|intros; exact I].
  - (* EAdHoc *) apply np_bind; [|intros; exact I]. apply np_omapMkv_in. intros [k v] Hin.
    apply H. apply elem_of_list_fmap. exists (k, v). split; [reflexivity|exact Hin].
Qed.

Theorem visit_never_panics pick c : (forall i, np (cfg_min_utxo c i)) -> forall e, np (visit pick c e).
Proof.
  intros H. induction e as [e IH] using expr_children_ind.
  assert (Hkids : forall x, x ∈ children e -> np (visit pick c x)) by (intros x Hx; apply IH, Reduce_proofs.child_all; exact Hx).
  destruct e; cbn [visit]; (apply np_bind; [|intros v _; apply np_visitor_reduce; exact H]);
    try (apply np_mapM_children_in; exact Hkids).
  - (* EParamSet *) apply np_bind; [apply IH; unfold all_children; cbn; left|intros; exact I].
  - (* EExpectInput *)
    apply np_bind; [apply IH; unfold all_children; cbn; left|]. intros ? _.
    apply np_bind; [apply IH; unfold all_children; cbn; right; left|]. intros ? _.
    apply np_bind; [apply IH; unfold all_children; cbn; right; right; left|intros; exact I].
Qed.

(** whole transactions *)
Lemma np_tx_mapM g t : (forall e, np (g e)) -> np (tx_mapM g t).
Proof.
  intros H. unfold tx_mapM.
  repeat first [exact I | apply H | progress cbv beta | apply np_omapM_all; intros ? | apply np_omapMkv; exact H
               | apply np_option_mapM; intros ? | apply np_bind; [|intros ? _]].
Qed.

Theorem tx_reduce_never_panics pick t : np (tx_reduce pick t).
Proof. apply np_tx_mapM. apply reduce_never_panics. Qed.
Theorem tx_visit_never_panics pick c t : (forall i, np (cfg_min_utxo c i)) -> np (tx_visit pick c t).
Proof. intros H. apply np_tx_mapM. apply visit_never_panics. exact H. Qed.
