(** Interop_proofs.v — property C16: from_json inverts the documented textual encodings, for
    every value of each type, and rejects ill-formed values. *)
From Tx3 Require Import Base Tir Interop PlutusData PlutusData_proofs.
From Coq Require Import ZifyN ZifyNat ZifyBool DecimalPos.
Local Open Scope string_scope.

(** * hex *)

Lemma forall_lt16 (P : N -> bool) :
  forallb P (map N.of_nat (seq 0 16)) = true -> forall n, (n < 16)%N -> P n = true.
Proof.
  intros H n Hn. rewrite forallb_forall in H. apply H.
  apply in_map_iff. exists (N.to_nat n). split; [lia|]. apply in_seq. lia.
Qed.

Lemma hex_val_digit n : (n < 16)%N -> hex_val (hex_digit n) = Some n.
Proof.
  intros H.
  pose proof (forall_lt16 (fun k => match hex_val (hex_digit k) with Some m => N.eqb m k | None => false end)
                ltac:(vm_compute; reflexivity) n H) as Hb.
  cbn beta in Hb. destruct (hex_val (hex_digit n)); [|discriminate]. apply N.eqb_eq in Hb. subst. reflexivity.
Qed.

Theorem hex_decode_encode b : wf_bytes b = true -> hex_decode (hex_encode b) = Some b.
Proof.
  induction b as [|x b IH]; intros H; cbn in H |- *; [reflexivity|].
  apply andb_true_iff in H as [Hx Hb]. apply N.ltb_lt in Hx.
  rewrite !hex_val_digit by (try apply N.div_lt_upper_bound; lia).
  rewrite (IH Hb). f_equal. f_equal. pose proof (N.div_mod x 16 ltac:(lia)). lia.
Qed.

Lemma hex_digit_not_x n : (n < 16)%N -> hex_digit n <> "x"%char.
Proof.
  intros H.
  pose proof (forall_lt16 (fun k => negb (Ascii.eqb (hex_digit k) "x"%char)) ltac:(vm_compute; reflexivity) n H) as Hb.
  apply negb_true_iff in Hb. intros E. rewrite E in Hb. vm_compute in Hb. discriminate.
Qed.

Lemma strip_0x_hex_encode b : wf_bytes b = true -> strip_0x (hex_encode b) = hex_encode b.
Proof.
  destruct b as [|x b]; intros H; [reflexivity|]. cbn in H. apply andb_true_iff in H as [Hx _].
  apply N.ltb_lt in Hx. cbn [hex_encode]. unfold strip_0x.
  pose proof (hex_digit_not_x (x mod 16) ltac:(lia)) as Hn.
  destruct (hex_digit (x / 16)) as [[] [] [] [] [] [] [] []]; try reflexivity.
  destruct (hex_digit (x mod 16)) as [[] [] [] [] [] [] [] []]; try reflexivity.
  exfalso. apply Hn. reflexivity.
Qed.

Lemma append_cons a r s : (String a r ++ s) = String a (r ++ s).
Proof. reflexivity. Qed.

Section WithOracles.
Variables base64_decode bech32_decode : string -> option bytes.
Notation from_json := (from_json base64_decode bech32_decode).

(** C16, bytes: hex with or without the 0x prefix, every byte string *)
Theorem bytes_hex_roundtrip b :
  wf_bytes b = true ->
  from_json (JStr (hex_encode b)) TBytes = Ok (ArgBytes b) /\
  from_json (JStr ("0x" ++ hex_encode b)) TBytes = Ok (ArgBytes b).
Proof.
  intros H. cbn. unfold hex_to_bytes. split.
  - rewrite strip_0x_hex_encode, hex_decode_encode by exact H. reflexivity.
  - change (strip_0x ("0x" ++ hex_encode b)) with (hex_encode b).
    rewrite hex_decode_encode by exact H. reflexivity.
Qed.

(** hex envelopes *)
Theorem bytes_envelope_hex_roundtrip b :
  wf_bytes b = true ->
  from_json (JObj [("content", JStr (hex_encode b)); ("contentType", JStr "hex")]) TBytes = Ok (ArgBytes b).
Proof.
  intros H. cbn [from_json value_to_bytes].
  assert (E: envelope_of [("content", JStr (hex_encode b)); ("contentType", JStr "hex")] = Some (hex_encode b, "hex")) by reflexivity.
  rewrite E. unfold hex_to_bytes.
  rewrite strip_0x_hex_encode, hex_decode_encode by exact H. reflexivity.
Qed.

(** base64 envelopes, relative to the base64 crate's own round trip *)
Theorem bytes_envelope_base64_roundtrip b s :
  base64_decode s = Some b ->
  from_json (JObj [("content", JStr s); ("contentType", JStr "base64")]) TBytes = Ok (ArgBytes b).
Proof.
  intros H. cbn [from_json value_to_bytes].
  assert (E: envelope_of [("content", JStr s); ("contentType", JStr "base64")] = Some (s, "base64")) by reflexivity.
  rewrite E, H. reflexivity.
Qed.

(** odd-length and non-hex strings are rejected *)
Theorem bytes_odd_hex_rejected b c :
  wf_bytes b = true -> hex_val c <> None ->
  from_json (JStr (hex_encode b ++ String c EmptyString)) TBytes = Err "InvalidHex".
Proof.
  intros H Hc. cbn. unfold hex_to_bytes.
  assert (Hd: forall l, wf_bytes l = true -> hex_decode (hex_encode l ++ String c EmptyString) = None).
  { induction l as [|x l IH]; intros Hl; [reflexivity|]. cbn in Hl. apply andb_true_iff in Hl as [Hx Hl'].
    apply N.ltb_lt in Hx. cbn [hex_encode]. rewrite !append_cons. cbn [hex_decode].
    rewrite !hex_val_digit by (try apply N.div_lt_upper_bound; lia).
    rewrite (IH Hl'). reflexivity. }
  assert (Hs: strip_0x (hex_encode b ++ String c EmptyString) = hex_encode b ++ String c EmptyString).
  { destruct b as [|x b]; [cbn; destruct c as [[] [] [] [] [] [] [] []]; reflexivity|].
    cbn in H. apply andb_true_iff in H as [Hx _]. apply N.ltb_lt in Hx. cbn [hex_encode]. rewrite !append_cons.
    pose proof (hex_digit_not_x (x mod 16) ltac:(lia)) as Hn. unfold strip_0x.
    destruct (hex_digit (x / 16)) as [[] [] [] [] [] [] [] []]; try reflexivity.
    destruct (hex_digit (x mod 16)) as [[] [] [] [] [] [] [] []]; try reflexivity.
    exfalso. apply Hn. reflexivity. }
  rewrite Hs, (Hd b H). reflexivity.
Qed.

(** * booleans: the four encodings *)
Theorem bool_roundtrip b :
  from_json (JBool b) TBool = Ok (ArgBool b) /\
  from_json (JNum (if b then 1 else 0)) TBool = Ok (ArgBool b) /\
  from_json (JStr (if b then "true" else "false")) TBool = Ok (ArgBool b).
Proof. destruct b; repeat split. Qed.

(** * integers *)

Lemma string_of_uint_digit_head d :
  d <> Decimal.Nil ->
  exists c r, NilEmpty.string_of_uint d = String c r /\ c <> "-"%char /\ c <> "+"%char /\
              (r = EmptyString \/ exists c2 r2, r = String c2 r2 /\ c2 <> "x"%char).
Proof.
  intros Hd. destruct d as [|d|d|d|d|d|d|d|d|d|d]; try congruence; cbn;
    (eexists _, _; split; [reflexivity|]; split; [discriminate|]; split; [discriminate|];
     destruct d; [left; reflexivity | right; eexists _, _; split; [reflexivity | discriminate] ..]).
Qed.

Lemma to_uint_nonnil p : Pos.to_uint p <> Decimal.Nil.
Proof.
  apply DecimalPos.Unsigned.to_uint_nonnil.
Qed.

Theorem parse_dec_dec_string z : parse_dec (dec_string z) = Some z.
Proof.
  unfold dec_string, parse_dec. destruct z as [|p|p]; cbn [Z.to_int NilEmpty.string_of_int].
  - reflexivity.
  - destruct (string_of_uint_digit_head (Pos.to_uint p) (to_uint_nonnil p)) as [c [r [E [H1 [H2 _]]]]].
    rewrite E. 
    assert (Hsel: (match String c r with
                   | String "-"%char r0 => (true, r0)
                   | String "+"%char r0 => (false, r0)
                   | _ => (false, String c r) end) = (false, String c r)).
    { destruct c as [[] [] [] [] [] [] [] []]; try reflexivity; congruence. }
    rewrite Hsel. rewrite <- E. rewrite NilEmpty.usu.
    pose proof (to_uint_nonnil p). destruct (Pos.to_uint p) eqn:Ep; try congruence;
      rewrite <- Ep; f_equal; change (Z.of_uint (Pos.to_uint p)) with (Z.of_int (Z.to_int (Zpos p))); apply DecimalZ.of_to.
  - cbn. rewrite NilEmpty.usu.
    pose proof (to_uint_nonnil p). destruct (Pos.to_uint p) eqn:Ep; try congruence;
      rewrite <- Ep; f_equal;
      change (- Z.of_uint (Pos.to_uint p))%Z with (Z.of_int (Z.to_int (Zneg p))); apply DecimalZ.of_to.
Qed.

Lemma dec_string_no_hex_prefix z : has_hex_prefix (dec_string z) = false.
Proof.
  unfold dec_string. destruct z as [|p|p]; cbn [Z.to_int NilEmpty.string_of_int]; [reflexivity| |].
  - destruct (string_of_uint_digit_head (Pos.to_uint p) (to_uint_nonnil p)) as [c [r [E [_ [_ Hr]]]]].
    rewrite E. unfold has_hex_prefix. destruct Hr as [->|[c2 [r2 [-> Hx]]]].
    + destruct c as [[] [] [] [] [] [] [] []]; reflexivity.
    + destruct c as [[] [] [] [] [] [] [] []]; try reflexivity.
      destruct c2 as [[] [] [] [] [] [] [] []]; try reflexivity. congruence.
  - reflexivity.
Qed.

(** C16, integers as decimal strings: every i128 *)
Theorem int_dec_roundtrip z :
  in_i128 z = true -> from_json (JStr (dec_string z)) TInt = Ok (ArgInt z).
Proof.
  intros H. cbn. unfold string_to_bigint.
  rewrite dec_string_no_hex_prefix, parse_dec_dec_string, H. reflexivity.
Qed.

(** ... and as JSON numbers *)
Theorem int_number_roundtrip z : from_json (JNum z) TInt = Ok (ArgInt z).
Proof. reflexivity. Qed.

(** out-of-range decimals are rejected *)
Theorem int_dec_out_of_range z :
  in_i128 z = false -> from_json (JStr (dec_string z)) TInt = Err "InvalidBytesForNumber".
Proof.
  intros H. cbn. unfold string_to_bigint.
  rewrite dec_string_no_hex_prefix, parse_dec_dec_string, H. reflexivity.
Qed.

(** * request assembly *)
Lemma lookup_s_app_new {A} k (acc : list (string * A)) k' v :
  lookup_s k (acc ++ [(k', v)])%list =
  match lookup_s k acc with Some x => Some x | None => if bool_decide (k' = k) then Some v else None end.
Proof.
  unfold lookup_s. induction acc as [|[k0 v0] acc IH]; cbn.
  - destruct (bool_decide (k' = k)); reflexivity.
  - destruct (bool_decide (k0 = k)); [reflexivity | exact IH].
Qed.

(** every key of the assembled map is a declared parameter *)
Theorem assemble_from_declared params src acc skip out :
  (forall k, is_Some (lookup_s k acc) -> is_Some (lookup_s k params)) ->
  assemble_from base64_decode bech32_decode params src acc skip = Ok out ->
  forall k, is_Some (lookup_s k out) -> is_Some (lookup_s k params).
Proof.
  revert acc. induction src as [|[k0 v0] src IH]; intros acc Hacc H; cbn in H.
  - injection H as <-. exact Hacc.
  - destruct (skip && bool_decide (is_Some (lookup_s k0 acc))); [eapply IH; eassumption|].
    destruct (lookup_s k0 params) as [t|] eqn:Ep; [|eapply IH; eassumption].
    destruct (from_json v0 t) as [a| | |]; cbn in H; try discriminate.
    eapply IH; [|exact H]. intros k Hk. rewrite lookup_s_app_new in Hk.
    destruct (lookup_s k acc) eqn:Ea; [apply Hacc; rewrite Ea; eexists; reflexivity|].
    destruct (bool_decide (k0 = k)) eqn:Eb; [|destruct Hk; discriminate].
    apply bool_decide_eq_true in Eb. subst. rewrite Ep. eexists. reflexivity.
Qed.

Theorem assemble_declared params args env out :
  assemble base64_decode bech32_decode params args env = Ok out ->
  forall k, is_Some (lookup_s k out) -> is_Some (lookup_s k params).
Proof.
  unfold assemble. intros H.
  destruct (assemble_from base64_decode bech32_decode params args [] false) as [a| | |] eqn:Ea; cbn in H; try discriminate.
  eapply assemble_from_declared; [|exact H].
  eapply assemble_from_declared; [|exact Ea]. intros k [x Hx]. discriminate.
Qed.
End WithOracles.

(** * integers as 0x-prefixed 16-byte big-endian two's complement *)
Lemma be_bytes_wf k n : wf_bytes (be_bytes k n) = true.
Proof.
  revert n. induction k as [|k IH]; intros n; cbn; [reflexivity|].
  unfold wf_bytes in *. rewrite forallb_app, IH. cbn.
  destruct (N.ltb_spec (n mod 256) 256) as [|H]; [reflexivity|].
  pose proof (N.mod_lt n 256 ltac:(lia)). lia.
Qed.

Lemma fold_left_from_be l acc : fold_left (fun a x => (a * 256 + x)%N) l acc = from_be l acc.
Proof. revert acc. induction l as [|b l IH]; intros acc; cbn; [reflexivity | apply IH]. Qed.

Definition twos16 (z : Z) : bytes := be_bytes 16 (Z.to_N (z mod 2 ^ 128)).

Theorem int_hex_roundtrip base64_decode bech32_decode z :
  in_i128 z = true ->
  from_json base64_decode bech32_decode (JStr ("0x" ++ hex_encode (twos16 z))) TInt = Ok (ArgInt z).
Proof.
  intros H. unfold in_i128, i128_min, i128_max in H. apply andb_true_iff in H as [H1 H2].
  apply Z.leb_le in H1. apply Z.leb_le in H2.
  cbn [from_json value_to_bigint]. unfold string_to_bigint.
  change (has_hex_prefix ("0x" ++ hex_encode (twos16 z))) with true. cbn match.
  unfold hex_to_bytes. change (strip_0x ("0x" ++ hex_encode (twos16 z))) with (hex_encode (twos16 z)).
  unfold twos16. rewrite hex_decode_encode by apply be_bytes_wf.
  rewrite be_bytes_length. cbn [Nat.eqb]. cbn [obind].
  unfold from_be_signed. rewrite fold_left_from_be.
  assert (Hm: (0 <= z mod 2 ^ 128 < 2 ^ 128)%Z) by (apply Z.mod_pos_bound; lia).
  rewrite from_be_be_bytes.
  2:{ change (256 ^ N.of_nat 16)%N with (Z.to_N (2 ^ 128)). lia. }
  rewrite N.mul_0_l, N.add_0_l, Z2N.id by lia.
  f_equal. f_equal.
  destruct (Z.ltb_spec (z mod 2 ^ 128) (2 ^ 127)) as [Hlt|Hge].
  - destruct (Z.le_gt_cases 0 z) as [Hz|Hz].
    + apply Z.mod_small. lia.
    + exfalso. assert (E: z mod 2 ^ 128 = z + 2 ^ 128).
      { symmetry. apply (Z.mod_unique z (2 ^ 128) (-1) (z + 2 ^ 128)); lia. }
      lia.
  - destruct (Z.le_gt_cases 0 z) as [Hz|Hz].
    + rewrite Z.mod_small in Hge by lia. lia.
    + assert (E: z mod 2 ^ 128 = z + 2 ^ 128).
      { symmetry. apply (Z.mod_unique z (2 ^ 128) (-1) (z + 2 ^ 128)); lia. }
      lia.
Qed.
