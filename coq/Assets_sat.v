(** Assets_sat.v — the clamped sum and difference that input selection uses for its running
    totals (CanonicalAssets::saturating_add / saturating_sub, repair 6f0018b) are the exact ones
    whenever the exact result stays inside the i128 range: Select.v, which computes with exact
    integers, describes the code on every input whose totals fit an amount. *)
From Tx3 Require Import Base Assets Assets_proofs.
Local Open Scope Z_scope.

Lemma sat_id z : in_i128 z = true -> sat z = z.
Proof. unfold in_i128, sat. intros H. apply andb_true_iff in H as [H1 H2]. lia. Qed.

Lemma sat_in_range z : in_i128 (sat z) = true.
Proof. unfold in_i128, sat, i128_min, i128_max. apply andb_true_iff. split; lia. Qed.

Lemma all_in_i128_lookup a k v : all_in_i128 a = true -> a !! k = Some v -> in_i128 v = true.
Proof.
  unfold all_in_i128. rewrite forallb_forall. intros H Hk.
  apply (H (k, v)). apply elem_of_list_In, elem_of_map_to_list. exact Hk.
Qed.

(** with both operands inside the range (every amount of a UTxO or of a threshold is an i128) *)
Theorem sat_add_exact a b :
  all_in_i128 a = true -> all_in_i128 b = true -> add_no_ovf a b = true -> a_sat_add a b = a_add a b.
Proof.
  intros Ha Hb Hov. unfold a_sat_add, a_add. f_equal. apply map_eq. intros k.
  unfold a_add_raw. rewrite !lookup_union_with.
  destruct (a !! k) as [x|] eqn:Ea, (b !! k) as [y|] eqn:Eb; cbn; try reflexivity.
  f_equal. apply sat_id. apply (all_in_i128_lookup _ k _ Hov).
  unfold a_add_raw. rewrite lookup_union_with, Ea, Eb. reflexivity.
Qed.

Theorem sat_sub_exact a b :
  all_in_i128 a = true -> all_in_i128 b = true -> sub_no_ovf a b = true -> a_sat_sub a b = a_sub a b.
Proof.
  intros Ha Hb Hov. unfold a_sat_sub, a_sub. f_equal. apply map_eq. intros k.
  unfold a_sub_raw. rewrite !lookup_merge.
  destruct (a !! k) as [x|] eqn:Ea, (b !! k) as [y|] eqn:Eb; cbn; try reflexivity;
    f_equal; apply sat_id; apply (all_in_i128_lookup _ k _ Hov);
    unfold a_sub_raw; rewrite lookup_merge, Ea, Eb; reflexivity.
Qed.

(** and whatever the operands, the clamped results stay inside the range: the arithmetic of the
    selection cannot overflow *)
Theorem sat_add_in_range a b :
  all_in_i128 a = true -> all_in_i128 b = true -> all_in_i128 (a_sat_add a b) = true.
Proof.
  intros Ha Hb. unfold all_in_i128. apply forallb_forall. intros [k v] Hin.
  apply elem_of_list_In, elem_of_map_to_list in Hin. unfold a_sat_add, strip in Hin.
  apply map_filter_lookup_Some in Hin as [Hin _]. rewrite lookup_union_with in Hin. cbn.
  destruct (a !! k) as [x|] eqn:Ea, (b !! k) as [y|] eqn:Eb; cbn in Hin; try discriminate;
    injection Hin as <-.
  - apply sat_in_range.
  - exact (all_in_i128_lookup a k x Ha Ea).
  - exact (all_in_i128_lookup b k y Hb Eb).
Qed.

Theorem sat_sub_in_range a b :
  all_in_i128 a = true -> all_in_i128 b = true -> all_in_i128 (a_sat_sub a b) = true.
Proof.
  intros Ha Hb. unfold all_in_i128. apply forallb_forall. intros [k v] Hin.
  apply elem_of_list_In, elem_of_map_to_list in Hin. unfold a_sat_sub, strip in Hin.
  apply map_filter_lookup_Some in Hin as [Hin _]. rewrite lookup_merge in Hin. cbn.
  destruct (a !! k) as [x|] eqn:Ea, (b !! k) as [y|] eqn:Eb; cbn in Hin; try discriminate;
    injection Hin as <-; apply sat_in_range.
Qed.

Example sat_clamps : sat (i128_max + 5) = i128_max /\ sat (i128_min - 1) = i128_min /\ sat 7 = 7.
Proof. vm_compute. repeat split; reflexivity. Qed.
