(** Select.v — model of input resolution in tx3-resolver:
    inputs/mod.rs (CanonicalQuery, resolve), inputs/narrow.rs (Subset, SearchSpace,
    narrow_search_space, take), inputs/select/mod.rs (InputSelector, find_first_excess_utxo),
    inputs/select/vector.rs (pick_single, pick_many).
    Sets are duplicate-free lists. Every hash-set iteration order and the float-keyed
    candidate sort are oracle arguments; theorems quantify over all of them. *)
From Tx3 Require Export Base Assets.

Record utxo_ref := mk_ref { r_txid : bytes; r_idx : N }.
Global Instance utxo_ref_eq_dec : EqDecision utxo_ref.
Proof. solve_decision. Defined.

(** datum and script of a UTxO play no part in selection *)
Record utxo := mk_utxo { u_ref : utxo_ref; u_addr : bytes; u_assets : assets }.
Global Instance utxo_eq_dec : EqDecision utxo.
Proof. solve_decision. Defined.

(** A store: UTxOs with pairwise distinct references. *)
Definition store := list utxo.
Definition wf_store (st : store) : Prop := NoDup (map u_ref st).


Definition mem {A} `{EqDecision A} (x : A) (l : list A) : bool := bool_decide (x ∈ l).

Fixpoint nodupb {A} `{EqDecision A} (l : list A) : bool :=
  match l with [] => true | x :: r => negb (mem x r) && nodupb r end.
Definition wf_storeb (st : store) : bool := nodupb (map u_ref st).

Inductive subset := NotSet | All | Specific (s : list utxo_ref).

Definition s_union (a b : subset) : subset :=
  match a, b with
  | NotSet, x => x
  | x, NotSet => x
  | All, _ => All
  | _, All => All
  | Specific s1, Specific s2 => Specific (list_union s1 s2)
  end.
Definition s_inter (a b : subset) : subset :=
  match a, b with
  | NotSet, x => x
  | x, NotSet => x
  | All, x => x
  | x, All => x
  | Specific s1, Specific s2 => Specific (list_intersection s1 s2)
  end.
(** From<Subset> for HashSet: All and NotSet both become the empty set *)
Definition s_list (a : subset) : list utxo_ref :=
  match a with Specific s => s | _ => [] end.

Record query := mk_query {
  q_addr : option bytes;
  q_min : option assets;
  q_refs : list utxo_ref;     (* duplicate-free *)
  q_many : bool;
  q_coll : bool }.

Definition target_of (q : query) : assets := default a_empty (q_min q).

(** the UtxoStore contract the model assumes (the store is a trait of the embedding
    application; the harness implements exactly this) *)
Definition by_address (st : store) (a : bytes) : list utxo_ref :=
  map u_ref (filter (fun u => u_addr u = a) st).
Definition by_asset (st : store) (p n : bytes) : list utxo_ref :=
  map u_ref (filter (fun u => 0 < get0 (u_assets u) (Defined p n)) st).
Definition fetch (st : store) (refs : list utxo_ref) : list utxo :=
  filter (fun u => u_ref u ∈ refs) st.

Record space := mk_space { sp_union : subset; sp_inter : subset }.
Definition include_subset (sp : space) (s : subset) : space :=
  mk_space (s_union (sp_union sp) s) (s_inter (sp_inter sp) s).

Definition narrow_by_class (st : store) (parent : subset) (c : asset_class) : subset :=
  match c with
  | Defined p n => s_inter parent (Specific (by_asset st p n))
  | _ => parent
  end.

Definition is_constrained (sp : space) : bool :=
  match sp_inter sp with Specific _ => true | _ => false end.

Definition narrow (st : store) (q : query) : outcome space :=
  let parent := match q_addr q with Some a => Specific (by_address st a) | None => All end in
  let sp1 := include_subset (mk_space NotSet NotSet) parent in
  let sp2 := match q_min q with
             | None => sp1
             | Some m => fold_left (fun sp kv =>
                            if 0 <? kv.2 then include_subset sp (narrow_by_class st parent kv.1) else sp)
                          (map_to_list m) sp1
             end in
  (* add_ref_matches: only a referenced UTxO can be bound, so the references replace the union *)
  let sp3 := match q_refs q with
             | [] => sp2
             | rs => mk_space (Specific rs) (s_inter (sp_inter sp2) (Specific rs))
             end in
  if is_constrained sp3 then Ok sp3 else Err "InputQueryTooBroad".

(** SearchSpace::take(Some w): the whole intersection; topped up from the union when the
    intersection is smaller than the window. [fill] is the oracle for which elements of
    union∖intersection the hash-set iterator yields first. *)
Definition take_diff (sp : space) : list utxo_ref :=
  list_difference (s_list (sp_union sp)) (s_list (sp_inter sp)).
Definition fill_ok (sp : space) (w : nat) (fill : list utxo_ref) : bool :=
  let best := s_list (sp_inter sp) in
  if (length best <? w)%nat then
    nodupb fill && forallb (fun r => mem r (take_diff sp)) fill
    && (length fill =? Nat.min (w - length best) (length (take_diff sp)))%nat
  else match fill with [] => true | _ => false end.
Definition take_space (sp : space) (w : nat) (fill : list utxo_ref) : list utxo_ref :=
  let best := s_list (sp_inter sp) in
  if (length best <? w)%nat then best ++ fill else best.

(** the explicit constraints of the query, enforced on what was fetched *)
Definition meets (q : query) (u : utxo) : bool :=
  match q_addr q with Some a => bool_decide (u_addr u = a) | None => true end
  && match q_refs q with [] => true | rs => mem (u_ref u) rs end.

(** present [l] in the order given by the oracle [ord] (a list of references) *)
Definition order_by (ord : list utxo_ref) (l : list utxo) : list utxo :=
  omap (fun r => find (fun u => bool_decide (u_ref u = r)) l) ord.
(** the oracle is a genuine order of [l] *)
Definition order_ok (ord : list utxo_ref) (l : list utxo) : bool :=
  (length ord =? length l)%nat && nodupb ord && forallb (fun r => mem r (map u_ref l)) ord.

Definition pick_single (cands : list utxo) (target : assets) : list utxo :=
  match find (fun u => contains_total (u_assets u) target) cands with
  | Some u => [u]
  | None => []
  end.

Fixpoint greedy (cands matched : list utxo) (pending : assets) : list utxo * assets :=
  match cands with
  | [] => (matched, pending)
  | c :: r =>
    let '(m, p) := if contains_some (u_assets c) pending
                   then (matched ++ [c], a_sub pending (u_assets c))
                   else (matched, pending) in
    if is_empty_or_negative p then (m, p) else greedy r m p
  end.

Definition total (l : list utxo) : assets := a_sum (map u_assets l).

Definition find_first_excess (matched : list utxo) (target : assets) (scan : list utxo_ref)
  : option utxo :=
  if (length matched =? 1)%nat then None
  else
    let excess := a_sub (total matched) target in
    if is_empty_or_negative excess then None
    else find (fun u => contains_total excess (u_assets u)) (order_by scan matched).

Definition remove_utxo (u : utxo) (l : list utxo) : list utxo :=
  filter (fun x => u_ref x <> u_ref u) l.

(** the `while let Some(u) = find_first_excess_utxo(..)` loop; fuel = |matched| suffices
    because every iteration removes one element *)
Fixpoint prune (fuel : nat) (matched : list utxo) (target : assets) (scans : list (list utxo_ref))
  : list utxo :=
  match fuel with
  | O => matched
  | S f =>
    match find_first_excess matched target (hd [] scans) with
    | None => matched
    | Some u => prune f (remove_utxo u matched) target (tl scans)
    end
  end.

Definition pick_many (cands : list utxo) (target : assets) (scans : list (list utxo_ref))
  : list utxo :=
  let '(matched, pending) := greedy cands [] target in
  if negb (is_empty_or_negative pending) then []
  else prune (length matched) matched target scans.

Record oracles := mk_oracles {
  o_fill : list utxo_ref;
  o_sorted : list utxo_ref;
  o_scans : list (list utxo_ref) }.

Definition window : nat := 50.

(** candidates handed to coin selection by select_input / select_collateral *)
Definition fetched_cands (st : store) (sp : space) (q : query) (ign : list utxo_ref)
           (fill : list utxo_ref) : list utxo :=
  let refs := filter (fun r => r ∉ ign) (take_space sp window fill) in
  let fetched := fetch st refs in
  let fetched := if q_coll q then filter (fun u => is_only_naked (u_assets u) = true) fetched
                 else fetched in
  filter (fun u => meets q u = true) fetched.

Definition select (st : store) (sp : space) (q : query) (ign : list utxo_ref) (o : oracles)
  : list utxo :=
  let cands := order_by (o_sorted o) (fetched_cands st sp q ign (o_fill o)) in
  if q_many q then pick_many cands (target_of q) (o_scans o)
  else pick_single cands (target_of q).

(** InputSelector state: what regular inputs and what collateral already took *)
Record selector := mk_sel { ign_input : list utxo_ref; ign_coll : list utxo_ref }.

(** inputs::resolve: blocks in name order (BTreeMap), one selector threaded through *)
Fixpoint resolve_blocks (st : store) (sel : selector)
         (blocks : list (string * query * oracles))
  : outcome (list (string * list utxo)) :=
  match blocks with
  | [] => Ok []
  | (name, q, o) :: rest =>
    sp <- narrow st q ;;
    let ign := if q_coll q then ign_coll sel else ign_input sel in
    let s := select st sp q ign o in
    match s with
    | [] => Err "InputNotResolved"
    | _ =>
      let sel' := if q_coll q then mk_sel (ign_input sel) (ign_coll sel ++ map u_ref s)
                  else mk_sel (ign_input sel ++ map u_ref s) (ign_coll sel) in
      r <- resolve_blocks st sel' rest ;;
      Ok ((name, s) :: r)
    end
  end.

Definition resolve_inputs (st : store) (blocks : list (string * query * oracles)) :=
  resolve_blocks st (mk_sel [] []) blocks.

(** * The specification side (what the property says, independent of the algorithm) *)

(** the candidates of a block, as the property describes them *)
Definition spec_candidate (st : store) (q : query) (ign : list utxo_ref) (u : utxo) : Prop :=
  u ∈ st /\ u_ref u ∉ ign /\
  (match q_addr q with Some a => u_addr u = a | None => True end) /\
  (match q_refs q with [] => True | rs => u_ref u ∈ rs end) /\
  (q_coll q = true -> is_only_naked (u_assets u) = true) /\
  (** a query without `from` and without `ref` is narrowed by the requested tokens *)
  (q_addr q = None -> q_refs q = [] -> forall p n, 0 < get0 (target_of q) (Defined p n) ->
                       0 < get0 (u_assets u) (Defined p n)).

Definition covers (a target : assets) : Prop := forall k, get0 target k <= get0 a k.
Definition store_nonneg (st : store) : Prop := forall u, u ∈ st -> nonneg (u_assets u).
