(** Denote.v — an independent big-step semantics [[P]](args, utxos, fee, network) over the
    generator's own syntax tree (Surface.v), with unbounded integers and the multi-asset
    group. It does not go through the IR: names are looked up in the program, arithmetic is
    Z / gmap arithmetic, records are positional values. It reuses only Lower.resolve (what a
    name denotes) and the data types of the other files. *)
From Tx3 Require Export Base Assets Tir PlutusData Surface Lower.
Local Open Scope Z_scope.

Inductive val :=
| VInt (z : Z) | VBool (b : bool) | VBytes (b : bytes) | VStr (s : bytes) | VAddr (b : bytes)
| VAssets (a : assets) | VRefs (rs : list utxo_ref) | VUnit
| VStruct (c : N) (fs : list val) | VList (xs : list val) | VMap (kvs : list (val * val))
| VUtxos (us : list utxo_x).

Record denv := mk_denv {
  de_args : list (string * arg_value);          (* keyed as the client supplies them: lower-cased names *)
  de_inputs : list (string * list utxo_x);      (* UTxOs assigned to each input block *)
  de_fee : Z;
  de_mainnet : bool;
  de_slot : Z;
  de_time : Z }.

(** a datum stored in a UTxO (an IR constant) as a value *)
Fixpoint val_of_expr (e : expr) : option val :=
  match e with
  | ENumber z => Some (VInt z)
  | EBool b => Some (VBool b)
  | EBytes b => Some (VBytes b)
  | EString s => Some (VStr s)
  | EAddress b => Some (VAddr b)
  | EStruct c fs =>
    option_map (VStruct c)
      ((fix go (l : list expr) : option (list val) :=
          match l with [] => Some [] | x :: r => match val_of_expr x, go r with Some v, Some vs => Some (v :: vs) | _, _ => None end end) fs)
  | EList xs =>
    option_map VList
      ((fix go (l : list expr) : option (list val) :=
          match l with [] => Some [] | x :: r => match val_of_expr x, go r with Some v, Some vs => Some (v :: vs) | _, _ => None end end) xs)
  | EMap kvs =>
    option_map VMap
      ((fix go (l : list (expr * expr)) : option (list (val * val)) :=
          match l with
          | [] => Some []
          | kv :: r => match val_of_expr (fst kv), val_of_expr (snd kv), go r with Some k, Some v, Some vs => Some ((k, v) :: vs) | _, _, _ => None end
          end) kvs)
  | _ => None
  end.

Definition val_of_arg (a : arg_value) : val :=
  match a with
  | ArgInt z => VInt z | ArgBool b => VBool b | ArgString s => VStr s | ArgBytes b => VBytes b
  | ArgAddress b => VAddr b | ArgUtxoSet us => VUtxos us | ArgUtxoRef r => VRefs [r]
  end.

Definition class_of_bytes (p n : bytes) : asset_class :=
  match p, n with
  | [], [] => Naked
  | [], _ => Named n
  | _, _ => Defined p n
  end.

Definition bytes_of (v : val) : option bytes :=
  match v with VBytes b | VStr b | VAddr b => Some b | _ => None end.

Definition utxo_total (us : list utxo_x) : assets :=
  fold_left (fun acc u => a_add acc (list_to_map (snd (fst (fst u))))) us a_empty.

Definition script_addr (mainnet : bool) (h : bytes) : bytes := (if mainnet then 113%N else 112%N) :: h.

Definition dlookup {A} (n : string) (l : list (string * A)) : option A :=
  option_map snd (find (fun kv => bool_decide (fst kv = n)) l).

Definition vmapM {A B} (f : A -> option B) : list A -> option (list B) :=
  fix go l := match l with [] => Some [] | x :: r => match f x, go r with Some y, Some ys => Some (y :: ys) | _, _ => None end end.

Section Denote.
Variable p : sprogram.
Variable t : stx.
Variable env : denv.

Definition arg_of (n : string) : option val := option_map val_of_arg (dlookup (to_lower n) (de_args env)).

(** [c] is the position the expression stands in (an address, an amount, a datum, or none of
    those): it decides what the name of an input or of a policy stands for *)
Fixpoint eval (fuel : nat) (c : lctx) (e : sexpr) {struct fuel} : option val :=
  match fuel with
  | O => None
  | S f =>
    match e with
    | SNum z => Some (VInt z)
    | SBoolLit b => Some (VBool b)
    | SStr s => Some (VStr s)
    | SHex b => Some (VBytes b)
    | SHexOdd => None
    | SUnit => Some VUnit
    | SRefLit txid idx => Some (VRefs [mk_ref txid idx])
    | SId n =>
      match resolve p t n with
      | Some (SymParam m _) | Some (SymEnv m _) | Some (SymParty m) => arg_of m
      | Some (SymLocal x) => eval f c x
      | Some (SymInput i) =>
        match dlookup (to_lower (in_name i)) (de_inputs env) with
        | Some us =>
          if is_asset c then Some (VAssets (utxo_total us))
          else if is_datum c then
            match us with
            | u :: _ => match snd (fst u) with Some d => val_of_expr d | None => None end
            | [] => None
            end
          else Some (VUtxos us)
        | None => None
        end
      | Some SymFees => Some (VAssets {[ Naked := de_fee env ]})
      | Some (SymPolicy _ h) => Some (if is_address c then VAddr (script_addr (de_mainnet env) h) else VBytes h)
      | Some (SymOutput i) => Some (VInt (Z.of_N i))
      | _ => None
      end
    | SAddE a b =>
      match eval f c a, eval f c b with
      | Some (VInt x), Some (VInt y) => Some (VInt (x + y))
      | Some (VAssets x), Some (VAssets y) => Some (VAssets (a_add x y))
      | _, _ => None
      end
    | SSubE a b =>
      match eval f c a, eval f c b with
      | Some (VInt x), Some (VInt y) => Some (VInt (x - y))
      | Some (VAssets x), Some (VAssets y) => Some (VAssets (a_sub x y))
      | _, _ => None
      end
    | SNegE a =>
      match eval f c a with
      | Some (VInt x) => Some (VInt (- x))
      | Some (VAssets x) => Some (VAssets (a_neg x))
      | _ => None
      end
    | SConcat a b =>
      match eval f c a, eval f c b with
      | Some (VBytes x), Some (VBytes y) => Some (VBytes (x ++ y))
      | Some (VStr x), Some (VStr y) => Some (VStr (x ++ y))
      | Some (VList x), Some (VList y) => Some (VList (x ++ y))
      | _, _ => None
      end
    | SPropE o fld =>
      match target_type p t ldepth o, eval f c o with
      | Some ty, Some (VStruct _ fs) =>
        match index_of (fun kv => bool_decide (fst kv = fld)) (properties p ty) with
        | Some i => nth_error fs i
        | None => None
        end
      | _, _ => None
      end
    | SIndex o idx =>
      match eval f c o, eval f c idx with
      | Some (VList xs), Some (VInt i) => if i <? 0 then None else nth_error xs (Z.to_nat i)
      | _, _ => None
      end
    | SStruct tyname case fields spread =>
      match resolve p t tyname with
      | Some (SymType td) =>
        let cname := from_option id "Default"%string case in
        match index_of (fun cs => bool_decide (fst cs = cname)) (td_cases td),
              option_map snd (find (fun cs => bool_decide (fst cs = cname)) (td_cases td)) with
        | Some ctor, Some decl =>
          let base := match spread with
                      | Some s => match eval f c s with Some (VStruct _ fs) => Some fs | _ => None end
                      | None => Some []
                      end in
          match base with
          | None => None
          | Some bfs =>
            option_map (VStruct (N.of_nat ctor))
              ((fix go (i : nat) (l : list (string * sty)) : option (list val) :=
                  match l with
                  | [] => Some []
                  | (fname, _) :: r =>
                    let v := match option_map snd (find (fun kv => bool_decide (fst kv = fname)) fields) with
                             | Some ve => eval f c ve
                             | None => nth_error bfs i
                             end in
                    match v, go (S i) r with Some x, Some xs => Some (x :: xs) | _, _ => None end
                  end) O decl)
          end
        | _, _ => None
        end
      | _ => None
      end
    | SListE xs => option_map VList (vmapM (eval f c) xs)
    | SMapE kvs =>
      option_map VMap
        ((fix go (l : list (sexpr * sexpr)) : option (list (val * val)) :=
            match l with
            | [] => Some []
            | kv :: r => match eval f c (fst kv), eval f c (snd kv), go r with Some k, Some v, Some vs => Some ((k, v) :: vs) | _, _, _ => None end
            end) kvs)
    | SAnyAssetE pol name amt =>
      match eval f ctx_datum pol, eval f ctx_datum name, eval f ctx_datum amt with
      | Some pv, Some nv, Some (VInt z) =>
        match bytes_of pv, bytes_of nv with
        | Some pb, Some nb => Some (VAssets {[ class_of_bytes pb nb := z ]})
        | _, _ => None
        end
      | _, _, _ => None
      end
    | SCall fn args =>
      if bool_decide (fn = "tip_slot"%string) then Some (VInt (de_slot env))
      else if bool_decide (fn = "slot_to_time"%string) then
        match args with
        | [a] => match eval f c a with Some (VInt s) => Some (VInt (de_time env + (s - de_slot env) * 1000)) | _ => None end
        | _ => None
        end
      else if bool_decide (fn = "time_to_slot"%string) then
        match args with
        | [a] => match eval f c a with Some (VInt x) => Some (VInt (de_slot env + Z.quot (x - de_time env) 1000)) | _ => None end
        | _ => None
        end
      else
        match resolve p t fn, args with
        | Some (SymAsset pol name), a :: _ =>
          match eval f c a with
          | Some (VInt z) =>
            let lit := fun (x : sexpr) => match x with SStr s => Some s | SHex b => Some b | SUnit => Some [] | _ => None end in
            match lit pol, lit name with
            | Some pb, Some nb => Some (VAssets {[ class_of_bytes pb nb := z ]})
            | _, _ => None
            end
          | _ => None
          end
        | _, _ => None
        end
    end
  end.

Definition dfuel : nat := 80.
Definition ev (c : lctx) (e : sexpr) : option val := eval dfuel c e.

(** values as Plutus data *)
Fixpoint to_pdata (v : val) : option pdata :=
  match v with
  | VInt z => Some (PInt z)
  | VBool b => Some (PConstr (if b then 1 else 0)%N [])
  | VBytes b | VStr b | VAddr b => Some (PBytes b)
  | VUnit => Some (PConstr 0 [])
  | VStruct c fs => option_map (PConstr c) (vmapM to_pdata fs)
  | VList xs => option_map PList (vmapM to_pdata xs)
  | VMap kvs =>
    option_map PMap
      ((fix go (l : list (val * val)) : option (list (pdata * pdata)) :=
          match l with
          | [] => Some []
          | kv :: r => match to_pdata (fst kv), to_pdata (snd kv), go r with Some k, Some x, Some xs => Some ((k, x) :: xs) | _, _, _ => None end
          end) kvs)
  | _ => None
  end.

(** * the denoted transaction *)
Record dout := mk_dout { do_addr : bytes; do_value : assets; do_datum : option pdata }.

Record dtx := mk_dtx {
  d_inputs : list utxo_ref;               (* as a set *)
  d_outputs : list dout;                  (* in source order *)
  d_declared_values : list assets;        (* the value of every declared output, optional ones included *)
  d_mint : assets;                        (* mints minus burns *)
  d_since : option Z; d_until : option Z;
  d_refs : list utxo_ref;
  d_collateral : list utxo_ref;
  d_metadata : list (Z * val);
  d_fee : Z }.

Definition addr_of (v : val) : option bytes := match v with VAddr b | VBytes b => Some b | _ => None end.
Definition assets_of (v : option val) : option assets := match v with Some (VAssets a) => Some a | _ => None end.
Definition int_of (v : option val) : option Z := match v with Some (VInt z) => Some z | _ => None end.

Definition denote_output (o : soutput) : option dout :=
  match so_to o, so_amount o with
  | Some a, Some m =>
    match ev ctx_address a, assets_of (ev ctx_asset m) with
    | Some av, Some mv =>
      match addr_of av with
      | Some ab =>
        match so_datum o with
        | Some d => match ev ctx_datum d with
                    | Some dv => match to_pdata dv with Some pd => Some (mk_dout ab mv (Some pd)) | None => None end
                    | None => None end
        | None => Some (mk_dout ab mv None)
        end
      | None => None
      end
    | _, _ => None
    end
  | _, _ => None
  end.

(** an optional output is part of the transaction when it carries something *)
Definition has_value (a : assets) : bool := existsb (fun kv => 0 <? snd kv) (map_to_list a).

(** a publish directive is one more output, after the declared ones *)
Definition denote_publish (d : sdirective) : option (list dout) :=
  match d with
  | DPublish to amount datum _ _ =>
    match denote_output (mk_soutput None false to (match amount with Some a => Some a | None => Some (SCall "Ada" [SNum 0]) end) datum) with
    | Some o => Some [o]
    | None => None
    end
  | _ => Some []
  end.

Definition utxo_refs_of (name : string) : list utxo_ref :=
  match dlookup (to_lower name) (de_inputs env) with
  | Some us => map (fun u => fst (fst (fst (fst u)))) us
  | None => []
  end.

Definition denote_mints (ms : list smint) : option assets :=
  fold_left (fun acc m => match acc, sm_amount m with
                          | Some a, Some x => match assets_of (ev ctx_default x) with Some y => Some (a_add a y) | None => None end
                          | Some a, None => Some a
                          | None, _ => None end) ms (Some a_empty).

Definition opt_int (o : option sexpr) : option (option Z) :=
  match o with
  | None => Some None
  | Some e => match int_of (ev ctx_default e) with Some z => Some (Some z) | None => None end
  end.

Definition refs_of_val (v : option val) : option (list utxo_ref) := match v with Some (VRefs rs) => Some rs | _ => None end.

Definition denote_tx : option dtx :=
  match vmapM (fun o => option_map (fun d => (so_optional o, d)) (denote_output o)) (st_outputs t),
        denote_mints (st_mints t), denote_mints (st_burns t),
        (match st_validity t with Some (a, b) => match opt_int a, opt_int b with Some x, Some y => Some (x, y) | _, _ => None end | None => Some (None, None) end),
        vmapM (fun r => refs_of_val (ev ctx_default (snd r))) (st_references t),
        (match st_metadata t with
         | Some kvs => vmapM (fun kv => match int_of (ev ctx_default (fst kv)), ev ctx_default (snd kv) with Some k, Some v => Some (k, v) | _, _ => None end) kvs
         | None => Some [] end) with
  | Some declared, Some mi, Some bu, Some (since, until), Some refs, Some md =>
    let outs0 := map snd (filter (fun po => negb (fst po) || has_value (do_value (snd po))) declared) in
    match vmapM denote_publish (st_directives t) with
    | None => None
    | Some pubs =>
    let outs := outs0 ++ concat pubs in
    Some (mk_dtx (flat_map (fun i => utxo_refs_of (in_name i)) (st_inputs t)) outs (map (fun po => do_value (snd po)) declared) (a_sub mi bu) since until
                 (concat refs) (utxo_refs_of "collateral") md (de_fee env))
    end
  | _, _, _, _, _, _ => None
  end.
End Denote.
