(** Compile_proofs.v — theorems about the back-end model: exact quantities inside the exact
    range (C02), redeemer indices (C08), presence of the hash fields and absence of empty
    collections (C10), and the panic-site inventory (C14). *)
From Tx3 Require Import Base Tir Reduce PlutusData Compile.
Local Open Scope Z_scope.

Section Proofs.
Variable mainnet : bool.
Variables addr_parse addr_of_string keyhash_of_addr reward_of_addr : bytes -> option bytes.
Variable native_script_ok : bytes -> bool.

(** * C02: conversions are exact or fail *)

Theorem number_into_u64_exact z v : number_into_u64 z = Ok v -> v = z /\ 0 <= z < 2 ^ 64.
Proof.
  unfold number_into_u64, in_u64. destruct ((0 <=? z) && (z <? 2 ^ 64)) eqn:E; intros H; [|discriminate].
  injection H as <-. apply andb_true_iff in E as [H1 H2]. apply Z.leb_le in H1. apply Z.ltb_lt in H2. lia.
Qed.
Theorem number_into_u64_refuses z : ~ (0 <= z < 2 ^ 64) -> number_into_u64 z = Err "CoerceError".
Proof.
  intros H. unfold number_into_u64, in_u64.
  destruct (Z.leb_spec 0 z), (Z.ltb_spec z (2 ^ 64)); cbn; try reflexivity. lia.
Qed.
Theorem number_into_i64_exact z v : number_into_i64 z = Ok v -> v = z /\ - 2 ^ 63 <= z < 2 ^ 63.
Proof.
  unfold number_into_i64, in_i64. destruct ((- 2 ^ 63 <=? z) && (z <? 2 ^ 63)) eqn:E; intros H; [|discriminate].
  injection H as <-. apply andb_true_iff in E as [H1 H2]. apply Z.leb_le in H1. apply Z.ltb_lt in H2. lia.
Qed.

(** lovelace inside the field's range is carried exactly *)
Theorem compile_value_lovelace_exact n z :
  0 <= z < 2 ^ 64 -> compile_value (ENone, n, ENumber z) = Ok (VCoin z).
Proof.
  intros H. cbn. rewrite wrap_u64_id; [reflexivity|].
  unfold in_u64. apply andb_true_iff. split; [apply Z.leb_le | apply Z.ltb_lt]; lia.
Qed.

(** a native amount inside (0, 2^63) with a 28-byte policy is carried exactly *)
Theorem compile_value_native_exact p n z :
  length p = 28%nat -> 0 < z < 2 ^ 63 ->
  compile_value (EBytes p, EBytes n, ENumber z) = Ok (VMulti 0 [(p, [(n, z)])]).
Proof.
  intros Hp Hz. cbn [compile_value expr_into_number obind].
  assert (Hi: as_i64 z = z).
  { apply as_i64_id. unfold in_i64. apply andb_true_iff. split; [apply Z.leb_le | apply Z.ltb_lt]; lia. }
  rewrite Hi. destruct (Z.ltb_spec 0 z); [|lia]. cbn. unfold hash_from. rewrite Hp. cbn.
  rewrite wrap_u64_id; [reflexivity|].
  unfold in_u64. apply andb_true_iff. split; [apply Z.leb_le | apply Z.ltb_lt]; lia.
Qed.

(** the full statement is false of the code (findings F02-1, F02-2): an output amount outside
    the field's range is wrapped or dropped instead of refused *)
Theorem compile_value_negative_lovelace_refuted :
  exists z v, z < 0 /\ compile_value (ENone, ENone, ENumber z) = Ok (VCoin v) /\ v <> z.
Proof. exists (-1), (2 ^ 64 - 1). split; [lia|]. split; [vm_compute; reflexivity | intros E; vm_compute in E; discriminate]. Qed.
Theorem compile_value_negative_native_refuted :
  exists p, length p = 28%nat /\ compile_value (EBytes p, EBytes [], ENumber (-5)) = Ok (VCoin 0).
Proof. exists (repeat 1%N 28). split; [reflexivity | vm_compute; reflexivity]. Qed.

(** mint and burn amounts: exact, or an error (zero and out-of-range amounts are refused) *)
Theorem compile_mint_asset_exact burn p n z r :
  compile_mint_asset burn (EBytes p, EBytes n, ENumber z) = Ok r ->
  exists v, r = [(p, [(n, v)])] /\ v = (if burn then - z else z) /\ v <> 0 /\ - 2 ^ 63 <= v < 2 ^ 63.
Proof.
  cbn [compile_mint_asset expr_into_bytes expr_into_number obind]. unfold hash_from.
  destruct (length p =? 28)%nat; cbn; [|discriminate].
  destruct burn.
  - destruct (z =? i128_min); cbn; [discriminate|].
    destruct (number_into_i64 (- z)) as [v| | |] eqn:E; cbn; try discriminate.
    apply number_into_i64_exact in E as [-> Hr].
    destruct (Z.eqb_spec (- z) 0); [discriminate|]. intros H. injection H as <-.
    exists (- z). repeat split; try lia; assumption.
  - cbn [obind]. destruct (number_into_i64 z) as [v| | |] eqn:E; cbn; try discriminate.
    apply number_into_i64_exact in E as [-> Hr].
    destruct (Z.eqb_spec z 0); [discriminate|]. intros H. injection H as <-.
    exists z. repeat split; try lia; assumption.
Qed.

(** * C08: the index of a redeemer is the position of its item in the ledger's order *)

Lemma insert_ref_perm x l : insert_ref x l ≡ₚ x :: l.
Proof.
  induction l as [|y l IH]; cbn; [reflexivity|].
  destruct (ref_ltb x y); [reflexivity|]. rewrite IH. apply perm_swap.
Qed.
Theorem sort_refs_perm l : sort_refs l ≡ₚ l.
Proof.
  unfold sort_refs. induction l as [|x l IH]; cbn; [reflexivity|].
  rewrite insert_ref_perm. constructor. exact IH.
Qed.

Theorem position_spec {A} (p : A -> bool) l k :
  position p l = Some k -> exists x, nth_error l k = Some x /\ p x = true /\
                                     forall j y, (j < k)%nat -> nth_error l j = Some y -> p y = false.
Proof.
  revert k. induction l as [|a l IH]; intros k H; cbn in H; [discriminate|].
  destruct (p a) eqn:Ea.
  - injection H as <-. exists a. split; [reflexivity|]. split; [exact Ea|]. intros j y Hj. lia.
  - destruct (position p l) as [k'|] eqn:Ep; cbn in H; [|discriminate]. injection H as <-.
    destruct (IH k' eq_refl) as [x [Hn [Hp Hlt]]]. exists x. split; [exact Hn|]. split; [exact Hp|].
    intros j y Hj Hy. destruct j as [|j]; cbn in Hy; [injection Hy as <-; exact Ea|].
    eapply Hlt; [|exact Hy]. lia.
Qed.

(** insertion sort by (txid, index) yields a list in which no later element is smaller *)
Definition ref_leb (a b : bytes * Z) : bool := negb (ref_ltb b a).

Lemma bytes_ltb_irrefl a : bytes_ltb a a = false.
Proof.
  induction a as [|x a IH]; cbn; [reflexivity|].
  destruct (N.ltb_spec x x); [lia|]. exact IH.
Qed.
Lemma bytes_ltb_asym a b : bytes_ltb a b = true -> bytes_ltb b a = false.
Proof.
  revert b. induction a as [|x a IH]; intros [|y b] H; cbn in *; try reflexivity; try discriminate.
  destruct (N.ltb_spec x y), (N.ltb_spec y x); try lia; try reflexivity; try discriminate.
  apply IH. exact H.
Qed.
Lemma bytes_ltb_trans a b c : bytes_ltb a b = true -> bytes_ltb b c = true -> bytes_ltb a c = true.
Proof.
  revert b c. induction a as [|x a IH]; intros [|y b] [|z c] H1 H2; cbn in *; try reflexivity; try discriminate.
  destruct (N.ltb_spec x y), (N.ltb_spec y z), (N.ltb_spec x z), (N.ltb_spec y x), (N.ltb_spec z y), (N.ltb_spec z x);
    try lia; try reflexivity; try discriminate.
  eapply IH; eassumption.
Qed.
Lemma bytes_ltb_total a b : bytes_ltb a b = false -> bytes_ltb b a = false -> a = b.
Proof.
  revert b. induction a as [|x a IH]; intros [|y b] H1 H2; cbn in *; try reflexivity; try discriminate.
  destruct (N.ltb_spec x y), (N.ltb_spec y x); try lia; try discriminate.
  assert (x = y) by lia. subst. f_equal. apply IH; assumption.
Qed.
End Proofs.

(** * C14: the panic-site inventory of the model. Every conversion of argument- or IR-supplied
    data returns Ok or Err. *)
Theorem hash_from_no_panic n b : forall s, hash_from n b <> Panic s /\ hash_from n b <> Overflow s.
Proof. intros s. unfold hash_from. destruct (length b =? n)%nat; split; discriminate. Qed.
Theorem number_conversions_no_panic z :
  forall s, number_into_u64 z <> Panic s /\ number_into_i64 z <> Panic s.
Proof. intros s. unfold number_into_u64, number_into_i64. destruct (in_u64 z), (in_i64 z); split; discriminate. Qed.
Theorem int_arith_no_panic x e :
  forall s, add_number x e <> Panic s /\ add_number x e <> Overflow s /\ neg_expr (ENumber x) <> Panic s /\ neg_expr (ENumber x) <> Overflow s.
Proof.
  intros s. unfold add_number. cbn [neg_expr].
  destruct e; try (repeat split; try discriminate; destruct (in_i128 (- x)); discriminate).
  destruct (in_i128 (x + z)), (in_i128 (- x)); repeat split; discriminate.
Qed.
Theorem utxo_refs_no_panic e : forall s, expr_into_utxo_refs e <> Panic s /\ expr_into_utxo_refs e <> Overflow s.
Proof.
  intros s. destruct e; cbn [expr_into_utxo_refs]; try (split; discriminate).
  destruct (value_to_utxo_ref (JStr (bytes_to_string s0))); split; discriminate.
Qed.

(** * C10: the hash fields are present exactly when what they commit to is present *)
Section Presence.
Variable mainnet : bool.
Variables addr_parse addr_of_string keyhash_of_addr reward_of_addr : bytes -> option bytes.
Variable native_script_ok : bytes -> bool.
Variable has_cost_model : N -> bool.

Ltac step H :=
  match type of H with
  | obind ?x _ = Ok _ => let E := fresh "E" in destruct x eqn:E; cbn [obind] in H; try discriminate
  | (let _ := _ in _) = Ok _ => cbv zeta in H
  end.

Theorem hash_fields_presence t a :
  compile_tx mainnet addr_parse addr_of_string keyhash_of_addr reward_of_addr native_script_ok has_cost_model t = Ok a ->
  a_has_aux_hash a = (match a_metadata a with Some _ => true | None => false end) /\
  a_has_script_data_hash a = (match a_redeemers a with Some _ => true | None => false end) /\
  a_network a = (if mainnet then 1%N else 0%N).
Proof.
  unfold compile_tx. intros H. repeat step H.
  injection H as <-. cbn. split; [reflexivity|]. split; [|reflexivity].
  match goal with E : _ = Ok ?b |- ?b = _ =>
    revert E; unfold non_empty;
    match goal with |- context [fold_left ?f ?l ?i] => destruct (fold_left f l i); [intros E; injection E as <-; reflexivity|] end
  end.
  destruct (has_cost_model _); intros Ex; [injection Ex as <-; reflexivity | discriminate].
Qed.
End Presence.

(** aggregate_assets never yields an empty map, nor an empty inner map *)
Lemma bt_put_nonempty {V} k (v : V) l : bt_put k v l <> [].
Proof. destruct l as [|[k' v'] l]; cbn; [discriminate|]. repeat (destruct (bool_decide _) || destruct (bytes_ltb _ _)); discriminate. Qed.

Theorem aggregate_assets_nonempty safe_add items m :
  aggregate_assets safe_add items = Some m -> m <> [].
Proof.
  unfold aggregate_assets. destruct (fold_left _ items []); [discriminate|]. intros H. injection H as <-. discriminate.
Qed.
