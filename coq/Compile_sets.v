(** Compile_sets.v — the set fields that the compiler fills from lists the template may repeat
    (reference inputs, collateral inputs, required signers) hold every member once (C10). *)
From Tx3 Require Import Base Assets Select Tir Reduce PlutusData Compile.

Lemma distinct_from_spec {A} `{EqDecision A} (seen l : list A) :
  NoDup (distinct_from seen l) /\ forall x, x ∈ distinct_from seen l <-> x ∈ l /\ x ∉ seen.
Proof.
  revert seen. induction l as [|a l IH]; intros seen; cbn [distinct_from].
  - split; [constructor|]. intros x. split; [intros Hx; inversion Hx | intros [Hx _]; inversion Hx].
  - destruct (bool_decide (a ∈ seen)) eqn:E.
    + apply bool_decide_eq_true in E. destruct (IH seen) as [Hnd Hel]. split; [exact Hnd|].
      intros x. rewrite Hel. split.
      * intros [Hx Hn]. split; [right; exact Hx | exact Hn].
      * intros [Hx Hn]. split; [|exact Hn]. apply elem_of_cons in Hx as [->|Hx]; [contradiction | exact Hx].
    + apply bool_decide_eq_false in E. destruct (IH (a :: seen)) as [Hnd Hel]. split.
      * constructor; [|exact Hnd]. intros Hin. apply Hel in Hin as [_ Hn]. apply Hn. left.
      * intros x. rewrite elem_of_cons, Hel. split.
        -- intros [->|[Hx Hn]]; [split; [left | exact E]|].
           split; [right; exact Hx|]. intros Hs. apply Hn. right. exact Hs.
        -- intros [Hx Hn]. apply elem_of_cons in Hx as [->|Hx]; [left; reflexivity|].
           destruct (decide (x = a)) as [->|Hne]; [left; reflexivity|].
           right. split; [exact Hx|]. intros Hs. apply elem_of_cons in Hs as [->|Hs]; [apply Hne; reflexivity | exact (Hn Hs)].
Qed.

Theorem distinct_NoDup {A} `{EqDecision A} (l : list A) : NoDup (distinct l).
Proof. exact (proj1 (distinct_from_spec [] l)). Qed.

Theorem elem_of_distinct {A} `{EqDecision A} (l : list A) x : x ∈ distinct l <-> x ∈ l.
Proof.
  unfold distinct. rewrite (proj2 (distinct_from_spec [] l) x). split; [intros [Hx _]; exact Hx|].
  intros Hx. split; [exact Hx|]. intros Hn. inversion Hn.
Qed.

(** a list without repetition is left as it is: the order of a template that repeats nothing
    is the order of the field *)
Theorem distinct_id {A} `{EqDecision A} (l : list A) : NoDup l -> distinct l = l.
Proof.
  unfold distinct. assert (G : forall seen, NoDup l -> (forall x, x ∈ l -> x ∉ seen) -> distinct_from seen l = l).
  { induction l as [|a l IH]; intros seen Hnd Hdis; [reflexivity|]. cbn [distinct_from].
    inversion Hnd as [|? ? Hna Hnd']; subst.
    rewrite bool_decide_eq_false_2 by (apply Hdis; left). f_equal. apply IH; [exact Hnd'|].
    intros x Hx Hs. apply elem_of_cons in Hs as [->|Hs]; [exact (Hna Hx)|]. exact (Hdis x (elem_of_list_further _ _ _ Hx) Hs). }
  intros Hnd. apply G; [exact Hnd|]. intros x _ Hn. inversion Hn.
Qed.

Lemma non_empty_NoDup {A} (l : list A) : NoDup l -> match non_empty l with Some l' => NoDup l' | None => True end.
Proof. destruct l; cbn; [intros _; exact I | intros H; exact H]. Qed.

Section Sets.
Variable mainnet : bool.
Variables addr_parse addr_of_string keyhash_of_addr reward_of_addr : bytes -> option bytes.
Variable native_script_ok : bytes -> bool.
Variable has_cost_model : N -> bool.

Ltac step H :=
  match type of H with
  | obind ?x _ = Ok _ => let E := fresh "E" in destruct x eqn:E; cbn [obind] in H; try discriminate
  | (let _ := _ in _) = Ok _ => cbv zeta in H
  end.

Definition opt_NoDup {A} (o : option (list A)) : Prop := match o with Some l => NoDup l | None => True end.

(** whatever the template repeats, the compiled body lists every reference input, collateral
    input and required signer once *)
Theorem set_fields_distinct t a :
  compile_tx mainnet addr_parse addr_of_string keyhash_of_addr reward_of_addr native_script_ok has_cost_model t = Ok a ->
  opt_NoDup (a_refs a) /\ opt_NoDup (a_collateral a) /\ opt_NoDup (a_signers a).
Proof.
  unfold compile_tx. intros H. repeat step H. injection H as <-. cbn.
  repeat split; try (apply non_empty_NoDup, distinct_NoDup).
  match goal with Hs : _ = Ok ?o |- opt_NoDup ?o => revert Hs end.
  destruct (tx_signers t) as [ss|]; [|intros Hs; injection Hs as <-; exact I].
  destruct (omapM _ ss) as [hs| | |]; cbn [obind]; try discriminate.
  intros Hs. injection Hs as <-. apply non_empty_NoDup, distinct_NoDup.
Qed.
End Sets.
