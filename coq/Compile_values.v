(** Compile_values.v — the lovelace of an output is the exact sum of the lovelace of its entries,
    or the compilation fails: the running u64 sum is never wrapped (C02). *)
From Tx3 Require Import Base Assets Select Tir Reduce PlutusData Compile Compile_proofs.
Local Open Scope Z_scope.

Definition coin_of (v : value) : Z := match v with VCoin x | VMulti x _ => x end.
Definition coin_sum (vs : list value) : Z := fold_right (fun v acc => coin_of v + acc) 0 vs.

Lemma coin_fold vs : forall a c,
  fold_left (fun acc v => a <- acc ;; let x := match v with VCoin x | VMulti x _ => x end in
                          if a + x <? 2 ^ 64 then Ok (a + x) else Err "CoerceError") vs (Ok a) = Ok c ->
  c = a + coin_sum vs /\ (vs <> [] -> c < 2 ^ 64).
Proof.
  induction vs as [|v vs IH]; intros a c H; cbn [fold_left] in H.
  - injection H as <-. cbn. split; [lia|congruence].
  - cbn [obind] in H. destruct (a + match v with VCoin x | VMulti x _ => x end <? 2 ^ 64) eqn:E.
    + destruct (IH _ _ H) as [Hc Hb]. split.
      * cbn [coin_sum fold_right]. fold (coin_sum vs). unfold coin_of at 1. lia.
      * intros _. destruct vs as [|w ws]; [|apply Hb; discriminate].
        cbn in H. injection H as <-. apply Z.ltb_lt in E. exact E.
    + (* the running sum left the range: the fold stays at the error *)
      exfalso. clear -H. induction vs as [|w ws IHw]; cbn [fold_left obind] in H; [discriminate|]. apply IHw. exact H.
Qed.

Theorem aggregate_coin_exact vs c m :
  aggregate_values vs = Ok (c, m) -> c = coin_sum vs /\ (vs <> [] -> c < 2 ^ 64).
Proof.
  unfold aggregate_values. intros H.
  match type of H with (_ <- ?e ;; _) = _ => destruct e as [c1| | |] eqn:E; cbn [obind] in H; try discriminate end.
  destruct (totals_fit _ _); [|discriminate].
  injection H as <- _. destruct (coin_fold vs 0 c1 E) as [Hc Hb]. split; [lia|exact Hb].
Qed.

(** a sum that does not fit the coin field is refused *)
Theorem aggregate_coin_overflow_refused vs :
  (forall v, v ∈ vs -> 0 <= coin_of v) -> 2 ^ 64 <= coin_sum vs -> forall r, aggregate_values vs <> Ok r.
Proof.
  intros Hnn Hbig [c m] H. destruct (aggregate_coin_exact vs c m H) as [Hc Hb].
  destruct vs as [|v vs]; [cbn in Hbig; lia|]. specialize (Hb ltac:(discriminate)). lia.
Qed.
