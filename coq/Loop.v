(** Loop.v — the resolve loop of tx3_resolver (resolve_tx / eval_pass) over an abstract pass,
    with the compiler instance's state (Compiler.latest_tx_body) threaded explicitly.
    One pass = apply_fees, reduce, compiler ops, reduce, input resolution, reduce, compile. *)
From Tx3 Require Export Base.
Local Open Scope N_scope.

Section Loop.
(** protocol parameters: fee = a * |payload| + b + m (m = extra_fees or the default margin) *)
Variables (a b m : N).
(** compiler state (the body of the last compiled transaction, of whatever template) *)
Variable S : Type.
(** what a pass builds from the state it finds and the fee it is told: payload length, payload
    identity (stands for the bytes and the hash), and the state it leaves behind.
    The body of that payload carries exactly the fee the pass was told (compile_tx_body). *)
Variable build : S -> N -> outcome (N * N * S).

Record compiled := mk_compiled { c_len : N; c_pid : N; c_fee : N; c_body_fee : N }.

Definition compiled_eqb (x y : compiled) : bool :=
  (c_len x =? c_len y) && (c_pid x =? c_pid y) && (c_fee x =? c_fee y).

(** Compiler::compile + eval_size_fees *)
Definition compile (st : S) (fee_in : N) : outcome (compiled * S) :=
  r <- build st fee_in ;;
  let '(len, pid, st') := r in
  (* checked_eval_size_fees: a fee beyond 64 bits is a compile error *)
  if a * len + b + m <? 2 ^ 64 then Ok (mk_compiled len pid (a * len + b + m) fee_in, st')
  else Err "ConsistencyError".

Definition fee_of (last : option compiled) : N :=
  match last with Some r => c_fee r | None => 0 end.

(** eval_pass: None when the result repeats the previous round *)
Definition eval_pass (st : S) (last : option compiled) : outcome (option compiled * S) :=
  r <- compile st (fee_of last) ;;
  let '(e, st') := r in
  match last with
  | None => Ok (Some e, st')
  | Some l => if compiled_eqb e l then Ok (None, st') else Ok (Some e, st')
  end.

(** resolve_tx's loop: at most [n] passes; it stops at the first pass that repeats its
    predecessor, or when the passes are used up — returning the last result either way.
    The third component tells which exit was taken (true = by equality). *)
Fixpoint resolve_loop (n : nat) (st : S) (last : option compiled)
  : outcome (option compiled * S * bool) :=
  match n with
  | O => Ok (last, st, false)
  | Datatypes.S n' =>
    r <- eval_pass st last ;;
    match r with
    | (None, st') => Ok (last, st', true)
    | (Some better, st') => resolve_loop n' st' (Some better)
    end
  end.

(** `max_optimize_rounds.max(3)`; the loop assigns, then tests `rounds > max`, so max+2 passes can run *)
Definition passes_allowed (max_rounds : nat) : nat := Nat.max max_rounds 3 + 2.

(** Compiler::reset: whatever state the instance is in, a resolution starts from the state of a
    new instance (latest_tx_body = None) *)
Variable fresh : S.
Definition reset (st : S) : S := fresh.

Definition resolve (max_rounds : nat) (st : S) : outcome (option compiled * S * bool) :=
  resolve_loop (passes_allowed max_rounds) (reset st) None.

(** number of passes actually executed *)
Fixpoint passes_run (n : nat) (st : S) (last : option compiled) : nat :=
  match n with
  | O => O
  | Datatypes.S n' =>
    match eval_pass st last with
    | Ok (Some better, st') => Datatypes.S (passes_run n' st' (Some better))
    | _ => 1%nat
    end
  end.
End Loop.
